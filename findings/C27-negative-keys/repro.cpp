// C27 finding "negative-keys-sign-extension": minimal sequential reproduction on the unchanged tree.
//   g++ -std=c++17 -I/repo/src/include -I/repo/src repro.cpp -o repro && ./repro
// Expected (set model): contains(-1) = 1, find(-1) found, getBoundaries<1>(-1) = {-1}.
// Observed: the trie iterates {10,-1} and reports size 2, but contains(-1) = 0, find(-1) = end, getBoundaries<1>(-1) is empty.
// Second block: two negative keys and one positive key: insert(-2) reports "new" twice and iteration loses -2147483647.
// Root cause: SparseArray::getIndex(brie_element_type a, unsigned level) takes a 32-bit signed value although tree coordinates are
// 64-bit (index_type = uint64_t): every caller truncates (brie_element_type(i), brie_element_type(info.offset)).  raiseLevel()
// computes the cell of the old root from the *offset*, whose low 32 bits are already masked to 0 once the tree spans >= 32 bits
// -> cell 0; getLeaf()/lookup()/find() compute the cell from the *index*, whose low 32 bits (sign bit set) are sign-extended
// -> cell 15 (BITS = 4) / 63 (BITS = 6).  Both differ from the true bits of the sign-extended 64-bit index, and from each other.
#include "souffle/datastructure/Brie.h"
#include <cstdio>
using namespace souffle;
int main() {
    int bad = 0;
    {
        Trie<1> t;
        t.insert({-1});
        t.insert({10});
        std::printf("Trie<1> after insert(-1), insert(10): size=%zu iterate:", t.size());
        for (auto& x : t) std::printf(" %d", x[0]);
        auto r = t.getBoundaries<1>({-1});
        std::printf("  contains(-1)=%d find(-1)%s getBoundaries<1>(-1) %s\n", (int)t.contains({-1}),
                t.find({-1}) == t.end() ? "=end" : " found", r.empty() ? "empty" : "non-empty");
        bad += !t.contains({-1});
    }
    {
        Trie<2> t;
        t.insert({-1, 5});
        t.insert({10, 5});
        std::printf("Trie<2> after insert(-1,5), insert(10,5): size=%zu contains(-1,5)=%d\n", t.size(), (int)t.contains({-1, 5}));
        bad += !t.contains({-1, 5});
    }
    {
        Trie<1> t;
        bool a = t.insert({-2});
        t.insert({4095});
        t.insert({-2147483647});
        bool b = t.insert({-2});
        std::printf("Trie<1> insert(-2)=%d, insert(4095), insert(-2147483647), insert(-2)=%d (must be 0); iterate:", (int)a, (int)b);
        for (auto& x : t) std::printf(" %d", x[0]);
        std::printf(" size=%zu (must list -2, 4095, -2147483647)\n", t.size());
        bad += b;
    }
    std::printf(bad ? "DEFECT REPRODUCED\n" : "ok\n");
    return bad ? 1 : 0;
}
