SPECIFICATION JSpec
INVARIANT Emit
CHECK_DEADLOCK FALSE
