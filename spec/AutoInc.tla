------------------------------ MODULE AutoInc ------------------------------
(***************************************************************************)
(* The auto-increment counter (Engine::incCounter `counter++` on a         *)
(* std::atomic<RamDomain>; generated code: `ctr++` on an atomic field).    *)
(* Workers evaluate autoinc() concurrently.  Atomic = TRUE models the      *)
(* fetch-and-add as one step (the code); Atomic = FALSE splits it into a   *)
(* load and a store - the lost-update variant, kept as the vacuity witness *)
(* (TLC must find Unique violated for it).                                 *)
(***************************************************************************)
EXTENDS Integers, FiniteSets, Sequences
CONSTANTS Workers, PerWorker, Atomic
VARIABLES ctr, pc, tmp, got, done
vars == <<ctr, pc, tmp, got, done>>
Init == /\ ctr = 0 /\ pc = [w \in Workers |-> "idle"] /\ tmp = [w \in Workers |-> 0]
        /\ got = <<>> /\ done = [w \in Workers |-> 0]
FetchAdd(w) == /\ Atomic /\ pc[w] = "idle" /\ done[w] < PerWorker
               /\ got' = Append(got, ctr) /\ ctr' = ctr + 1
               /\ done' = [done EXCEPT ![w] = @ + 1] /\ UNCHANGED <<pc, tmp>>
Load(w) == /\ ~Atomic /\ pc[w] = "idle" /\ done[w] < PerWorker
           /\ tmp' = [tmp EXCEPT ![w] = ctr] /\ pc' = [pc EXCEPT ![w] = "store"] /\ UNCHANGED <<ctr, got, done>>
Store(w) == /\ ~Atomic /\ pc[w] = "store"
            /\ ctr' = tmp[w] + 1 /\ got' = Append(got, tmp[w])
            /\ pc' = [pc EXCEPT ![w] = "idle"] /\ done' = [done EXCEPT ![w] = @ + 1] /\ UNCHANGED tmp
Next == \E w \in Workers : FetchAdd(w) \/ Load(w) \/ Store(w)
Spec == Init /\ [][Next]_vars
\* every use of the functor yields a distinct value
Unique == \A i, j \in 1..Len(got) : i # j => got[i] # got[j]
\* stronger, also implied by an atomic counter: the values are exactly 0..n-1
Dense == {got[i] : i \in 1..Len(got)} = 0..(Len(got) - 1)
=============================================================================
