SPECIFICATION Spec
INVARIANT TypeOK Laws
CHECK_DEADLOCK FALSE
CONSTANT MaxDepth = 6
CONSTRAINT Bounded
