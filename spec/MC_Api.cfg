SPECIFICATION Spec
INVARIANT TypeOK NoOob RunInflationary RunIdempotent FreshIsModel PurgeRerunSame
CHECK_DEADLOCK FALSE
