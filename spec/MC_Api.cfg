SPECIFICATION Spec
INVARIANT TypeOK Laws FreshIsModel
CHECK_DEADLOCK FALSE
CONSTANT MaxDepth = 5
CONSTRAINT Bounded
