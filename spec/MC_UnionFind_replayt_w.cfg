CONSTANTS N = 4  NT = 2  Variant = "written"
CONSTANT ConfigSpace <- Space
SPECIFICATION Spec
INVARIANT TypeOK
CHECK_DEADLOCK FALSE
