CONSTANT Threads <- T2
CONSTANT M = 3
CONSTANT Fill <- FillD
CONSTANT Prog <- ProgD2
CONSTANT UseHints <- Hints
SPECIFICATION Spec
INVARIANT NoErr QuiescentOK FinalOK ParentsOK Progress
CHECK_DEADLOCK FALSE
