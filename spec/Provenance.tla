----------------------------- MODULE Provenance -----------------------------
(***************************************************************************)
(* C19: what a valid explanation is.                                       *)
(*                                                                         *)
(* `souffle -t explain` answers `explain r(v..)` with a proof tree (JSON). *)
(* Each inner node carries the tuple it proves, the number n of the cited  *)
(* rule "(Rn)" (numbering per relation, facts included, over the program   *)
(* as souffle transformed it) and its children: sub-trees / fact leaves    *)
(* for the positive body atoms, `!r(v..)` leaves for negated atoms and     *)
(* `a op b` leaves for binary constraints.  The text of every cited rule   *)
(* is printed with the answer; the glue parses that text (syntax only)     *)
(* into the clause format of Datalog.tla.                                  *)
(*                                                                         *)
(* ValidTree(t, ..) holds iff                                              *)
(*   - a leaf is a fact: a tuple of the EDB or the head of a program fact; *)
(*   - an inner node cites an existing rule c of its relation and there is *)
(*     a valuation env of c's variables such that                          *)
(*       . the head of c under env is the node's tuple,                    *)
(*       . the MULTISET of children is the body of c instantiated by env   *)
(*         (children are matched by content, not by position),             *)
(*       . every negated atom is absent from the model I of the program,   *)
(*       . every constraint is true (Functors.tla),                        *)
(*     and the children for positive atoms are valid trees themselves.     *)
(* The tree is a finite value, so heights decrease strictly from a node to *)
(* its children by construction: a circular justification cannot be        *)
(* written down as such a tree (it shows up as a depth-limit `subproof`    *)
(* leaf, a crash or a hang of the explain session, all of which the check  *)
(* reports).  Minimal height is NOT demanded (the property does not).      *)
(*                                                                         *)
(* The model I is computed here from (program, EDB) by iterating T_P of     *)
(* Datalog.tla stratum by stratum (Datalog!ModelOf).                       *)
(*                                                                         *)
(* Tree values (built by vf/explain.py from souffle's JSON):               *)
(*   [k |-> "node", rel, args, rule, kids]   inner node                    *)
(*   [k |-> "leaf", rel, args]               fact leaf                     *)
(*   [k |-> "neg",  rel, args]               `!rel(args)` leaf             *)
(*   [k |-> "cmp",  op, l, r]                `l op r` leaf (op as printed) *)
(*   [k |-> "other", text]                   anything else (never valid)   *)
(* Cited rules: <<[rel, n, c]>> with c a Datalog.tla clause whose "cmp"    *)
(* literals carry two more fields: sym (the operator as printed) and ty    *)
(* ("i" / "s": type of the operands).                                      *)
(***************************************************************************)
EXTENDS Datalog

\* The model: Datalog!ModelOf(Pg, e).I (T_P iterated stratum by stratum).

\* ---- facts ---------------------------------------------------------------
IsFact(Pg, e, rel, args) ==
    \/ rel \in DOMAIN e /\ args \in e[rel]
    \/ \E i \in 1..Len(Pg.clauses) :
          /\ Pg.clauses[i].head.rel = rel
          /\ Len(Pg.clauses[i].body) = 0
          /\ HeadTuples(Pg.clauses[i], {EmptyEnv}).t = {args}

\* ---- one node ------------------------------------------------------------
IsAtomKid(x) == x.k \in {"node", "leaf"}
KidKey(r) == "+kid:" \o r

\* does child x display literal l instantiated by env?  `lenient` admits the display of a constraint over
\* symbols by anything carrying the right operator (souffle prints symbol-table ordinals there)
Shows(x, l, env, lenient) ==
    CASE l.k = "atom" -> /\ IsAtomKid(x) /\ x.rel = l.rel /\ Len(x.args) = Len(l.args)
                         /\ \A i \in 1..Len(l.args) :
                               l.args[i].k = "any" \/ Eval(l.args[i], env) = <<x.args[i]>>
      [] l.k = "neg"  -> /\ x.k = "neg" /\ x.rel = l.rel /\ Len(x.args) = Len(l.args)
                         /\ \A i \in 1..Len(l.args) :     \* what is shown for `_` is not constrained
                               l.args[i].k = "any" \/ Eval(l.args[i], env) = <<x.args[i]>>
      [] l.k = "cmp"  -> /\ x.k = "cmp" /\ x.op = l.sym
                         /\ IF l.ty = "s" THEN lenient
                            ELSE Eval(l.l, env) = <<x.l>> /\ Eval(l.r, env) = <<x.r>>
      [] OTHER -> FALSE

\* the children are, as a multiset, the instantiated body
RECURSIVE Cover(_, _, _, _)
Cover(kids, lits, env, lenient) ==
    IF Len(kids) = 0 THEN Len(lits) = 0
    ELSE \E j \in 1..Len(lits) : /\ Shows(kids[1], lits[j], env, lenient)
                                 /\ Cover(Tail(kids), RemoveAt(lits, j), env, lenient)

\* candidate valuations: the body of c solved with the positive atoms ranging over the children's tuples,
\* negations looked up in the model I, constraints evaluated
NodeEnvs(c, kids, M) ==
    LET atoms   == {j \in 1..Len(c.body) : c.body[j].k = "atom"}
        posrels == {c.body[j].rel : j \in atoms}
        tuplesOf(r) == {kids[j].args : j \in {m \in 1..Len(kids) : IsAtomKid(kids[m]) /\ kids[m].rel = r}}
        K    == [x \in {KidKey(r) : r \in posrels} |-> tuplesOf(CHOOSE r \in posrels : KidKey(r) = x)] @@ M
        body == [j \in 1..Len(c.body) |->
                    IF j \in atoms THEN [c.body[j] EXCEPT !.rel = KidKey(c.body[j].rel)] ELSE c.body[j]]
    IN Solve(body, {}, {EmptyEnv}, K).e

RuleIdx(rules, rel, n) == {i \in 1..Len(rules) : rules[i].rel = rel /\ rules[i].n = n}

RECURSIVE ValidTree(_, _, _, _, _, _)
ValidTree(t, Pg, e, M, rules, lenient) ==
    IF t.k = "leaf" THEN IsFact(Pg, e, t.rel, t.args)
    ELSE IF t.k = "node" THEN
        /\ RuleIdx(rules, t.rel, t.rule) # {}
        /\ LET c == rules[CHOOSE i \in RuleIdx(rules, t.rel, t.rule) : TRUE].c IN
           /\ c.head.rel = t.rel
           /\ Len(c.head.args) = Len(t.args)
           /\ \E env \in NodeEnvs(c, t.kids, M) :
                 /\ HeadTuples(c, {env}).t = {t.args}
                 /\ Cover(t.kids, c.body, env, lenient)
        /\ \A j \in 1..Len(t.kids) : IsAtomKid(t.kids[j]) => ValidTree(t.kids[j], Pg, e, M, rules, lenient)
    ELSE FALSE

RECURSIVE TreeSize(_), SumSizes(_, _)
SumSizes(ks, j) == IF j > Len(ks) THEN 0 ELSE TreeSize(ks[j]) + SumSizes(ks, j + 1)
TreeSize(t) == IF t.k = "node" THEN 1 + SumSizes(t.kids, 1) ELSE 1

\* ---- one question put to `explain` ---------------------------------------
\* q = [rel, args, ans];  ans = [k |-> "tree", tree] | [k |-> "notfound"] | [k |-> "relnotfound"] | [k |-> "other"]
QueryVerdict(q, Pg, e, M, rules) ==
    IF q.args \in M[q.rel]
    THEN IF q.ans.k # "tree" THEN "UNEXPLAINED"
         ELSE IF ~(IsAtomKid(q.ans.tree) /\ q.ans.tree.rel = q.rel /\ q.ans.tree.args = q.args) THEN "INVALID"
         ELSE IF ValidTree(q.ans.tree, Pg, e, M, rules, FALSE) THEN "VALID"
         ELSE IF ValidTree(q.ans.tree, Pg, e, M, rules, TRUE) THEN "SYMORD"
         ELSE "INVALID"
    ELSE IF q.ans.k \in {"notfound", "relnotfound"} THEN "ABSENT-OK" ELSE "ABSENT-EXPLAINED"

\* ---- the cited rules belong to the program -------------------------------
\* every cited rule over the program's own relations is satisfied by the program's model on this EDB
ClauseRels(c) == {c.head.rel} \cup {c.body[j].rel : j \in {m \in 1..Len(c.body) : c.body[m].k \in {"atom", "neg"}}}
CitedSound(rules, M) ==
    \A i \in 1..Len(rules) :
        ClauseRels(rules[i].c) \subseteq DOMAIN M => ClauseTP(rules[i].c, M).t \subseteq M[rules[i].c.head.rel]
=============================================================================
