------------------------------ MODULE BTreeConc ------------------------------
(***************************************************************************)
(* Implementation-shaped specification of the concurrent insertion         *)
(* protocol of souffle's B-tree (BTree.h / BTreeDelete.h, btree::insert,   *)
(* IS_PARALLEL branch) for sets: optimistic lock coupling during descent,  *)
(* upgrade of the leaf lease, bottom-up locking of the parent chain with   *)
(* the re-check loop, rebalance_or_split with try_start_write on the left  *)
(* sibling, split / grow_parent / insert_inner, the release order, and     *)
(* the operation hints (last_insert).                                      *)
(*                                                                         *)
(* One action per call site of a primitive of OptimisticReadWriteLock: it  *)
(* performs the primitive's atomic access and everything the thread does   *)
(* up to its next lock primitive.  That is exactly one step of the real    *)
(* code under the cooperative scheduler (the yield point precedes the      *)
(* atomic access), so walks of this spec are schedules for the real tree.  *)
(*                                                                         *)
(*   heap    sequence of nodes [inner, keys, kids, parent, pos, ver]       *)
(*           (id = index, 0 = null; ver = the node's lock version)         *)
(*   root, rootVer   root pointer and version of root_lock                 *)
(*   th[t]   thread state: pc (= the lock call site it is stopped at),     *)
(*           ip, k, cur, lease, ... (the locals of insert and of the       *)
(*           recursion rebalance_or_split/split/insert_inner, which is     *)
(*           kept as an explicit stack of pending insert_inner frames)     *)
(*   aset    history variable: the abstract set, updated at the step that  *)
(*           makes the key visible (linearisation point)                   *)
(*   err     set when a step contradicts the sorted-set model              *)
(***************************************************************************)
EXTENDS Integers, Sequences, FiniteSets
CONSTANTS Threads,     \* 1..n
          M,           \* node::maxKeys
          Fill,        \* keys inserted sequentially before the threads start
          Prog,        \* Prog[t] = sequence of keys thread t inserts
          UseHints     \* UseHints[t] = thread t passes an operation_hints object
VARIABLES heap, root, rootVer, th, aset, err
vars == <<heap, root, rootVer, th, aset, err>>

BS == INSTANCE BTreeSeq WITH Keys <- {}, tree <- 0, last <- 0
MinOf(a, b) == IF a < b THEN a ELSE b
SP == MinOf((3 * M) \div 4, M - 2)
N(nd) == Len(nd.keys)
Key(nd, i) == nd.keys[i + 1]
Kid(nd, i) == nd.kids[i + 1]
LowerIdx(keys, k) == Cardinality({i \in 1..Len(keys) : keys[i] < k})
UpperIdx(keys, k) == Cardinality({i \in 1..Len(keys) : keys[i] <= k})
InsAt(s, i, x) == SubSeq(s, 1, i) \o <<x>> \o SubSeq(s, i + 1, Len(s))
Odd(v) == v % 2 = 1
SetOf(s) == {s[i] : i \in 1..Len(s)}

\* the children of node id get parent = id and position = their index
Reparent(h, id) ==
    LET kids == h[id].kids
        f == [j \in 1..Len(h) |->
                IF \E i \in 1..Len(kids) : kids[i] = j
                THEN [h[j] EXCEPT !.parent = id, !.pos = (CHOOSE i \in 1..Len(kids) : kids[i] = j) - 1]
                ELSE h[j]]
    IN SubSeq(f, 1, Len(h))
NewNode(inner, keys, kids, ver) == [inner |-> inner, keys |-> keys, kids |-> kids, parent |-> 0, pos |-> 0, ver |-> ver]

(* ------------------------------ initial tree ---------------------------- *)
RECURSIVE FillTree(_, _)
FillTree(t, ks) == IF ks = <<>> THEN t ELSE FillTree(BS!InsertOp(t, Head(ks)).t, Tail(ks))
InitHeap == LET st == BS!ToHeap(FillTree(BS!Empty, Fill))
            IN [h |-> [i \in 1..Len(st.h) |-> [inner |-> st.h[i].inner, keys |-> st.h[i].keys, kids |-> st.h[i].kids,
                                               parent |-> st.h[i].parent, pos |-> st.h[i].pos, ver |-> 0]],
                root |-> st.root]
Thread0 == [pc |-> "op", ip |-> 1, k |-> 0, cur |-> 0, lease |-> 0, rlease |-> 0, next |-> 0, nlease |-> 0, idx |-> 0,
            priv |-> 0, par |-> 0, parents |-> <<>>, n |-> 0, lidx |-> 0, left |-> 0, sib |-> 0, stk |-> <<>>, moved |-> 0,
            oldRoot |-> 0, rel |-> <<>>, hint |-> 0, hlease |-> 0, res |-> <<>>]
Init == /\ heap = SubSeq(InitHeap.h, 1, Len(InitHeap.h)) /\ root = InitHeap.root /\ rootVer = 0
        /\ th = [t \in Threads |-> Thread0]
        /\ aset = SetOf(Fill) /\ err = "none"

(* ----------------------- pieces of straight-line code ------------------- *)
\* Every piece maps a thread record s (and the heap h it sees) to the record at the thread's next lock call site.
\* top of insert(k, hints): root creation loop, hint check, or descent from the root.  insert(k) without hints runs on a
\* local operation_hints object, so a restart after a failed upgrade goes through the hint check there as well.
StartInsert(s, rt, t) == [s EXCEPT !.pc = IF rt = 0 THEN "r_tsw" ELSE IF s.hint # 0 THEN "h_sr" ELSE "rl_sr"]
Return(s, b) == [s EXCEPT !.pc = "op", !.ip = @ + 1, !.res = Append(@, b)]
\* the search inside node s.cur, up to the next lock operation
Desc(s, h) ==
    LET nd == h[s.cur]
    IN IF nd.inner
       THEN LET idx == LowerIdx(nd.keys, s.k)
            IN IF idx < N(nd) /\ Key(nd, idx) = s.k THEN [s EXCEPT !.pc = "found_val"]
               ELSE [s EXCEPT !.pc = "n_sr", !.next = Kid(nd, idx)]
       ELSE LET idx == UpperIdx(nd.keys, s.k)
            IN IF idx > 0 /\ Key(nd, idx - 1) = s.k THEN [s EXCEPT !.pc = "found_val"]
               ELSE [s EXCEPT !.pc = "up", !.idx = idx]
LeafPut(h, id, idx, k) == [h EXCEPT ![id].keys = InsAt(@, idx, k)]
\* node::rebalance_or_split entered for node s.n with insertion index s.lidx: stops at try_start_write(left) or,
\* when there is no left sibling, at start_write of the freshly allocated sibling
RoSEnter(s, h) ==
    LET nd == h[s.n]
    IN IF nd.parent # 0 /\ nd.pos > 0
       THEN [s |-> [s EXCEPT !.pc = "l_tsw", !.left = Kid(h[nd.parent], nd.pos - 1)], h |-> h]
       ELSE [s |-> [s EXCEPT !.pc = "s_sw", !.sib = Len(h) + 1], h |-> Append(h, NewNode(nd.inner, <<>>, <<>>, 0))]
\* insert_inner without overflow
Place(h, pid, pos, key, newNode) ==
    Reparent([h EXCEPT ![pid].keys = InsAt(@, pos, key), ![pid].kids = InsAt(@, pos + 1, newNode)], pid)
\* the pending insert_inner frames are completed top-down; `moved` is the result of the top-most rebalance_or_split
RECURSIVE Unwind(_, _, _)
Unwind(h, stk, moved) ==
    IF stk = <<>> THEN h
    ELSE LET f == stk[Len(stk)]
             p == h[f.p]
             pos2 == f.pos - moved
             h1 == IF pos2 > N(p)
                   THEN LET oid == Kid(h[p.parent], p.pos + 1)                \* the new sibling of p
                            o == h[oid]
                            i == IF \E j \in 1..Len(o.kids) : o.kids[j] = f.pred
                                 THEN (CHOOSE j \in 1..Len(o.kids) : o.kids[j] = f.pred) - 1 ELSE 0
                        IN Place(h, oid, i, f.sep, f.sib)
                   ELSE Place(h, f.p, pos2, f.sep, f.sib)
         IN Unwind(h1, SubSeq(stk, 1, Len(stk) - 1), 0)
\* rebalance_or_split has returned to insert: release list = locked nodes in reverse order
AfterRoS(s, h, moved) ==
    [s |-> [s EXCEPT !.pc = "rel", !.idx = @ - (IF s.stk = <<>> THEN moved ELSE 0), !.stk = <<>>,
                     !.rel = [i \in 1..Len(s.parents) |-> s.parents[Len(s.parents) + 1 - i]]],
     h |-> Unwind(h, s.stk, moved)]

(* -------------------------------- actions -------------------------------- *)
Upd(t, s) == th' = [th EXCEPT ![t] = s]
Pc(t, p) == th[t].pc = p
\* an insert that makes its key visible / finds it: compare with the abstract set
Visible(k) == /\ aset' = aset \cup {k} /\ err' = IF k \in aset THEN "key inserted twice" ELSE err
FoundOK(k) == /\ aset' = aset /\ err' = IF k \notin aset THEN "reported present but never inserted" ELSE err
Same == UNCHANGED <<aset, err>>

Begin(t) == /\ Pc(t, "op") /\ th[t].ip <= Len(Prog[t])
            /\ Upd(t, StartInsert([th[t] EXCEPT !.k = Prog[t][th[t].ip], !.hint = IF UseHints[t] THEN @ ELSE 0], root, t))
            /\ UNCHANGED <<heap, root, rootVer>> /\ Same
Finish(t) == /\ Pc(t, "op") /\ th[t].ip > Len(Prog[t])
             /\ Upd(t, [th[t] EXCEPT !.pc = "done"]) /\ UNCHANGED <<heap, root, rootVer>> /\ Same

\* while (root == nullptr) { if (!root_lock.try_start_write()) continue; ...
RTsw(t) == /\ Pc(t, "r_tsw")
           /\ IF Odd(rootVer)
              THEN /\ Upd(t, StartInsert(th[t], root, t)) /\ UNCHANGED <<heap, root, rootVer>> /\ Same
              ELSE /\ rootVer' = rootVer + 1
                   /\ IF root # 0
                      THEN Upd(t, [th[t] EXCEPT !.pc = "r_end_break"]) /\ UNCHANGED <<heap, root>> /\ Same
                      ELSE /\ heap' = Append(heap, NewNode(FALSE, <<th[t].k>>, <<>>, 0))
                           /\ root' = Len(heap) + 1
                           /\ Upd(t, [th[t] EXCEPT !.pc = "r_end_ret", !.hint = Len(heap) + 1])
                           /\ Visible(th[t].k)
REndBreak(t) == /\ Pc(t, "r_end_break") /\ rootVer' = rootVer + 1
                /\ Upd(t, StartInsert(th[t], root, t)) /\ UNCHANGED <<heap, root>> /\ Same
REndRet(t) == /\ Pc(t, "r_end_ret") /\ rootVer' = rootVer + 1
              /\ Upd(t, Return(th[t], TRUE)) /\ UNCHANGED <<heap, root>> /\ Same

\* hint check: start_read(hint); weak_covers; validate
Covers(nd, k) == N(nd) > 0 /\ Key(nd, 0) <= k /\ k <= Key(nd, N(nd) - 1)
HSr(t) == /\ Pc(t, "h_sr") /\ UNCHANGED <<heap, root, rootVer>> /\ Same
          /\ LET v == heap[th[t].hint].ver
             IN IF Odd(v) THEN UNCHANGED th
                ELSE IF Covers(heap[th[t].hint], th[t].k) THEN Upd(t, [th[t] EXCEPT !.pc = "h_val", !.hlease = v])
                ELSE Upd(t, [th[t] EXCEPT !.pc = "rl_sr"])
HVal(t) == /\ Pc(t, "h_val") /\ UNCHANGED <<heap, root, rootVer>> /\ Same
           /\ IF th[t].hlease = heap[th[t].hint].ver
              THEN Upd(t, Desc([th[t] EXCEPT !.cur = th[t].hint, !.lease = th[t].hlease], heap))
              ELSE Upd(t, [th[t] EXCEPT !.pc = "rl_sr"])

\* do { root_lease = root_lock.start_read(); cur = root; cur_lease = cur->lock.start_read(); } while (!root_lock.end_read(..))
RlSr(t) == /\ Pc(t, "rl_sr") /\ UNCHANGED <<heap, root, rootVer>> /\ Same
           /\ IF Odd(rootVer) THEN UNCHANGED th
              ELSE Upd(t, [th[t] EXCEPT !.pc = "c_sr", !.rlease = rootVer, !.cur = root])
CSr(t) == /\ Pc(t, "c_sr") /\ UNCHANGED <<heap, root, rootVer>> /\ Same
          /\ LET v == heap[th[t].cur].ver
             IN IF Odd(v) THEN UNCHANGED th ELSE Upd(t, [th[t] EXCEPT !.pc = "rl_val", !.lease = v])
RlVal(t) == /\ Pc(t, "rl_val") /\ UNCHANGED <<heap, root, rootVer>> /\ Same
            /\ IF th[t].rlease = rootVer THEN Upd(t, Desc(th[t], heap)) ELSE Upd(t, [th[t] EXCEPT !.pc = "rl_sr"])
\* inner node: next_lease = next->lock.start_read(); if (!cur->lock.end_read(cur_lease)) restart
NSr(t) == /\ Pc(t, "n_sr") /\ UNCHANGED <<heap, root, rootVer>> /\ Same
          /\ LET v == heap[th[t].next].ver
             IN IF Odd(v) THEN UNCHANGED th ELSE Upd(t, [th[t] EXCEPT !.pc = "c_val", !.nlease = v])
CVal(t) == /\ Pc(t, "c_val") /\ UNCHANGED <<heap, root, rootVer>> /\ Same
           /\ IF th[t].lease = heap[th[t].cur].ver
              THEN Upd(t, Desc([th[t] EXCEPT !.cur = th[t].next, !.lease = th[t].nlease], heap))
              ELSE Upd(t, StartInsert(th[t], root, t))
\* key found: validate, then return false
FoundVal(t) == /\ Pc(t, "found_val") /\ UNCHANGED <<heap, root, rootVer>>
               /\ IF th[t].lease = heap[th[t].cur].ver
                  THEN Upd(t, Return(th[t], FALSE)) /\ FoundOK(th[t].k)
                  ELSE Upd(t, StartInsert(th[t], root, t)) /\ Same

\* leaf: try_upgrade_to_write(cur_lease)
Up(t) == /\ Pc(t, "up") /\ UNCHANGED <<root, rootVer>>
         /\ LET s == th[t]
                v == heap[s.cur].ver
            IN IF Odd(v)
               THEN /\ Upd(t, StartInsert([s EXCEPT !.hint = s.cur], root, t)) /\ UNCHANGED heap /\ Same
               ELSE IF v # s.lease
               THEN /\ heap' = [heap EXCEPT ![s.cur].ver = v + 1] /\ Upd(t, [s EXCEPT !.pc = "up_abort"]) /\ Same
               ELSE IF N(heap[s.cur]) >= M
               THEN \* lock parents
                    /\ heap' = [heap EXCEPT ![s.cur].ver = v + 1] /\ Same
                    /\ Upd(t, [s EXCEPT !.priv = s.cur, !.par = heap[s.cur].parent, !.parents = <<>>,
                                        !.pc = IF heap[s.cur].parent # 0 THEN "p_sw" ELSE "rp_sw"])
               ELSE /\ heap' = LeafPut([heap EXCEPT ![s.cur].ver = v + 1], s.cur, s.idx, s.k)
                    /\ Upd(t, [s EXCEPT !.pc = "c_end"]) /\ Visible(s.k)
UpAbort(t) == /\ Pc(t, "up_abort") /\ UNCHANGED <<root, rootVer>> /\ Same
              /\ heap' = [heap EXCEPT ![th[t].cur].ver = @ - 1]
              /\ Upd(t, StartInsert([th[t] EXCEPT !.hint = th[t].cur], root, t))

\* parent->lock.start_write(); while (parent != priv->parent) { abort_write; parent = priv->parent; start_write }
StartRoS(s, h) == RoSEnter([s EXCEPT !.oldRoot = root, !.n = s.cur, !.lidx = s.idx, !.stk = <<>>], h)
PSw(t) == /\ Pc(t, "p_sw") /\ UNCHANGED <<root, rootVer>> /\ Same
          /\ LET s == th[t]
                 v == heap[s.par].ver
             IN IF Odd(v) THEN UNCHANGED <<th, heap>>
                ELSE LET h1 == [heap EXCEPT ![s.par].ver = v + 1]
                     IN IF s.par # heap[s.priv].parent
                        THEN heap' = h1 /\ Upd(t, [s EXCEPT !.pc = "p_abort"])
                        ELSE LET s1 == [s EXCEPT !.parents = Append(@, s.par)]
                             IN IF N(heap[s.par]) < M
                                THEN LET r == StartRoS(s1, h1) IN heap' = r.h /\ Upd(t, r.s)
                                ELSE /\ heap' = h1
                                     /\ Upd(t, [s1 EXCEPT !.priv = s.par, !.par = heap[s.par].parent,
                                                          !.pc = IF heap[s.par].parent # 0 THEN "p_sw" ELSE "rp_sw"])
PAbort(t) == /\ Pc(t, "p_abort") /\ UNCHANGED <<root, rootVer>> /\ Same
             /\ heap' = [heap EXCEPT ![th[t].par].ver = @ - 1]
             /\ Upd(t, [th[t] EXCEPT !.par = heap[th[t].priv].parent, !.pc = "p_sw"])
RpSw(t) == /\ Pc(t, "rp_sw") /\ UNCHANGED root /\ Same
           /\ IF Odd(rootVer) THEN UNCHANGED <<th, heap, rootVer>>
              ELSE /\ rootVer' = rootVer + 1
                   /\ LET r == StartRoS([th[t] EXCEPT !.parents = Append(@, 0)], heap) IN heap' = r.h /\ Upd(t, r.s)

\* rebalance_or_split, option A: left->lock.try_start_write(), move keys to the left sibling
LTsw(t) == /\ Pc(t, "l_tsw") /\ UNCHANGED <<root, rootVer>> /\ Same
           /\ LET s == th[t]
                  lid == s.left
                  v == heap[lid].ver
                  nd == heap[s.n]
              IN IF Odd(v)
                 THEN \* left node is currently updated => skip balancing and split
                      /\ heap' = Append(heap, NewNode(nd.inner, <<>>, <<>>, 0))
                      /\ Upd(t, [s EXCEPT !.pc = "s_sw", !.sib = Len(heap) + 1])
                 ELSE LET left == heap[lid]
                          p == heap[nd.parent]
                          num == MinOf(M - N(left), s.lidx)
                      IN IF num > 0
                         THEN LET h1 == [heap EXCEPT
                                           ![lid].ver = v + 1,
                                           ![lid].keys = left.keys \o <<Key(p, nd.pos - 1)>> \o SubSeq(nd.keys, 1, num - 1),
                                           ![lid].kids = IF nd.inner THEN left.kids \o SubSeq(nd.kids, 1, num) ELSE <<>>,
                                           ![nd.parent].keys = [p.keys EXCEPT ![nd.pos] = Key(nd, num - 1)],
                                           ![s.n].keys = SubSeq(nd.keys, num + 1, N(nd)),
                                           ![s.n].kids = IF nd.inner THEN SubSeq(nd.kids, num + 1, N(nd) + 1) ELSE <<>>]
                              IN /\ heap' = Reparent(Reparent(h1, lid), s.n)
                                 /\ Upd(t, [s EXCEPT !.pc = "l_end", !.moved = num])
                         ELSE /\ heap' = [heap EXCEPT ![lid].ver = v + 1]
                              /\ Upd(t, [s EXCEPT !.pc = "l_abort"])
LEnd(t) == /\ Pc(t, "l_end") /\ UNCHANGED <<root, rootVer>> /\ Same
           /\ LET r == AfterRoS(th[t], [heap EXCEPT ![th[t].left].ver = @ + 1], th[t].moved)
              IN heap' = r.h /\ Upd(t, r.s)
LAbort(t) == /\ Pc(t, "l_abort") /\ UNCHANGED <<root, rootVer>> /\ Same
             /\ heap' = Append([heap EXCEPT ![th[t].left].ver = @ - 1], NewNode(heap[th[t].n].inner, <<>>, <<>>, 0))
             /\ Upd(t, [th[t] EXCEPT !.pc = "s_sw", !.sib = Len(heap) + 1])

\* split: sibling->lock.start_write(); move the upper part over; grow_parent / insert_inner
SSw(t) == /\ Pc(t, "s_sw") /\ UNCHANGED rootVer /\ Same
          /\ LET s == th[t]
                 nd == heap[s.n]
                 sid == s.sib
                 sep == Key(nd, SP)
                 h1 == [heap EXCEPT ![sid].ver = 1,
                                    ![sid].keys = SubSeq(nd.keys, SP + 2, M),
                                    ![sid].kids = IF nd.inner THEN SubSeq(nd.kids, SP + 2, M + 1) ELSE <<>>,
                                    ![s.n].keys = SubSeq(nd.keys, 1, SP),
                                    ![s.n].kids = IF nd.inner THEN SubSeq(nd.kids, 1, SP + 1) ELSE <<>>]
                 h2 == Reparent(h1, sid)
                 s1 == [s EXCEPT !.parents = Append(@, sid)]
             IN IF nd.parent = 0
                THEN \* create a new root node
                     LET rid == Len(h2) + 1
                         h3 == Reparent(Append(h2, NewNode(TRUE, <<sep>>, <<s.n, sid>>, 0)), rid)
                         r == AfterRoS(s1, h3, 0)
                     IN root' = rid /\ heap' = r.h /\ Upd(t, r.s)
                ELSE /\ root' = root
                     /\ IF N(heap[nd.parent]) >= M
                        THEN \* insert_inner must first make room in the parent: recursion
                             LET r == RoSEnter([s1 EXCEPT !.stk = Append(@, [p |-> nd.parent, pos |-> nd.pos, pred |-> s.n,
                                                                            sep |-> sep, sib |-> sid]),
                                                          !.n = nd.parent, !.lidx = nd.pos], h2)
                             IN heap' = r.h /\ Upd(t, r.s)
                        ELSE LET r == AfterRoS(s1, Place(h2, nd.parent, nd.pos, sep, sid), 0)
                             IN heap' = r.h /\ Upd(t, r.s)

\* release the locked nodes in reverse order; afterwards insert into the leaf or restart in the right fragment
Rel(t) == /\ Pc(t, "rel") /\ UNCHANGED root
          /\ LET s == th[t]
                 x == Head(s.rel)
                 h1 == IF x # 0 THEN [heap EXCEPT ![x].ver = @ + 1] ELSE heap
                 s1 == [s EXCEPT !.rel = Tail(@)]
             IN /\ rootVer' = IF x # 0 THEN rootVer ELSE IF s.oldRoot # root THEN rootVer + 1 ELSE rootVer - 1
                /\ IF s1.rel # <<>> THEN heap' = h1 /\ Upd(t, s1) /\ Same
                   ELSE IF s.idx > N(heap[s.cur])
                   THEN heap' = h1 /\ Upd(t, [s1 EXCEPT !.pc = "c_end_restart"]) /\ Same
                   ELSE heap' = LeafPut(h1, s.cur, s.idx, s.k) /\ Upd(t, [s1 EXCEPT !.pc = "c_end"]) /\ Visible(s.k)
CEnd(t) == /\ Pc(t, "c_end") /\ UNCHANGED <<root, rootVer>> /\ Same
           /\ heap' = [heap EXCEPT ![th[t].cur].ver = @ + 1]
           /\ Upd(t, Return([th[t] EXCEPT !.hint = th[t].cur], TRUE))
CEndRestart(t) == /\ Pc(t, "c_end_restart") /\ UNCHANGED <<root, rootVer>> /\ Same
                  /\ heap' = [heap EXCEPT ![th[t].cur].ver = @ + 1]
                  /\ Upd(t, StartInsert(th[t], root, t))

Step(t) == \/ Begin(t) \/ Finish(t) \/ RTsw(t) \/ REndBreak(t) \/ REndRet(t) \/ HSr(t) \/ HVal(t) \/ RlSr(t) \/ CSr(t)
           \/ RlVal(t) \/ NSr(t) \/ CVal(t) \/ FoundVal(t) \/ Up(t) \/ UpAbort(t) \/ PSw(t) \/ PAbort(t) \/ RpSw(t)
           \/ LTsw(t) \/ LEnd(t) \/ LAbort(t) \/ SSw(t) \/ Rel(t) \/ CEnd(t) \/ CEndRestart(t)
Next == \E t \in Threads : Step(t)
Spec == Init /\ [][Next]_vars
FairSpec == Spec /\ \A t \in Threads : WF_vars(Step(t) /\ th' # th)

(* ------------------------------ properties ------------------------------ *)
AllDone == \A t \in Threads : th[t].pc = "done"
NoLockHeld == ~Odd(rootVer) /\ \A i \in 1..Len(heap) : ~Odd(heap[i].ver)
Tree == BS!FromHeap([h |-> heap, root |-> root])
Inserted == SetOf(Fill) \cup UNION {SetOf(Prog[t]) : t \in Threads}
Trues(k) == Cardinality({<<t, i>> \in Threads \X (1..3) : i <= Len(th[t].res) /\ Prog[t][i] = k /\ th[t].res[i]})
\* sortedness, separators, fill bounds (BTreeSeq!WellFormed without the minimum fill, which the plain B-tree does not promise)
RECURSIVE Sorted(_, _, _)
Sorted(t, lo, hi) ==
    /\ Len(t.k) <= M
    /\ \A i \in 1..(Len(t.k) - 1) : t.k[i] < t.k[i + 1]
    /\ \A i \in 1..Len(t.k) : lo < t.k[i] /\ t.k[i] < hi
    /\ t.c # <<>> => /\ Len(t.c) = Len(t.k) + 1
                     /\ \A i \in 1..Len(t.c) : Sorted(t.c[i], IF i = 1 THEN lo ELSE t.k[i - 1], IF i = Len(t.c) THEN hi ELSE t.k[i])
ParentsOK == \A i \in 1..Len(heap) : \A j \in 1..Len(heap[i].kids) :
                heap[heap[i].kids[j]].parent = i /\ heap[heap[i].kids[j]].pos = j - 1
NoErr == err = "none"
\* whenever no lock is held the tree is a well-formed search tree holding exactly the abstract set
QuiescentOK == NoLockHeld => /\ (root = 0 \/ Sorted(Tree, -1000000, 1000000))
                             /\ (root # 0 => BS!KeysOf(Tree) = aset /\ Cardinality(BS!Depths(Tree)) = 1)
\* C25 at the end: nothing lost, nothing invented, every distinct key reported new exactly once
FinalOK == AllDone => /\ NoLockHeld
                      /\ aset = Inserted
                      /\ \A k \in Inserted \ SetOf(Fill) : Trues(k) = 1
                      /\ \A k \in SetOf(Fill) : Trues(k) = 0
                      /\ \A t \in Threads : Len(th[t].res) = Len(Prog[t])
\* deadlock freedom: some thread can always make progress unless all are done
Progress == AllDone \/ \E t \in Threads : ENABLED (Step(t) /\ th' # th)
Termination == <>AllDone
=============================================================================
