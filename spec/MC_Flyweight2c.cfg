CONSTANT Threads = {1, 2}
CONSTANT NLanes = 2
CONSTANT Values = {1, 2}
CONSTANT InitCap = 2
CONSTANT Reserve = TRUE
CONSTANT InitBuckets = 1
CONSTANT InitMaxSize = 1
CONSTANT HashMul = 13
CONSTANT MaxNode = 5
CONSTANT Scenarios <- Sc2
SPECIFICATION Spec
INVARIANT TypeOK GhostOK SameValueSameIndex DiffValueDiffIndex DecodeOK NoNil OneInserter MapOK SlotsAgree ReservedOK SlotLocalOK IterOK LocksFree
PROPERTY Refines ReturnsLinResult
