------------------------------- MODULE Choice -------------------------------
(***************************************************************************)
(* Choice-domain relations (C10).  The contract is a set of admissible     *)
(* outcomes, so it is a predicate on the FINAL database F produced by a    *)
(* real run (every relation of the program is written out):                *)
(*   Functional(R) no two tuples of R agree on a declared key;             *)
(*   Sound(R)      every tuple of R is the head of an instance of one of   *)
(*                 R's clauses over F (or an input fact);                  *)
(*   Maximal(R)    every head instance over F that is absent from R        *)
(*                 clashes on some key with a tuple that is present;       *)
(* and the relations without choice-domain are what their clauses say      *)
(* given F: strata that contain no choice relation are recomputed from F   *)
(* (naive fixpoint) and must be reproduced exactly; relations sharing a    *)
(* stratum with a choice relation must be closed and supported.            *)
(* A program P carries, per relation, `choice`: a sequence of keys, each a *)
(* sequence of column numbers (1-based); <<>> = no choice-domain.          *)
(***************************************************************************)
EXTENDS Datalog

KeysOf(Pg, r) == RelInfo(Pg, r).choice
IsChoice(Pg, r) == Len(KeysOf(Pg, r)) > 0
Proj(t, key) == [i \in 1..Len(key) |-> t[key[i]]]
Clash(t, u, key) == Proj(t, key) = Proj(u, key)

Functional(Pg, F, r) ==
    \A kx \in 1..Len(KeysOf(Pg, r)) : \A t, u \in F[r] : Clash(t, u, KeysOf(Pg, r)[kx]) => t = u

Derivable(Pg, F, r) ==
    UNION {ClauseTP(Pg.clauses[i], F).t : i \in {j \in 1..Len(Pg.clauses) : Pg.clauses[j].head.rel = r}}

Sound(Pg, F, ed, r) == F[r] \subseteq (Derivable(Pg, F, r) \cup (IF r \in DOMAIN ed THEN ed[r] ELSE {}))

Maximal(Pg, F, ed, r) ==
    \A t \in (Derivable(Pg, F, r) \cup (IF r \in DOMAIN ed THEN ed[r] ELSE {})) \ F[r] :
        \E kx \in 1..Len(KeysOf(Pg, r)) : \E u \in F[r] : Clash(t, u, KeysOf(Pg, r)[kx])

\* naive fixpoint of one stratum S starting from J (relations of S emptied, lower strata as in F)
RECURSIVE LfpS(_, _, _)
LfpS(Pg, S, J) == LET r == TP(Pg, S, J) IN IF r.I = J THEN J ELSE LfpS(Pg, S, r.I)

StratumOK(Pg, F, ed, sx) ==
    LET S == SeqToSet(Pg.strata[sx]) IN
    IF \E r \in S : IsChoice(Pg, r)
    THEN \A r \in S :
            IF IsChoice(Pg, r) THEN Functional(Pg, F, r) /\ Sound(Pg, F, ed, r) /\ Maximal(Pg, F, ed, r)
            ELSE /\ Derivable(Pg, F, r) \subseteq F[r]
                 /\ F[r] \subseteq (Derivable(Pg, F, r) \cup (IF r \in DOMAIN ed THEN ed[r] ELSE {}))
    ELSE LET J0 == [r \in DOMAIN F |-> IF r \in S THEN (IF r \in DOMAIN ed THEN ed[r] ELSE {}) ELSE F[r]]
             J  == LfpS(Pg, S, J0)
         IN \A r \in S : J[r] = F[r]

ChoiceOK(Pg, F, ed) == \A sx \in 1..Len(Pg.strata) : StratumOK(Pg, F, ed, sx)
\* which clause of the contract fails (for the report)
ChoiceDiag(Pg, F, ed) ==
    {<<r, "functional">> : r \in {x \in RelNames(Pg) : IsChoice(Pg, x) /\ ~Functional(Pg, F, x)}}
    \cup {<<r, "sound">> : r \in {x \in RelNames(Pg) : IsChoice(Pg, x) /\ ~Sound(Pg, F, ed, x)}}
    \cup {<<r, "maximal">> : r \in {x \in RelNames(Pg) : IsChoice(Pg, x) /\ ~Maximal(Pg, F, ed, x)}}
=============================================================================
