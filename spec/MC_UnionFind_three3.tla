---- MODULE MC_UnionFind_three3 ----
EXTENDS MC_UnionFind
Space == Three(3)
====
