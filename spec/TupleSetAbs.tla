----------------------------- MODULE TupleSetAbs -----------------------------
(***************************************************************************)
(* Property-level (abstract) specification of a set of integer tuples of   *)
(* a fixed arity 1..4 with concurrent insertion: what C27 demands of       *)
(* souffle::Trie<Dim>, stated over the API events a client can observe.    *)
(*   S       : the set of tuples (sequences of 32-bit integers)            *)
(*   pend[c] : client c's outstanding insert call                          *)
(*             st = "idle"   no call outstanding                           *)
(*                  "called" call made, its effect not yet placed          *)
(*                  "lin"    its effect was placed (it was the call that   *)
(*                           added the tuple) because another client's     *)
(*                           return depended on it; r is the result it     *)
(*                           has to report                                 *)
(* Insert is linearizable: a call takes effect at one instant between its  *)
(* call and its return, reports TRUE iff the tuple was absent at that      *)
(* instant.  Consequently every distinct tuple has exactly one successful  *)
(* insertion, also among overlapping calls.  The effect is placed lazily:  *)
(* at the call's own return, or earlier when an overlapping call for the   *)
(* same tuple returns FALSE and no earlier insertion explains that.        *)
(* Queries are only legal while no insertion is outstanding (Brie.h:       *)
(* "inserts and read operations may not be conducted at the same time").   *)
(***************************************************************************)
EXTENDS Integers, Sequences, FiniteSets
CONSTANT Clients
VARIABLES S, pend
avars == <<S, pend>>

Idle == [t |-> <<>>, st |-> "idle", r |-> FALSE]
AInit == S = {} /\ pend = [c \in Clients |-> Idle]
Quiescent == \A c \in Clients : pend[c].st = "idle"

Call(c, t) == /\ pend[c].st = "idle"
              /\ pend' = [pend EXCEPT ![c] = [t |-> t, st |-> "called", r |-> FALSE]]
              /\ S' = S

Ret(c, ok) ==
    /\ pend[c].st # "idle"
    /\ LET t == pend[c].t IN
       IF pend[c].st = "lin"
       THEN /\ pend[c].r = ok
            /\ pend' = [pend EXCEPT ![c] = Idle] /\ S' = S
       ELSE IF ok
       THEN /\ t \notin S                                  \* a successful insertion adds a new tuple
            /\ S' = S \cup {t} /\ pend' = [pend EXCEPT ![c] = Idle]
       ELSE \/ /\ t \in S                                  \* somebody inserted it before
               /\ S' = S /\ pend' = [pend EXCEPT ![c] = Idle]
            \/ /\ t \notin S                               \* an overlapping call is the one that adds it
               /\ \E d \in Clients \ {c} :
                     /\ pend[d].st = "called" /\ pend[d].t = t
                     /\ S' = S \cup {t}
                     /\ pend' = [pend EXCEPT ![c] = Idle, ![d] = [t |-> t, st |-> "lin", r |-> TRUE]]

\* the enabling condition of Ret(c, ok) as a state predicate
RetPossible(c, ok) ==
    /\ pend[c].st # "idle"
    /\ LET t == pend[c].t IN
       IF pend[c].st = "lin" THEN pend[c].r = ok
       ELSE IF ok THEN t \notin S
       ELSE t \in S \/ \E d \in Clients \ {c} : pend[d].st = "called" /\ pend[d].t = t

(* ------------------------- sequential queries -------------------------- *)
\* keys are compared as unsigned 32-bit words (the order Brie.h documents for lower/upper bound); for non-negative
\* keys this is the ordinary order
ULt(a, b) == IF (a >= 0) = (b >= 0) THEN a < b ELSE a >= 0
LexLt(s, t) == \E i \in 1..Len(s) : (\A j \in 1..(i - 1) : s[j] = t[j]) /\ ULt(s[i], t[i])
MinOf(T) == CHOOSE s \in T : \A u \in T : u = s \/ LexLt(s, u)
Range(seq) == {seq[i] : i \in 1..Len(seq)}
\* seq lists exactly the elements of T, each once
ListsOnce(seq, T) == Len(seq) = Cardinality(T) /\ Range(seq) = T
Prefixed(k, t) == {s \in S : \A j \in 1..k : s[j] = t[j]}
SumLen(chunks) == LET f[i \in 0..Len(chunks)] == IF i = 0 THEN 0 ELSE f[i - 1] + Len(chunks[i]) IN f[Len(chunks)]

ExpContains(t) == t \in S
ExpFind(t) == IF t \in S THEN t ELSE <<>>
ExpSize == Cardinality(S)
ExpLower(t) == LET T == {s \in S : ~LexLt(s, t)} IN IF T = {} THEN <<>> ELSE MinOf(T)
ExpUpper(t) == LET T == {s \in S : LexLt(t, s)} IN IF T = {} THEN <<>> ELSE MinOf(T)

Contains(t, r) == r = ExpContains(t)
Find(t, r) == r = ExpFind(t)                           \* find(t) yields an iterator at t (r = t), or end (r = <<>>)
Size(n) == n = ExpSize
Iterate(seq) == ListsOnce(seq, S)
Bounds(k, t, seq) == ListsOnce(seq, Prefixed(k, t))    \* getBoundaries<k>: tuples sharing the first k components
Partition(chunks) == /\ SumLen(chunks) = Cardinality(S)  \* every tuple in exactly one chunk
                     /\ UNION {Range(chunks[i]) : i \in 1..Len(chunks)} = S
LowerBound(t, r) == r = ExpLower(t)
UpperBound(t, r) == r = ExpUpper(t)
=============================================================================
