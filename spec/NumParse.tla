------------------------------ MODULE NumParse ------------------------------
(***************************************************************************)
(* Acceptance language and value of the scalar literals of a fact file     *)
(* (C18) and of numeric constants in program text, and the decimal text    *)
(* of numbers (used by CsvIO for C17).                                     *)
(*                                                                         *)
(* A text is a sequence of 1-character strings.  Numbers never enter TLC   *)
(* arithmetic as a whole (TLC integers are 32 bit): a value is a canonical *)
(* decimal digit sequence with an optional leading "-"; range tests are    *)
(* digit-wise comparisons against "2147483647", "2147483648",              *)
(* "4294967295"; hexadecimal / binary literals are converted on two 16-bit *)
(* limbs.                                                                  *)
(*                                                                         *)
(* Classify(ty, t) = [cls, v, why] with                                    *)
(*   cls = "accept": a complete canonical literal whose value is           *)
(*                   representable -> the loader must store exactly v;     *)
(*   cls = "reject": not a literal of the type, or value out of range ->   *)
(*                   the loader must fail (exit 1, naming file and line);  *)
(*   cls = "either": the property text is silent (see below) -> the loader *)
(*                   may fail, but if it accepts it must store exactly v.  *)
(* Don't-care ("either") forms, decided from the property text "a complete,*)
(* valid literal of the column's type whose value is representable":       *)
(*   - leading blanks and a leading "+" (std::stoi/stoul/stof take them;   *)
(*     whether they belong to "the literal" is not stated);                *)
(*   - "-" in front of a zero magnitude in an unsigned column;             *)
(*   - 0x.. / 0b.. literals (valid literals of the *language*; the fact    *)
(*     loader takes them for unsigned columns only);                       *)
(*   - float forms "5." ".5", "infinity", upper-case INF/NAN, hexadecimal  *)
(*     floats, and decimal values below the smallest normal float (the C   *)
(*     library reports ERANGE for them; "representable" is arguable).      *)
(* Trailing blanks, trailing garbage, empty fields, lone signs, doubled    *)
(* signs and values outside the 32-bit range are "reject".                 *)
(***************************************************************************)
EXTENDS Integers, Sequences, FiniteSets, TLC

Digits    == {"0", "1", "2", "3", "4", "5", "6", "7", "8", "9"}
BinDigits == {"0", "1"}
HexLower  == {"a", "b", "c", "d", "e", "f"}
HexUpper  == {"A", "B", "C", "D", "E", "F"}
HexDigits == Digits \cup HexLower \cup HexUpper
Blanks    == {" ", "\t", "\n", "\r", "\f"}      \* isspace() minus \v (not expressible in a TLA+ string)

DigitVal(c) == CASE c = "0" -> 0 [] c = "1" -> 1 [] c = "2" -> 2 [] c = "3" -> 3 [] c = "4" -> 4
                 [] c = "5" -> 5 [] c = "6" -> 6 [] c = "7" -> 7 [] c = "8" -> 8 [] c = "9" -> 9
HexVal(c) == CASE c \in Digits -> DigitVal(c)
               [] c \in {"a", "A"} -> 10 [] c \in {"b", "B"} -> 11 [] c \in {"c", "C"} -> 12
               [] c \in {"d", "D"} -> 13 [] c \in {"e", "E"} -> 14 [] c \in {"f", "F"} -> 15
DigitChar(n) == CASE n = 0 -> "0" [] n = 1 -> "1" [] n = 2 -> "2" [] n = 3 -> "3" [] n = 4 -> "4"
                  [] n = 5 -> "5" [] n = 6 -> "6" [] n = 7 -> "7" [] n = 8 -> "8" [] n = 9 -> "9"
Lower(c) == CASE c = "A" -> "a" [] c = "B" -> "b" [] c = "C" -> "c" [] c = "D" -> "d" [] c = "E" -> "e"
              [] c = "F" -> "f" [] c = "I" -> "i" [] c = "N" -> "n" [] c = "T" -> "t" [] c = "Y" -> "y"
              [] c = "X" -> "x" [] c = "P" -> "p" [] OTHER -> c
LowerSeq(t) == [i \in 1..Len(t) |-> Lower(t[i])]

MinOf(S) == CHOOSE x \in S : \A y \in S : x <= y
\* first position q >= p whose character is not in S (Len(t)+1 when the run reaches the end)
RECURSIVE RunEnd(_, _, _)
RunEnd(t, p, S) == IF p > Len(t) THEN p ELSE IF t[p] \notin S THEN p ELSE RunEnd(t, p + 1, S)
AllIn(t, S) == \A i \in 1..Len(t) : t[i] \in S
From(t, p) == SubSeq(t, p, Len(t))
StartsWith(t, pre) == Len(t) >= Len(pre) /\ SubSeq(t, 1, Len(pre)) = pre

\* ---- decimal digit sequences ---------------------------------------------
Strip(ds) == LET p == RunEnd(ds, 1, {"0"}) IN IF p > Len(ds) THEN <<"0">> ELSE From(ds, p)
RECURSIVE LexLess(_, _)                          \* equal lengths
LexLess(a, b) == IF a = <<>> THEN FALSE
                 ELSE IF a[1] # b[1] THEN DigitVal(a[1]) < DigitVal(b[1]) ELSE LexLess(Tail(a), Tail(b))
DecLess(a, b) == Len(a) < Len(b) \/ (Len(a) = Len(b) /\ LexLess(a, b))       \* on stripped sequences
DecLE(a, b) == a = b \/ DecLess(a, b)

MaxSigned   == <<"2", "1", "4", "7", "4", "8", "3", "6", "4", "7">>
MinSignedM  == <<"2", "1", "4", "7", "4", "8", "3", "6", "4", "8">>
MaxUnsigned == <<"4", "2", "9", "4", "9", "6", "7", "2", "9", "5">>

\* ---- two 16-bit limbs: value = hi * 65536 + lo, ovf = left the 32-bit range -----
L0 == [hi |-> 0, lo |-> 0, ovf |-> FALSE]
LPush(l, base, d) == LET lo == l.lo * base + d
                         hi == l.hi * base + (lo \div 65536)
                     IN  [hi |-> hi % 65536, lo |-> lo % 65536, ovf |-> l.ovf \/ hi >= 65536]
RECURSIVE LFold(_, _, _)
LFold(ds, base, l) == IF ds = <<>> THEN l ELSE LFold(Tail(ds), base, LPush(l, base, HexVal(ds[1])))
Limbs(ds, base) == LFold(ds, base, L0)                      \* value mod 2^32 and overflow flag
LNeg(l) == IF l.hi = 0 /\ l.lo = 0 THEN l                    \* 2^32 - value, on limbs
           ELSE IF l.lo = 0 THEN [l EXCEPT !.hi = 65536 - l.hi]
           ELSE [l EXCEPT !.hi = 65535 - l.hi, !.lo = 65536 - l.lo]
RECURSIVE LDec(_, _, _)
LDec(hi, lo, acc) ==                                        \* limbs -> decimal digit sequence
    IF hi = 0 /\ lo = 0 THEN (IF acc = <<>> THEN <<"0">> ELSE acc)
    ELSE LET r1 == hi % 10
             n2 == r1 * 65536 + lo
         IN  LDec(hi \div 10, n2 \div 10, <<DigitChar(n2 % 10)>> \o acc)
LimbsToDec(l) == LDec(l.hi, l.lo, <<>>)

\* ---- integer literals -------------------------------------------------------
\* IntShape(t): blanks* sign? body, body = dec digits | 0x hex+ | 0b (blanks* sign?)? bin+
IntBody(rest) ==
    IF rest # <<>> /\ AllIn(rest, Digits) THEN [ok |-> TRUE, base |-> 10, ds |-> rest, inner |-> FALSE, ineg |-> FALSE]
    ELSE IF StartsWith(rest, <<"0", "x">>) /\ Len(rest) > 2 /\ AllIn(From(rest, 3), HexDigits)
         THEN [ok |-> TRUE, base |-> 16, ds |-> From(rest, 3), inner |-> FALSE, ineg |-> FALSE]
    ELSE IF StartsWith(rest, <<"0", "b">>) /\ Len(rest) > 2
         THEN LET q0 == RunEnd(rest, 3, Blanks)
                  sg == q0 <= Len(rest) /\ rest[q0] \in {"+", "-"}
                  q1 == IF sg THEN q0 + 1 ELSE q0
                  ds == From(rest, q1)
              IN  IF ds # <<>> /\ AllIn(ds, BinDigits)
                  THEN [ok |-> TRUE, base |-> 2, ds |-> ds, inner |-> q1 > 3, ineg |-> sg /\ rest[q0] = "-"]
                  ELSE [ok |-> FALSE]
    ELSE [ok |-> FALSE]

IntShape(t) ==
    LET p0 == RunEnd(t, 1, Blanks)
        sg == p0 <= Len(t) /\ t[p0] \in {"+", "-"}
        p1 == IF sg THEN p0 + 1 ELSE p0
        b  == IntBody(From(t, p1))
    IN  IF ~b.ok THEN [ok |-> FALSE]
        ELSE LET l   == Limbs(b.ds, b.base)
                 big == IF b.base = 10 THEN Len(Strip(b.ds)) > 10 ELSE l.ovf
                 mag == IF b.base = 10 THEN Strip(b.ds) ELSE (IF l.ovf THEN <<"big">> ELSE LimbsToDec(l))
                 neg == (sg /\ t[p0] = "-") # b.ineg        \* a second "-" inside 0b.. flips (strtoul semantics)
             IN  [ok |-> TRUE, neg |-> neg, mag |-> mag, big |-> big, zero |-> ~big /\ mag = <<"0">>,
                  plain |-> p0 = 1 /\ ~(sg /\ t[p0] = "+") /\ b.base = 10 /\ ~b.inner,
                  wrap |-> IF neg THEN LNeg(l) ELSE l]

NumVal(neg, mag) == IF neg /\ mag # <<"0">> THEN <<"-">> \o mag ELSE mag
Res(cls, v, why) == [cls |-> cls, v |-> v, why |-> why]
NoVal == [k |-> "none"]
IntV(ty, neg, mag) == [k |-> ty, d |-> NumVal(neg, mag)]

ClassifySigned(t) ==
    LET s == IntShape(t) IN
    IF ~s.ok THEN Res("reject", NoVal, "shape")
    ELSE IF s.big \/ (s.neg /\ ~DecLE(s.mag, MinSignedM)) \/ (~s.neg /\ ~DecLE(s.mag, MaxSigned))
         THEN Res("reject", NoVal, "range")
    ELSE Res(IF s.plain THEN "accept" ELSE "either", IntV("i", s.neg, s.mag), "")

\* For a value outside 0..2^32-1 the description carries the low 32 bits of the mathematical value ("wrap"):
\* only used to recognise the signature of a known defect, never as an expected result.
ClassifyUnsigned(t) ==
    LET s == IntShape(t) IN
    IF ~s.ok THEN Res("reject", NoVal, "shape")
    ELSE IF (s.neg /\ ~s.zero) \/ s.big \/ ~DecLE(s.mag, MaxUnsigned)
         THEN [cls |-> "reject", v |-> NoVal, why |-> "range", wrap |-> LimbsToDec(s.wrap)]
    ELSE Res(IF s.plain /\ ~s.neg THEN "accept" ELSE "either", IntV("u", FALSE, s.mag), "")

\* ---- float literals -----------------------------------------------------------
\* value: [k |-> "f", neg, m (stripped decimal digits of the mantissa), e10, e2]  = (-1)^neg * m * 10^e10 * 2^e2,
\*        or [k |-> "fs", s |-> "inf" | "-inf" | "nan"].
\* The nearest binary32 to that rational is what must be stored; TLC has no floating point, so the rounding
\* relation is checked by the harness with exact rational arithmetic.
SmallNat(ds) == LET l == Limbs(ds, 10) IN l.hi * 65536 + l.lo        \* caller guarantees <= 5 digits
ExpOf(sgn, ds) == LET s == Strip(ds) IN
    IF Len(s) > 4 THEN [huge |-> TRUE, neg |-> sgn = "-", n |-> 0]
    ELSE [huge |-> FALSE, neg |-> sgn = "-", n |-> IF sgn = "-" THEN -SmallNat(s) ELSE SmallNat(s)]

\* 2^128 - 2^103 (everything at or above rounds to infinity) and 2^-126 (smallest normal), leading digits
OverT  == <<"3","4","0","2","8","2","3","5","6","7","7","9","7","3","3","6","6","1","6","3","7","5","3","9",
            "3","9","5","4","5","8","1","4","2","5","6","8","4","4","8">>
SmallT == <<"1","1","7","5","4","9","4","3","5","0","8","2","2","2","8","7","5","0","7","9","6","8","7","3",
            "6","5","3","7","2","2","2","2","4","5","6","7","7","8","1","8","6","6","5","5","5","6","7","7">>
RECURSIVE PadLess(_, _)          \* compare digit sequences as fractions 0.d1d2... (missing digits are zeros)
PadLess(a, b) == IF a = <<>> THEN \E i \in 1..Len(b) : b[i] # "0"
                 ELSE IF b = <<>> THEN FALSE
                 ELSE IF a[1] # b[1] THEN DigitVal(a[1]) < DigitVal(b[1]) ELSE PadLess(Tail(a), Tail(b))

DecFloat(neg, ip, fp, hasExp, esgn, eds, strict) ==
    LET m   == Strip(ip \o fp)
        ex  == IF hasExp THEN ExpOf(esgn, eds) ELSE [huge |-> FALSE, neg |-> FALSE, n |-> 0]
        e10 == ex.n - Len(fp)
        sci == Len(m) - 1 + e10                        \* m = d.ddd * 10^sci
        v   == [k |-> "f", neg |-> neg, m |-> m, e10 |-> e10, e2 |-> 0]
        c   == IF strict THEN "accept" ELSE "either"
    IN  IF m = <<"0">> THEN Res(c, [v EXCEPT !.e10 = 0], "")
        ELSE IF ex.huge THEN (IF ex.neg THEN Res("either", [k |-> "tiny"], "tiny") ELSE Res("reject", NoVal, "range"))
        ELSE IF sci > 38 \/ (sci = 38 /\ ~PadLess(m, OverT)) THEN Res("reject", NoVal, "range")
        ELSE IF sci < -38 \/ (sci = -38 /\ PadLess(m, SmallT)) THEN Res("either", v, "tiny")
        ELSE Res(c, v, "")

HexFloat(neg, ip, fp, hasExp, esgn, eds) ==
    LET hd == ip \o fp
        l  == Limbs(hd, 16)
        ex == IF hasExp THEN ExpOf(esgn, eds) ELSE [huge |-> FALSE, neg |-> FALSE, n |-> 0]
        e2 == ex.n - 4 * Len(fp)
    IN  IF l.ovf \/ ex.huge \/ e2 > 64 \/ e2 < -64 THEN Res("skip", NoVal, "hexfloat outside the modelled range")
        ELSE Res("either", [k |-> "f", neg |-> neg, m |-> LimbsToDec(l), e10 |-> 0, e2 |-> e2], "hexfloat")

\* mantissa/exponent scan shared by decimal and hexadecimal forms
FloatScan(body, dset, echars) ==
    LET p1 == RunEnd(body, 1, dset)
        ip == SubSeq(body, 1, p1 - 1)
        dot == p1 <= Len(body) /\ body[p1] = "."
        p2 == IF dot THEN RunEnd(body, p1 + 1, dset) ELSE p1
        fp == IF dot THEN SubSeq(body, p1 + 1, p2 - 1) ELSE <<>>
        hasE == p2 <= Len(body) /\ body[p2] \in echars
        p3 == p2 + 1
        es == hasE /\ p3 <= Len(body) /\ body[p3] \in {"+", "-"}
        p4 == IF es THEN p3 + 1 ELSE p3
        eds == IF hasE THEN From(body, p4) ELSE <<>>
    IN  [ok |-> ip \o fp # <<>> /\ (IF hasE THEN eds # <<>> /\ AllIn(eds, Digits) ELSE p2 = Len(body) + 1),
         ip |-> ip, fp |-> fp, dot |-> dot, hasE |-> hasE, esgn |-> IF es THEN body[p3] ELSE "+", eds |-> eds]

ClassifyFloat(t) ==
    LET p0 == RunEnd(t, 1, Blanks)
        sg == p0 <= Len(t) /\ t[p0] \in {"+", "-"}
        neg == sg /\ t[p0] = "-"
        p1 == IF sg THEN p0 + 1 ELSE p0
        body == From(t, p1)
        low == LowerSeq(body)
        lead == p0 = 1 /\ ~(sg /\ ~neg)                \* no blanks, no "+"
    IN  IF low = <<"i", "n", "f">> \/ low = <<"i", "n", "f", "i", "n", "i", "t", "y">>
            THEN Res(IF lead /\ body = <<"i", "n", "f">> THEN "accept" ELSE "either",
                     [k |-> "fs", s |-> IF neg THEN "-inf" ELSE "inf"], "")
        ELSE IF low = <<"n", "a", "n">>
            THEN Res(IF lead /\ body = <<"n", "a", "n">> THEN "accept" ELSE "either", [k |-> "fs", s |-> "nan"], "")
        ELSE IF StartsWith(low, <<"0", "x">>)
            THEN LET h == FloatScan(From(low, 3), HexDigits, {"p"}) IN
                 IF h.ok THEN HexFloat(neg, h.ip, h.fp, h.hasE, h.esgn, h.eds) ELSE Res("reject", NoVal, "shape")
        ELSE LET d == FloatScan(body, Digits, {"e", "E"}) IN
             IF ~d.ok THEN Res("reject", NoVal, "shape")
             ELSE DecFloat(neg, d.ip, d.fp, d.hasE, d.esgn, d.eds, lead /\ d.ip # <<>> /\ (d.dot => d.fp # <<>>))

ClassifyScalar(ty, t) ==
    CASE ty = "i" -> ClassifySigned(t)
      [] ty = "u" -> ClassifyUnsigned(t)
      [] ty = "f" -> ClassifyFloat(t)
      [] ty = "s" -> Res("accept", [k |-> "s", c |-> t], "")

\* ---- numeric constants in program text -----------------------------------------
\* A single scanner token (scanner.ll): [0-9]+ | 0x[0-9a-fA-F]+ | 0b[01]+ for number/unsigned columns,
\* [0-9]+.[0-9]+ for float columns, optionally preceded by a unary minus.  Such a constant must be stored with its
\* value or the program must be refused (exit 1); anything else is "skip" (an expression or a syntax error).
ConstClass(ty, t) ==
    LET neg == t # <<>> /\ t[1] = "-"
        body == IF neg THEN Tail(t) ELSE t
        tokI == IntBody(body).ok /\ ~IntBody(body).inner
        fs == FloatScan(body, Digits, {})
        tokF == fs.ok /\ fs.dot /\ fs.ip # <<>> /\ fs.fp # <<>>
    IN  IF ty \in {"i", "u"} /\ tokI THEN
            LET c == ClassifyScalar(ty, t) IN
            IF c.cls = "either" /\ ~(neg /\ ty = "u") THEN [c EXCEPT !.cls = "accept"] ELSE c
        ELSE IF ty = "f" /\ tokF THEN ClassifyFloat(t)
        ELSE Res("skip", NoVal, "not a single numeric token")

\* ---- decimal text of a float value with at most 9 significant digits ("%.9g") ---------
\* fv = [neg, m (stripped digits, no trailing zeros unless "0"), x] meaning  d1.d2..dk * 10^x
Zeros(n) == [i \in 1..n |-> "0"]
UInt2(n) == IF n < 10 THEN <<"0", DigitChar(n)>> ELSE
            IF n < 100 THEN <<DigitChar(n \div 10), DigitChar(n % 10)>> ELSE
            <<DigitChar(n \div 100), DigitChar((n \div 10) % 10), DigitChar(n % 10)>>
FloatText(fv) ==
    LET k == Len(fv.m)
        sgn == IF fv.neg THEN <<"-">> ELSE <<>>
        x == fv.x
    IN  IF fv.m = <<"0">> THEN sgn \o <<"0">>
        ELSE IF x < -4 \/ x >= 9 THEN
            sgn \o <<fv.m[1]>> \o (IF k > 1 THEN <<".">> \o Tail(fv.m) ELSE <<>>) \o
            <<"e", IF x < 0 THEN "-" ELSE "+">> \o UInt2(IF x < 0 THEN -x ELSE x)
        ELSE IF x >= 0 THEN
            (IF k <= x + 1 THEN sgn \o fv.m \o Zeros(x + 1 - k)
             ELSE sgn \o SubSeq(fv.m, 1, x + 1) \o <<".">> \o SubSeq(fv.m, x + 2, k))
        ELSE sgn \o <<"0", ".">> \o Zeros(-x - 1) \o fv.m

\* normal form of a parsed decimal float (to compare with fv): strip trailing zeros of the mantissa
RECURSIVE DropTrail(_)
DropTrail(ds) == IF Len(ds) > 1 /\ ds[Len(ds)] = "0" THEN DropTrail(SubSeq(ds, 1, Len(ds) - 1)) ELSE ds
FloatNorm(v) ==         \* v as produced by ClassifyFloat with e2 = 0
    IF v.m = <<"0">> THEN [neg |-> v.neg, m |-> <<"0">>, x |-> 0]
    ELSE LET m == DropTrail(v.m) IN [neg |-> v.neg, m |-> m, x |-> Len(v.m) - 1 + v.e10]

\* ---- helpers for the model-checking harness modules --------------------------------------
Cs(str) == [i \in 1..Len(str) |-> SubSeq(str, i, i)]          \* TLA+ string -> sequence of 1-character strings
\* characters leave TLC as ASCII codes (a file text may hold quotes, backslashes, tabs and newlines)
Printable == Cs(" !") \o <<"\"">> \o Cs("#$%&'()*+,-./0123456789:;<=>?@ABCDEFGHIJKLMNOPQRSTUVWXYZ[") \o <<"\\">> \o
             Cs("]^_`abcdefghijklmnopqrstuvwxyz{|}~")
CodeMap == [c \in {Printable[i] : i \in 1..Len(Printable)} |-> 31 + CHOOSE i \in 1..Len(Printable) : Printable[i] = c]
Code(c) == IF c = "\t" THEN 9 ELSE IF c = "\n" THEN 10 ELSE IF c = "\r" THEN 13 ELSE IF c = "\f" THEN 12 ELSE CodeMap[c]
Codes(t) == [i \in 1..Len(t) |-> Code(t[i])]
=============================================================================
