---- MODULE MC_UnionFind_twoone3 ----
EXTENDS MC_UnionFind
Space == TwoOne(3)
====
