------------------------------ MODULE EqRelAbs ------------------------------
(***************************************************************************)
(* Property-level (abstract) specification of equivalence-relation storage *)
(* (C28): what souffle::EquivalenceRelation has to be, stated over the API *)
(* a client can observe.  A relation is a partition: rel[r] is a set of    *)
(* disjoint, non-empty classes (sets of 32-bit elements); the pairs it     *)
(* contains are exactly Pairs(rel[r]) = the reflexive, symmetric and       *)
(* transitive closure of everything inserted.                              *)
(*   Insert(r,a,b)          closure of rel[r] + (a,b)                      *)
(*   InsertAll(r,o)         closure of rel[r] + rel[o]                     *)
(*   ExtendAndInsert(n,m)   n = new knowledge, m = old knowledge           *)
(*        (EquivalenceRelation.h:130-186, n.extendAndInsert(m)):           *)
(*        n' = closure(n + the classes of m that touch an element of n),   *)
(*        m' = closure(m + n)                                              *)
(* Insert's boolean result is not constrained (the property does not       *)
(* mention it); concurrent inserts therefore need no linearization order:  *)
(* the closure does not depend on it.                                      *)
(***************************************************************************)
EXTENDS Integers, Sequences, FiniteSets
CONSTANT Rels
VARIABLE rel
Elems(C) == UNION C
ClassOf(C, a) == IF a \in Elems(C) THEN CHOOSE K \in C : a \in K ELSE {a}
\* merge every class of C that meets K, together with K
Join(C, K) == LET touching == {X \in C : X \cap K # {}} IN (C \ touching) \cup {UNION touching \cup K}
RECURSIVE JoinAll(_, _)
JoinAll(C, D) == IF D = {} THEN C ELSE LET K == CHOOSE K \in D : TRUE IN JoinAll(Join(C, K), D \ {K})
Pairs(C) == UNION {K \X K : K \in C}
Square(n) == n * n
RECURSIVE SumSq(_)
SumSq(C) == IF C = {} THEN 0 ELSE LET K == CHOOSE K \in C : TRUE IN Square(Cardinality(K)) + SumSq(C \ {K})
Range(seq) == {seq[i] : i \in 1..Len(seq)}
ListsOnce(seq, T) == Len(seq) = Cardinality(T) /\ Range(seq) = T
SumLen(chunks) == LET f[i \in 0..Len(chunks)] == IF i = 0 THEN 0 ELSE f[i - 1] + Len(chunks[i]) IN f[Len(chunks)]

AInit == rel = [r \in Rels |-> {}]
Insert(r, a, b) == rel' = [rel EXCEPT ![r] = Join(@, {a, b})]
InsertAll(r, o) == rel' = [rel EXCEPT ![r] = JoinAll(@, rel[o])]
ExtendAndInsert(n, m) ==
    LET touched == {K \in rel[m] : K \cap Elems(rel[n]) # {}}
    IN rel' = [rel EXCEPT ![n] = JoinAll(@, touched), ![m] = JoinAll(@, rel[n])]

ExpContains(r, a, b) == a \in Elems(rel[r]) /\ b \in ClassOf(rel[r], a)
ExpSize(r) == SumSq(rel[r])
ExpAll(r) == Pairs(rel[r])
ExpAnterior(r, a) == IF a \in Elems(rel[r]) THEN {<<a, x>> : x \in ClassOf(rel[r], a)} ELSE {}     \* getBoundaries<1>
ExpAntPost(r, a, b) == IF ExpContains(r, a, b) THEN {<<a, b>>} ELSE {}                             \* getBoundaries<2>
ExpClosure(r, a) == LET K == ClassOf(rel[r], a) IN K \X K                                          \* closure(a), a present

Contains(r, a, b, res) == res = ExpContains(r, a, b)
Size(r, n) == n = ExpSize(r)
IterAll(r, seq) == ListsOnce(seq, ExpAll(r))
Anterior(r, a, seq) == ListsOnce(seq, ExpAnterior(r, a))
AntPost(r, a, b, seq) == ListsOnce(seq, ExpAntPost(r, a, b))
Closure(r, a, seq) == a \in Elems(rel[r]) /\ ListsOnce(seq, ExpClosure(r, a))
Partition(r, chunks) == /\ SumLen(chunks) = Cardinality(ExpAll(r))            \* every pair in exactly one chunk
                        /\ UNION {Range(chunks[i]) : i \in 1..Len(chunks)} = ExpAll(r)
=============================================================================
