-------------------------- MODULE TupleSetAbsTrace --------------------------
(* Trace validation for C27: the recorded API history of a real souffle::Trie<Dim> must be a behaviour of          *)
(* TupleSetAbs.  One TLC step per recorded event; histories of different tries are separated by "reset" events    *)
(* and the trace ends with one more "reset".                                                                      *)
(*   [e |-> "reset", tol]                          a new, empty trie; tol: the history has no overlapping calls   *)
(*   [e |-> "call", c, t] [e |-> "ret", c, ok]     insert call / return of client c (call/return order recorded)  *)
(*   [e |-> "contains", t, r] [e |-> "find", t, r] [e |-> "size", n] [e |-> "iter", s] [e |-> "bounds", k, t, s] *)
(*   [e |-> "part", n, ch] [e |-> "lower"|"upper", t, r]                     queries, made while quiescent       *)
(* Insert results: TLC follows every placement of the linearization points (TupleSetAbs!Ret is nondeterministic). *)
(* A branch that cannot explain an insert result dies (dead = TRUE, "DIED" is printed with the event number) and   *)
(* idles to the next "reset"; every "reset" reached by a live branch prints "ALIVE" with its event number.  A      *)
(* history is accepted iff the reset that follows it is reported ALIVE - so one TLC run judges all histories.     *)
(* In a history without overlapping calls (tol) RetPossible is exact; there an inexplicable insert result is       *)
(* reported like a deviating query answer ("MISMATCH", event number, what the model says) and the history goes on *)
(* with the tuple inserted, so that every deviating answer of a long sequential history is listed.                *)
EXTENDS TupleSetAbs, TLC, TraceDataModule   \* TraceDataModule (generated) defines TraceData
VARIABLES l, tol, dead
tvars == <<S, pend, l, tol, dead>>
TInit == AInit /\ l = 1 /\ tol = FALSE /\ dead = FALSE
Ev == TraceData[l]
AllIdle == [c \in Clients |-> Idle]
Report(ok, exp) == IF ok THEN TRUE ELSE PrintT(<<"MISMATCH", l, exp>>)
Die == PrintT(<<"DIED", l>>) /\ S' = {} /\ pend' = AllIdle /\ dead' = TRUE
Query == /\ UNCHANGED <<S, pend, dead>>
         /\ IF ~Quiescent THEN Report(FALSE, "query while an insertion is outstanding")
            ELSE CASE Ev.e = "contains" -> Report(Contains(Ev.t, Ev.r), ExpContains(Ev.t))
                   [] Ev.e = "find"     -> Report(Find(Ev.t, Ev.r), ExpFind(Ev.t))
                   [] Ev.e = "size"     -> Report(Size(Ev.n), ExpSize)
                   [] Ev.e = "iter"     -> Report(Iterate(Ev.s), S)
                   [] Ev.e = "bounds"   -> Report(Bounds(Ev.k, Ev.t, Ev.s), Prefixed(Ev.k, Ev.t))
                   [] Ev.e = "part"     -> Report(Partition(Ev.ch), S)
                   [] Ev.e = "lower"    -> Report(LowerBound(Ev.t, Ev.r), ExpLower(Ev.t))
                   [] Ev.e = "upper"    -> Report(UpperBound(Ev.t, Ev.r), ExpUpper(Ev.t))
TNext == /\ l <= Len(TraceData)
         /\ l' = l + 1
         /\ IF Ev.e = "reset"
            THEN /\ (IF dead THEN TRUE ELSE PrintT(<<"ALIVE", l>>))
                 /\ S' = {} /\ pend' = AllIdle /\ tol' = Ev.tol /\ dead' = FALSE
            ELSE /\ tol' = tol
                 /\ IF dead THEN UNCHANGED <<S, pend, dead>>
                    ELSE CASE Ev.e = "call" -> IF pend[Ev.c].st = "idle" THEN Call(Ev.c, Ev.t) /\ dead' = FALSE ELSE Die
                           [] Ev.e = "ret"  -> IF RetPossible(Ev.c, Ev.ok) THEN Ret(Ev.c, Ev.ok) /\ dead' = FALSE
                                               ELSE IF tol
                                               THEN /\ Report(FALSE, <<"insert must report", pend[Ev.c].t \notin S>>)
                                                    /\ S' = S \cup {pend[Ev.c].t} /\ pend' = [pend EXCEPT ![Ev.c] = Idle]
                                                    /\ dead' = FALSE
                                               ELSE Die
                           [] OTHER         -> Query
TSpec == TInit /\ [][TNext]_tvars
Accepted == TLCGet("stats").diameter - 1 = Len(TraceData)
=============================================================================
