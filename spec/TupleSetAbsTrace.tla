-------------------------- MODULE TupleSetAbsTrace --------------------------
(* Trace validation for C27: the recorded API history of a real souffle::Trie<Dim> must be a behaviour of          *)
(* TupleSetAbs.  One TLC step per recorded event; histories of different tries are separated by "reset".          *)
(*   [e |-> "call", c, t] [e |-> "ret", c, ok]   insert call / return of client c (call/return order as recorded) *)
(*   [e |-> "contains"|"find", t, r] [e |-> "size", n] [e |-> "iter", s] [e |-> "bounds", k, t, s]               *)
(*   [e |-> "part", n, ch] [e |-> "lower"|"upper", t, r]                     queries, made while quiescent       *)
(* An insert return that no linearization explains blocks the trace (rejection).  A query whose recorded answer   *)
(* differs from the set model is reported with its position and the expected answer (PrintT "MISMATCH") and the   *)
(* trace continues, so that one TLC run lists every deviating answer of a long history.                           *)
EXTENDS TupleSetAbs, TLC, TraceDataModule   \* TraceDataModule (generated) defines TraceData
\* tol: set by "reset" ([e |-> "reset", tol |-> BOOLEAN]); TRUE only for histories without overlapping calls (there
\* RetPossible is exact): an inexplicable insert result is reported like a deviating query answer and the trace continues
\* with the tuple inserted
VARIABLES l, tol
tvars == <<S, pend, l, tol>>
TInit == AInit /\ l = 1 /\ tol = FALSE
Ev == TraceData[l]
Report(ok, exp) == IF ok THEN TRUE ELSE PrintT(<<"MISMATCH", l, exp>>)
Query == /\ Quiescent
         /\ UNCHANGED avars
         /\ CASE Ev.e = "contains" -> Report(Contains(Ev.t, Ev.r), ExpContains(Ev.t))
              [] Ev.e = "find"     -> Report(Find(Ev.t, Ev.r), ExpFind(Ev.t))
              [] Ev.e = "size"     -> Report(Size(Ev.n), ExpSize)
              [] Ev.e = "iter"     -> Report(Iterate(Ev.s), S)
              [] Ev.e = "bounds"   -> Report(Bounds(Ev.k, Ev.t, Ev.s), Prefixed(Ev.k, Ev.t))
              [] Ev.e = "part"     -> Report(Partition(Ev.ch), S)
              [] Ev.e = "lower"    -> Report(LowerBound(Ev.t, Ev.r), ExpLower(Ev.t))
              [] Ev.e = "upper"    -> Report(UpperBound(Ev.t, Ev.r), ExpUpper(Ev.t))
TNext == /\ l <= Len(TraceData)
         /\ l' = l + 1
         /\ tol' = IF Ev.e = "reset" THEN Ev.tol ELSE tol
         /\ CASE Ev.e = "reset" -> S' = {} /\ pend' = [c \in Clients |-> Idle]
              [] Ev.e = "call"  -> Call(Ev.c, Ev.t)
              [] Ev.e = "ret"   -> IF tol /\ ~RetPossible(Ev.c, Ev.ok)
                                   THEN /\ Report(FALSE, <<"insert must report", pend[Ev.c].t \notin S>>)
                                        /\ S' = S \cup {pend[Ev.c].t} /\ pend' = [pend EXCEPT ![Ev.c] = Idle]
                                   ELSE Ret(Ev.c, Ev.ok)
              [] OTHER          -> Query
TSpec == TInit /\ [][TNext]_tvars
Accepted == TLCGet("stats").diameter - 1 = Len(TraceData)
=============================================================================
