---- MODULE MC_UnionFind_pairslt3 ----
EXTENDS MC_UnionFind
Space == PairsLt(3)
====
