----------------------------- MODULE MC_Subsume -----------------------------
(* DatalogData defines Programs (with `subsume` and `choice` fields) and SubsumeCases == << [p, edb, final, m, mono] >>. *)
EXTENDS Subsume
VARIABLE ci
JInit == /\ ci \in 1..Len(SubsumeCases)
         /\ pi = 1 /\ edb = <<>> /\ I = <<>> /\ si = 1 /\ iters = <<>> /\ k = 0 /\ oob = FALSE
JNext == UNCHANGED <<ci, vars>>
JSpec == JInit /\ [][JNext]_<<ci, vars>>
ToSets(f) == [r \in DOMAIN f |-> SeqToSet(f[r])]
Case == SubsumeCases[ci]
Emit == PrintT(<<"VERDICT", ci, SubsumeOK(Programs[Case.p], ToSets(Case.final), ToSets(Case.m), ToSets(Case.edb), Case.mono, Case.chk),
                 SubsumeDiag(Programs[Case.p], ToSets(Case.final), ToSets(Case.m), ToSets(Case.edb), Case.mono, Case.chk)>>)
=============================================================================
