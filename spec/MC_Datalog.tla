---------------------------- MODULE MC_Datalog ----------------------------
(* Model-checking harness: programs are inlined by a generated module MCD_*; *)
(* every terminal state prints its EDB and model as one JSON line.           *)
EXTENDS Datalog, Json

ASSUME \A i \in 1..Len(Programs) : ValidStratification(Programs[i])

OutRels == {P.rels[i].name : i \in {j \in 1..Len(P.rels) : P.rels[j].output}}
Emit == Finished =>
          PrintT(ToJson([tag |-> "MODEL", p |-> pi, edb |-> edb,
                         model |-> [r \in OutRels |-> I[r]],
                         full |-> I, oob |-> oob, iters |-> iters]))
=============================================================================
