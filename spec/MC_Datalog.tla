---------------------------- MODULE MC_Datalog ----------------------------
(* Model-checking harness: programs come from the file named by VF_PROGRAMS; *)
(* every terminal state prints its EDB and model as one JSON line.           *)
EXTENDS Datalog, Json, IOUtils

ProgramsFromFile == JsonDeserialize(IOEnv.VF_PROGRAMS)

ASSUME \A i \in 1..Len(ProgramsFromFile) : ValidStratification(ProgramsFromFile[i])

OutRels == {P.rels[i].name : i \in {j \in 1..Len(P.rels) : P.rels[j].output}}
Emit == Finished =>
          PrintT(ToJson([tag |-> "MODEL", p |-> pi, edb |-> edb,
                         model |-> [r \in OutRels |-> I[r]],
                         full |-> I, oob |-> oob, iters |-> iters]))
=============================================================================
