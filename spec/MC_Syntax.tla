----------------------------- MODULE MC_Syntax -----------------------------
(***************************************************************************)
(* C15: TLC enumerates the programs whose printed form is checked:         *)
(*   probe   one state per (construct kind, variant) of Syntax!Probes       *)
(*   tree    every expression tree with 1..MaxOps operators over the full   *)
(*           infix / prefix / min / max alphabet (states are grown one     *)
(*           operator at a time from a hole), each with its value on the    *)
(*           assignment x=7 y=3 z=2 w=5 (Functors!ApplyX), written once     *)
(*           fully parenthesised and once with the parentheses the grammar  *)
(*           needs (Syntax!NeedsPar)                                        *)
(*   compose NCompose seeded pseudo-random concatenations of ComposeSize    *)
(*           probes with disjoint name prefixes                             *)
(* Every state prints one JSON line (tag PROG) that the glue writes as text.*)
(* SyntaxData (generated): MaxOps, MaxOpsDeep, DeepSyms, Seed, NCompose.   *)
(***************************************************************************)
EXTENDS Syntax, Json, SyntaxData

VARIABLE st

\* three copies of the catalogue with disjoint name prefixes (plain definitions: TLC evaluates each once)
PC1 == Probes("c1_")
PC2 == Probes("c2_")
PC3 == Probes("c3_")
AllProbes == PC1 \o PragmaProbes
NP == Len(PC1)

ASSUME \A i, j \in 1..Len(AllProbes) :
          i # j => <<AllProbes[i].kind, AllProbes[i].variant>> # <<AllProbes[j].kind, AllProbes[j].variant>>
\* every operator of the alphabet has a probe of its kind
ASSUME \A o \in SeqRange(InfixOps) \cup SeqRange(PrefixOps) \cup SeqRange(CallOps2) : o.kind \in KindsOfProbes(AllProbes)

\* ---- expression trees ---------------------------------------------------------
Hole == [k |-> "hole"]
TreeBin == InfixOps \o CallOps2
\* family "all": every operator, 1..MaxOps operators; family "deep": the operators of DeepSyms, 1..MaxOpsDeep operators
InFam(o, fam) == fam = "all" \/ o.sym \in DeepSyms
LeafNames == <<"x", "y", "z", "w">>
RECURSIVE Grow(_, _)
Grow(t, fam) ==
    IF t.k = "hole"
    THEN {Fn(o, "i", <<Hole, Hole>>, FALSE) : o \in {x \in SeqRange(TreeBin) : InFam(x, fam)}}
         \cup {Fn(o, "i", <<Hole>>, FALSE) : o \in {x \in SeqRange(PrefixOps) : InFam(x, fam)}}
    ELSE IF Len(t.a) = 1 THEN {[t EXCEPT !.a = <<c>>] : c \in Grow(t.a[1], fam)}
    ELSE {[t EXCEPT !.a = <<c, t.a[2]>>] : c \in Grow(t.a[1], fam)} \cup {[t EXCEPT !.a = <<t.a[1], c>>] : c \in Grow(t.a[2], fam)}
RECURSIVE Lab(_, _)
Lab(t, n) == IF t.k = "hole" THEN <<V(LeafNames[n]), n + 1>>
             ELSE IF Len(t.a) = 1 THEN LET r == Lab(t.a[1], n) IN <<[t EXCEPT !.a = <<r[1]>>], r[2]>>
             ELSE LET r1 == Lab(t.a[1], n)  r2 == Lab(t.a[2], r1[2]) IN <<[t EXCEPT !.a = <<r1[1], r2[1]>>], r2[2]>>
A4 == <<<<"x", "number">>, <<"y", "number">>, <<"z", "number">>, <<"w", "number">>>>
TreeItems(e) == << Decl("a", A4), Fact("a", <<EnvLit("i", "x"), EnvLit("i", "y"), EnvLit("i", "z"), EnvLit("i", "w")>>),
                   Decl("o", A1("number")), Out("o"),
                   Rule(At("o", <<e>>), <<At("a", <<V("x"), V("y"), V("z"), V("w")>>)>>) >>
TreeProg(t, mode) ==
    LET e == Lab(t, 1)[1]  r == Val(e, Env("i")) IN
    [tag |-> "PROG", family |-> "tree", mode |-> mode, nops |-> NOps(t), kinds |-> OpsOf(e) \cup BaseKinds,
     items |-> TreeItems(Paren(e, mode)),
     expect |-> IF r = <<>> THEN <<>> ELSE Rows("o", << <<ToString(r[1])>> >>)]

\* ---- probes and compositions -----------------------------------------------------
ProbeProg(pr) == [tag |-> "PROG", family |-> "probe", kind |-> pr.kind, variant |-> pr.variant,
                  kinds |-> {pr.kind} \cup pr.uses \cup BaseKinds, items |-> pr.items, expect |-> pr.expect]
Rnd(s) == (s * 1103 + 12345) % 65536
RECURSIVE RndSeq(_, _)
RndSeq(s, n) == IF n = 0 THEN <<>> ELSE <<Rnd(s)>> \o RndSeq(Rnd(s), n - 1)
ComposeSize == 3
Picks(j) == LET r == RndSeq((Seed * 7919 + j * 31) % 65536, ComposeSize) IN [m \in 1..ComposeSize |-> (r[m] % NP) + 1]
ComposeProg(j) ==
    LET ix == Picks(j)
        ps == <<PC1[ix[1]], PC2[ix[2]], PC3[ix[3]]>>
    IN [tag |-> "PROG", family |-> "compose", n |-> j,
        parts |-> [m \in 1..ComposeSize |-> <<ps[m].kind, ps[m].variant>>],
        kinds |-> {ps[m].kind : m \in 1..ComposeSize} \cup UNION {ps[m].uses : m \in 1..ComposeSize} \cup BaseKinds,
        items |-> Flat([m \in 1..ComposeSize |-> ps[m].items]),
        expect |-> IF \E m \in 1..ComposeSize : ps[m].kind \in NoRunKinds THEN <<>>
                   ELSE Flat([m \in 1..ComposeSize |-> ps[m].expect])]

\* ---- the enumeration as a state machine -------------------------------------------
Init == st = [m |-> "root"]
Next == \/ /\ st.m = "root"
           /\ \/ \E i \in 1..Len(AllProbes) : st' = [m |-> "probe", i |-> i]
              \/ \E j \in 1..NCompose : st' = [m |-> "compose", j |-> j]
              \/ st' = [m |-> "tree", fam |-> "all", t |-> Hole]
              \/ MaxOpsDeep > 0 /\ st' = [m |-> "tree", fam |-> "deep", t |-> Hole]
        \/ /\ st.m = "tree" /\ NOps(st.t) < (IF st.fam = "all" THEN MaxOps ELSE MaxOpsDeep)
           /\ \E t2 \in Grow(st.t, st.fam) : st' = [m |-> "tree", fam |-> st.fam, t |-> t2]
Spec == Init /\ [][Next]_st

Emit == CASE st.m = "probe" -> PrintT(ToJson(ProbeProg(AllProbes[st.i])))
          [] st.m = "compose" -> PrintT(ToJson(ComposeProg(st.j)))
          \* the deep family prints only what the full-alphabet family does not
          [] st.m = "tree" /\ NOps(st.t) >= 1 /\ (st.fam = "all" \/ NOps(st.t) > MaxOps) -> PrintT(ToJson(TreeProg(st.t, "full"))) /\ PrintT(ToJson(TreeProg(st.t, "min")))
          [] OTHER -> TRUE
\* the catalogue itself: the list of kinds, printed once
EmitKinds == st.m = "root" => PrintT(ToJson([tag |-> "KINDS", kinds |-> KindsOfProbes(AllProbes) \cup BaseKinds,
                                             probes |-> Len(AllProbes)]))
=============================================================================
