------------------------------ MODULE Datalog ------------------------------
(***************************************************************************)
(* Declarative meaning of a souffle program: the stratified least model,   *)
(* computed stratum by stratum by naive iteration of the immediate         *)
(* consequence operator.  This module is the oracle for every property     *)
(* that says "the output relations are the program's model" (C01-C08, C16, *)
(* C20, C23) and the base of Choice/Subsume/Lattice/Provenance.            *)
(*                                                                         *)
(* As a state machine: a state is (program, EDB, interpretation, stratum); *)
(* one step applies T_P of the current stratum once.  TLC enumerates every *)
(* EDB of the bounded space as an initial state.                           *)
(*                                                                         *)
(* A program P (JSON, produced by vf/gen.py, loaded with JsonDeserialize): *)
(*   rels    : seq of [name, arity, types, input, output, eqrel]           *)
(*   clauses : seq of [head |-> atom, body |-> seq of literals]            *)
(*   strata  : seq of seq of relation names (evaluation order)             *)
(*   dom     : type |-> seq of values  (column domains of the EDB space)   *)
(*   edbs    : [mode |-> "all"] or [mode |-> "list", list |-> seq of EDB]  *)
(* term    : [k:"var",n] [k:"any"] [k:"num",v] [k:"str",v] [k:"nil"]       *)
(*           [k:"rec",a] [k:"adt",b,a] [k:"fn",op,a]                       *)
(* literal : [k:"atom",rel,args] [k:"neg",rel,args] [k:"cmp",op,l,r]       *)
(*           [k:"agg",op,res,tgt,body,outer] [k:"range",res,a]             *)
(* values  : integers, strings, <<"nil">>, <<"rec",v..>>, <<"adt",b,v..>>  *)
(***************************************************************************)
EXTENDS Integers, Sequences, FiniteSets, TLC, Functors, DatalogData
\* DatalogData (generated per run into the TLA-Library path) defines Programs == <<...>> as a plain definition:
\* TLC evaluates such a definition once, whereas `CONSTANT X <- Def` is re-evaluated on every reference.

NilV == <<"nil">>
EmptyEnv == [x \in {} |-> 0]
R(envs, oob) == [e |-> envs, o |-> oob]

SeqToSet(s) == {s[i] : i \in 1..Len(s)}
RemoveAt(s, i) == SubSeq(s, 1, i - 1) \o SubSeq(s, i + 1, Len(s))

\* ---- syntax helpers -----------------------------------------------------
RECURSIVE TVars(_)
TVars(t) == CASE t.k = "var" -> {t.n}
              [] t.k \in {"num", "str", "nil", "any"} -> {}
              [] t.k \in {"fn", "rec", "adt"} -> UNION {TVars(t.a[i]) : i \in 1..Len(t.a)}
ArgsVars(as) == UNION {TVars(as[i]) : i \in 1..Len(as)}

RECURSIVE Pat(_)           \* a term usable as a pattern without evaluation
Pat(t) == CASE t.k \in {"var", "any", "num", "str", "nil"} -> TRUE
            [] t.k \in {"rec", "adt"} -> \A i \in 1..Len(t.a) : Pat(t.a[i])
            [] t.k = "fn" -> FALSE

RECURSIVE Matchable(_, _)  \* can be matched against a value when B is bound
Matchable(t, B) == \/ TVars(t) \subseteq B
                   \/ t.k \in {"var", "any"}
                   \/ t.k \in {"rec", "adt"} /\ \A i \in 1..Len(t.a) : Matchable(t.a[i], B)

\* ---- term evaluation: <<v>> or <<>> (outside the defined domain) --------
RECURSIVE Eval(_, _)
Eval(t, env) ==
    CASE t.k = "var" -> <<env[t.n]>>
      [] t.k \in {"num", "str"} -> <<t.v>>
      [] t.k = "nil" -> <<NilV>>
      [] t.k \in {"rec", "adt", "fn"} ->
            LET as == [i \in 1..Len(t.a) |-> Eval(t.a[i], env)] IN
            IF \E i \in 1..Len(t.a) : as[i] = <<>> THEN <<>>
            ELSE LET vs == [i \in 1..Len(t.a) |-> as[i][1]] IN
                 CASE t.k = "rec" -> << <<"rec">> \o vs >>
                   [] t.k = "adt" -> << <<"adt", t.b>> \o vs >>
                   [] t.k = "fn"  -> Apply(t.op, vs)

\* ---- matching a term against a value: <<maybeEnv, oob>> -----------------
RECURSIVE Match(_, _, _), MatchSeq(_, _, _, _)
Match(t, v, env) ==
    IF t.k = "any" THEN << <<env>>, FALSE >>
    ELSE IF t.k = "var" /\ t.n \notin DOMAIN env THEN << <<env @@ (t.n :> v)>>, FALSE >>
    ELSE IF TVars(t) \subseteq DOMAIN env THEN
         LET r == Eval(t, env) IN
         IF r = <<>> THEN << <<>>, TRUE >>
         ELSE IF r[1] = v THEN << <<env>>, FALSE >> ELSE << <<>>, FALSE >>
    ELSE IF t.k = "rec" THEN
         (IF v = NilV THEN << <<>>, FALSE >> ELSE MatchSeq(t.a, Tail(v), 1, env))
    ELSE IF t.k = "adt" THEN
         (IF v[2] # t.b THEN << <<>>, FALSE >> ELSE MatchSeq(t.a, SubSeq(v, 3, Len(v)), 1, env))
    ELSE Assert(FALSE, <<"unmatchable term", t>>)
MatchSeq(ts, vs, i, env) ==
    IF i > Len(ts) THEN << <<env>>, FALSE >>
    ELSE LET r == Match(ts[i], vs[i], env) IN
         IF r[1] = <<>> THEN r ELSE MatchSeq(ts, vs, i + 1, r[1][1])

\* atom arguments: pure patterns first (they bind), then functor arguments
ArgOrder(as) == LET idx == [i \in 1..Len(as) |-> i] IN
                SelectSeq(idx, LAMBDA i : Pat(as[i])) \o SelectSeq(idx, LAMBDA i : ~Pat(as[i]))
RECURSIVE MatchArgs(_, _, _, _, _)
MatchArgs(as, tup, ord, j, env) ==
    IF j > Len(ord) THEN << <<env>>, FALSE >>
    ELSE LET r == Match(as[ord[j]], tup[ord[j]], env) IN
         IF r[1] = <<>> THEN r ELSE MatchArgs(as, tup, ord, j + 1, r[1][1])

\* collect a set of <<maybeEnv, oob>> results
Collect(rs) == R({r[1][1] : r \in {x \in rs : x[1] # <<>>}}, \E r \in rs : r[2])

\* ---- readiness of a literal given the bound variables B ------------------
PatVars(as) == UNION {TVars(as[i]) : i \in {j \in 1..Len(as) : Pat(as[j])}}
Ready(l, B) ==
    CASE l.k = "atom"  -> \A i \in 1..Len(l.args) :
                              Pat(l.args[i]) \/ Matchable(l.args[i], B \cup PatVars(l.args))
      [] l.k = "neg"   -> ArgsVars(l.args) \subseteq B
      [] l.k = "cmp"   -> IF l.op = "EQ"
                          THEN \/ TVars(l.l) \subseteq B /\ Matchable(l.r, B)
                               \/ TVars(l.r) \subseteq B /\ Matchable(l.l, B)
                          ELSE (TVars(l.l) \cup TVars(l.r)) \subseteq B
      [] l.k = "agg"   -> SeqToSet(l.outer) \subseteq B
      [] l.k = "range" -> ArgsVars(l.a) \subseteq B
Binds(l) ==
    CASE l.k = "atom"  -> ArgsVars(l.args)
      [] l.k = "neg"   -> {}
      [] l.k = "cmp"   -> IF l.op = "EQ" THEN TVars(l.l) \cup TVars(l.r) ELSE {}
      [] l.k = "agg"   -> TVars(l.res)
      [] l.k = "range" -> TVars(l.res)

\* ---- folds over finite sets of environments ------------------------------
RECURSIVE SumOver(_, _, _)
\* sum of Eval(tgt, e) over e in S; <<>> on overflow / undefined
SumOver(S, tgt, acc) ==
    IF S = {} THEN <<acc>>
    ELSE LET e == CHOOSE x \in S : TRUE
             v == Eval(tgt, e)
         IN IF v = <<>> THEN <<>>
            ELSE IF ~AddOK(acc, v[1]) THEN <<>>
            ELSE SumOver(S \ {e}, tgt, acc + v[1])

RangeVals(a) ==   \* evaluator::runRange (EvaluatorUtil.h), signed
    LET from == a[1]  to == a[2]
        step == IF Len(a) = 3 THEN a[3] ELSE IF from <= to THEN 1 ELSE -1
    IN IF step > 0 THEN {x \in from..(to - 1) : (x - from) % step = 0}
       ELSE IF step < 0 THEN {x \in (to + 1)..from : (from - x) % (-step) = 0}
       ELSE IF from # to THEN {from} ELSE {}

\* ---- solving a body: set of total valuations ----------------------------
RECURSIVE Solve(_, _, _, _), Step(_, _, _)
Step(l, E, I) ==
    CASE l.k = "atom" ->
            LET ord == ArgOrder(l.args) IN
            Collect({MatchArgs(l.args, tup, ord, 1, env) : env \in E, tup \in I[l.rel]})
      [] l.k = "neg" ->
            LET ord == ArgOrder(l.args)
                res(env) == {MatchArgs(l.args, tup, ord, 1, env) : tup \in I[l.rel]}
            IN R({env \in E : \A r \in res(env) : r[1] = <<>>},
                 \E env \in E : \E r \in res(env) : r[2])
      [] l.k = "cmp" ->
            IF l.op = "EQ" THEN
                Collect({ IF TVars(l.l) \subseteq DOMAIN env
                          THEN LET v == Eval(l.l, env) IN
                               IF v = <<>> THEN << <<>>, TRUE >> ELSE Match(l.r, v[1], env)
                          ELSE LET v == Eval(l.r, env) IN
                               IF v = <<>> THEN << <<>>, TRUE >> ELSE Match(l.l, v[1], env)
                          : env \in E })
            ELSE
                Collect({ LET a == Eval(l.l, env)  b == Eval(l.r, env) IN
                          IF a = <<>> \/ b = <<>> THEN << <<>>, TRUE >>
                          ELSE IF Cmp(l.op, a[1], b[1]) THEN << <<env>>, FALSE >> ELSE << <<>>, FALSE >>
                          : env \in E })
      [] l.k = "agg" ->
            Collect({ LET inner == Solve(l.body, DOMAIN env, {env}, I) IN
                      IF inner.o THEN << <<>>, TRUE >>
                      ELSE IF l.op = "count" THEN Match(l.res, Cardinality(inner.e), env)
                      ELSE IF l.op = "sum" THEN
                           LET s == SumOver(inner.e, l.tgt, 0) IN
                           IF s = <<>> THEN << <<>>, TRUE >> ELSE Match(l.res, s[1], env)
                      ELSE \* min / max: do not fire on an empty body
                           LET vs == {Eval(l.tgt, e) : e \in inner.e} IN
                           IF vs = {} THEN << <<>>, FALSE >>
                           ELSE IF <<>> \in vs THEN << <<>>, TRUE >>
                           ELSE LET xs == {v[1] : v \in vs}
                                    m == IF l.op = "min"
                                         THEN CHOOSE x \in xs : \A y \in xs : x <= y
                                         ELSE CHOOSE x \in xs : \A y \in xs : x >= y
                                IN Match(l.res, m, env)
                      : env \in E })
      [] l.k = "range" ->
            LET one(env) ==
                  LET as == [i \in 1..Len(l.a) |-> Eval(l.a[i], env)] IN
                  IF \E i \in 1..Len(l.a) : as[i] = <<>> THEN {<< <<>>, TRUE >>}
                  ELSE {Match(l.res, x, env) : x \in RangeVals([i \in 1..Len(l.a) |-> as[i][1]])}
            IN Collect(UNION {one(env) : env \in E})

Solve(lits, B, E, I) ==
    IF Len(lits) = 0 \/ E = {} THEN R(E, FALSE)
    ELSE LET i == CHOOSE j \in 1..Len(lits) :
                     Ready(lits[j], B) /\ \A m \in 1..(j - 1) : ~Ready(lits[m], B)
             r == Step(lits[i], E, I)
             s == Solve(RemoveAt(lits, i), B \cup Binds(lits[i]), r.e, I)
         IN R(s.e, r.o \/ s.o)

\* ---- immediate consequence of one clause / one stratum -------------------
HeadTuples(c, E) ==
    LET hs == {[i \in 1..Len(c.head.args) |-> Eval(c.head.args[i], env)] : env \in E}
        bad(h) == \E i \in 1..Len(h) : h[i] = <<>>
    IN [t |-> {[i \in 1..Len(h) |-> h[i][1]] : h \in {x \in hs : ~bad(x)}},
        o |-> \E h \in hs : bad(h)]

ClauseTP(c, I) ==
    LET s == Solve(c.body, {}, {EmptyEnv}, I)
        h == HeadTuples(c, s.e)
    IN [t |-> h.t, o |-> s.o \/ h.o]

\* reflexive-symmetric-transitive closure (eqrel relations)
EqClose(T) ==
    LET el  == {t[1] : t \in T} \cup {t[2] : t \in T}
        sym == T \cup {<<t[2], t[1]>> : t \in T} \cup {<<x, x>> : x \in el}
        step(X) == X \cup UNION {{<<a[1], b[2]>> : b \in {y \in X : y[1] = a[2]}} : a \in X}
        RECURSIVE Lfp(_)
        Lfp(X) == IF step(X) = X THEN X ELSE Lfp(step(X))
    IN Lfp(sym)

RelInfo(P, name) == LET i == CHOOSE j \in 1..Len(P.rels) : P.rels[j].name = name IN P.rels[i]
RelNames(P) == {P.rels[i].name : i \in 1..Len(P.rels)}

\* one application of T_P for stratum S (a set of relation names)
TP(P, S, I) ==
    LET cs == {i \in 1..Len(P.clauses) : P.clauses[i].head.rel \in S}
        rs == [i \in cs |-> ClauseTP(P.clauses[i], I)]
        add(r) == UNION {rs[i].t : i \in {j \in cs : P.clauses[j].head.rel = r}}
        J == [r \in DOMAIN I |->
                IF r \in S
                THEN (IF RelInfo(P, r).eqrel THEN EqClose(I[r] \cup add(r)) ELSE I[r] \cup add(r))
                ELSE I[r]]
    IN [I |-> J, o |-> \E i \in cs : rs[i].o]

\* ---- static side conditions the generator must meet ----------------------
StratumOf(P, r) == CHOOSE i \in 1..Len(P.strata) : r \in SeqToSet(P.strata[i])
RECURSIVE PosRels(_), NegRels(_)
PosRels(body) == UNION {IF body[i].k = "atom" THEN {body[i].rel} ELSE {} : i \in 1..Len(body)}
NegRels(body) == UNION { CASE body[i].k = "neg" -> {body[i].rel}
                           [] body[i].k = "agg" -> PosRels(body[i].body) \cup NegRels(body[i].body)
                           [] OTHER -> {} : i \in 1..Len(body)}
ValidStratification(P) ==
    /\ \A r \in RelNames(P) : \E i \in 1..Len(P.strata) : r \in SeqToSet(P.strata[i])
    /\ \A i \in 1..Len(P.clauses) :
         LET c == P.clauses[i]  h == StratumOf(P, c.head.rel) IN
         /\ \A r \in PosRels(c.body) : StratumOf(P, r) <= h
         /\ \A r \in NegRels(c.body) : StratumOf(P, r) < h

\* ---- EDB space -----------------------------------------------------------
RECURSIVE Tuples(_, _, _)
Tuples(P, types, i) ==    \* all tuples over the column domains
    IF i > Len(types) THEN {<<>>}
    ELSE {<<v>> \o t : v \in SeqToSet(P.dom[types[i]]), t \in Tuples(P, types, i + 1)}
InputRels(P) == {P.rels[i].name : i \in {j \in 1..Len(P.rels) : P.rels[j].input}}
RECURSIVE AllEDBs(_, _)
AllEDBs(P, rs) ==
    IF rs = {} THEN {EmptyEnv}
    ELSE LET r == CHOOSE x \in rs : TRUE IN
         {f @@ (r :> t) : f \in AllEDBs(P, rs \ {r}), t \in SUBSET Tuples(P, RelInfo(P, r).types, 1)}
EDBSpace(P) ==
    IF P.edbs.mode = "all" THEN AllEDBs(P, InputRels(P))
    ELSE {[r \in InputRels(P) |-> SeqToSet(P.edbs.list[i][r])] : i \in 1..Len(P.edbs.list)}

InitI(P, edb) == [r \in RelNames(P) |->
                    IF r \in DOMAIN edb
                    THEN (IF RelInfo(P, r).eqrel THEN EqClose(edb[r]) ELSE edb[r])
                    ELSE {}]

\* ---- the model as a pure operator (additive; used by Api.tla) --------------
\* StratumFix folds TP of stratum S to its fixpoint starting from interpretation J.I (inflationary: what is in J.I
\* stays); EvalStrata does so stratum by stratum; both carry the out-of-domain flag along.
\* ModelFrom(Pg, I0) is the evaluation of all strata started from an arbitrary interpretation I0 (for I0 =
\* InitI(Pg, edb) it is the final I of the state machine below); ModelOf(Pg, edb) is the stratified model of Pg on edb.
RECURSIVE StratumFix(_, _, _)
StratumFix(Pg, S, J) ==
    LET r == TP(Pg, S, J.I) IN
    IF r.I = J.I THEN [I |-> J.I, o |-> J.o \/ r.o]
    ELSE StratumFix(Pg, S, [I |-> r.I, o |-> J.o \/ r.o])
RECURSIVE EvalStrata(_, _, _)
EvalStrata(Pg, J, sx) ==
    IF sx > Len(Pg.strata) THEN J
    ELSE EvalStrata(Pg, StratumFix(Pg, SeqToSet(Pg.strata[sx]), J), sx + 1)
ModelFrom(Pg, I0) == EvalStrata(Pg, [I |-> I0, o |-> FALSE], 1)
ModelOf(Pg, e) == ModelFrom(Pg, InitI(Pg, e))

\* ---- the evaluation as a state machine -----------------------------------
VARIABLES pi,      \* index of the program
          edb,     \* the input database
          I,       \* current interpretation: relation name |-> set of tuples
          si,      \* current stratum (Len+1 = finished)
          iters,   \* per finished stratum: number of T_P applications that added something
          k,       \* productive applications in the current stratum
          oob      \* some evaluation left the defined value domain
vars == <<pi, edb, I, si, iters, k, oob>>

P == Programs[pi]
Finished == si > Len(P.strata)

Init == /\ pi \in 1..Len(Programs)
        /\ edb \in EDBSpace(Programs[pi])
        /\ I = InitI(Programs[pi], edb)
        /\ si = 1 /\ k = 0 /\ iters = <<>> /\ oob = FALSE

ApplyTP == /\ ~Finished
           /\ LET r == TP(P, SeqToSet(P.strata[si]), I) IN
              /\ oob' = (oob \/ r.o)
              /\ IF r.I = I
                 THEN /\ si' = si + 1 /\ k' = 0 /\ iters' = Append(iters, k) /\ I' = I
                 ELSE /\ si' = si /\ k' = k + 1 /\ iters' = iters /\ I' = r.I
           /\ UNCHANGED <<pi, edb>>

Next == ApplyTP
Spec == Init /\ [][Next]_vars

\* ---- properties of the evaluation itself (checked by TLC) ----------------
\* relations only grow, and only those of the current stratum change
Monotone == [][\A r \in DOMAIN I : /\ I[r] \subseteq I'[r]
                                     /\ (r \notin SeqToSet(P.strata[si]) => I'[r] = I[r])]_vars
\* the final interpretation is a model: every clause is satisfied, eqrel relations are closed
IsModel == Finished =>
             /\ \A i \in 1..Len(P.clauses) : ClauseTP(P.clauses[i], I).t \subseteq I[P.clauses[i].head.rel]
             /\ \A r \in RelNames(P) : RelInfo(P, r).eqrel => EqClose(I[r]) = I[r]
             /\ \A r \in DOMAIN edb : edb[r] \subseteq I[r]
\* supportedness: every non-EDB tuple of the final model is the head of a clause instance over the model
Supported == Finished =>
               \A r \in RelNames(P) : ~RelInfo(P, r).eqrel =>
                 I[r] \subseteq ((IF r \in DOMAIN edb THEN edb[r] ELSE {}) \cup
                                 UNION {ClauseTP(P.clauses[i], I).t :
                                          i \in {j \in 1..Len(P.clauses) : P.clauses[j].head.rel = r}})
=============================================================================
