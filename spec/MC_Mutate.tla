------------------------------ MODULE MC_Mutate ------------------------------
(* Every (distinct) mutant is printed as one JSON line: seed index, number of mutations, last mutation, tokens. *)
EXTENDS Mutate, Json
Emit == PrintT(ToJson([tag |-> "MUT", s |-> s, k |-> k, last |-> last, toks |-> toks]))
=============================================================================
