----------------------------- MODULE InternAbs -----------------------------
(***************************************************************************)
(* Property-level (abstract) specification of an interning table: what     *)
(* C31 demands of SymbolTableImpl / RecordTableImpl / ConcurrentFlyweight, *)
(* stated over the API a client can observe.                               *)
(*                                                                         *)
(*   enc : the interned values, an injective partial map value -> index    *)
(*   dec : its inverse, index -> value                                     *)
(*   op  : per thread, the FindOrInsert call in flight (calls of different *)
(*         threads overlap; a call takes effect at one instant between its *)
(*         invocation and its return - the silent step Lin)                *)
(*                                                                         *)
(* FindOrInsert(lane, v) = Call(t, v) ; Lin(t) ; Ret(t) with result        *)
(* (op[t].i, op[t].ins).  The lane is not observable at this level: the    *)
(* property quantifies over all lanes, the answer may not depend on it.    *)
(* Fetch(i) and Iterate do not change the table: they are observations     *)
(* (FetchResult, IsListing) evaluated on the current state.                *)
(*                                                                         *)
(* NilIndices: references that must never be handed out (index 0 of a      *)
(* table whose first slot is reserved: the nil record).                    *)
(***************************************************************************)
EXTENDS Integers, Sequences, FiniteSets, TLC

CONSTANTS Threads, Values, Indices, NilIndices
VARIABLES enc, dec, op
avars == <<enc, dec, op>>

Idle == [st |-> "idle"]

(***************************************************************************)
(* The effect of one linearized FindOrInsert as pure functions of the      *)
(* table (used by the action Lin below and, folded over several calls, by  *)
(* the trace specification InternAbsTrace).                                *)
(*   ins = TRUE  : v was not interned; i is fresh and not nil              *)
(*   ins = FALSE : v was interned before; i is the index it got then       *)
(***************************************************************************)
LinOK(e, d, v, i, ins) == IF v \in DOMAIN e
                            THEN ins = FALSE /\ e[v] = i
                            ELSE ins = TRUE /\ i \notin DOMAIN d /\ i \notin NilIndices
LinEnc(e, v, i) == IF v \in DOMAIN e THEN e ELSE e @@ (v :> i)
LinDec(d, v, i) == IF i \in DOMAIN d THEN d ELSE d @@ (i :> v)

AInit == /\ enc = <<>> /\ dec = <<>>
         /\ op = [t \in Threads |-> Idle]

Call(t, v) == /\ op[t].st = "idle"
              /\ op' = [op EXCEPT ![t] = [st |-> "called", v |-> v]]
              /\ UNCHANGED <<enc, dec>>

LinWith(t, i, ins) == /\ op[t].st = "called"
                      /\ LinOK(enc, dec, op[t].v, i, ins)
                      /\ enc' = LinEnc(enc, op[t].v, i)
                      /\ dec' = IF ins THEN LinDec(dec, op[t].v, i) ELSE dec
                      /\ op' = [op EXCEPT ![t] = [st |-> "lin", v |-> op[t].v, i |-> i, ins |-> ins]]
Lin(t) == \E i \in Indices, ins \in BOOLEAN : LinWith(t, i, ins)

Ret(t) == /\ op[t].st = "lin"
          /\ op' = [op EXCEPT ![t] = Idle]
          /\ UNCHANGED <<enc, dec>>

ANext == \E t \in Threads : (\E v \in Values : Call(t, v)) \/ Lin(t) \/ Ret(t)
ASpec == AInit /\ [][ANext]_avars

\* observations
CanFetch(i) == i \in DOMAIN dec                \* fetch is only defined for references that were handed out
FetchResult(i) == dec[i]
Quiescent == \A t \in Threads : op[t].st = "idle"
\* xs, a sequence of <<value, index>>, lists every interned value exactly once
IsListing(xs) == /\ Len(xs) = Cardinality(DOMAIN enc)
                 /\ \A k \in 1..Len(xs) : xs[k][1] \in DOMAIN enc /\ enc[xs[k][1]] = xs[k][2]
                 /\ Cardinality({xs[k][1] : k \in 1..Len(xs)}) = Len(xs)

(***************************************************************************)
(* The clauses of C31 as properties of this specification                  *)
(***************************************************************************)
\* decode(encode(v)) = v and encode(decode(i)) = i: a bijection between interned values and handed-out indices;
\* hence equal values <=> equal indices
Bijection == /\ \A v \in DOMAIN enc : enc[v] \in DOMAIN dec /\ dec[enc[v]] = v
             /\ \A i \in DOMAIN dec : dec[i] \in DOMAIN enc /\ enc[dec[i]] = i
\* the nil reference is never handed out
NoNil == DOMAIN dec \cap NilIndices = {}
\* same value => same index forever: the table only grows
Stable == [][\A v \in DOMAIN enc : v \in DOMAIN enc' /\ enc'[v] = enc[v]]_avars
\* a result is reported as "inserted" exactly when the call added the value
InsertedIffNew == [][\A t \in Threads : (op[t].st = "called" /\ op'[t].st = "lin")
                        => (op'[t].ins <=> op[t].v \notin DOMAIN enc)]_avars
=============================================================================
