---- MODULE MC_UnionFind_known ----
EXTENDS MC_UnionFind
Space == Known(4)
====
