---------------------------- MODULE SortedSetAbs ----------------------------
(***************************************************************************)
(* Property-level specification of a sorted set of integers: what C25 and  *)
(* C26 demand of souffle::btree_set / btree_delete_set, stated over the    *)
(* values an API client can observe.                                       *)
(*                                                                         *)
(*   set      : the keys stored                                            *)
(*   pend[t]  : the insert thread t is executing, if any                   *)
(*              st = "idle"   no call in progress                          *)
(*              st = "called" insert(k) invoked, not yet taken effect      *)
(*              st = "done"   insert(k) has taken effect with result res,  *)
(*                            the call has not returned yet                *)
(*                                                                         *)
(* Only insertions may overlap (the containers give no guarantee for       *)
(* erase / queries racing with writers, and souffle never does that), so   *)
(* every other operation requires Quiet.                                   *)
(*                                                                         *)
(* An insertion is the classical three-step linearizable operation         *)
(*      Call(t,k) ; Lin(t) ; Ret(t,ok)                                     *)
(* where Lin(t) is the atomic abstract Insert: it reports TRUE iff the key *)
(* is new and adds it.  Consequences (checked by TLC in SortedSetAbsMC ):  *)
(*   - the final set is exactly the union of all inserted keys,            *)
(*   - for every distinct key exactly one insert call reports TRUE,        *)
(*     also when several inserts of the same key overlap: the one that is  *)
(*     linearised first wins, all others -- overlapping or later -- get    *)
(*     FALSE.  A duplicate insert that overlaps the winner must NOT also   *)
(*     report TRUE (souffle counts new tuples by the TRUE results).        *)
(***************************************************************************)
EXTENDS Integers, Sequences, FiniteSets
CONSTANT Threads
VARIABLES set, pend
avars == <<set, pend>>

Idle == [k |-> 0, st |-> "idle", res |-> FALSE]
AInit == set = {} /\ pend = [t \in Threads |-> Idle]
Quiet == \A t \in Threads : pend[t].st = "idle"

\* S \cup {k} and S \ {k}, written as set constructors so that TLC stores a flat enumerated set: it represents
\* S \cup T lazily, and 10^4 nested lazy unions overflow its stack
Add(S, k) == {x : x \in S \cup {k}}
Del(S, k) == {x \in S : x # k}

(* ------------------------- overlapping insertions ---------------------- *)
Call(t, k) == /\ pend[t].st = "idle"
              /\ pend' = [pend EXCEPT ![t] = [k |-> k, st |-> "called", res |-> FALSE]]
              /\ UNCHANGED set
\* the linearisation point = the atomic abstract operation  Insert(k) -> BOOLEAN
Lin(t) == /\ pend[t].st = "called"
          /\ pend' = [pend EXCEPT ![t] = [@ EXCEPT !.st = "done", !.res = (pend[t].k \notin set)]]
          /\ set' = Add(set, pend[t].k)
Ret(t, k, ok) == /\ pend[t].st = "done" /\ pend[t].k = k /\ pend[t].res = ok
                 /\ pend' = [pend EXCEPT ![t] = Idle]
                 /\ UNCHANGED set

(* ------------------------- sequential operations ----------------------- *)
Insert(k, ok) == /\ Quiet /\ ok = (k \notin set) /\ set' = Add(set, k) /\ UNCHANGED pend
\* erase returns the number of removed elements (0 or 1 for a set)
Erase(k, n)   == /\ Quiet /\ n = (IF k \in set THEN 1 ELSE 0) /\ set' = Del(set, k) /\ UNCHANGED pend

Min(S) == CHOOSE x \in S : \A y \in S : x <= y
\* results of find / lower_bound / upper_bound: <<>> = end(), <<v>> = an iterator referencing v
Opt(S) == IF S = {} THEN <<>> ELSE <<Min(S)>>
Contains(S, q)   == q \in S
Find(S, q)       == IF q \in S THEN <<q>> ELSE <<>>
LowerBound(S, q) == Opt({x \in S : x >= q})
UpperBound(S, q) == Opt({x \in S : x > q})
Size(S)          == Cardinality(S)
\* iteration visits every key exactly once in strictly ascending order; stated without constructing the sequence
Range(s) == {s[i] : i \in DOMAIN s}
Ascending(s) == \A i \in 1..(Len(s) - 1) : s[i] < s[i + 1]
IsIterationOf(s, S) == /\ Len(s) = Cardinality(S)
                       /\ Range(s) = S
                       /\ Ascending(s)
\* a chunk partition: the chunks, taken in order, cover every key exactly once in ascending order, i.e. their
\* concatenation is the iteration sequence.  Stated without recursion (TLC's stack): every non-empty chunk ascends
\* strictly, each one ends below the start of the next one, and together they hold exactly the keys of S.
IsChunkingOf(cs, S) == LET ne == SelectSeq(cs, LAMBDA c : c # <<>>)
                       IN /\ \A i \in DOMAIN ne : /\ Ascending(ne[i])
                                                  /\ i < Len(ne) => ne[i][Len(ne[i])] < ne[i + 1][1]
                          /\ UNION {Range(ne[i]) : i \in DOMAIN ne} = S

(* --------- the theorem-level statements of C25 (checked on small models) *)
\* history variables are added by SortedSetAbsMC
ANext == \/ \E t \in Threads, k \in Int : Call(t, k)
         \/ \E t \in Threads : Lin(t)
         \/ \E t \in Threads, k \in Int, ok \in BOOLEAN : Ret(t, k, ok)
=============================================================================
