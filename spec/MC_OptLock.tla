---------------------------- MODULE MC_OptLock ----------------------------
EXTENDS OptLockImpl
Seqs(n) == UNION {[1..k -> Ops] : k \in 0..n}
PS2 == [1..2 -> Seqs(2)]                       \* 2 clients, every sequence of <= 2 operations
PS3q == [1..3 -> Seqs(1)]                      \* 3 clients, <= 1 operation each
PS2r == {f \in PS2 : Len(f[2]) <= 1}          \* replay space of the quick tier
PS3 == {f \in [1..3 -> Seqs(2)] : Len(f[3]) <= 1 /\ Len(f[1]) >= Len(f[2])}
=============================================================================
