---- MODULE MC_UnionFind_pairs4 ----
EXTENDS MC_UnionFind
Space == PairsU(4)
====
