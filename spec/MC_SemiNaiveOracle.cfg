SPECIFICATION OSpec
INVARIANT EmitO
CHECK_DEADLOCK FALSE
