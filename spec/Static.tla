------------------------------- MODULE Static -------------------------------
(***************************************************************************)
(* Static well-formedness of a souffle program: the verdict function of    *)
(* property C13.  A program P is the JSON of vf/gen.py (see Datalog.tla):  *)
(*   types   : seq of [k:"rec",name,fields:<<<<f,ty>>..>>]                 *)
(*                    [k:"adt",name,branches:<<[name,fields]..>>]          *)
(*   rels    : seq of [name, arity, types, ...]                            *)
(*   clauses : seq of [head |-> atom, body |-> seq of literals]            *)
(* term    : [k:"var",n] [k:"any"] [k:"num",v] [k:"str",v] [k:"nil"]       *)
(*           [k:"rec",a] [k:"adt",b,a] [k:"fn",op,a]                       *)
(* literal : [k:"atom",rel,args] [k:"neg",rel,args] [k:"cmp",op,l,r]       *)
(*           [k:"agg",op,res,tgt,body] [k:"range",res,a]                   *)
(* column types ("kinds"): "i" number, "s" symbol, "r:Name", "a:Name".     *)
(*                                                                         *)
(* Verdict(P) = "accept" iff P is stratifiable, every clause is grounded   *)
(* and every clause is well-typed; "reject" otherwise.                     *)
(*                                                                         *)
(*  Stratifiable : no cycle of the precedence graph goes through an edge   *)
(*                 created by a negated atom or by an atom inside an       *)
(*                 aggregate (SemanticChecker.cpp "Unable to stratify",    *)
(*                 PrecedenceGraph.cpp, SCCGraph.cpp).                     *)
(*  Grounded     : least solution of the implication system of             *)
(*                 ast/analysis/Ground.cpp, scoped: a positive atom grounds*)
(*                 its arguments; `=` links both sides; a record/ADT term  *)
(*                 is grounded iff all its components are; a functor       *)
(*                 result is grounded if all its arguments are; constants  *)
(*                 are sources; an aggregate is a source for its result    *)
(*                 once its injected variables are grounded; the body of   *)
(*                 an aggregate is a scope of its own (injected / witness /*)
(*                 local variables as in ast/analysis/Aggregate.cpp).      *)
(*                 Every variable and every record/ADT term of the clause  *)
(*                 must be grounded: in particular those of the head, of   *)
(*                 negated atoms and of constraints.                       *)
(*  WellTyped    : restricted to the unambiguous cases: every term has at  *)
(*                 most one kind among number / symbol / a named record /  *)
(*                 a named ADT, as imposed by the declared column types of *)
(*                 the atoms it occurs in (head, positive, negated), the   *)
(*                 constants, the signatures of the intrinsic functors,    *)
(*                 aggregate results and both sides of a comparison; a     *)
(*                 record constructor has the arity of its record type.    *)
(***************************************************************************)
EXTENDS Integers, Sequences, FiniteSets, TLC

SeqSet(s) == {s[i] : i \in 1..Len(s)}
RECURSIVE Flat(_, _)
\* concatenation of a sequence of sequences
Flat(ss, i) == IF i > Len(ss) THEN <<>> ELSE ss[i] \o Flat(ss, i + 1)

RelNames(P) == {P.rels[i].name : i \in 1..Len(P.rels)}
RelOf(P, name) == P.rels[CHOOSE j \in 1..Len(P.rels) : P.rels[j].name = name]

\* ===========================================================================
\*  1. stratification
\* ===========================================================================
RECURSIVE AtomRels(_)
\* relations of all atoms (positive or negated, at any depth) of a literal list
AtomRels(lits) == UNION { CASE lits[i].k \in {"atom", "neg"} -> {lits[i].rel}
                            [] lits[i].k = "agg" -> AtomRels(lits[i].body)
                            [] OTHER -> {} : i \in 1..Len(lits) }
PosDeps(c) == {c.body[i].rel : i \in {j \in 1..Len(c.body) : c.body[j].k = "atom"}}
NegDeps(c) == {c.body[i].rel : i \in {j \in 1..Len(c.body) : c.body[j].k = "neg"}}
AggDeps(c) == UNION {AtomRels(c.body[i].body) : i \in {j \in 1..Len(c.body) : c.body[j].k = "agg"}}

\* precedence graph: <<s, t>> when s occurs in the body of a clause of t
Edges(P)    == UNION {{<<s, P.clauses[i].head.rel>> : s \in PosDeps(P.clauses[i]) \cup NegDeps(P.clauses[i]) \cup AggDeps(P.clauses[i])}
                      : i \in 1..Len(P.clauses)}
\* the edges that must not lie on a cycle
StrictEdges(P) == UNION {{<<s, P.clauses[i].head.rel>> : s \in NegDeps(P.clauses[i]) \cup AggDeps(P.clauses[i])}
                         : i \in 1..Len(P.clauses)}
RECURSIVE TC(_)
\* transitive closure by iteration
TC(R) == LET S  == R \cup UNION {{<<a[1], b[2]>> : b \in {y \in R : y[1] = a[2]}} : a \in R}
         IN IF S = R THEN R ELSE TC(S)
Reaches(P, a, b) == a = b \/ <<a, b>> \in TC(Edges(P))
\* a strict edge s -> t lies on a cycle iff t reaches s
Stratifiable(P) == \A e \in StrictEdges(P) : ~Reaches(P, e[2], e[1])

\* ===========================================================================
\*  2. groundedness
\* ===========================================================================
RECURSIVE TVars(_)
TVars(t) == CASE t.k = "var" -> {t.n}
              [] t.k \in {"num", "str", "nil", "any"} -> {}
              [] t.k \in {"fn", "rec", "adt"} -> UNION {TVars(t.a[i]) : i \in 1..Len(t.a)}
ArgsVars(as) == UNION {TVars(as[i]) : i \in 1..Len(as)}

RECURSIVE Bind(_)
\* the variables that become grounded when the term is grounded (record/ADT => its components)
Bind(t) == CASE t.k = "var" -> {t.n}
             [] t.k \in {"rec", "adt"} -> UNION {Bind(t.a[i]) : i \in 1..Len(t.a)}
             [] OTHER -> {}

RECURSIVE GTerm(_, _, _)
\* is this occurrence of a term grounded, given the grounded variables G and whether its context grounds it
GTerm(t, G, ctx) == CASE t.k = "var" -> t.n \in G
                      [] t.k = "any" -> ctx
                      [] t.k \in {"num", "str", "nil"} -> TRUE
                      [] t.k \in {"rec", "adt"} -> ctx \/ \A i \in 1..Len(t.a) : GTerm(t.a[i], G, FALSE)
                      [] t.k = "fn" -> \A i \in 1..Len(t.a) : GTerm(t.a[i], G, FALSE)

RECURSIVE RecsOK(_, _, _)
\* every record/ADT term inside t is grounded (GroundedTermsChecker: "Ungrounded record" / "Ungrounded ADT branch")
RecsOK(t, G, ctx) == CASE t.k \in {"rec", "adt"} ->
                             /\ GTerm(t, G, ctx)
                             /\ \A i \in 1..Len(t.a) : RecsOK(t.a[i], G, ctx \/ GTerm(t, G, ctx))
                       [] t.k = "fn" -> \A i \in 1..Len(t.a) : RecsOK(t.a[i], G, FALSE)
                       [] OTHER -> TRUE

\* variables occurring at the level of a scope (an aggregate contributes its result only)
ScopeVars(lits) == UNION { CASE lits[i].k \in {"atom", "neg"} -> ArgsVars(lits[i].args)
                             [] lits[i].k = "cmp"   -> TVars(lits[i].l) \cup TVars(lits[i].r)
                             [] lits[i].k = "range" -> TVars(lits[i].res) \cup ArgsVars(lits[i].a)
                             [] lits[i].k = "agg"   -> TVars(lits[i].res) : i \in 1..Len(lits) }
AggOwnVars(l) == ScopeVars(l.body) \cup TVars(l.tgt)
NoWitnessOp(op) == op \in {"count", "sum", "mean"}
AggIdx(lits) == {i \in 1..Len(lits) : lits[i].k = "agg"}

\* variables grounded by literal i, given G; A[i] = [need, give] says when an aggregate is a source and for what
StepLit(lits, i, G, A) ==
    LET l == lits[i] IN
    CASE l.k = "atom"  -> UNION {Bind(l.args[j]) : j \in 1..Len(l.args)}
      [] l.k = "neg"   -> {}
      [] l.k = "cmp"   -> IF l.op # "EQ" THEN {}
                          ELSE (IF GTerm(l.l, G, FALSE) THEN Bind(l.r) ELSE {}) \cup
                               (IF GTerm(l.r, G, FALSE) THEN Bind(l.l) ELSE {})
      [] l.k = "range" -> IF \A j \in 1..Len(l.a) : GTerm(l.a[j], G, FALSE) THEN Bind(l.res) ELSE {}
      [] l.k = "agg"   -> IF A[i].need \subseteq G THEN A[i].give ELSE {}
RECURSIVE Lfp(_, _, _)
\* least fixpoint of the implication system of one scope
Lfp(lits, G, A) ==
    LET G2 == G \cup UNION {StepLit(lits, i, G, A) : i \in 1..Len(lits)}
    IN IF G2 = G THEN G ELSE Lfp(lits, G2, A)

(* One scope (a clause body, or the body of an aggregate): G0 = variables grounded on entry (injected), visible =   *)
(* variables that occur outside this scope.  For each aggregate l of the scope (Aggregate.cpp):                     *)
(*   injected(l) = variables of l that are grounded in the scope when l itself is not a source (the other          *)
(*                 aggregates are), except the variables of its target expression;                                  *)
(*   witness(l)  = variables of l that also occur outside l, are not grounded when every aggregate is a mere        *)
(*                 source of its result, but are grounded by the body of l alone;                                   *)
(*   the remaining variables of l are local to it (a local may shadow an outer variable of the same name).          *)
(* l is a source for its result once its injected variables are grounded (so two aggregates that feed each other    *)
(* ground nothing); min/max also export their witnesses; count/sum/mean must not have witnesses.                    *)
RECURSIVE Scope(_, _, _)
Scope(lits, G0, visible) ==
    LET idx   == AggIdx(lits)
        here  == visible \cup ScopeVars(lits)
        Asrc  == [i \in idx |-> [need |-> {}, give |-> Bind(lits[i].res)]]
        Gsrc  == Lfp(lits, G0, Asrc)
        own   == [i \in idx |-> AggOwnVars(lits[i])]
        inj   == [i \in idx |-> (own[i] \cap Lfp(lits, G0, [Asrc EXCEPT ![i] = [need |-> {}, give |-> {}]])) \ TVars(lits[i].tgt)]
        alone == [i \in idx |-> Scope(lits[i].body, {}, here \cup own[i]).G]
        wit   == [i \in idx |-> {v \in (own[i] \cap here) \ inj[i] : v \notin Gsrc /\ v \in alone[i]}]
        Afin  == [i \in idx |-> [need |-> inj[i],
                                 give |-> Bind(lits[i].res) \cup (IF NoWitnessOp(lits[i].op) THEN {} ELSE wit[i])]]
        G     == Lfp(lits, G0, Afin)
        inner == [i \in idx |-> Scope(lits[i].body, inj[i], here \cup own[i])]
    IN [G  |-> G,
        \* aggregates waiting for each other: injected variables that only another waiting aggregate could ground
        cyc |-> \E i \in idx : (~(inj[i] \subseteq G) /\ inj[i] \subseteq Gsrc) \/ inner[i].cyc,
        \* two aggregates of the scope mention each other's result variable (whether or not that blocks grounding)
        mut |-> \E i, j \in idx : i # j /\ TVars(lits[i].res) \cap own[j] # {} /\ TVars(lits[j].res) \cap own[i] # {},
        ok |-> /\ ScopeVars(lits) \subseteq G
               /\ \A i \in 1..Len(lits) :
                    LET l == lits[i] IN
                    CASE l.k = "atom"  -> \A j \in 1..Len(l.args) : RecsOK(l.args[j], G, TRUE)
                      [] l.k = "neg"   -> \A j \in 1..Len(l.args) : RecsOK(l.args[j], G, FALSE)
                      [] l.k = "cmp"   -> IF l.op = "EQ"
                                          THEN RecsOK(l.l, G, GTerm(l.r, G, FALSE)) /\ RecsOK(l.r, G, GTerm(l.l, G, FALSE))
                                          ELSE RecsOK(l.l, G, FALSE) /\ RecsOK(l.r, G, FALSE)
                      [] l.k = "range" -> TRUE
                      [] l.k = "agg"   -> /\ inj[i] \subseteq G
                                          /\ (NoWitnessOp(l.op) => wit[i] = {})
                                          /\ inner[i].ok
                                          /\ TVars(l.tgt) \subseteq inner[i].G]

HeadVars(c) == ArgsVars(c.head.args)
\* ok: the clause is grounded; cyc: it is not, because two aggregates wait for each other's result
GroundInfo(c) ==
    LET sc == Scope(c.body, {}, HeadVars(c))
    IN [ok  |-> /\ sc.ok
                /\ HeadVars(c) \subseteq sc.G
                /\ \A j \in 1..Len(c.head.args) : RecsOK(c.head.args[j], sc.G, FALSE),
        cyc |-> sc.cyc, mut |-> sc.mut]
Grounded(c) == GroundInfo(c).ok

\* ===========================================================================
\*  3. types (unambiguous cases)
\* ===========================================================================
IsRecKind(k) == Len(k) > 2 /\ SubSeq(k, 1, 2) = "r:"
IsTag(k) == SubSeq(k, 1, 1) = "#"
TypeDefOf(P, k) == P.types[CHOOSE j \in 1..Len(P.types) : P.types[j].name = SubSeq(k, 3, Len(k))]
KnownKind(P, k) == k \in {"i", "s"} \/ \E j \in 1..Len(P.types) : Len(k) > 2 /\ P.types[j].name = SubSeq(k, 3, Len(k))
FieldKinds(P, k) == LET td == TypeDefOf(P, k) IN [j \in 1..Len(td.fields) |-> td.fields[j][2]]
\* the ADT and field kinds of a branch name (branch names are unique in a program)
BranchSites(P, b) == {<<i, j>> \in (1..Len(P.types)) \X (1..8) :
                         P.types[i].k = "adt" /\ j <= Len(P.types[i].branches) /\ P.types[i].branches[j].name = b}
BranchKnown(P, b) == BranchSites(P, b) # {}
BranchADT(P, b) == LET s == CHOOSE x \in BranchSites(P, b) : TRUE IN "a:" \o P.types[s[1]].name
BranchFields(P, b) == LET s == CHOOSE x \in BranchSites(P, b) : TRUE
                          fs == P.types[s[1]].branches[s[2]].fields
                      IN [j \in 1..Len(fs) |-> fs[j][2]]

StrOps == {"CAT", "SUBSTR", "I2S"}          \* result is a symbol
OpRes(op) == IF op \in StrOps THEN "s" ELSE "i"
OpArgs(op, n) == CASE op = "CAT"    -> [j \in 1..n |-> "s"]
                   [] op = "STRLEN" -> <<"s">>
                   [] op = "ORD"    -> <<"s">>
                   [] op = "S2I"    -> <<"s">>
                   [] op = "SUBSTR" -> <<"s", "i", "i">>
                   [] OTHER         -> [j \in 1..n |-> "i"]     \* arithmetic, bitwise, logical, min/max on numbers
OpArityOK(op, n) == CASE op \in {"STRLEN", "ORD", "S2I", "I2S", "NEG", "BNOT", "LNOT"} -> n = 1
                      [] op = "SUBSTR" -> n = 3
                      [] op \in {"CAT", "MAX", "MIN"} -> n >= 2
                      [] OTHER -> n = 2

\* constraints: <<"ex", term, kind>> (term occurs where kind is expected), <<"eq", l, r>> (both sides have one kind),
\*              <<"bad">> (a definite error found while collecting)
RECURSIVE TermCons(_, _)
TermCons(P, t) ==
    CASE t.k = "fn"  -> (IF OpArityOK(t.op, Len(t.a)) THEN <<>> ELSE << <<"bad">> >>) \o
                        Flat([j \in 1..Len(t.a) |->
                                (IF OpArityOK(t.op, Len(t.a)) THEN << <<"ex", t.a[j], OpArgs(t.op, Len(t.a))[j]>> >> ELSE <<>>)
                                \o TermCons(P, t.a[j])], 1)
      [] t.k = "rec" -> Flat([j \in 1..Len(t.a) |-> TermCons(P, t.a[j])], 1)
      [] t.k = "adt" -> IF ~BranchKnown(P, t.b) \/ Len(BranchFields(P, t.b)) # Len(t.a) THEN << <<"bad">> >>
                        ELSE Flat([j \in 1..Len(t.a) |-> << <<"ex", t.a[j], BranchFields(P, t.b)[j]>> >> \o TermCons(P, t.a[j])], 1)
      [] OTHER -> <<>>
AtomCons(P, a) ==
    IF a.rel \notin RelNames(P) \/ RelOf(P, a.rel).arity # Len(a.args) THEN << <<"bad">> >>
    ELSE Flat([j \in 1..Len(a.args) |-> << <<"ex", a.args[j], RelOf(P, a.rel).types[j]>> >> \o TermCons(P, a.args[j])], 1)
RECURSIVE LitsCons(_, _)
LitsCons(P, lits) ==
    Flat([i \in 1..Len(lits) |->
           LET l == lits[i] IN
           CASE l.k \in {"atom", "neg"} -> AtomCons(P, l)
             [] l.k = "cmp"   -> << <<"eq", l.l, l.r>> >> \o TermCons(P, l.l) \o TermCons(P, l.r)
             [] l.k = "range" -> << <<"ex", l.res, "i">> >> \o
                                 Flat([j \in 1..Len(l.a) |-> << <<"ex", l.a[j], "i">> >> \o TermCons(P, l.a[j])], 1)
             [] l.k = "agg"   -> << <<"ex", l.res, "i">> >> \o
                                 (IF l.op = "count" THEN <<>> ELSE << <<"ex", l.tgt, "i">> >> \o TermCons(P, l.tgt)) \o
                                 LitsCons(P, l.body)], 1)
ClauseCons(P, c) == AtomCons(P, c.head) \o LitsCons(P, c.body)

RECURSIVE AllVars(_)
AllVars(lits) == UNION { CASE lits[i].k \in {"atom", "neg"} -> ArgsVars(lits[i].args)
                           [] lits[i].k = "cmp"   -> TVars(lits[i].l) \cup TVars(lits[i].r)
                           [] lits[i].k = "range" -> TVars(lits[i].res) \cup ArgsVars(lits[i].a)
                           [] lits[i].k = "agg"   -> TVars(lits[i].res) \cup TVars(lits[i].tgt) \cup AllVars(lits[i].body)
                         : i \in 1..Len(lits) }

ArityTag(n) == "#" \o ToString(n)          \* pseudo-kind of an n-ary record constructor whose record type is not known
\* what is known about the kind of a term without context
KindsOf(P, t, env) == CASE t.k = "var" -> env.e[t.n]
                        [] t.k = "num" -> {"i"}
                        [] t.k = "str" -> {"s"}
                        [] t.k = "fn"  -> {OpRes(t.op)}
                        [] t.k = "adt" -> IF BranchKnown(P, t.b) THEN {BranchADT(P, t.b)} ELSE {}
                        [] t.k = "rec" -> {ArityTag(Len(t.a))}
                        [] OTHER -> {}
\* env: [e |-> variable -> set of kinds/tags, bad |-> BOOLEAN]
RECURSIVE Expect(_, _, _, _)
Expect(P, t, k, env) ==
    CASE t.k = "var" -> [env EXCEPT !.e[t.n] = @ \cup {k}]
      [] t.k = "any" -> env
      [] t.k = "num" -> IF k = "i" THEN env ELSE [env EXCEPT !.bad = TRUE]
      [] t.k = "str" -> IF k = "s" THEN env ELSE [env EXCEPT !.bad = TRUE]
      [] t.k = "nil" -> IF IsRecKind(k) \/ IsTag(k) THEN env ELSE [env EXCEPT !.bad = TRUE]
      [] t.k = "fn"  -> IF OpRes(t.op) = k THEN env ELSE [env EXCEPT !.bad = TRUE]
      [] t.k = "adt" -> IF BranchKnown(P, t.b) /\ BranchADT(P, t.b) = k THEN env ELSE [env EXCEPT !.bad = TRUE]
      [] t.k = "rec" -> IF k = ArityTag(Len(t.a)) THEN env
                        ELSE IF IsRecKind(k) /\ KnownKind(P, k) /\ TypeDefOf(P, k).k = "rec" /\ Len(FieldKinds(P, k)) = Len(t.a)
                        THEN LET fk == FieldKinds(P, k)
                                 RECURSIVE go(_, _)
                                 go(e, j) == IF j > Len(t.a) THEN e ELSE go(Expect(P, t.a[j], fk[j], e), j + 1)
                             IN go(env, 1)
                        ELSE [env EXCEPT !.bad = TRUE]
ExpectAll(P, t, ks, env) ==
    LET RECURSIVE go(_, _)
        go(e, S) == IF S = {} THEN e ELSE LET k == CHOOSE x \in S : TRUE IN go(Expect(P, t, k, e), S \ {k})
    IN go(env, ks)
ApplyCons(P, env, con) ==
    CASE con[1] = "bad" -> [env EXCEPT !.bad = TRUE]
      [] con[1] = "ex"  -> Expect(P, con[2], con[3], env)
      [] con[1] = "eq"  -> LET e1 == ExpectAll(P, con[3], KindsOf(P, con[2], env), env)
                           IN ExpectAll(P, con[2], KindsOf(P, con[3], e1), e1)
RECURSIVE SolveCons(_, _, _)
SolveCons(P, cons, env) ==
    LET RECURSIVE pass(_, _)
        pass(e, i) == IF i > Len(cons) THEN e ELSE pass(ApplyCons(P, e, cons[i]), i + 1)
        e2 == pass(env, 1)
    IN IF e2 = env THEN env ELSE SolveCons(P, cons, e2)
\* a set of kinds/tags is consistent: at most one kind, at most one arity tag, and the tag fits the record kind
Consistent(P, S) ==
    LET tags == {k \in S : IsTag(k)}  kinds == S \ tags IN
    /\ Cardinality(kinds) <= 1 /\ Cardinality(tags) <= 1
    /\ \A k \in kinds : KnownKind(P, k)
    /\ \A k \in kinds, t \in tags : IsRecKind(k) /\ TypeDefOf(P, k).k = "rec" /\ ArityTag(Len(FieldKinds(P, k))) = t
WellTyped(P, c) ==
    LET vs  == HeadVars(c) \cup AllVars(c.body)
        sol == SolveCons(P, ClauseCons(P, c), [e |-> [v \in vs |-> {}], bad |-> FALSE])
    IN ~sol.bad /\ \A v \in vs : Consistent(P, sol.e[v])

\* ===========================================================================
\*  verdict
\* ===========================================================================
AllGrounded(P) == \A i \in 1..Len(P.clauses) : Grounded(P.clauses[i])
AllTyped(P)    == \A i \in 1..Len(P.clauses) : WellTyped(P, P.clauses[i])
\* aggcycle: some clause is ungrounded because two aggregates feed each other (souffle: "Mutually dependent aggregate")
Why(P) == LET gi == [i \in 1..Len(P.clauses) |-> GroundInfo(P.clauses[i])] IN
          [stratifiable |-> Stratifiable(P), grounded |-> \A i \in 1..Len(P.clauses) : gi[i].ok, typed |-> AllTyped(P),
           aggcycle |-> \E i \in 1..Len(P.clauses) : gi[i].cyc, aggmutual |-> \E i \in 1..Len(P.clauses) : gi[i].mut]
Verdict(P) == LET w == Why(P) IN IF w.stratifiable /\ w.grounded /\ w.typed THEN "accept" ELSE "reject"
=============================================================================
