---------------------------- MODULE MC_InternAbs ----------------------------
(* Small-scope check that InternAbs says what C31 states, formulated over the results clients get back:        *)
(* hist = the returned results <<value, index, inserted, serial>> (history variable, bounded by MaxOps calls). *)
EXTENDS InternAbs
VARIABLES hist, calls
hvars == <<enc, dec, op, hist, calls>>
MaxOps == 5
HInit == AInit /\ hist = {} /\ calls = 0
HNext == \E t \in Threads :
            \/ /\ calls < MaxOps /\ \E v \in Values : Call(t, v)
               /\ calls' = calls + 1 /\ UNCHANGED hist
            \/ Lin(t) /\ UNCHANGED <<hist, calls>>
            \/ /\ Ret(t) /\ hist' = hist \cup {<<op[t].v, op[t].i, op[t].ins, Cardinality(hist)>>}
               /\ UNCHANGED calls
            \/ /\ calls = MaxOps /\ Quiescent /\ UNCHANGED hvars        \* finished
HSpec == HInit /\ [][HNext]_hvars /\ WF_hvars(HNext)

SameValueSameIndex == \A a, b \in hist : a[1] = b[1] => a[2] = b[2]
DiffValueDiffIndex == \A a, b \in hist : a[1] # b[1] => a[2] # b[2]
NilNeverReturned == \A a \in hist : a[2] \notin NilIndices
AtMostOneInserter == \A a, b \in hist : (a[1] = b[1] /\ a[3] /\ b[3]) => a = b
\* every returned reference decodes to the value that was encoded
DecodeEncode == \A a \in hist : CanFetch(a[2]) /\ FetchResult(a[2]) = a[1]
\* once all calls returned: exactly one "inserted" per distinct value, and a listing exists and has one entry per value
ExactlyOneInserter == (calls = MaxOps /\ Quiescent) =>
                          \A v \in {a[1] : a \in hist} : Cardinality({a \in hist : a[1] = v /\ a[3]}) = 1
ListingExists == Quiescent => \E xs \in [1..Cardinality(DOMAIN enc) -> (DOMAIN enc) \X Indices] : IsListing(xs)
\* non-vacuity: the table can hand out every non-nil index
=============================================================================
