CONSTANT Threads = {1, 2, 3}
CONSTANT Keys = {1, 2}
CONSTANT MaxOps = 2
SPECIFICATION MCSpec
INVARIANT SuccessAtMostOnce SubsetOfInserted UnionWhenQuiet
CHECK_DEADLOCK FALSE
