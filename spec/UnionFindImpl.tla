--------------------------- MODULE UnionFindImpl ---------------------------
(***************************************************************************)
(* Implementation-shaped specification of souffle's lock-free union-find   *)
(* (class DisjointSet, src/include/souffle/datastructure/UnionFind.h):     *)
(* findNode (path halving), updateRoot, unionNodes, sameSet.               *)
(*                                                                         *)
(* Every atomic load / compare-exchange of a block goes through            *)
(* DisjointSet::get, which carries the scheduling point "uf.get".  One     *)
(* action of this spec = one step of the cooperative scheduler = the       *)
(* access that follows the yield in `get`, plus the thread-local code up   *)
(* to the next yield.  The pc of a thread names the access it is parked    *)
(* in front of:                                                            *)
(*   next  operation boundary (driver yield "op"); Begin only sets up the  *)
(*         call and runs to the first get of findNode                      *)
(*   F1    while (x != b2p(get(x)))               load                     *)
(*   F2    block_t xState = get(x)                load                     *)
(*   F3    newParent = b2p(get(b2p(xState)))      load                     *)
(*   F4    get(x).compare_exchange_strong(xState, newState); x = newParent *)
(*   S2    if (b2p(get(x)) == x) return false     load (sameSet)           *)
(*   U2    xrank = b2r(get(x))                    load (unionNodes)        *)
(*   U3    yrank = b2r(get(y)); swap              load                     *)
(*   U4    updateRoot(x..): oldState = get(x)     load + root/rank check   *)
(*   U5    get(x).compare_exchange_strong(..)     CAS  (the link)          *)
(*   U6    updateRoot(y, yrank, y, yrank+1): load                          *)
(*   U7    CAS (rank bump)                                                 *)
(*                                                                         *)
(* Variant = "written"  : unionNodes links with updateRoot(x,xrank,y,yrank)*)
(*                        (the child's block receives the PARENT's rank)   *)
(* Variant = "textbook" : updateRoot(x, xrank, y, xrank) (child keeps its  *)
(*                        own rank).                                       *)
(* Which variant /repo implements is NOT assumed anywhere: vf/props/c29.py *)
(* decides it at run time by replay conformance of the real object.        *)
(*                                                                         *)
(* A behaviour starts from a configuration conf = [setup, prog]: thread 0  *)
(* runs the set-up operations alone (sequential pre-history), then the     *)
(* worker threads 1..NT run prog[t] under every interleaving.              *)
(* Operations are <<"u",a,b>> (unionNodes), <<"s",a,b>> (sameSet),         *)
(* <<"f",a,a>> (findNode).                                                 *)
(***************************************************************************)
EXTENDS Integers, Sequences, FiniteSets, TLC

CONSTANTS N,            \* nodes 0..N-1
          NT,           \* number of worker threads
          Variant,      \* "written" | "textbook"
          ConfigSpace   \* set of [setup |-> Seq(op), prog |-> [1..NT -> Seq(op)]]; every element is an initial state
ASSUME Variant \in {"written", "textbook"}

Node == 0..N-1
Threads == 0..NT
Blk(p, r) == [p |-> p, r |-> r]

VARIABLES conf,      \* the configuration of this behaviour (never changes)
          block,     \* the shared array: Node -> [p: parent, r: rank]
          pc, ip,    \* per thread: parked-at label, index of the current operation
          x, y,      \* per thread: unionNodes/sameSet/findNode locals
          xs,        \* findNode: xState
          np,        \* findNode: newParent
          xr, yr,    \* unionNodes: xrank, yrank
          old,       \* updateRoot: oldState
          ret,       \* which findNode call is running: "X" (first argument) or "Y"
          res,       \* result of the last completed operation (visible on return)
          callSame   \* ghost: were the two arguments in the same set when the operation was called
vars == <<conf, block, pc, ip, x, y, xs, np, xr, yr, old, ret, res, callSame>>

\* ---------------------------------------------------------------- partition read off the array
RECURSIVE Up(_, _, _)
Up(bl, n, k) == IF bl[n].p = n THEN n ELSE IF k = 0 THEN -1 ELSE Up(bl, bl[n].p, k - 1)
RootOf(bl, n) == Up(bl, n, N)                      \* -1: no root within N links = a cycle
Acyclic == \A n \in Node : RootOf(block, n) # -1   \* the only cycles are roots pointing to themselves
Same(bl, a, b) == RootOf(bl, a) = RootOf(bl, b)

\* ---------------------------------------------------------------- programs
Code(t) == IF t = 0 THEN conf.setup ELSE conf.prog[t]
Op(t) == IF ip[t] <= Len(Code(t)) THEN Code(t)[ip[t]] ELSE <<"done", 0, 0>>
Kind(t) == Op(t)[1]
SetupDone == ip[0] > Len(conf.setup)
Runnable(t) == t = 0 \/ SetupDone

Init == /\ conf \in ConfigSpace
        /\ block = [n \in Node |-> Blk(n, 0)]
        /\ pc = [t \in Threads |-> "next"] /\ ip = [t \in Threads |-> 1]
        /\ x = [t \in Threads |-> 0] /\ y = [t \in Threads |-> 0]
        /\ xs = [t \in Threads |-> Blk(0, 0)] /\ np = [t \in Threads |-> 0]
        /\ xr = [t \in Threads |-> 0] /\ yr = [t \in Threads |-> 0]
        /\ old = [t \in Threads |-> Blk(0, 0)]
        /\ ret = [t \in Threads |-> "X"] /\ res = [t \in Threads |-> "none"]
        /\ callSame = [t \in Threads |-> FALSE]

Set(v, t, val) == [v EXCEPT ![t] = val]
Goto(t, l) == pc' = Set(pc, t, l)
\* the call returns r; the driver records it and parks at the next operation boundary
Return(t, r) == /\ res' = Set(res, t, r) /\ ip' = Set(ip, t, ip[t] + 1) /\ Goto(t, "next")
\* `continue` of the while(true) loops of unionNodes / sameSet: x = findNode(x) again
Retry(t) == ret' = Set(ret, t, "X") /\ Goto(t, "F1")

\* operation boundary -> first get of findNode(first argument); no shared access
Begin(t) == /\ pc[t] = "next" /\ Kind(t) # "done" /\ Runnable(t)
            /\ x' = Set(x, t, Op(t)[2]) /\ y' = Set(y, t, Op(t)[3])
            /\ callSame' = Set(callSame, t, Same(block, Op(t)[2], Op(t)[3]))
            /\ ret' = Set(ret, t, "X") /\ Goto(t, "F1")
            /\ UNCHANGED <<conf, block, ip, xs, np, xr, yr, old, res>>

\* ---------------------------------------------------------------- findNode(cur)
Cur(t) == IF ret[t] = "X" THEN x[t] ELSE y[t]
F1(t) == /\ pc[t] = "F1"
         /\ IF block[Cur(t)].p # Cur(t)
              THEN Goto(t, "F2") /\ UNCHANGED <<ret, res, ip>>
              ELSE \* findNode returns Cur(t) (already stored in x / y); run the caller up to its next get
                   CASE Kind(t) = "f" -> Return(t, ToString(Cur(t))) /\ UNCHANGED ret
                     [] Kind(t) # "f" /\ ret[t] = "X" -> ret' = Set(ret, t, "Y") /\ UNCHANGED <<pc, res, ip>>
                     [] Kind(t) # "f" /\ ret[t] = "Y" ->
                          IF x[t] = y[t]
                            THEN Return(t, IF Kind(t) = "s" THEN "T" ELSE "u") /\ UNCHANGED ret
                            ELSE Goto(t, IF Kind(t) = "s" THEN "S2" ELSE "U2") /\ UNCHANGED <<ret, res, ip>>
         /\ UNCHANGED <<conf, block, x, y, xs, np, xr, yr, old, callSame>>
F2(t) == /\ pc[t] = "F2" /\ xs' = Set(xs, t, block[Cur(t)]) /\ Goto(t, "F3")
         /\ UNCHANGED <<conf, block, ip, x, y, np, xr, yr, old, ret, res, callSame>>
F3(t) == /\ pc[t] = "F3" /\ np' = Set(np, t, block[xs[t].p].p) /\ Goto(t, "F4")
         /\ UNCHANGED <<conf, block, ip, x, y, xs, xr, yr, old, ret, res, callSame>>
F4(t) == /\ pc[t] = "F4"
         /\ block' = IF block[Cur(t)] = xs[t] THEN [block EXCEPT ![Cur(t)] = Blk(np[t], xs[t].r)] ELSE block
         /\ IF ret[t] = "X" THEN x' = Set(x, t, np[t]) /\ UNCHANGED y ELSE y' = Set(y, t, np[t]) /\ UNCHANGED x
         /\ Goto(t, "F1")
         /\ UNCHANGED <<conf, ip, xs, np, xr, yr, old, ret, res, callSame>>

\* ---------------------------------------------------------------- sameSet tail
S2(t) == /\ pc[t] = "S2"
         /\ IF block[x[t]].p = x[t] THEN Return(t, "F") /\ UNCHANGED ret ELSE Retry(t) /\ UNCHANGED <<res, ip>>
         /\ UNCHANGED <<conf, block, x, y, xs, np, xr, yr, old, callSame>>

\* ---------------------------------------------------------------- unionNodes tail
U2(t) == /\ pc[t] = "U2" /\ xr' = Set(xr, t, block[x[t]].r) /\ Goto(t, "U3")
         /\ UNCHANGED <<conf, block, ip, x, y, xs, np, yr, old, ret, res, callSame>>
U3(t) == /\ pc[t] = "U3"
         /\ LET yrv == block[y[t]].r IN
            IF xr[t] > yrv \/ (xr[t] = yrv /\ x[t] > y[t])
              THEN /\ x' = Set(x, t, y[t]) /\ y' = Set(y, t, x[t]) /\ xr' = Set(xr, t, yrv) /\ yr' = Set(yr, t, xr[t])
              ELSE /\ yr' = Set(yr, t, yrv) /\ UNCHANGED <<x, y, xr>>
         /\ Goto(t, "U4")
         /\ UNCHANGED <<conf, block, ip, xs, np, old, ret, res, callSame>>
U4(t) == /\ pc[t] = "U4" /\ old' = Set(old, t, block[x[t]])
         /\ IF block[x[t]].p # x[t] \/ block[x[t]].r # xr[t]
              THEN Retry(t)                                   \* updateRoot returns false: continue
              ELSE Goto(t, "U5") /\ UNCHANGED ret
         /\ UNCHANGED <<conf, block, ip, x, y, xs, np, xr, yr, res, callSame>>
U5(t) == /\ pc[t] = "U5"
         /\ IF block[x[t]] = old[t]
              THEN /\ block' = [block EXCEPT ![x[t]] = Blk(y[t], IF Variant = "textbook" THEN xr[t] ELSE yr[t])]
                   /\ IF xr[t] = yr[t] THEN Goto(t, "U6") /\ UNCHANGED <<res, ip>> ELSE Return(t, "u")
                   /\ UNCHANGED ret
              ELSE /\ Retry(t) /\ UNCHANGED <<block, res, ip>>
         /\ UNCHANGED <<conf, x, y, xs, np, xr, yr, old, callSame>>
U6(t) == /\ pc[t] = "U6" /\ old' = Set(old, t, block[y[t]])
         /\ IF block[y[t]].p # y[t] \/ block[y[t]].r # yr[t] THEN Return(t, "u") ELSE Goto(t, "U7") /\ UNCHANGED <<res, ip>>
         /\ UNCHANGED <<conf, block, x, y, xs, np, xr, yr, ret, callSame>>
U7(t) == /\ pc[t] = "U7"
         /\ block' = IF block[y[t]] = old[t] THEN [block EXCEPT ![y[t]] = Blk(y[t], yr[t] + 1)] ELSE block
         /\ Return(t, "u")
         /\ UNCHANGED <<conf, x, y, xs, np, xr, yr, old, ret, callSame>>

Step(t) == Begin(t) \/ F1(t) \/ F2(t) \/ F3(t) \/ F4(t) \/ S2(t) \/ U2(t) \/ U3(t) \/ U4(t) \/ U5(t) \/ U6(t) \/ U7(t)
Next == \E t \in Threads : Step(t)
Spec == Init /\ [][Next]_vars
FairSpec == Spec /\ \A t \in Threads : WF_vars(Step(t))

\* ---------------------------------------------------------------- properties (C29)
AllDone == \A t \in Threads : Kind(t) = "done"
\* closure of a set of requested unions as a canonical representative function (least member of the class)
Merge(rep, a, b) == IF rep[a] = rep[b] THEN rep
                    ELSE LET lo == IF rep[a] < rep[b] THEN rep[a] ELSE rep[b]
                             hi == IF rep[a] < rep[b] THEN rep[b] ELSE rep[a]
                         IN [n \in Node |-> IF rep[n] = hi THEN lo ELSE rep[n]]
RECURSIVE MergeAll(_, _)
MergeAll(rep, E) == IF E = {} THEN rep
                    ELSE LET e == CHOOSE e \in E : TRUE IN MergeAll(Merge(rep, e[1], e[2]), E \ {e})
ClosureRep(E) == MergeAll([n \in Node |-> n], E)
UnionsIn(t, k) == {<<Code(t)[i][2], Code(t)[i][3]>> : i \in {j \in 1..k : Code(t)[j][1] = "u"}}
Completed == UNION {UnionsIn(t, ip[t] - 1) : t \in Threads}                                   \* unions that returned
Called == UNION {UnionsIn(t, IF pc[t] = "next" THEN ip[t] - 1 ELSE ip[t]) : t \in Threads}    \* unions that were called
Requested == UNION {UnionsIn(t, Len(Code(t))) : t \in Threads}
Roots == [n \in Node |-> RootOf(block, n)]

TypeOK == /\ block \in [Node -> [p : Node, r : 0..N]]
          /\ pc \in [Threads -> {"next", "F1", "F2", "F3", "F4", "S2", "U2", "U3", "U4", "U5", "U6", "U7"}]
          /\ \A t \in Threads : x[t] \in Node /\ y[t] \in Node /\ np[t] \in Node /\ ip[t] \in 1..Len(Code(t)) + 1
\* a union that has returned stays in force (nothing is ever lost); Same is an equivalence on an acyclic array
UnionsHold == Acyclic => \A e \in Completed : Same(block, e[1], e[2])
\* nothing is merged that was not requested by a union already called
NoSpurious == Acyclic => LET c == ClosureRep(Called)  rt == Roots
                         IN \A a, b \in Node : rt[a] = rt[b] => c[a] = c[b]
\* the final partition is exactly the closure of the requested unions
FinalPartition == AllDone => /\ Acyclic
                             /\ LET c == ClosureRep(Requested)  rt == Roots
                                IN \A a, b \in Node : rt[a] = rt[b] <=> c[a] = c[b]
\* sets only grow, so "the answer is correct at some instant during the call" is: true => same set at the return,
\* false => different sets at the call.  Checked in the state right after the return.
JustReturned(t, k) == pc[t] = "next" /\ ip[t] > 1 /\ Code(t)[ip[t] - 1][1] = k
SameSetSound == \A t \in Threads : JustReturned(t, "s") =>
                   LET o == Code(t)[ip[t] - 1] IN
                   /\ res[t] = "T" => (Acyclic => Same(block, o[2], o[3]))
                   /\ res[t] = "F" => ~callSame[t]
FindSound == \A t \in Threads : JustReturned(t, "f") =>
                \E n \in Node : res[t] = ToString(n) /\ (Acyclic => Same(block, n, Code(t)[ip[t] - 1][2]))
\* textbook variant only: ranks never decrease towards the root (why the forest stays acyclic)
RankMonotone == \A n \in Node : block[n].p # n => block[n].r <= block[block[n].p].r
Termination == <>AllDone
=============================================================================
