------------------------------ MODULE MC_Static ------------------------------
(***************************************************************************)
(* TLC enumerates the program families of C13, one program per initial     *)
(* state, and prints each program with the verdict of Static.tla as one    *)
(* JSON line.  StaticData (generated) selects the families:                *)
(*   G2        BOOLEAN  all 4^4 precedence graphs over 2 relations, both   *)
(*                      renderings                                         *)
(*   G3Range   <<lo,hi>> and G3List <<ids>>: precedence graphs over 3      *)
(*             relations (id = base-4 digits = label of edge s->t at digit *)
(*             3*(s-1)+(t-1)); G3Both: both renderings, else one chosen by *)
(*             the digit sum; G3Canon: of the range keep only the least id *)
(*             of every class of graphs equal up to renaming the relations *)
(*   Shapes    BOOLEAN  all clause shapes: a head over a non-empty subset  *)
(*             of {x,y,z} and 1..3 body literals of the alphabet ShapeLits *)
(*   GenPrograms  seq of generator programs (vf/gen.py), each possibly     *)
(*             with one defect injected by the glue                        *)
(* Edge labels: 0 none, 1 positive atom, 2 negated atom, 3 aggregate.      *)
(***************************************************************************)
EXTENDS Static, Json, StaticData

V(n)  == [k |-> "var", n |-> n]
Num(v) == [k |-> "num", v |-> v]
Str(v) == [k |-> "str", v |-> v]
AnyT   == [k |-> "any"]
Nil   == [k |-> "nil"]
Rec(as) == [k |-> "rec", a |-> as]
Fn(op, as) == [k |-> "fn", op |-> op, a |-> as]
Atom(r, as) == [k |-> "atom", rel |-> r, args |-> as]
Neg(r, as)  == [k |-> "neg", rel |-> r, args |-> as]
Cmp(op, l, r) == [k |-> "cmp", op |-> op, l |-> l, r |-> r]
Count(res, body) == [k |-> "agg", op |-> "count", res |-> res, tgt |-> Nil, body |-> body, outer |-> <<>>]
HeadA(r, as) == [rel |-> r, args |-> as]
Fact(r, as) == [head |-> HeadA(r, as), body |-> <<>>]
Rule(h, b)  == [head |-> h, body |-> b]
Rel(name, types, out) == [name |-> name, arity |-> Len(types), types |-> types, input |-> FALSE, output |-> out, eqrel |-> FALSE]

\* ---- (i) precedence graphs ------------------------------------------------------------------------------------
Pow4 == <<1, 4, 16, 64, 256, 1024, 4096, 16384, 65536, 262144>>
RName(i) == "r" \o ToString(i)
Lab(g, n, s, t) == (g \div Pow4[n * (s - 1) + (t - 1) + 1]) % 4
DigitSum(g, n) == LET RECURSIVE go(_) go(k) == IF k > n * n THEN 0 ELSE ((g \div Pow4[k]) % 4) + go(k + 1) IN go(1)
AutoMode(g, n) == IF DigitSum(g, n) % 2 = 0 THEN "split" ELSE "bundle"
\* renaming the three relations by a permutation pi maps graph g to the graph whose edge pi[s]->pi[t] carries the label of s->t;
\* a graph is canonical when it has the least id of its isomorphism class
Perms3 == {<<1, 2, 3>>, <<1, 3, 2>>, <<2, 1, 3>>, <<2, 3, 1>>, <<3, 1, 2>>, <<3, 2, 1>>}
PermId(g, pi) == LET RECURSIVE go(_) go(e) == IF e > 9 THEN 0 ELSE
                         LET s1 == ((e - 1) \div 3) + 1  t1 == ((e - 1) % 3) + 1
                         IN Lab(g, 3, s1, t1) * Pow4[3 * (pi[s1] - 1) + (pi[t1] - 1) + 1] + go(e + 1)
                 IN go(1)
IsCanonical(g) == \A pi \in Perms3 : PermId(g, pi) >= g
EdgeLit(s, lab, mode) ==
    CASE lab = 1 -> Atom(RName(s), <<V("x")>>)
      [] lab = 2 -> Neg(RName(s), <<V("x")>>)
      [] lab = 3 -> Count(V("c" \o ToString(s)), <<Atom(RName(s), <<IF mode = "bundle" THEN V("x") ELSE AnyT>>)>>)
Incoming(g, n, t, mode) == Flat([s \in 1..n |-> IF Lab(g, n, s, t) = 0 THEN <<>> ELSE <<EdgeLit(s, Lab(g, n, s, t), mode)>>], 1)
GClauses(g, n, t, mode) ==
    LET lits == Incoming(g, n, t, mode)
        h == HeadA(RName(t), <<V("x")>>)
        base == Atom("e", <<V("x")>>)
    IN IF lits = <<>> THEN <<Rule(h, <<base>>)>>
       ELSE IF mode = "bundle" THEN <<Rule(h, <<base>> \o lits)>>
       ELSE [j \in 1..Len(lits) |-> Rule(h, <<base, lits[j]>>)]
GraphProg(g, n, mode) ==
    [types |-> <<>>,
     rels |-> <<Rel("e", <<"i">>, FALSE)>> \o [t \in 1..n |-> Rel(RName(t), <<"i">>, TRUE)],
     clauses |-> <<Fact("e", <<Num(1)>>), Fact("e", <<Num(2)>>)>> \o Flat([t \in 1..n |-> GClauses(g, n, t, mode)], 1)]

\* ---- (ii) clause shapes ---------------------------------------------------------------------------------------
X == V("x")  Y == V("y")  Z == V("z")
ShapeLits == << Atom("e", <<X>>),                                   \* 1  e(x)
                Atom("e", <<Y>>),                                   \* 2  e(y)
                Atom("f", <<X, Y>>),                                \* 3  f(x,y)
                Atom("g", <<Z>>),                                   \* 4  g(z)
                Neg("e", <<X>>),                                    \* 5  !e(x)
                Neg("f", <<X, Y>>),                                 \* 6  !f(x,y)
                Cmp("EQ", X, Y),                                    \* 7  x = y
                Cmp("EQ", X, Num(1)),                               \* 8  x = 1
                Cmp("LT", X, Y),                                    \* 9  x < y
                Cmp("EQ", X, Fn("ADD", <<Y, Num(1)>>)),             \* 10 x = y + 1
                Cmp("EQ", Z, Rec(<<X, Y>>)),                        \* 11 z = [x,y]
                Count(Y, <<Atom("f", <<X, AnyT>>)>>),                \* 12 y = count : { f(x,_) }
                Atom("sy", <<Y>>),                                  \* 13 sy(y)        (y used as a symbol)
                Cmp("EQ", Z, Rec(<<X>>)),                           \* 14 z = [x]      (record of the wrong arity)
                Count(X, <<Atom("f", <<Y, AnyT>>)>>) >>              \* 15 x = count : { f(y,_) }
ShapeHeads == << <<"x">>, <<"y">>, <<"z">>, <<"x", "y">>, <<"x", "z">>, <<"y", "z">>, <<"x", "y", "z">> >>
VarKind(v) == IF v = "z" THEN "r:R" ELSE "i"
ShapeSets == {T \in SUBSET (1..Len(ShapeLits)) : Cardinality(T) \in 1..3}
ShapeProg(hi, T) ==
    LET hv == ShapeHeads[hi]
        idx == [i \in 1..Len(ShapeLits) |-> i]
        body == LET sel == SelectSeq(idx, LAMBDA i : i \in T) IN [j \in 1..Len(sel) |-> ShapeLits[sel[j]]]
    IN [types |-> << [k |-> "rec", name |-> "R", fields |-> << <<"a", "i">>, <<"b", "i">> >>] >>,
        rels |-> << Rel("e", <<"i">>, FALSE), Rel("f", <<"i", "i">>, FALSE), Rel("g", <<"r:R">>, FALSE),
                    Rel("sy", <<"s">>, FALSE), Rel("h", [j \in 1..Len(hv) |-> VarKind(hv[j])], TRUE) >>,
        clauses |-> << Fact("e", <<Num(1)>>), Fact("e", <<Num(2)>>), Fact("f", <<Num(1), Num(2)>>),
                       Fact("g", <<Rec(<<Num(1), Num(2)>>)>>), Fact("sy", <<Str("a")>>),
                       Rule(HeadA("h", [j \in 1..Len(hv) |-> V(hv[j])]), body) >>]

\* ---- the enumeration ------------------------------------------------------------------------------------------
VARIABLES fam, a, m, S
vars == <<fam, a, m, S>>
Init == \/ G2 /\ fam = "g2" /\ a \in 0..255 /\ m \in {"split", "bundle"} /\ S = {}
        \/ /\ fam = "g3" /\ S = {}
           /\ a \in {x \in G3Range[1]..G3Range[2] : ~G3Canon \/ IsCanonical(x)} \cup SeqSet(G3List)
           /\ m \in (IF G3Both THEN {"split", "bundle"} ELSE {AutoMode(a, 3)})
        \/ Shapes /\ fam = "shape" /\ a \in 1..Len(ShapeHeads) /\ m = "-" /\ S \in ShapeSets
        \/ fam = "gen" /\ a \in 1..Len(GenPrograms) /\ m = "-" /\ S = {}
Next == UNCHANGED vars
Spec == Init /\ [][Next]_vars
Prog == CASE fam = "g2" -> GraphProg(a, 2, m)
          [] fam = "g3" -> GraphProg(a, 3, m)
          [] fam = "shape" -> ShapeProg(a, S)
          [] fam = "gen" -> GenPrograms[a]
Emit == LET P == Prog
            w == Why(P)                     \* Verdict(P) is "accept" iff all three hold; computed once
            v == IF w.stratifiable /\ w.grounded /\ w.typed THEN "accept" ELSE "reject"
        IN IF fam = "gen"
           THEN PrintT(ToJson([tag |-> "PROG", fam |-> fam, a |-> a, m |-> m, s |-> S, verdict |-> v, why |-> w]))
           ELSE PrintT(ToJson([tag |-> "PROG", fam |-> fam, a |-> a, m |-> m, s |-> S, verdict |-> v, why |-> w, prog |-> P]))
=============================================================================
