CONSTANTS N = 4  NT = 3  Variant = "textbook"
CONSTANT ConfigSpace <- Space
SPECIFICATION Spec
INVARIANT TypeOK Acyclic UnionsHold NoSpurious FinalPartition SameSetSound FindSound RankMonotone
CHECK_DEADLOCK FALSE
