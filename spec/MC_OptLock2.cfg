CONSTANT Clients = {1, 2}
CONSTANT ProgSpace <- PS2
SPECIFICATION FairSpec
INVARIANT TypeOK MutualExclusion OddIffHeld ValidateSound VersionCounts
PROPERTY AbortRestores Termination Progress
CHECK_DEADLOCK FALSE
