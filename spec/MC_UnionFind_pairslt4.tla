---- MODULE MC_UnionFind_pairslt4 ----
EXTENDS MC_UnionFind
Space == PairsLt(4)
====
