------------------------------ MODULE BTreeSeq ------------------------------
(***************************************************************************)
(* Deterministic *structural* specification of souffle's deletable B-tree  *)
(* (BTreeDelete.h, btree_delete_set) for sequential histories: the exact   *)
(* node layout after insert (split / rebalance into the left sibling /     *)
(* grow_parent / insert_inner) and erase (swap with predecessor, merge     *)
(* with the right or into the left sibling, rebalance from a sibling, root *)
(* collapse), transcribed from the code.                                   *)
(*                                                                         *)
(* State:   tree  nested value  [k |-> <<keys>>, c |-> <<subtrees>>]       *)
(*                (c = <<>> for a leaf; Empty = no root node)              *)
(*          last  [op, key, res] of the last operation                     *)
(* An operation loads `tree` into a heap of nodes with parent / position   *)
(* fields (ids in pre-order), runs the pointer algorithm of the code on    *)
(* it functionally, and unloads the heap again; so equal shapes are equal  *)
(* states whatever the allocation history.                                 *)
(* Indices follow the C++ code (0-based): Key(nd,i), Kid(nd,i).            *)
(***************************************************************************)
EXTENDS Integers, Sequences, FiniteSets
CONSTANTS Keys,      \* keys used by the model
          M          \* node::maxKeys (3 for the smallest block size)
VARIABLES tree, last

MinOf(a, b) == IF a < b THEN a ELSE b
SP == MinOf((3 * M) \div 4, M - 2)            \* node::split_point
MinKeys == MinOf(M - (SP + 1), SP + 1)        \* node::minKeys
Empty == [k |-> <<>>, c |-> <<>>]

(* ------------------------------ the heap -------------------------------- *)
\* heap = sequence of nodes, id = index; st = [h |-> heap, root |-> id or 0]
Node(inner, keys, kids, parent, pos) == [inner |-> inner, keys |-> keys, kids |-> kids, parent |-> parent, pos |-> pos]
N(nd) == Len(nd.keys)                         \* numElements
Key(nd, i) == nd.keys[i + 1]
Kid(nd, i) == nd.kids[i + 1]

RECURSIVE Load(_, _, _, _), LoadKids(_, _, _, _)
Load(h, t, parent, pos) ==
    LET id == Len(h) + 1
        h1 == Append(h, Node(t.c # <<>>, t.k, <<>>, parent, pos))
    IN IF t.c = <<>> THEN h1 ELSE LoadKids(h1, id, t.c, 1)
LoadKids(h, id, cs, i) ==
    IF i > Len(cs) THEN h
    ELSE LET cid == Len(h) + 1
             h1 == Load(h, cs[i], id, i - 1)
         IN LoadKids([h1 EXCEPT ![id].kids = Append(@, cid)], id, cs, i + 1)
ToHeap(t) == IF t = Empty THEN [h |-> <<>>, root |-> 0] ELSE [h |-> Load(<<>>, t, 0, 0), root |-> 1]

RECURSIVE Unload(_, _), UnloadKids(_, _)
Unload(h, id) == [k |-> h[id].keys, c |-> UnloadKids(h, h[id].kids)]
UnloadKids(h, kids) == IF kids = <<>> THEN <<>> ELSE <<Unload(h, Head(kids))>> \o UnloadKids(h, Tail(kids))
FromHeap(st) == IF st.root = 0 THEN Empty ELSE Unload(st.h, st.root)

\* the children of node id get parent = id and position = their index (the code updates exactly the moved ones).
\* SubSeq(.., 1, Len) only makes TLC build the sequence now instead of stacking lazy function layers.
Reparent(h, id) ==
    LET kids == h[id].kids
        f == [j \in 1..Len(h) |->
                IF \E i \in 1..Len(kids) : kids[i] = j
                THEN [h[j] EXCEPT !.parent = id, !.pos = (CHOOSE i \in 1..Len(kids) : kids[i] = j) - 1]
                ELSE h[j]]
    IN SubSeq(f, 1, Len(h))
InsAt(s, i, x) == SubSeq(s, 1, i) \o <<x>> \o SubSeq(s, i + 1, Len(s))          \* insert at 0-based index i
DelAt(s, i) == SubSeq(s, 1, i) \o SubSeq(s, i + 2, Len(s))                       \* delete 0-based index i
LowerIdx(keys, k) == Cardinality({i \in 1..Len(keys) : keys[i] < k})              \* search.lower_bound - a
UpperIdx(keys, k) == Cardinality({i \in 1..Len(keys) : keys[i] <= k})             \* search.upper_bound - a

(* ------------------------------- insert --------------------------------- *)
RECURSIVE RebalanceOrSplit(_, _, _), Split(_, _), InsertInner(_, _, _, _, _)

\* node::insert_inner -- place (key, newNode) right of child `pos` of inner node pid
Place(st, pid, pos, key, newNode) ==
    LET p == st.h[pid]
        h1 == [st.h EXCEPT ![pid].keys = InsAt(p.keys, pos, key), ![pid].kids = InsAt(p.kids, pos + 1, newNode)]
    IN [st EXCEPT !.h = Reparent(h1, pid)]
InsertInner(st, pid, pos, key, newNode) ==
    IF N(st.h[pid]) >= M
    THEN LET r == RebalanceOrSplit(st, pid, pos)
             pos2 == pos - r.moved
             p2 == r.st.h[pid]
         IN IF pos2 > N(p2)
            THEN \* complete the insertion within the new sibling
                 LET other == Kid(r.st.h[p2.parent], p2.pos + 1)
                 IN InsertInner(r.st, other, pos2 - N(p2) - 1, key, newNode)
            ELSE Place(r.st, pid, pos2, key, newNode)
    ELSE Place(st, pid, pos, key, newNode)

\* node::split + grow_parent
Split(st, id) ==
    LET nd == st.h[id]
        sid == Len(st.h) + 1
        sib == Node(nd.inner, SubSeq(nd.keys, SP + 2, M), IF nd.inner THEN SubSeq(nd.kids, SP + 2, M + 1) ELSE <<>>, 0, 0)
        sep == Key(nd, SP)
        h1 == Append([st.h EXCEPT ![id].keys = SubSeq(nd.keys, 1, SP),
                                  ![id].kids = IF nd.inner THEN SubSeq(nd.kids, 1, SP + 1) ELSE <<>>], sib)
        h2 == Reparent(h1, sid)
    IN IF nd.parent = 0
       THEN \* create a new root node
            LET rid == sid + 1
                h3 == Append(h2, Node(TRUE, <<sep>>, <<id, sid>>, 0, 0))
            IN [h |-> Reparent(h3, rid), root |-> rid]
       ELSE InsertInner([st EXCEPT !.h = h2], nd.parent, nd.pos, sep, sid)

\* node::rebalance_or_split -- returns the new state and the number of keys moved to the left sibling (0 = split)
RebalanceOrSplit(st, id, idx) ==
    LET nd == st.h[id]
    IN IF nd.parent # 0 /\ nd.pos > 0
       THEN LET pid == nd.parent
                p == st.h[pid]
                lid == Kid(p, nd.pos - 1)
                left == st.h[lid]
                num == MinOf(M - N(left), idx)
            IN IF num > 0
               THEN LET h1 == [st.h EXCEPT
                                 ![lid].keys = left.keys \o <<Key(p, nd.pos - 1)>> \o SubSeq(nd.keys, 1, num - 1),
                                 ![lid].kids = IF nd.inner THEN left.kids \o SubSeq(nd.kids, 1, num) ELSE <<>>,
                                 ![pid].keys = [p.keys EXCEPT ![nd.pos] = Key(nd, num - 1)],
                                 ![id].keys = SubSeq(nd.keys, num + 1, N(nd)),
                                 ![id].kids = IF nd.inner THEN SubSeq(nd.kids, num + 1, N(nd) + 1) ELSE <<>>]
                    IN [st |-> [st EXCEPT !.h = Reparent(Reparent(h1, lid), id)], moved |-> num]
               ELSE [st |-> Split(st, id), moved |-> 0]
       ELSE [st |-> Split(st, id), moved |-> 0]

LeafPut(st, id, idx, k) == [st EXCEPT !.h[id].keys = InsAt(@, idx, k)]

RECURSIVE Descend(_, _, _)
Descend(st, cur, k) ==
    LET nd == st.h[cur]
    IN IF nd.inner
       THEN LET idx == LowerIdx(nd.keys, k)
            IN IF idx < N(nd) /\ Key(nd, idx) = k THEN [st |-> st, res |-> FALSE]
               ELSE Descend(st, Kid(nd, idx), k)
       ELSE LET idx == UpperIdx(nd.keys, k)
            IN IF idx > 0 /\ Key(nd, idx - 1) = k THEN [st |-> st, res |-> FALSE]
               ELSE IF N(nd) >= M
               THEN LET r == RebalanceOrSplit(st, cur, idx)
                        idx2 == idx - r.moved
                        nd2 == r.st.h[cur]
                    IN IF idx2 > N(nd2)
                       THEN \* insert element in right fragment
                            [st |-> LeafPut(r.st, Kid(r.st.h[nd2.parent], nd2.pos + 1), idx2 - N(nd2) - 1, k), res |-> TRUE]
                       ELSE [st |-> LeafPut(r.st, cur, idx2, k), res |-> TRUE]
               ELSE [st |-> LeafPut(st, cur, idx, k), res |-> TRUE]

InsertOp(t, k) ==
    IF t = Empty THEN [t |-> [k |-> <<k>>, c |-> <<>>], res |-> TRUE]
    ELSE LET st == ToHeap(t)
             r == Descend(st, st.root, k)
         IN [t |-> FromHeap(r.st), res |-> r.res]

(* -------------------------------- erase --------------------------------- *)
\* btree_delete::merge -- right is destroyed
Merge(st, lid, rid) ==
    LET l == st.h[lid]
        r == st.h[rid]
        pid == l.parent
        p == st.h[pid]
        h1 == [st.h EXCEPT ![lid].keys = l.keys \o <<Key(p, l.pos)>> \o r.keys,
                           ![lid].kids = l.kids \o r.kids,
                           ![pid].keys = DelAt(p.keys, l.pos),
                           ![pid].kids = DelAt(p.kids, l.pos + 1)]
    IN [st EXCEPT !.h = Reparent(Reparent(h1, pid), lid)]

RebalanceFromRight(st, lid, rid) ==
    LET l == st.h[lid]
        r == st.h[rid]
        pid == l.parent
        p == st.h[pid]
        mv == (N(r) - MinKeys) \div 2 + 1
        h1 == [st.h EXCEPT ![lid].keys = l.keys \o <<Key(p, l.pos)>> \o SubSeq(r.keys, 1, mv - 1),
                           ![pid].keys = [p.keys EXCEPT ![l.pos + 1] = Key(r, mv - 1)],
                           ![rid].keys = SubSeq(r.keys, mv + 1, N(r)),
                           ![lid].kids = IF l.inner THEN l.kids \o SubSeq(r.kids, 1, mv) ELSE <<>>,
                           ![rid].kids = IF l.inner THEN SubSeq(r.kids, mv + 1, N(r) + 1) ELSE <<>>]
    IN [st EXCEPT !.h = Reparent(Reparent(h1, lid), rid)]

RebalanceFromLeft(st, lid, rid) ==
    LET l == st.h[lid]
        r == st.h[rid]
        pid == r.parent
        p == st.h[pid]
        mv == (N(l) - MinKeys) \div 2 + 1
        h1 == [st.h EXCEPT ![rid].keys = SubSeq(l.keys, N(l) - mv + 2, N(l)) \o <<Key(p, r.pos - 1)>> \o r.keys,
                           ![pid].keys = [p.keys EXCEPT ![r.pos] = Key(l, N(l) - mv)],
                           ![lid].keys = SubSeq(l.keys, 1, N(l) - mv),
                           ![rid].kids = IF r.inner THEN SubSeq(l.kids, N(l) - mv + 2, N(l) + 1) \o r.kids ELSE <<>>,
                           ![lid].kids = IF r.inner THEN SubSeq(l.kids, 1, N(l) - mv + 1) ELSE <<>>]
    IN [st EXCEPT !.h = Reparent(Reparent(h1, lid), rid)]

\* btree_delete::merge_or_rebalance -- returns the state, whether a merge occurred, and the node the iterator is in
MergeOrRebalance(st, id) ==
    LET nd == st.h[id]
        p == st.h[nd.parent]
        pos == nd.pos
        hasRight == pos < N(p)
        right == IF hasRight THEN Kid(p, pos + 1) ELSE 0
        left == IF pos > 0 THEN Kid(p, pos - 1) ELSE 0
    IN IF hasRight /\ N(nd) + N(st.h[right]) + 1 <= M
       THEN [st |-> Merge(st, id, right), merged |-> TRUE, cur |-> id]
       ELSE IF left # 0
       THEN IF N(st.h[left]) + N(nd) + 1 <= M
            THEN [st |-> Merge(st, left, id), merged |-> TRUE, cur |-> left]
            ELSE [st |-> RebalanceFromLeft(st, left, id), merged |-> FALSE, cur |-> id]
       ELSE [st |-> RebalanceFromRight(st, id, right), merged |-> FALSE, cur |-> id]

\* the loop of btree_delete::erase(iterator&) that repairs under-full nodes bottom-up
RECURSIVE Repair(_, _)
Repair(st, cur) ==
    LET nd == st.h[cur]
    IN IF nd.parent = 0
       THEN IF N(nd) = 0
            THEN IF nd.inner THEN [h |-> [st.h EXCEPT ![Kid(nd, 0)].parent = 0], root |-> Kid(nd, 0)]     \* tree now in child 0
                 ELSE [st EXCEPT !.root = 0]                                                             \* tree has become empty
            ELSE st
       ELSE IF N(nd) >= MinKeys THEN st
       ELSE LET r == MergeOrRebalance(st, cur)
            IN IF r.merged THEN Repair(r.st, r.st.h[r.cur].parent) ELSE r.st

\* internal_find: [found, node, pos]
RECURSIVE FindKey(_, _, _)
FindKey(st, cur, k) ==
    LET nd == st.h[cur]
        pos == LowerIdx(nd.keys, k)
    IN IF pos < N(nd) /\ Key(nd, pos) = k THEN [found |-> TRUE, node |-> cur, pos |-> pos]
       ELSE IF ~nd.inner THEN [found |-> FALSE, node |-> 0, pos |-> 0]
       ELSE FindKey(st, Kid(nd, pos), k)
\* operator-- from an inner position: right-most leaf of the child left of the key
RECURSIVE RightMost(_, _)
RightMost(st, cur) == IF st.h[cur].inner THEN RightMost(st, Kid(st.h[cur], N(st.h[cur]))) ELSE cur

EraseOp(t, k) ==
    IF t = Empty THEN [t |-> t, res |-> 0]
    ELSE LET st == ToHeap(t)
             f == FindKey(st, st.root, k)
         IN IF ~f.found THEN [t |-> t, res |-> 0]
            ELSE LET nd == st.h[f.node]
                     \* in an inner node: swap the key with its predecessor, which is the last key of a leaf
                     leaf == IF nd.inner THEN RightMost(st, Kid(nd, f.pos)) ELSE f.node
                     lpos == IF nd.inner THEN N(st.h[leaf]) - 1 ELSE f.pos
                     h1 == IF nd.inner THEN [st.h EXCEPT ![f.node].keys = [@ EXCEPT ![f.pos + 1] = Key(st.h[leaf], lpos)]] ELSE st.h
                     h2 == [h1 EXCEPT ![leaf].keys = DelAt(@, lpos)]
                 IN [t |-> FromHeap(Repair([st EXCEPT !.h = h2], leaf)), res |-> 1]

(* ------------------------------ behaviour ------------------------------- *)
Init == tree = Empty /\ last = [op |-> "none", key |-> 0, res |-> 0]
Insert(k) == LET r == InsertOp(tree, k) IN tree' = r.t /\ last' = [op |-> "ins", key |-> k, res |-> IF r.res THEN 1 ELSE 0]
Erase(k) == LET r == EraseOp(tree, k) IN tree' = r.t /\ last' = [op |-> "del", key |-> k, res |-> r.res]
Next == \E k \in Keys : Insert(k) \/ Erase(k)
Spec == Init /\ [][Next]_<<tree, last>>

(* ------------------------------ invariants ------------------------------ *)
RECURSIVE KeysOf(_), Depths(_), WellFormed(_, _, _, _)
KeysOf(t) == {t.k[i] : i \in 1..Len(t.k)} \cup UNION {KeysOf(t.c[i]) : i \in 1..Len(t.c)}
Depths(t) == IF t.c = <<>> THEN {1} ELSE {d + 1 : d \in UNION {Depths(t.c[i]) : i \in 1..Len(t.c)}}
\* sortedness against the separators, fill bounds, children count
WellFormed(t, isRoot, lo, hi) ==
    /\ Len(t.k) <= M
    /\ isRoot \/ Len(t.k) >= MinKeys
    /\ \A i \in 1..(Len(t.k) - 1) : t.k[i] < t.k[i + 1]
    /\ \A i \in 1..Len(t.k) : lo < t.k[i] /\ t.k[i] < hi
    /\ t.c # <<>> => /\ Len(t.c) = Len(t.k) + 1
                     /\ \A i \in 1..Len(t.c) : WellFormed(t.c[i], FALSE, IF i = 1 THEN lo ELSE t.k[i - 1],
                                                          IF i = Len(t.c) THEN hi ELSE t.k[i])
\* history variable free statement of "behaves as a set": the content changes exactly as the abstract operation says
ShapeOK == tree = Empty \/ (Len(tree.k) >= 1 /\ WellFormed(tree, TRUE, -1000000, 1000000) /\ Cardinality(Depths(tree)) = 1)
StepOK == [][ \E k \in Keys :
                \/ /\ last'.op = "ins" /\ last'.key = k /\ KeysOf(tree') = KeysOf(tree) \cup {k}
                   /\ last'.res = (IF k \in KeysOf(tree) THEN 0 ELSE 1)
                \/ /\ last'.op = "del" /\ last'.key = k /\ KeysOf(tree') = KeysOf(tree) \ {k}
                   /\ last'.res = (IF k \in KeysOf(tree) THEN 1 ELSE 0) ]_<<tree, last>>
=============================================================================
