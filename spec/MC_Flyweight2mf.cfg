CONSTANT Threads = {1, 2}
CONSTANT NLanes = 2
CONSTANT Values = {1, 2}
CONSTANT InitCap = 2
CONSTANT Reserve = FALSE
CONSTANT InitBuckets = 2
CONSTANT InitMaxSize = 0
CONSTANT HashMul = 1
CONSTANT MaxNode = 4
CONSTANT Scenarios <- Sc2
SPECIFICATION FairSpec
INVARIANT TypeOK GhostOK SameValueSameIndex DiffValueDiffIndex DecodeOK NoNil OneInserter MapOK SlotsAgree ReservedOK SlotLocalOK IterOK LocksFree
PROPERTY Termination Refines ReturnsLinResult
