CONSTANTS N = 4  NT = 2  Variant = "written"
CONSTANT ConfigSpace <- Space
SPECIFICATION FairSpec
INVARIANT TypeOK Acyclic UnionsHold NoSpurious FinalPartition SameSetSound FindSound
PROPERTY Termination
CHECK_DEADLOCK FALSE
