CONSTANTS MaxN = 4 Scheme = "oldonly"
SPECIFICATION Spec
INVARIANT Complete NonRedundant
CHECK_DEADLOCK FALSE
