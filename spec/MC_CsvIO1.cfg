CONSTANT Tier = 1
INIT Init
NEXT Next
INVARIANT TheoremHolds Emit
CHECK_DEADLOCK FALSE
