------------------------------ MODULE MC_CsvIO ------------------------------
(* Model-checking harness of CsvIO for C17: every (format, relation shape, tuple) of the bounded adversarial     *)
(* space is an initial state; TLC checks the specification theorem on it and prints the vector as one JSON line: *)
(* the tuple, whether it is representable, the exact file text the writer must produce and whether the           *)
(* specification's reader maps that text back to the tuple.                                                      *)
EXTENDS CsvIO, Json
CONSTANT Tier                       \* 1 = quick, 2 = thorough

TAB == "\t"
T(rfc, delim, explicit, headers) == [kind |-> "text", rfc |-> rfc, delim |-> delim, explicit |-> explicit, headers |-> headers, name |-> "text"]
Ch(name) == [kind |-> "channel", rfc |-> FALSE, delim |-> <<TAB>>, explicit |-> FALSE, headers |-> FALSE, name |-> name]
\* gzip = the same text, compressed: representability and bytes (after decompression) are those of the text format
Gz(rfc) == [kind |-> "text", rfc |-> rfc, delim |-> IF rfc THEN <<",">> ELSE <<TAB>>, explicit |-> FALSE, headers |-> FALSE,
            name |-> IF rfc THEN "gzip-rfc4180" ELSE "gzip-tsv"]
Fmts == << T(FALSE, <<TAB>>, FALSE, FALSE), T(FALSE, <<",">>, TRUE, FALSE), T(FALSE, <<"|">>, TRUE, FALSE),
           T(FALSE, <<"|", "|">>, TRUE, FALSE), T(TRUE, <<",">>, FALSE, FALSE), T(TRUE, <<"|">>, TRUE, FALSE),
           T(TRUE, <<"|", "|">>, TRUE, FALSE), T(FALSE, <<TAB>>, FALSE, TRUE), T(TRUE, <<",">>, FALSE, TRUE),
           T(FALSE, <<",">>, TRUE, TRUE),
           Gz(FALSE), Gz(TRUE), Ch("json-list"), Ch("json-object"), Ch("sqlite") >>

Alphabet == {"a", Q, ",", TAB, NL, BS, "[", "]", "$", "(", ")", "|", " "}
Sym(n) == UNION {[1..k -> Alphabet] : k \in 0..n}
SV(c) == [k |-> "s", c |-> c]
IV(str) == [k |-> "i", d |-> Cs(str)]
UV(str) == [k |-> "u", d |-> Cs(str)]
FV(neg, m, x) == [k |-> "fv", neg |-> neg, m |-> Cs(m), x |-> x]
\* dyadic floats whose exact decimal expansion has at most 9 significant digits (so that "%.9g" prints it exactly)
Floats == {FV(FALSE, "0", 0), FV(TRUE, "0", 0), FV(FALSE, "5", -1), FV(FALSE, "15", 0), FV(TRUE, "225", 0), FV(FALSE, "1", 10),
           FV(FALSE, "9765625", -4), FV(FALSE, "12345675", 6), FV(FALSE, "16777216", 7), FV(TRUE, "48828125", -4)}
Specials == {[k |-> "fs", s |-> "inf"], [k |-> "fs", s |-> "-inf"], [k |-> "fs", s |-> "nan"], [k |-> "fs", s |-> "dmin"]}
Ints == {IV("-2147483648"), IV("-1"), IV("0"), IV("2147483647")}
Uns == {UV("0"), UV("2147483648"), UV("4294967295")}

Nil == [k |-> "nil"]
Rec(a) == [k |-> "rec", a |-> a]
Adt(b, a) == [k |-> "adt", b |-> b, a |-> a]
RVals(n) == {Nil} \cup {Rec(<<SV(c), IV("5")>>) : c \in Sym(n)} \cup {Rec(<<SV(<<"a">>), IV("-2147483648")>>)}

AVals(n, nc) == {Adt("N", <<>>), Adt("W", <<Nil>>)} \cup {Adt("C", <<IV("-7"), SV(c)>>) : c \in Sym(nc)}
            \cup {Adt("S", <<SV(c)>>) : c \in Sym(n)} \cup {Adt("W", <<Rec(<<SV(c), IV("5")>>)>>) : c \in Sym(1)}
I0 == IV("0")   U0 == UV("0")   F0 == FV(FALSE, "15", 0)
IUF == {<<i, u, F0>> : i \in Ints, u \in Uns} \cup {<<I0, U0, f>> : f \in Floats}

SN == IF Tier = 1 THEN 2 ELSE 3
\* relation shapes and tuples: the full adversarial space for the text formats, a reduced one for the header variants
\* (a header only adds a first line) and for the channels (whose bytes are not modelled)
KTypes == [ s |-> <<"s">>, si |-> <<"s", "i">>, is |-> <<"i", "s">>, ss |-> <<"s", "s">>, iuf |-> <<"i", "u", "f">>,
            fx |-> <<"f">>, R |-> <<"R">>, Rs |-> <<"R", "s">>, RR |-> <<"RR">>, A |-> <<"A">>, Ai |-> <<"A", "i">>,
            E |-> <<"E", "i">>, RA |-> <<"RA">> ]
RRVals == {<<Nil>>, <<Rec(<<Nil, UV("4294967295")>>)>>} \cup {<<Rec(<<Rec(<<SV(c), IV("5")>>), UV("1")>>)>> : c \in Sym(1)}
EVals == {<<Adt("Red", <<>>), IV("1")>>, <<Adt("Green", <<>>), IV("2")>>}
KFull ==
  [ s   |-> {<<SV(c)>> : c \in Sym(SN)},
    si  |-> {<<SV(c), IV("7")>> : c \in Sym(2)},
    is  |-> {<<IV("7"), SV(c)>> : c \in Sym(2)},
    ss  |-> {<<SV(a), SV(b)>> : a \in Sym(1), b \in Sym(1)},
    iuf |-> IUF,
    fx  |-> {<<f>> : f \in Specials},
    R   |-> {<<r>> : r \in RVals(SN)},
    Rs  |-> {<<r, SV(c)>> : r \in RVals(1), c \in Sym(1)},
    RR  |-> RRVals,
    A   |-> {<<a>> : a \in AVals(2, IF Tier = 1 THEN 1 ELSE 2)},
    Ai  |-> {<<a, IV("7")>> : a \in AVals(1, 1)},
    E   |-> EVals,
    RA  |-> {<<Nil>>} \cup {<<Rec(<<a, IV("5")>>)>> : a \in AVals(1, 1)} ]
KHdr ==
  [ s   |-> {<<SV(c)>> : c \in Sym(1)},
    ss  |-> {<<SV(a), SV(b)>> : a \in Sym(1), b \in Sym(1)},
    iuf |-> IUF,
    R   |-> {<<r>> : r \in RVals(1)},
    A   |-> {<<a>> : a \in AVals(1, 1)} ]
KChan ==
  [ s   |-> {<<SV(c)>> : c \in Sym(2)},
    si  |-> {<<SV(c), IV("7")>> : c \in Sym(1)},
    ss  |-> {<<SV(a), SV(b)>> : a \in Sym(1), b \in Sym(1)},
    iuf |-> IUF,
    fx  |-> {<<f>> : f \in Specials},
    R   |-> {<<r>> : r \in RVals(1)},
    RR  |-> RRVals,
    A   |-> {<<a>> : a \in AVals(1, 1)},
    E   |-> EVals,
    RA  |-> {<<Nil>>} \cup {<<Rec(<<a, IV("5")>>)>> : a \in AVals(1, 1)} ]
KOf(fi) == IF Fmts[fi].name # "text" THEN KChan ELSE IF Fmts[fi].headers THEN KHdr ELSE KFull
AttrNames == <<Cs("x"), Cs("y"), Cs("z")>>
Attrs(kn) == SubSeq(AttrNames, 1, Len(KTypes[kn]))

\* three levels so that TLC's workers share the space: root -> (format, shape) -> tuple
VARIABLE vec
Init == vec = [st |-> 0]
Next == \/ vec.st = 0 /\ \E fi \in 1..Len(Fmts) : \E kn \in DOMAIN KOf(fi) : vec' = [st |-> 1, f |-> fi, k |-> kn]
        \/ vec.st = 1 /\ \E tup \in KOf(vec.f)[vec.k] : vec' = [st |-> 2, f |-> vec.f, k |-> vec.k, t |-> tup]

Devs == [q |-> {"q"}, b |-> {"b"}, qb |-> {"q", "b"}]
DevNames == DOMAIN Devs
RECURSIVE EncV(_)
EncV(v) == CASE v.k = "s" -> [k |-> "s", c |-> Codes(v.c)]
             [] v.k \in {"i", "u"} -> [k |-> v.k, d |-> Codes(v.d)]
             [] v.k = "fv" -> [k |-> "fv", neg |-> v.neg, m |-> Codes(v.m), x |-> v.x]
             [] v.k = "fs" -> v
             [] v.k = "nil" -> v
             [] v.k = "rec" -> [k |-> "rec", a |-> [i \in 1..Len(v.a) |-> EncV(v.a[i])]]
             [] v.k = "adt" -> [k |-> "adt", b |-> v.b, a |-> [i \in 1..Len(v.a) |-> EncV(v.a[i])]]

F == Fmts[vec.f]
Ty == KTypes[vec.k]
TheoremHolds == vec.st = 2 => Theorem(F, Attrs(vec.k), Ty, vec.t)
Emit == vec.st = 2 => PrintT(ToJson([tag |-> "V", f |-> vec.f, k |-> vec.k, types |-> Ty,
                       t |-> [i \in 1..Len(vec.t) |-> EncV(vec.t[i])],
                       rep |-> Representable(F, Ty, vec.t), gap |-> KnownGap(F, Ty, vec.t),
                       fields |-> IF F.kind = "text" /\ ~F.rfc /\ Has(F.delim, ",")
                                  THEN [i \in 1..Len(Ty) |-> Codes(WriteField(F, Ty[i], vec.t[i]))] ELSE <<>>,
                       rt |-> RoundTrips(F, Attrs(vec.k), Ty, vec.t),
                       txt |-> IF F.kind = "text" THEN Codes(WriteFile(F, Attrs(vec.k), Ty, <<vec.t>>)) ELSE <<>>,
                       alt |-> IF F.kind = "text" /\ F.rfc THEN
                                  [d \in {x \in DevNames : WriteFileD(F, Attrs(vec.k), Ty, <<vec.t>>, Devs[x])
                                                            # WriteFile(F, Attrs(vec.k), Ty, <<vec.t>>)}
                                     |-> Codes(WriteFileD(F, Attrs(vec.k), Ty, <<vec.t>>, Devs[d]))]
                               ELSE <<>>]))

ASSUME \A i \in 1..Len(Fmts) :
    PrintT(ToJson([tag |-> "FMT", i |-> i, kind |-> Fmts[i].kind, name |-> Fmts[i].name, rfc |-> Fmts[i].rfc,
                   delim |-> Codes(Fmts[i].delim), explicit |-> Fmts[i].explicit, headers |-> Fmts[i].headers]))
=============================================================================
