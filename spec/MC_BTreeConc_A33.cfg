CONSTANT Threads <- T3
CONSTANT M = 3
CONSTANT Fill <- FillA
CONSTANT Prog <- ProgA33
CONSTANT UseHints <- Hints3
SPECIFICATION Spec
INVARIANT NoErr QuiescentOK FinalOK ParentsOK Progress
CHECK_DEADLOCK FALSE
