---------------------------- MODULE MC_Flyweight ----------------------------
(* Scenario spaces for FlyweightImpl (cfg files cannot hold tuples).  V2 = {1,2}, V3 = {1,2,3}.              *)
EXTENDS FlyweightImpl
SeqsN(S, lo, hi) == UNION {[1..k -> S] : k \in lo..hi}
Total(p) == LET RECURSIVE Sum(_) Sum(t) == IF t = 0 THEN 0 ELSE Len(p[t]) + Sum(t - 1) IN Sum(Cardinality(DOMAIN p))

\* two threads, every pair of programs of 1..2 calls over {1,2} (first call of thread 1 is value 1: values are symmetric
\* up to the hash, which the configurations vary), on two lanes and sharing one lane
P2 == [1..2 -> SeqsN({1, 2}, 1, 2)]
Sc2 == {[lane |-> l, prog |-> p] : l \in {<<0, 1>>, <<0, 0>>}, p \in P2}
\* replay space of the quick tier: at most 3 calls in total
Sc2r == {s \in Sc2 : Total(s.prog) <= 3}
\* three threads, one call each over {1,2} plus one thread with a second call; lanes: all distinct, two sharing lane 0
P3 == {p \in [1..3 -> SeqsN({1, 2}, 1, 2)] : p[1][1] = 1 /\ Len(p[2]) = 1 /\ Len(p[3]) = 1}
Sc3 == {[lane |-> l, prog |-> p] : l \in {<<0, 1, 2>>, <<0, 0, 1>>}, p \in P3}
Sc3q == {s \in Sc3 : Total(s.prog) = 3}
\* three values, three threads with one call each, and two threads with 2 + 1 calls
P3v == {p \in [1..3 -> SeqsN({1, 2, 3}, 1, 1)] : p[1][1] = 1}
Sc3v == {[lane |-> l, prog |-> p] : l \in {<<0, 1, 2>>, <<0, 0, 1>>, <<0, 1, 1>>}, p \in P3v}
=============================================================================
