CONSTANT Threads <- T2
CONSTANT M = 3
CONSTANT Fill <- FillB
CONSTANT Prog <- ProgB
CONSTANT UseHints <- NoHints
SPECIFICATION FairSpec
PROPERTY Termination
CHECK_DEADLOCK FALSE
