CONSTANT Rels = {1, 2}
CONSTANT Elems <- E3
CONSTANT RightFirst = TRUE
CONSTANT MaxOps = 3
SPECIFICATION Spec
INVARIANT CacheFresh ForestOK
PROPERTY Refines
CHECK_DEADLOCK FALSE
