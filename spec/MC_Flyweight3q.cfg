CONSTANT Threads = {1, 2, 3}
CONSTANT NLanes = 3
CONSTANT Values = {1, 2}
CONSTANT InitCap = 1
CONSTANT Reserve = TRUE
CONSTANT InitBuckets = 2
CONSTANT InitMaxSize = 0
CONSTANT HashMul = 1
CONSTANT MaxNode = 4
CONSTANT Scenarios <- Sc3q
SPECIFICATION Spec
INVARIANT TypeOK GhostOK SameValueSameIndex DiffValueDiffIndex DecodeOK NoNil OneInserter MapOK SlotsAgree ReservedOK SlotLocalOK IterOK LocksFree
PROPERTY ReturnsLinResult
