---- MODULE MC_Datalog_TTrace_1790038254 ----
EXTENDS Sequences, TLCExt, Toolbox, Naturals, TLC, MC_Datalog

_expression ==
    LET MC_Datalog_TEExpression == INSTANCE MC_Datalog_TEExpression
    IN MC_Datalog_TEExpression!expression
----

_trace ==
    LET MC_Datalog_TETrace == INSTANCE MC_Datalog_TETrace
    IN MC_Datalog_TETrace!trace
----

_inv ==
    ~(
        TLCGet("level") = Len(_TETrace)
        /\
        edb = ([in0 |-> {<<0, 0>>, <<0, 2>>, <<1, 0>>, <<2, 0>>}])
        /\
        oob = (FALSE)
        /\
        iters = (<<0, 1, 1, 1>>)
        /\
        si = (5)
        /\
        I = ([r2 |-> {<<3, 3>>}, in0 |-> {<<0, 0>>, <<0, 2>>, <<1, 0>>, <<2, 0>>}, r0 |-> {<<3, 3>>}, r1 |-> {<<"a", -3>>, <<"a", -2>>, <<"a", -1>>, <<"a", 0>>}])
        /\
        pi = (1)
        /\
        k = (0)
    )
----

_init ==
    /\ I = _TETrace[1].I
    /\ k = _TETrace[1].k
    /\ pi = _TETrace[1].pi
    /\ iters = _TETrace[1].iters
    /\ si = _TETrace[1].si
    /\ oob = _TETrace[1].oob
    /\ edb = _TETrace[1].edb
----

_next ==
    /\ \E i,j \in DOMAIN _TETrace:
        /\ \/ /\ j = i + 1
              /\ i = TLCGet("level")
        /\ I  = _TETrace[i].I
        /\ I' = _TETrace[j].I
        /\ k  = _TETrace[i].k
        /\ k' = _TETrace[j].k
        /\ pi  = _TETrace[i].pi
        /\ pi' = _TETrace[j].pi
        /\ iters  = _TETrace[i].iters
        /\ iters' = _TETrace[j].iters
        /\ si  = _TETrace[i].si
        /\ si' = _TETrace[j].si
        /\ oob  = _TETrace[i].oob
        /\ oob' = _TETrace[j].oob
        /\ edb  = _TETrace[i].edb
        /\ edb' = _TETrace[j].edb

\* Uncomment the ASSUME below to write the states of the error trace
\* to the given file in Json format. Note that you can pass any tuple
\* to `JsonSerialize`. For example, a sub-sequence of _TETrace.
    \* ASSUME
    \*     LET J == INSTANCE Json
    \*         IN J!JsonSerialize("MC_Datalog_TTrace_1790038254.json", _TETrace)

=============================================================================

 Note that you can extract this module `MC_Datalog_TEExpression`
  to a dedicated file to reuse `expression` (the module in the 
  dedicated `MC_Datalog_TEExpression.tla` file takes precedence 
  over the module `MC_Datalog_TEExpression` below).

---- MODULE MC_Datalog_TEExpression ----
EXTENDS Sequences, TLCExt, Toolbox, Naturals, TLC, MC_Datalog

expression == 
    [
        \* To hide variables of the `MC_Datalog` spec from the error trace,
        \* remove the variables below.  The trace will be written in the order
        \* of the fields of this record.
        I |-> I
        ,k |-> k
        ,pi |-> pi
        ,iters |-> iters
        ,si |-> si
        ,oob |-> oob
        ,edb |-> edb
        
        \* Put additional constant-, state-, and action-level expressions here:
        \* ,_stateNumber |-> _TEPosition
        \* ,_IUnchanged |-> I = I'
        
        \* Format the `I` variable as Json value.
        \* ,_IJson |->
        \*     LET J == INSTANCE Json
        \*     IN J!ToJson(I)
        
        \* Lastly, you may build expressions over arbitrary sets of states by
        \* leveraging the _TETrace operator.  For example, this is how to
        \* count the number of times a spec variable changed up to the current
        \* state in the trace.
        \* ,_IModCount |->
        \*     LET F[s \in DOMAIN _TETrace] ==
        \*         IF s = 1 THEN 0
        \*         ELSE IF _TETrace[s].I # _TETrace[s-1].I
        \*             THEN 1 + F[s-1] ELSE F[s-1]
        \*     IN F[_TEPosition - 1]
    ]

=============================================================================



Parsing and semantic processing can take forever if the trace below is long.
 In this case, it is advised to uncomment the module below to deserialize the
 trace from a generated binary file.

\*
\*---- MODULE MC_Datalog_TETrace ----
\*EXTENDS IOUtils, TLC, MC_Datalog
\*
\*trace == IODeserialize("MC_Datalog_TTrace_1790038254.bin", TRUE)
\*
\*=============================================================================
\*

---- MODULE MC_Datalog_TETrace ----
EXTENDS TLC, MC_Datalog

trace == 
    <<
    ([edb |-> [in0 |-> {<<0, 0>>, <<0, 2>>, <<1, 0>>, <<2, 0>>}],oob |-> FALSE,iters |-> <<>>,si |-> 1,I |-> [r2 |-> {}, in0 |-> {<<0, 0>>, <<0, 2>>, <<1, 0>>, <<2, 0>>}, r0 |-> {}, r1 |-> {}],pi |-> 1,k |-> 0]),
    ([edb |-> [in0 |-> {<<0, 0>>, <<0, 2>>, <<1, 0>>, <<2, 0>>}],oob |-> FALSE,iters |-> <<0>>,si |-> 2,I |-> [r2 |-> {}, in0 |-> {<<0, 0>>, <<0, 2>>, <<1, 0>>, <<2, 0>>}, r0 |-> {}, r1 |-> {}],pi |-> 1,k |-> 0]),
    ([edb |-> [in0 |-> {<<0, 0>>, <<0, 2>>, <<1, 0>>, <<2, 0>>}],oob |-> FALSE,iters |-> <<0>>,si |-> 2,I |-> [r2 |-> {}, in0 |-> {<<0, 0>>, <<0, 2>>, <<1, 0>>, <<2, 0>>}, r0 |-> {<<3, 3>>}, r1 |-> {}],pi |-> 1,k |-> 1]),
    ([edb |-> [in0 |-> {<<0, 0>>, <<0, 2>>, <<1, 0>>, <<2, 0>>}],oob |-> FALSE,iters |-> <<0, 1>>,si |-> 3,I |-> [r2 |-> {}, in0 |-> {<<0, 0>>, <<0, 2>>, <<1, 0>>, <<2, 0>>}, r0 |-> {<<3, 3>>}, r1 |-> {}],pi |-> 1,k |-> 0]),
    ([edb |-> [in0 |-> {<<0, 0>>, <<0, 2>>, <<1, 0>>, <<2, 0>>}],oob |-> FALSE,iters |-> <<0, 1>>,si |-> 3,I |-> [r2 |-> {}, in0 |-> {<<0, 0>>, <<0, 2>>, <<1, 0>>, <<2, 0>>}, r0 |-> {<<3, 3>>}, r1 |-> {<<"a", -3>>, <<"a", -2>>, <<"a", -1>>, <<"a", 0>>}],pi |-> 1,k |-> 1]),
    ([edb |-> [in0 |-> {<<0, 0>>, <<0, 2>>, <<1, 0>>, <<2, 0>>}],oob |-> FALSE,iters |-> <<0, 1, 1>>,si |-> 4,I |-> [r2 |-> {}, in0 |-> {<<0, 0>>, <<0, 2>>, <<1, 0>>, <<2, 0>>}, r0 |-> {<<3, 3>>}, r1 |-> {<<"a", -3>>, <<"a", -2>>, <<"a", -1>>, <<"a", 0>>}],pi |-> 1,k |-> 0]),
    ([edb |-> [in0 |-> {<<0, 0>>, <<0, 2>>, <<1, 0>>, <<2, 0>>}],oob |-> FALSE,iters |-> <<0, 1, 1>>,si |-> 4,I |-> [r2 |-> {<<3, 3>>}, in0 |-> {<<0, 0>>, <<0, 2>>, <<1, 0>>, <<2, 0>>}, r0 |-> {<<3, 3>>}, r1 |-> {<<"a", -3>>, <<"a", -2>>, <<"a", -1>>, <<"a", 0>>}],pi |-> 1,k |-> 1]),
    ([edb |-> [in0 |-> {<<0, 0>>, <<0, 2>>, <<1, 0>>, <<2, 0>>}],oob |-> FALSE,iters |-> <<0, 1, 1, 1>>,si |-> 5,I |-> [r2 |-> {<<3, 3>>}, in0 |-> {<<0, 0>>, <<0, 2>>, <<1, 0>>, <<2, 0>>}, r0 |-> {<<3, 3>>}, r1 |-> {<<"a", -3>>, <<"a", -2>>, <<"a", -1>>, <<"a", 0>>}],pi |-> 1,k |-> 0])
    >>
----


=============================================================================

---- CONFIG MC_Datalog_TTrace_1790038254 ----
CONSTANTS
    Programs <- ProgramsFromFile

INVARIANT
    _inv

CHECK_DEADLOCK
    \* CHECK_DEADLOCK off because of PROPERTY or INVARIANT above.
    FALSE

INIT
    _init

NEXT
    _next

CONSTANT
    _TETrace <- _trace

ALIAS
    _expression
=============================================================================
\* Generated on Tue Sep 22 00:50:59 UTC 2026