---- MODULE MC_UnionFind_twotwo3 ----
EXTENDS MC_UnionFind
Space == TwoTwo(3)
====
