------------------------------ MODULE BrieImpl ------------------------------
(***************************************************************************)
(* Implementation-shaped model of souffle::SparseBitMap<BITS>::set, i.e.   *)
(* SparseArray<uint64_t,BITS>::getAtomic/getLeaf followed by the bitmap's  *)
(* load + compare-exchange (Brie.h).  One action per atomic access; the    *)
(* pc values are the SOUFFLE_VERIF_YIELD points that precede the access:   *)
(*   rv1/rv2  brie.root.ver   (getRootVersion: first load / re-check)      *)
(*   rr       brie.root.read  (root, levels, offset)                       *)
(*   rc ru rp brie.root.cas / .upd / .pub   (tryUpdateRootInfo)            *)
(*   par      brie.raise.parent             (raiseLevel, after success)    *)
(*   fv1/fv2 fr fc fu fp  brie.first.ver/.read/.cas/.upd/.pub              *)
(*   cl cc    brie.cell.load / brie.cell.cas                               *)
(*   pk       brie.first.peek (unsynchronised read of firstOffset)         *)
(*   bl bc    brie.bits.load / brie.bits.cas (SparseBitMap::set)           *)
(*   op       operation boundary of the test harness;  done                *)
(* The root pointer doubles as version: an odd value locks readers out.    *)
(* root / first are records [p, odd]: odd = TRUE is the value p+1.         *)
(* Every set() uses a fresh op_context (no temporal-locality hint).        *)
(* A bitmap word has WB = 2^LW bits (the real one 64: the replay maps the  *)
(* model index m to (m \div WB) * 64 + m % WB).                            *)
(* Ghost fields lvl/base of a node (its height and the first index it      *)
(* covers) are only used by the invariants.                                *)
(***************************************************************************)
EXTENDS Integers, Sequences, FiniteSets, TLC
CONSTANTS Threads, BITS, LW, ProgSpace, MaxN

NC == 2^BITS
WB == 2^LW
Pow(l) == NC^l
Si(i) == i \div WB                       \* index into the sparse array (i >> LEAF_INDEX_WIDTH)
Bit(i) == i % WB
Base0(a) == a - (a % NC)                 \* a & ~INDEX_MASK
GetIndex(a, l) == (a \div Pow(l)) % NC
Masked(a, l) == a - (a % Pow(l))         \* a & getLevelMask(l)
InBound(a, lv, off) == Masked(a, lv + 1) = off
Inf == 1000000                           \* numeric_limits<index_type>::max()
Cells == 0..(NC - 1)

VARIABLES root, levels, offset, first, firstOffset, heap, na, prog, pc, ip, res, loc
vars == <<root, levels, offset, first, firstOffset, heap, na, prog, pc, ip, res, loc>>
shared == <<root, levels, offset, first, firstOffset, heap>>

Ptr(p) == [p |-> p, odd |-> FALSE]
L0 == [i |-> 0, ver |-> 0, iroot |-> Ptr(0), ilev |-> 0, ioff |-> 0, ret |-> "A", mode |-> "-", newn |-> 0,
       oldroot |-> 0, fver |-> 0, fnode |-> Ptr(0), foff |-> 0, toff |-> 0, tnode |-> 0, node |-> 0,
       level |-> 0, x |-> 0, old |-> {}]
NewNode(l, b, p) == [kids |-> [x \in Cells |-> 0], word |-> [x \in Cells |-> {}], par |-> p, lvl |-> l, base |-> b]
NewId(t) == (t - 1) * MaxN + na[t] + 1
Drop(h, n) == [m \in (DOMAIN h) \ {n} |-> h[m]]

Init == /\ root = Ptr(0) /\ levels = 0 /\ offset = 0 /\ first = Ptr(0) /\ firstOffset = Inf
        /\ heap = <<>> /\ na = [t \in Threads |-> 0]
        /\ prog \in ProgSpace
        /\ pc = [t \in Threads |-> "op"] /\ ip = [t \in Threads |-> 1]
        /\ res = [t \in Threads |-> <<>>] /\ loc = [t \in Threads |-> L0]

SI(t) == Si(loc[t].i)
Goto(t, p) == pc' = [pc EXCEPT ![t] = p]
SetLoc(t, l) == loc' = [loc EXCEPT ![t] = l]

Begin(t) == /\ pc[t] = "op"
            /\ IF ip[t] > Len(prog[t])
               THEN Goto(t, "done") /\ UNCHANGED loc
               ELSE Goto(t, "rv1") /\ SetLoc(t, [L0 EXCEPT !.i = prog[t][ip[t]]])
            /\ UNCHANGED <<shared, na, prog, ip, res>>

(* ------------------------------ getRootInfo ----------------------------- *)
RootVer1(t) == /\ pc[t] = "rv1"
               /\ IF root.odd THEN UNCHANGED <<pc, loc>>          \* update in progress: spin
                  ELSE Goto(t, "rr") /\ SetLoc(t, [loc[t] EXCEPT !.ver = root.p])
               /\ UNCHANGED <<shared, na, prog, ip, res>>
RootRead(t) == /\ pc[t] = "rr"
               /\ SetLoc(t, [loc[t] EXCEPT !.iroot = root, !.ilev = levels, !.ioff = offset])
               /\ Goto(t, "rv2")
               /\ UNCHANGED <<shared, na, prog, ip, res>>

\* the code that follows a consistent snapshot, up to the next scheduling point; l = the thread's locals
Navigate(t, l) == IF l.ilev = 0
                  THEN Goto(t, "bl") /\ SetLoc(t, [l EXCEPT !.node = l.iroot.p]) /\ UNCHANGED <<heap, na>>
                  ELSE /\ Goto(t, "cl") /\ UNCHANGED <<heap, na>>
                       /\ SetLoc(t, [l EXCEPT !.node = l.iroot.p, !.x = GetIndex(Si(l.i), l.ilev), !.level = l.ilev - 1])
RaiseOrNavigate(t, l) ==
    IF ~InBound(Si(l.i), l.ilev, l.ioff)
    THEN LET id == NewId(t)                                       \* raiseLevel(info)
             x == GetIndex(l.ioff, l.ilev + 1)
             noff == Masked(l.ioff, l.ilev + 2)
             n == [NewNode(l.ilev + 1, noff, 0) EXCEPT !.kids[x] = l.iroot.p]
         IN /\ heap' = (id :> n) @@ heap /\ na' = [na EXCEPT ![t] = @ + 1]
            /\ SetLoc(t, [l EXCEPT !.oldroot = l.iroot.p, !.newn = id, !.iroot = Ptr(id), !.ilev = l.ilev + 1,
                                  !.ioff = noff, !.mode = "raise"])
            /\ Goto(t, "rc")
    ELSE Navigate(t, l)
AfterSnapshot(t, l) ==
    IF l.ret = "A" /\ l.iroot.p = 0
    THEN LET id == NewId(t) IN                                    \* empty: build a root leaf
         /\ heap' = (id :> NewNode(0, Base0(Si(l.i)), 0)) @@ heap /\ na' = [na EXCEPT ![t] = @ + 1]
         /\ SetLoc(t, [l EXCEPT !.newn = id, !.iroot = Ptr(id), !.ioff = Base0(Si(l.i)), !.mode = "create"])
         /\ Goto(t, "rc")
    ELSE RaiseOrNavigate(t, l)

RootVer2(t) == /\ pc[t] = "rv2"
               /\ IF root = Ptr(loc[t].ver)
                  THEN AfterSnapshot(t, loc[t])
                  ELSE Goto(t, "rv1") /\ UNCHANGED <<loc, heap, na>>
               /\ UNCHANGED <<root, levels, offset, first, firstOffset, prog, ip, res>>

(* --------------------------- tryUpdateRootInfo -------------------------- *)
RootCas(t) == /\ pc[t] = "rc"
              /\ IF root = Ptr(loc[t].ver)
                 THEN /\ root' = [p |-> loc[t].ver, odd |-> TRUE]
                      /\ Goto(t, "ru") /\ UNCHANGED <<heap, na, loc>>
                 ELSE /\ heap' = Drop(heap, loc[t].newn) /\ na' = [na EXCEPT ![t] = @ - 1]   \* somebody else was faster
                      /\ SetLoc(t, [loc[t] EXCEPT !.ret = IF loc[t].mode = "create" THEN "B" ELSE "C", !.newn = 0])
                      /\ Goto(t, "rv1") /\ UNCHANGED root
              /\ UNCHANGED <<levels, offset, first, firstOffset, prog, ip, res>>
RootUpd(t) == /\ pc[t] = "ru"
              /\ levels' = loc[t].ilev /\ offset' = loc[t].ioff
              /\ Goto(t, "rp")
              /\ UNCHANGED <<root, first, firstOffset, heap, na, prog, ip, res, loc>>
RootPub(t) == /\ pc[t] = "rp"
              /\ root' = Ptr(loc[t].iroot.p)
              /\ IF loc[t].mode = "create"
                 THEN Goto(t, "fv1") /\ SetLoc(t, [loc[t] EXCEPT !.toff = loc[t].ioff, !.tnode = loc[t].iroot.p])
                 ELSE Goto(t, "par") /\ UNCHANGED loc
              /\ UNCHANGED <<levels, offset, first, firstOffset, heap, na, prog, ip, res>>
RaiseParent(t) == /\ pc[t] = "par"
                  /\ heap' = [heap EXCEPT ![loc[t].oldroot].par = loc[t].iroot.p]
                  /\ SetLoc(t, [loc[t] EXCEPT !.ret = "C"]) /\ Goto(t, "rv1")
                  /\ UNCHANGED <<root, levels, offset, first, firstOffset, na, prog, ip, res>>

(* ------------------- getFirstInfo / tryUpdateFirstInfo ------------------ *)
FirstVer1(t) == /\ pc[t] = "fv1"
                /\ IF first.odd THEN UNCHANGED <<pc, loc>>
                   ELSE Goto(t, "fr") /\ SetLoc(t, [loc[t] EXCEPT !.fver = first.p])
                /\ UNCHANGED <<shared, na, prog, ip, res>>
FirstRead(t) == /\ pc[t] = "fr"
                /\ SetLoc(t, [loc[t] EXCEPT !.fnode = first, !.foff = firstOffset])
                /\ Goto(t, "fv2")
                /\ UNCHANGED <<shared, na, prog, ip, res>>
\* while (off < firstInfo.offset) { firstInfo.node = ..; firstInfo.offset = off; tryUpdateFirstInfo .. }
FirstLoop(t, l) == IF l.toff < l.foff
                   THEN Goto(t, "fc") /\ SetLoc(t, [l EXCEPT !.fnode = Ptr(l.tnode), !.foff = l.toff])
                   ELSE Goto(t, "bl") /\ SetLoc(t, [l EXCEPT !.node = l.tnode])
FirstVer2(t) == /\ pc[t] = "fv2"
                /\ IF first = Ptr(loc[t].fver) THEN FirstLoop(t, loc[t]) ELSE Goto(t, "fv1") /\ UNCHANGED loc
                /\ UNCHANGED <<shared, na, prog, ip, res>>
FirstCas(t) == /\ pc[t] = "fc"
               /\ IF first = Ptr(loc[t].fver)
                  THEN first' = [p |-> loc[t].fver, odd |-> TRUE] /\ Goto(t, "fu")
                  ELSE Goto(t, "fv1") /\ UNCHANGED first          \* concurrent update => check again
               /\ UNCHANGED <<root, levels, offset, firstOffset, heap, na, prog, ip, res, loc>>
FirstUpd(t) == /\ pc[t] = "fu"
               /\ firstOffset' = loc[t].foff /\ Goto(t, "fp")
               /\ UNCHANGED <<root, levels, offset, first, heap, na, prog, ip, res, loc>>
FirstPub(t) == /\ pc[t] = "fp"
               /\ first' = Ptr(loc[t].fnode.p)
               /\ Goto(t, "bl") /\ SetLoc(t, [loc[t] EXCEPT !.node = loc[t].tnode])
               /\ UNCHANGED <<root, levels, offset, firstOffset, heap, na, prog, ip, res>>

(* ------------------------------- navigation ----------------------------- *)
Descend(t, l, c) == IF l.level = 0
                    THEN Goto(t, "bl") /\ SetLoc(t, [l EXCEPT !.node = c])
                    ELSE Goto(t, "cl") /\ SetLoc(t, [l EXCEPT !.node = c, !.x = GetIndex(Si(l.i), l.level), !.level = l.level - 1])
CellLoad(t) == /\ pc[t] = "cl"
               /\ LET l == loc[t]  c == heap[l.node].kids[l.x] IN
                  IF c # 0 THEN Descend(t, l, c) /\ UNCHANGED <<heap, na>>
                  ELSE LET id == NewId(t) IN
                       /\ heap' = (id :> NewNode(l.level, Masked(Si(l.i), l.level + 1), l.node)) @@ heap
                       /\ na' = [na EXCEPT ![t] = @ + 1]
                       /\ SetLoc(t, [l EXCEPT !.newn = id]) /\ Goto(t, "cc")
               /\ UNCHANGED <<root, levels, offset, first, firstOffset, prog, ip, res>>
CellCas(t) == /\ pc[t] = "cc"
              /\ LET l == loc[t]  c == heap[l.node].kids[l.x] IN
                 IF c = 0
                 THEN /\ heap' = [heap EXCEPT ![l.node].kids[l.x] = l.newn] /\ UNCHANGED na
                      /\ IF l.level = 0
                         THEN Goto(t, "pk") /\ SetLoc(t, [l EXCEPT !.toff = Base0(Si(l.i)), !.tnode = l.newn])
                         ELSE Descend(t, l, l.newn)
                 ELSE /\ heap' = Drop(heap, l.newn) /\ na' = [na EXCEPT ![t] = @ - 1]      \* other thread was faster
                      /\ Descend(t, [l EXCEPT !.newn = 0], c)
              /\ UNCHANGED <<root, levels, offset, first, firstOffset, prog, ip, res>>
FirstPeek(t) == /\ pc[t] = "pk"
                /\ IF loc[t].toff < firstOffset
                   THEN Goto(t, "fv1") /\ UNCHANGED loc
                   ELSE Goto(t, "bl") /\ SetLoc(t, [loc[t] EXCEPT !.node = loc[t].tnode])
                /\ UNCHANGED <<shared, na, prog, ip, res>>

(* --------------------------- SparseBitMap::set -------------------------- *)
Finish(t, r) == /\ res' = [res EXCEPT ![t] = Append(@, r)] /\ ip' = [ip EXCEPT ![t] = @ + 1]
                /\ Goto(t, "op") /\ SetLoc(t, L0)
BitsLoad(t) == /\ pc[t] = "bl"
               /\ LET l == loc[t]  w == heap[l.node].word[SI(t) % NC] IN
                  IF Bit(l.i) \in w THEN Finish(t, FALSE)
                  ELSE SetLoc(t, [l EXCEPT !.old = w]) /\ Goto(t, "bc") /\ UNCHANGED <<res, ip>>
               /\ UNCHANGED <<shared, na, prog>>
BitsCas(t) == /\ pc[t] = "bc"
              /\ LET l == loc[t]  w == heap[l.node].word[SI(t) % NC] IN
                 IF w = l.old
                 THEN heap' = [heap EXCEPT ![l.node].word[SI(t) % NC] = w \cup {Bit(l.i)}] /\ Finish(t, TRUE)
                 ELSE Goto(t, "bl") /\ UNCHANGED <<heap, res, ip, loc>>
              /\ UNCHANGED <<root, levels, offset, first, firstOffset, na, prog>>

Step(t) == \/ Begin(t) \/ RootVer1(t) \/ RootRead(t) \/ RootVer2(t) \/ RootCas(t) \/ RootUpd(t) \/ RootPub(t)
           \/ RaiseParent(t) \/ FirstVer1(t) \/ FirstRead(t) \/ FirstVer2(t) \/ FirstCas(t) \/ FirstUpd(t)
           \/ FirstPub(t) \/ CellLoad(t) \/ CellCas(t) \/ FirstPeek(t) \/ BitsLoad(t) \/ BitsCas(t)
Next == \E t \in Threads : Step(t)
Spec == Init /\ [][Next]_vars
FairSpec == Spec /\ \A t \in Threads : WF_vars(Step(t))

(* ------------------------------- properties ----------------------------- *)
RECURSIVE Sub(_)
Sub(n) == IF n = 0 THEN {} ELSE {n} \cup (IF heap[n].lvl = 0 THEN {} ELSE UNION {Sub(heap[n].kids[x]) : x \in Cells})
Reach == Sub(root.p)                    \* while the root is locked (odd) root.p is still the old root
Leaves == {n \in Reach : heap[n].lvl = 0}
Present == {(heap[n].base + x) * WB + b : <<n, x, b>> \in {y \in Leaves \X Cells \X (0..(WB - 1)) : y[3] \in heap[y[1]].word[y[2]]}}
Completed == {prog[t][j] : <<t, j>> \in {y \in Threads \X (1..16) : y[2] < ip[y[1]]}}
AllInserted == {prog[t][j] : <<t, j>> \in {y \in Threads \X (1..16) : y[2] <= Len(prog[y[1]])}}
AllDone == \A t \in Threads : pc[t] = "done"

PcOK == \A t \in Threads : pc[t] \in {"op", "done", "rv1", "rr", "rv2", "rc", "ru", "rp", "par", "fv1", "fr", "fv2", "fc",
                                       "fu", "fp", "cl", "cc", "pk", "bl", "bc"}
\* inner cells point to nodes one level below that cover exactly the cell's index range
WellFormed == \A n \in Reach : heap[n].lvl > 0 =>
                 \A x \in Cells : LET c == heap[n].kids[x] IN
                    c # 0 => heap[c].lvl = heap[n].lvl - 1 /\ heap[c].base = heap[n].base + x * Pow(heap[n].lvl)
\* root info consistent whenever the version is even
RootConsistent == ~root.odd => IF root.p = 0 THEN levels = 0 /\ Completed = {}
                               ELSE heap[root.p].lvl = levels /\ heap[root.p].base = offset
\* no lost element: whatever a completed set() call inserted stays reachable with its bit set
NoLostElement == Completed \subseteq Present
NothingInvented == Present \subseteq AllInserted
\* first/firstOffset designate a reachable leaf whenever the version is even
FirstConsistent == ~first.odd => IF first.p = 0 THEN firstOffset = Inf
                                 ELSE /\ first.p \in Leaves /\ heap[first.p].base = firstOffset
\* a consistent snapshot is never an odd (locked) pointer
SnapshotEven == \A t \in Threads : pc[t] \in {"rc", "ru", "rp", "par", "cl", "cc", "pk", "bl", "bc"} => ~loc[t].iroot.odd
\* at quiescence: exactly the inserted elements, first is the minimum leaf, parents are set, one success per element
Final == AllDone =>
   /\ ~root.odd /\ ~first.odd
   /\ Present = AllInserted
   /\ DOMAIN heap = Reach
   /\ (AllInserted # {} => /\ first.p \in Leaves
                           /\ \A n \in Leaves : firstOffset <= heap[n].base
                           /\ heap[first.p].base = firstOffset)
   /\ \A n \in Reach : /\ (n = root.p => heap[n].par = 0)
                       /\ heap[n].lvl > 0 => \A x \in Cells : heap[n].kids[x] # 0 => heap[heap[n].kids[x]].par = n
   /\ \A e \in AllInserted :
         Cardinality({y \in Threads \X (1..16) : y[2] <= Len(prog[y[1]]) /\ prog[y[1]][y[2]] = e /\ res[y[1]][y[2]]}) = 1
\* firstOffset only decreases, levels only grow
Monotone == [][firstOffset' <= firstOffset /\ (~root'.odd => levels' >= levels)]_vars
Termination == <>AllDone
=============================================================================
