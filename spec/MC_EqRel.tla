------------------------------ MODULE MC_EqRel ------------------------------
EXTENDS EqRelImpl
MinInt == -2147483647 - 1
E4 == {MinInt, -1, 0, 2147483647}       \* both ends of the 32-bit domain and the values around zero
E3 == {MinInt, 0, 2147483647}
E2 == {-1, 2147483647}
=============================================================================
