------------------------------- MODULE Word32 -------------------------------
(***************************************************************************)
(* Two's-complement 32-bit words, held as TLC (32-bit signed) integers.    *)
(* TLC integer arithmetic overflow is a hard error, so every operator      *)
(* here is written on 16-bit limbs and never leaves the int32 range.       *)
(* An "unsigned" word travels as its signed twin (same 32 bits).           *)
(* Souffle's RamSigned / RamUnsigned semantics (EvaluatorUtil.h,           *)
(* interpreter/Engine.cpp, synthesiser/Synthesiser.cpp) are pinned here.   *)
(***************************************************************************)
EXTENDS Integers, Bitwise

MinInt == -2147483647 - 1
MaxInt == 2147483647

Abs(x) == IF x < 0 THEN -x ELSE x          \* caller guarantees x # MinInt

\* ---- limbs -------------------------------------------------------------
Lo(x)  == x % 65536                         \* 0..65535   (TLC % is non-negative)
HiS(x) == x \div 65536                      \* floor: -32768..32767
Hi(x)  == IF HiS(x) < 0 THEN HiS(x) + 65536 ELSE HiS(x)     \* 0..65535
Mk(hi, lo) == IF hi >= 32768 THEN (hi - 65536) * 65536 + lo ELSE hi * 65536 + lo

\* ---- bitwise -----------------------------------------------------------
Band(x, y) == Mk(Hi(x) & Hi(y), Lo(x) & Lo(y))
Bor(x, y)  == Mk(Hi(x) | Hi(y), Lo(x) | Lo(y))
Bxor(x, y) == Mk(Hi(x) ^^ Hi(y), Lo(x) ^^ Lo(y))
Bnot(x)    == -1 - x                        \* (= -x - 1, written so that x = MinInt does not overflow TLC's ints)

\* ---- wrap-around arithmetic (unsigned semantics, also signed when defined)
AddW(x, y) == LET lo == Lo(x) + Lo(y)
                  hi == (Hi(x) + Hi(y) + (lo \div 65536)) % 65536
              IN  Mk(hi, lo % 65536)
NegW(x)    == AddW(Bnot(x), 1)
SubW(x, y) == AddW(x, NegW(y))

Shl1(x) == Mk((Hi(x) * 2 + (Lo(x) \div 32768)) % 65536, (Lo(x) * 2) % 65536)
Shr1U(x) == Mk(Hi(x) \div 2, (Lo(x) \div 2) + (Hi(x) % 2) * 32768)

RECURSIVE ShlN(_, _), ShrUN(_, _), MulAcc(_, _, _, _)
ShlN(x, n)  == IF n = 0 THEN x ELSE ShlN(Shl1(x), n - 1)
ShrUN(x, n) == IF n = 0 THEN x ELSE ShrUN(Shr1U(x), n - 1)

\* shifts: the shift amount is masked to 5 bits (RAM_BIT_SHIFT_MASK)
Mask5(n) == Lo(n) % 32
Shl(x, n)  == ShlN(x, Mask5(n))
ShrU(x, n) == ShrUN(x, Mask5(n))                       \* logical
Pow2(n) == ShlN(1, n)                                   \* n in 0..30
ShrS(x, n) == LET m == Mask5(n) IN                      \* arithmetic
              IF m = 31 THEN (IF x < 0 THEN -1 ELSE 0) ELSE x \div Pow2(m)

\* x * y mod 2^32 by shift-and-add over the bits of y
MulAcc(x, y, i, acc) ==
    IF i = 32 THEN acc
    ELSE MulAcc(Shl1(x), Shr1U(y), i + 1, IF Lo(y) % 2 = 1 THEN AddW(acc, x) ELSE acc)
MulW(x, y) == MulAcc(x, y, 0, 0)

\* ---- unsigned comparison / division on signed twins --------------------
ULt(x, y) == IF (x < 0) = (y < 0) THEN x < y ELSE y < 0
ULe(x, y) == x = y \/ ULt(x, y)

\* unsigned division by restoring long division over 32 bits
RECURSIVE UDivAcc(_, _, _, _, _)
\* i counts down from 31; r is the running remainder (always ULt d), q the quotient
UDivAcc(n, d, i, q, r) ==
    IF i < 0 THEN <<q, r>>
    ELSE LET bit == Lo(ShrUN(n, i)) % 2
             \* r2 = 2r + bit may exceed 32 bits only if r >= 2^31; then r2 >= d surely
             top == r < 0
             r2  == AddW(Shl1(r), bit)
             ge  == top \/ ULe(d, r2)
         IN  UDivAcc(n, d, i - 1, AddW(Shl1(q), IF ge THEN 1 ELSE 0), IF ge THEN SubW(r2, d) ELSE r2)
UDiv(n, d) == UDivAcc(n, d, 31, 0, 0)[1]
UMod(n, d) == UDivAcc(n, d, 31, 0, 0)[2]

\* ---- signed, with definedness (no signed overflow in the defined domain)
AddOK(a, b) == IF b >= 0 THEN a <= MaxInt - b ELSE a >= MinInt - b
SubOK(a, b) == IF b >= 0 THEN a >= MinInt + b ELSE a <= MaxInt + b
\* exact: |a*b| fits.  Negative products may reach MinInt.
CeilDivNeg(a, b) == IF a % b = 0 THEN a \div b ELSE (a \div b) + 1   \* a<0<b: truncation toward 0
MulOK(a, b) ==
    \/ a = 0 \/ b = 0 \/ a = 1 \/ b = 1
    \/ (a = -1 /\ b # MinInt) \/ (b = -1 /\ a # MinInt)
    \/ /\ a # MinInt /\ b # MinInt
       /\ IF (a < 0) = (b < 0)
          THEN Abs(a) <= MaxInt \div Abs(b)
          ELSE Abs(a) <= -CeilDivNeg(MinInt, Abs(b))
\* truncating division / remainder (C semantics); b # 0 and not MinInt / -1
TDivP(a, b) == LET q == a \div b IN IF a < 0 /\ a % b # 0 THEN q + 1 ELSE q      \* b > 0
TDiv(a, b) == IF b > 0 THEN TDivP(a, b)
              ELSE IF b = MinInt THEN (IF a = MinInt THEN 1 ELSE 0)
              ELSE -TDivP(a, -b)
TMod(a, b) == a - b * TDiv(a, b)
DivOK(a, b) == b # 0 /\ ~(a = MinInt /\ b = -1)
\* ---- additions for C24 (unsigned definedness; nothing above is changed) ----
UMax32 == -1                                 \* the signed twin of 2^32-1
\* unsigned product fits 32 bits (UEXP is a float-to-unsigned conversion: it does not wrap)
UMulOK(a, b) == b = 0 \/ ULe(a, UDiv(UMax32, b))
\* unsigned sum fits 32 bits (URANGE stepping must not wrap inside the defined domain)
UAddOK(a, b) == ULe(a, SubW(UMax32, b))
\* number of significant bits of a non-negative int (0 for 0)
RECURSIVE BitLen(_)
BitLen(x) == IF x = 0 THEN 0 ELSE 1 + BitLen(x \div 2)
=============================================================================
