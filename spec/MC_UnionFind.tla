---------------------------- MODULE MC_UnionFind ----------------------------
(* Configuration spaces for UnionFindImpl (every element is an initial state).                                   *)
(* The defect class this check must reach needs a sequential PRE-HISTORY (a root of rank >= 1), so every family   *)
(* is the product of canonical set-ups of <= 2 unions with an operation mix per thread:                            *)
(*   Setups(n): {} ; u(a,b) a<b ; u(a,b),u(c,d) disjoint ; u(a,b),u(c,b) -- one representative per distinct       *)
(*              forest that <= 2 sequential unions over n nodes can build (22 for n = 4, 7 for n = 3).             *)
(*   PairsLt(3): 2 threads x 1 op, all unordered pairs of the 9 ops with a<b over 3 nodes               (quick)     *)
(*   DupQ(4)   : duplicate / overlapping unions after a pre-history + <= 1 observer (3 ops in total)    (quick)     *)
(*   PairsLt(4): 2 threads x 1 op, all unordered pairs of the 16 ops with a<b over 4 nodes             (thorough)  *)
(*   PairsU(4) : 2 threads x 1 op, ALL unordered pairs of the 28 ordered-argument ops over 4 nodes      (thorough)  *)
(*   Dup(4)    : duplicate / overlapping unions after a pre-history, followed by <= 2 observers (find / sameSet):  *)
(*               2 threads x <= 3 ops over 4 nodes                                                       (thorough)  *)
(*   Three(3)  : 3 threads x 1 op, all multisets of the 9 ops (a<b) over 3 nodes                        (thorough)  *)
(*   TwoOne(3) : 2 threads, 2 ops + 1 op, ops (a<b) over 3 nodes                                        (thorough)  *)
(*   TwoTwo(3) : 2 threads x 2 ops, ops (a<b) over 3 nodes                                              (thorough)  *)
(*   ThreeR(4) : 3 threads x 1 op over 4 nodes, 4 set-ups x multisets of 8 selected ops                 (thorough)  *)
(*   Replay*  : the spaces whose state graphs are dumped and replayed on the real object.                          *)
(* Every space is an operator with a parameter: TLC evaluates zero-arity constant definitions eagerly at start-up,  *)
(* so the one space a run uses is instantiated by a small module MC_UnionFind_<family>.tla (Space == Family(n)).     *)
EXTENDS UnionFindImpl

U(a, b) == <<"u", a, b>>
S(a, b) == <<"s", a, b>>
F(a) == <<"f", a, a>>
Nd(n) == 0..n-1
OpsOrd(n) == {U(a, b) : a, b \in Nd(n)} \cup {S(a, b) : a, b \in Nd(n)} \cup {F(a) : a \in Nd(n)}
OpsAll(n) == {o \in OpsOrd(n) : o[1] = "f" \/ o[2] # o[3]}                 \* ordered arguments, a # b
OpsLt(n) == {o \in OpsOrd(n) : o[1] = "f" \/ o[2] < o[3]}                  \* a < b only
Enc(o) == (CASE o[1] = "u" -> 100 [] o[1] = "s" -> 200 [] OTHER -> 300) + 10 * o[2] + o[3]

Setups(n) == {<<>>}
             \cup {<<U(a, b)>> : a, b \in Nd(n)}
             \cup {<<U(a, b), U(c, d)>> : a, b, c, d \in Nd(n)}
Canon(s) == /\ \A i \in 1..Len(s) : s[i][2] < s[i][3]
            /\ Len(s) = 2 => \/ (s[1][3] \in {s[2][2], s[2][3]} /\ s[1][2] \notin {s[2][2], s[2][3]})   \* c joins the root b
                             \/ (Cardinality({s[1][2], s[1][3], s[2][2], s[2][3]}) = 4 /\ s[1][2] < s[2][2])
CSetups(n) == {s \in Setups(n) : Canon(s)}

Conf(s, p) == [setup |-> s, prog |-> p]
Pairs(n) == {Conf(s, <<<<o1>>, <<o2>>>>) : s \in CSetups(n), o1, o2 \in OpsAll(n)}
PairsU(n) == {c \in Pairs(n) : Enc(c.prog[1][1]) <= Enc(c.prog[2][1])}
Three(n) == {c \in {Conf(s, <<<<o1>>, <<o2>>, <<o3>>>>) : s \in CSetups(n), o1, o2, o3 \in OpsLt(n)} :
             Enc(c.prog[1][1]) <= Enc(c.prog[2][1]) /\ Enc(c.prog[2][1]) <= Enc(c.prog[3][1])}
TwoOne(n) == {Conf(s, <<<<o1, o2>>, <<o3>>>>) : s \in CSetups(n), o1, o2, o3 \in OpsLt(n)}
TwoTwo(n) == {c \in {Conf(s, <<<<o1, o2>>, <<o3, o4>>>>) : s \in CSetups(n), o1, o2, o3, o4 \in OpsLt(n)} :
              100 * Enc(c.prog[1][1]) + Enc(c.prog[1][2]) <= 100 * Enc(c.prog[2][1]) + Enc(c.prog[2][2])}

\* duplicate / overlapping unions on top of a one-union pre-history, then observers of the united pair
Obs(a, b) == {<<>>, <<F(a)>>, <<F(b)>>, <<S(a, b)>>, <<F(a), S(a, b)>>, <<F(b), S(a, b)>>, <<S(a, b), F(a)>>, <<F(a), F(b)>>}
DupOn(p, q) == {Conf(<<U(p, q)>>, <<<<U(q, 3)>> \o o1, <<u2>> \o o2>>) :
                   u2 \in {U(q, 3), U(3, q), U(p, 3)}, o1 \in Obs(q, 3), o2 \in Obs(q, 3)}
Dup(n) == DupOn(0, 1) \cup DupOn(0, 2)
        \cup {Conf(<<U(0, 1), U(2, 3)>>, <<<<U(1, 3)>> \o o1, <<u2>> \o o2>>) :
                   u2 \in {U(1, 3), U(3, 1), U(0, 2)}, o1 \in Obs(0, 2), o2 \in {<<>>, <<F(0)>>, <<S(0, 2)>>}}

PairsLt(n) == {c \in {Conf(s, <<<<o1>>, <<o2>>>>) : s \in CSetups(n), o1, o2 \in OpsLt(n)} : Enc(c.prog[1][1]) <= Enc(c.prog[2][1])}
DupQ(n) == {c \in Dup(n) : Len(c.prog[1]) + Len(c.prog[2]) <= 3}
\* replay spaces (graph dumped, covering walks replayed on the real DisjointSet)
RSet(n) == {<<>>, <<U(0, 2)>>, <<U(0, 1), U(2, 3)>>, <<U(0, 2), U(1, 2)>>}
ROps(n) == {U(2, 3), U(3, 2), U(0, 3), U(1, 3), S(2, 3), S(0, 3), F(0), F(3)}
ReplayQ(n) == {c \in {Conf(s, <<<<o1>>, <<o2>>>>) : s \in RSet(n), o1, o2 \in ROps(n)} : Enc(c.prog[1][1]) <= Enc(c.prog[2][1])}
ThreeR(n) == {c \in {Conf(s, <<<<o1>>, <<o2>>, <<o3>>>>) : s \in RSet(n), o1, o2, o3 \in ROps(n)} :
                 Enc(c.prog[1][1]) <= Enc(c.prog[2][1]) /\ Enc(c.prog[2][1]) <= Enc(c.prog[3][1])}
ReplayT(n) == ReplayQ(n) \cup DupQ(n) \cup {c \in PairsLt(n) : Len(c.setup) <= 1}

\* the scenario of DESIGN 11 item 8 (smallest configuration in which the two variants differ in behaviour)
Known(n) == {Conf(<<U(0, 2)>>, <<<<U(2, 3)>>, <<U(2, 3)>>>>)}
KnownObs(n) == {Conf(<<U(0, 2)>>, <<<<U(2, 3), F(2), S(2, 3)>>, <<U(2, 3), F(3)>>>>)}
=============================================================================
