CONSTANT Clients = {1, 2}
CONSTANT ProgSpace <- PS2r
SPECIFICATION Spec
INVARIANT TypeOK MutualExclusion OddIffHeld ValidateSound VersionCounts
CHECK_DEADLOCK FALSE
