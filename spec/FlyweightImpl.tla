---------------------------- MODULE FlyweightImpl ----------------------------
(***************************************************************************)
(* Implementation-shaped specification of souffle's interning machinery:   *)
(*   ConcurrentFlyweight::findOrInsert / tryGrow / Iterator                *)
(*                      (datastructure/ConcurrentFlyweight.h)              *)
(*   ConcurrentInsertOnlyHashMap::get / tryGrow                            *)
(*                      (datastructure/ConcurrentInsertOnlyHashMap.h)      *)
(*   MutexConcurrentLanes guard/lock/unlock/beforeLockAllBut/lockAllBut    *)
(*                      (utility/ParallelUtil.h)                           *)
(* One action per scheduling point of the SOUFFLE_VERIF hooks: an action   *)
(* is "resume at point pc[t], run to the next point".  A blocking mutex    *)
(* acquisition (SOUFFLE_VERIF_AWAIT) is an action guarded by "mutex free". *)
(*                                                                         *)
(* Thread t works on lane lane[t] (two threads may share a lane) and runs  *)
(* findOrInsert(lane[t], prog[t][k]) for k = 1..Len(prog[t]).              *)
(*                                                                         *)
(* The flyweight and its hash map each own a MutexConcurrentLanes object:  *)
(*   flk[l], fbla : lane mutexes / BeforeLockAll of ConcurrentFlyweight    *)
(*   mlk[l], mbla : the same of ConcurrentInsertOnlyHashMap                *)
(*   (value = owning thread, 0 = free)                                     *)
(* Flyweight: hslot[l] = Handles[l].NextSlot (NULL = NONE); the node       *)
(*   Handles[l].NextNode is the node created by Mapping.node(slot), whose  *)
(*   mapped value is the slot number, so a node is identified by its slot  *)
(*   number; nextSlot, slotCount, slots[0..slotCount-1] (node or NULL).    *)
(* Map: nkey[n] (0 = default-constructed key), nnext[n], buckets[b] (head  *)
(*   node or NULL), bucketCount, size, maxSize (MaxSizeBeforeGrow).        *)
(* Locals of findOrInsert/get: slot (Slot), lkh (LastKnownHead), sfrom     *)
(*   (SearchedFrom), bkt (Bucket), found (node holding the key, NULL when  *)
(*   this call inserted), li (loop index of lockAllBut).                   *)
(* rets[t] = results <<index, inserted>> of t's completed calls.           *)
(***************************************************************************)
EXTENDS Integers, Sequences, FiniteSets, TLC

CONSTANTS Threads,      \* 1..n
          NLanes,       \* lanes are 0..NLanes-1
          Values,       \* keys, positive integers
          InitCap,      \* InitialCapacity >= 1 (SlotCount at start)
          Reserve,      \* FirstSlotIsReserved
          InitBuckets,  \* BucketCount at start
          InitMaxSize,  \* MaxSizeBeforeGrow at start
          HashMul,      \* the hash function: Hash(v) = v * HashMul
          MaxNode,      \* bound on the slots that can be reserved: (Reserve ? 1 : 0) + number of calls
          Scenarios     \* set of [lane : Threads -> Lanes, prog : Threads -> Seq(Values)]; every element is an initial state

Lanes == 0..NLanes-1
Nodes == 0..MaxNode-1
NULL == -1
Hash(v) == v * HashMul
\* details::ToPrime: the smallest listed prime >= n
PrimeGE(n) == IF n <= 13 THEN 13 ELSE IF n <= 251 THEN 251 ELSE 509

VARIABLES lane, prog,
          flk, fbla, mlk, mbla,
          hslot, nextSlot, slotCount, slots,
          nkey, nnext, bucketCount, buckets, size, maxSize,
          pc, ip, slot, lkh, sfrom, bkt, found, li, rets,
          inmap         \* ghost: the nodes linked into the bucket lists (= InMap below, invariant GhostOK)
cfgv == <<lane, prog>>
locks == <<flk, fbla, mlk, mbla>>
flyv == <<hslot, nextSlot, slotCount, slots>>
mapv == <<nkey, nnext, bucketCount, buckets, size, maxSize, inmap>>
locv == <<ip, slot, lkh, sfrom, bkt, found, li, rets>>
vars == <<cfgv, locks, flyv, mapv, pc, locv>>

H(t) == lane[t]
V(t) == prog[t][ip[t]]
Others(l) == Lanes \ {l}
Min(S) == CHOOSE x \in S : \A y \in S : x <= y

RECURSIVE Chain(_, _)
Chain(h, nxt) == IF h = NULL THEN <<>> ELSE <<h>> \o Chain(nxt[h], nxt)
Range(s) == {s[k] : k \in 1..Len(s)}
Last(s) == s[Len(s)]
\* the search loop of get(): first node in [h .. stop) holding key v, NULL if none
RECURSIVE Search(_, _, _)
Search(h, stop, v) == IF h = stop \/ h = NULL THEN NULL
                      ELSE IF nkey[h] = v THEN h ELSE Search(nnext[h], stop, v)

Init == /\ \E s \in Scenarios : lane = s.lane /\ prog = s.prog
        /\ flk = [l \in Lanes |-> 0] /\ fbla = 0 /\ mlk = [l \in Lanes |-> 0] /\ mbla = 0
        /\ hslot = [l \in Lanes |-> NULL]
        /\ nextSlot = IF Reserve THEN 1 ELSE 0
        /\ slotCount = InitCap
        /\ slots = [i \in 0..InitCap-1 |-> NULL]
        /\ nkey = [n \in Nodes |-> 0] /\ nnext = [n \in Nodes |-> NULL]
        /\ bucketCount = InitBuckets /\ buckets = [b \in 0..InitBuckets-1 |-> NULL]
        /\ size = 0 /\ maxSize = InitMaxSize /\ inmap = {}
        /\ pc = [t \in Threads |-> "next"] /\ ip = [t \in Threads |-> 1]
        /\ slot = [t \in Threads |-> NULL] /\ lkh = [t \in Threads |-> NULL] /\ sfrom = [t \in Threads |-> NULL]
        /\ bkt = [t \in Threads |-> 0] /\ found = [t \in Threads |-> NULL] /\ li = [t \in Threads |-> 0]
        /\ rets = [t \in Threads |-> <<>>]

Goto(t, l) == pc' = [pc EXCEPT ![t] = l]
\* head of the slot loop of findOrInsert with Slot = s
LoopHead(s) == IF s = NULL THEN "f_inc" ELSE "f_load"

(***************************************************************************)
(* ConcurrentFlyweight::findOrInsert                                       *)
(***************************************************************************)
\* the driver starts the next call; the call runs to the await of Lanes.guard(H)
Begin(t) == /\ pc[t] = "next" /\ ip[t] <= Len(prog[t])
            /\ Goto(t, "f_guard")
            /\ UNCHANGED <<cfgv, locks, flyv, mapv, locv>>

\* const auto Lane = Lanes.guard(H);  Slot = Handles[H].NextSlot
FGuard(t) == /\ pc[t] = "f_guard" /\ flk[H(t)] = 0
             /\ flk' = [flk EXCEPT ![H(t)] = t]
             /\ slot' = [slot EXCEPT ![t] = hslot[H(t)]]
             /\ Goto(t, LoopHead(hslot[H(t)]))
             /\ UNCHANGED <<cfgv, fbla, mlk, mbla, flyv, mapv, ip, lkh, sfrom, bkt, found, li, rets>>

\* "fly.nextslot.inc": Slot = NextSlot++; Handles[H].NextSlot = Slot; Handles[H].NextNode = Mapping.node(Slot)
FInc(t) == /\ pc[t] = "f_inc"
           /\ slot' = [slot EXCEPT ![t] = nextSlot]
           /\ nextSlot' = nextSlot + 1
           /\ hslot' = [hslot EXCEPT ![H(t)] = nextSlot]
           /\ Goto(t, "f_load")
           /\ UNCHANGED <<cfgv, locks, slotCount, slots, mapv, ip, lkh, sfrom, bkt, found, li, rets>>

\* "fly.slotcount.load": if (Slot >= SlotCount) tryGrow(H) [-> beforeLockAllBut: "lanes.bla.try"] else break
FLoad(t) == /\ pc[t] = "f_load"
            /\ Goto(t, IF slot[t] >= slotCount THEN "f_blatry" ELSE "f_publish")
            /\ UNCHANGED <<cfgv, locks, flyv, mapv, locv>>

\* beforeLockAllBut: "lanes.bla.try": BeforeLockAll.try_lock(), on failure unlock(Lane) ["lanes.unlock"]
FBlaTry(t) == /\ pc[t] = "f_blatry"
              /\ IF fbla = 0 THEN fbla' = t /\ Goto(t, "f_growcheck")
                             ELSE UNCHANGED fbla /\ Goto(t, "f_d_unlock")
              /\ UNCHANGED <<cfgv, flk, mlk, mbla, flyv, mapv, locv>>
\* "lanes.unlock": Lanes[Lane].Access.unlock(); then await BeforeLockAll
FDUnlock(t) == /\ pc[t] = "f_d_unlock"
               /\ flk' = [flk EXCEPT ![H(t)] = 0]
               /\ Goto(t, "f_d_bla")
               /\ UNCHANGED <<cfgv, fbla, mlk, mbla, flyv, mapv, locv>>
\* "lanes.bla.lock": BeforeLockAll.lock(); then await the own lane
FDBla(t) == /\ pc[t] = "f_d_bla" /\ fbla = 0
            /\ fbla' = t
            /\ Goto(t, "f_d_relock")
            /\ UNCHANGED <<cfgv, flk, mlk, mbla, flyv, mapv, locv>>
\* "lanes.lock": lock(Lane)
FDRelock(t) == /\ pc[t] = "f_d_relock" /\ flk[H(t)] = 0
               /\ flk' = [flk EXCEPT ![H(t)] = t]
               /\ Goto(t, "f_growcheck")
               /\ UNCHANGED <<cfgv, fbla, mlk, mbla, flyv, mapv, locv>>

\* the safe section of tryGrow: double until NextSlot fits, copy the slots
RECURSIVE Dbl(_, _)
Dbl(n, lim) == IF n < lim THEN Dbl(2 * n, lim) ELSE n
NewCap == Dbl(2 * slotCount, nextSlot)
GrowFly == /\ slotCount' = NewCap
           /\ slots' = [i \in 0..NewCap-1 |-> IF i < slotCount THEN slots[i] ELSE NULL]

\* "fly.grow.check": if (NextSlot < SlotCount) beforeUnlockAllBut ["lanes.bla.unlock"] else lockAllBut ["lanes.lockall"]
FGrowCheck(t) ==
    /\ pc[t] = "f_growcheck"
    /\ IF nextSlot < slotCount
         THEN Goto(t, "f_ng_unbla") /\ UNCHANGED <<slotCount, slots, li>>
         ELSE IF Others(H(t)) = {}
           THEN GrowFly /\ Goto(t, "f_g_unbla") /\ UNCHANGED li
           ELSE /\ li' = [li EXCEPT ![t] = Min(Others(H(t)))] /\ Goto(t, "f_lockall")
                /\ UNCHANGED <<slotCount, slots>>
    /\ UNCHANGED <<cfgv, locks, hslot, nextSlot, mapv, ip, slot, lkh, sfrom, bkt, found, rets>>
\* "lanes.lockall": Lanes[I].Access.lock() for the next I # H; after the last one the safe section runs
FLockAll(t) ==
    /\ pc[t] = "f_lockall" /\ flk[li[t]] = 0
    /\ flk' = [flk EXCEPT ![li[t]] = t]
    /\ LET rest == {l \in Others(H(t)) : l > li[t]} IN
         IF rest # {} THEN /\ li' = [li EXCEPT ![t] = Min(rest)] /\ UNCHANGED <<pc, slotCount, slots>>
                      ELSE /\ li' = [li EXCEPT ![t] = 0] /\ GrowFly /\ Goto(t, "f_g_unbla")
    /\ UNCHANGED <<cfgv, fbla, mlk, mbla, hslot, nextSlot, mapv, ip, slot, lkh, sfrom, bkt, found, rets>>
\* "lanes.bla.unlock" (nothing grown); tryGrow returns; Slot = Handles[H].NextSlot
FNgUnbla(t) == /\ pc[t] = "f_ng_unbla"
               /\ fbla' = 0
               /\ slot' = [slot EXCEPT ![t] = hslot[H(t)]]
               /\ Goto(t, LoopHead(hslot[H(t)]))
               /\ UNCHANGED <<cfgv, flk, mlk, mbla, flyv, mapv, ip, lkh, sfrom, bkt, found, li, rets>>
\* "lanes.bla.unlock" (grown) + unlockAllBut; Slot = Handles[H].NextSlot
FGUnbla(t) == /\ pc[t] = "f_g_unbla"
              /\ fbla' = 0
              /\ flk' = [l \in Lanes |-> IF l = H(t) THEN flk[l] ELSE 0]
              /\ slot' = [slot EXCEPT ![t] = hslot[H(t)]]
              /\ Goto(t, LoopHead(hslot[H(t)]))
              /\ UNCHANGED <<cfgv, mlk, mbla, flyv, mapv, ip, lkh, sfrom, bkt, found, li, rets>>

\* "fly.slot.publish": Slots[Slot] = &Node->value(); Mapping.get: Lanes.lock(H) [await "lanes.lock"]
FPublish(t) == /\ pc[t] = "f_publish"
               /\ slots' = [slots EXCEPT ![slot[t]] = hslot[H(t)]]
               /\ Goto(t, "m_lock")
               /\ UNCHANGED <<cfgv, locks, hslot, nextSlot, slotCount, mapv, locv>>

(***************************************************************************)
(* ConcurrentInsertOnlyHashMap::get(H, Node, v), Node = hslot[H]           *)
(***************************************************************************)
\* Lanes.lock(H); Bucket = Hash % BucketCount
MLock(t) == /\ pc[t] = "m_lock" /\ mlk[H(t)] = 0
            /\ mlk' = [mlk EXCEPT ![H(t)] = t]
            /\ bkt' = [bkt EXCEPT ![t] = Hash(V(t)) % bucketCount]
            /\ Goto(t, "m_load")
            /\ UNCHANGED <<cfgv, flk, fbla, mbla, flyv, mapv, ip, slot, lkh, sfrom, found, li, rets>>

\* one round of the search loop from head h, stopping at sfrom[t]: found -> Done ["lanes.unlock"];
\* otherwise chain the node and prepare the key, then "map.head.cas"
SearchRound(t, h, stop) ==
    LET f == Search(h, stop, V(t))
        n == hslot[H(t)] IN
    /\ lkh' = [lkh EXCEPT ![t] = h]
    /\ IF f # NULL
         THEN /\ found' = [found EXCEPT ![t] = f]
              /\ nnext' = [nnext EXCEPT ![n] = NULL]
              /\ Goto(t, "m_unlock")
              /\ UNCHANGED <<sfrom, nkey>>
         ELSE /\ sfrom' = [sfrom EXCEPT ![t] = h]
              /\ nnext' = [nnext EXCEPT ![n] = h]
              /\ nkey' = [nkey EXCEPT ![n] = V(t)]
              /\ Goto(t, "m_cas")
              /\ UNCHANGED found

\* "map.head.load": LastKnownHead = Buckets[Bucket]; SearchedFrom = nullptr; first search round
MLoad(t) == /\ pc[t] = "m_load"
            /\ SearchRound(t, buckets[bkt[t]], NULL)
            /\ UNCHANGED <<cfgv, locks, flyv, bucketCount, buckets, size, maxSize, inmap, ip, slot, bkt, li, rets>>

\* "map.head.cas": compare_exchange_strong(LastKnownHead, Node); success -> "map.size.inc"; failure -> next round
MCas(t) == /\ pc[t] = "m_cas"
           /\ IF buckets[bkt[t]] = lkh[t]
                THEN /\ buckets' = [buckets EXCEPT ![bkt[t]] = hslot[H(t)]]
                     /\ inmap' = inmap \cup {hslot[H(t)]}
                     /\ Goto(t, "m_inc")
                     /\ UNCHANGED <<lkh, sfrom, found, nkey, nnext>>
                ELSE /\ SearchRound(t, buckets[bkt[t]], sfrom[t])
                     /\ UNCHANGED <<buckets, inmap>>
           /\ UNCHANGED <<cfgv, locks, flyv, bucketCount, size, maxSize, ip, slot, bkt, li, rets>>

\* "map.size.inc": NewSize = ++Size; if (NewSize > MaxSizeBeforeGrow) tryGrow(H) ["lanes.bla.try"] else Done
MInc(t) == /\ pc[t] = "m_inc"
           /\ size' = size + 1
           /\ Goto(t, IF size + 1 > maxSize THEN "m_blatry" ELSE "m_unlock")
           /\ UNCHANGED <<cfgv, locks, flyv, nkey, nnext, bucketCount, buckets, maxSize, inmap, locv>>

MBlaTry(t) == /\ pc[t] = "m_blatry"
              /\ IF mbla = 0 THEN mbla' = t /\ Goto(t, "m_growcheck")
                             ELSE UNCHANGED mbla /\ Goto(t, "m_d_unlock")
              /\ UNCHANGED <<cfgv, flk, fbla, mlk, flyv, mapv, locv>>
MDUnlock(t) == /\ pc[t] = "m_d_unlock"
               /\ mlk' = [mlk EXCEPT ![H(t)] = 0]
               /\ Goto(t, "m_d_bla")
               /\ UNCHANGED <<cfgv, flk, fbla, mbla, flyv, mapv, locv>>
MDBla(t) == /\ pc[t] = "m_d_bla" /\ mbla = 0
            /\ mbla' = t
            /\ Goto(t, "m_d_relock")
            /\ UNCHANGED <<cfgv, flk, fbla, mlk, flyv, mapv, locv>>
MDRelock(t) == /\ pc[t] = "m_d_relock" /\ mlk[H(t)] = 0
               /\ mlk' = [mlk EXCEPT ![H(t)] = t]
               /\ Goto(t, "m_growcheck")
               /\ UNCHANGED <<cfgv, flk, fbla, mbla, flyv, mapv, locv>>

\* the safe section of the map's tryGrow: rehash every element, bucket by bucket, each pushed at the head of its new bucket
NewBC == PrimeGE(size)
RECURSIVE AllNodes(_)
AllNodes(b) == IF b = bucketCount THEN <<>> ELSE Chain(buckets[b], nnext) \o AllNodes(b + 1)
RECURSIVE Rehash(_, _, _)
Rehash(ord, nb, nn) == IF ord = <<>> THEN <<nb, nn>>
                       ELSE LET e == Head(ord)
                                b == Hash(nkey[e]) % NewBC IN
                            Rehash(Tail(ord), [nb EXCEPT ![b] = e], [nn EXCEPT ![e] = nb[b]])
GrowMap == LET r == Rehash(AllNodes(0), [b \in 0..NewBC-1 |-> NULL], nnext) IN
           /\ buckets' = r[1] /\ nnext' = r[2]
           /\ bucketCount' = NewBC /\ maxSize' = NewBC

\* "map.grow.check": if (Size <= MaxSizeBeforeGrow) beforeUnlockAllBut else lockAllBut
MGrowCheck(t) ==
    /\ pc[t] = "m_growcheck"
    /\ IF size <= maxSize
         THEN Goto(t, "m_ng_unbla") /\ UNCHANGED <<nnext, bucketCount, buckets, maxSize, li>>
         ELSE IF Others(H(t)) = {}
           THEN GrowMap /\ Goto(t, "m_g_unbla") /\ UNCHANGED li
           ELSE /\ li' = [li EXCEPT ![t] = Min(Others(H(t)))] /\ Goto(t, "m_lockall")
                /\ UNCHANGED <<nnext, bucketCount, buckets, maxSize>>
    /\ UNCHANGED <<cfgv, locks, flyv, nkey, size, inmap, ip, slot, lkh, sfrom, bkt, found, rets>>
MLockAll(t) ==
    /\ pc[t] = "m_lockall" /\ mlk[li[t]] = 0
    /\ mlk' = [mlk EXCEPT ![li[t]] = t]
    /\ LET rest == {l \in Others(H(t)) : l > li[t]} IN
         IF rest # {} THEN /\ li' = [li EXCEPT ![t] = Min(rest)] /\ UNCHANGED <<pc, nnext, bucketCount, buckets, maxSize>>
                      ELSE /\ li' = [li EXCEPT ![t] = 0] /\ GrowMap /\ Goto(t, "m_g_unbla")
    /\ UNCHANGED <<cfgv, flk, fbla, mbla, flyv, nkey, size, inmap, ip, slot, lkh, sfrom, bkt, found, rets>>
MNgUnbla(t) == /\ pc[t] = "m_ng_unbla"
               /\ mbla' = 0
               /\ Goto(t, "m_unlock")
               /\ UNCHANGED <<cfgv, flk, fbla, mlk, flyv, mapv, locv>>
MGUnbla(t) == /\ pc[t] = "m_g_unbla"
              /\ mbla' = 0
              /\ mlk' = [l \in Lanes |-> IF l = H(t) THEN mlk[l] ELSE 0]
              /\ Goto(t, "m_unlock")
              /\ UNCHANGED <<cfgv, flk, fbla, flyv, mapv, locv>>

\* Done: "lanes.unlock": Lanes.unlock(H); get returns; findOrInsert clears the handle (inserted) or the slot
\* (found), the guard releases the flyweight lane, the call returns <<index, inserted>>
MUnlock(t) == /\ pc[t] = "m_unlock"
              /\ mlk' = [mlk EXCEPT ![H(t)] = 0]
              /\ flk' = [flk EXCEPT ![H(t)] = 0]
              /\ IF found[t] = NULL
                   THEN /\ hslot' = [hslot EXCEPT ![H(t)] = NULL]
                        /\ rets' = [rets EXCEPT ![t] = Append(@, <<slot[t], TRUE>>)]
                        /\ UNCHANGED slots
                   ELSE /\ slots' = [slots EXCEPT ![slot[t]] = NULL]
                        /\ rets' = [rets EXCEPT ![t] = Append(@, <<found[t], FALSE>>)]
                        /\ UNCHANGED hslot
              /\ ip' = [ip EXCEPT ![t] = @ + 1]
              /\ slot' = [slot EXCEPT ![t] = NULL] /\ lkh' = [lkh EXCEPT ![t] = NULL]
              /\ sfrom' = [sfrom EXCEPT ![t] = NULL] /\ bkt' = [bkt EXCEPT ![t] = 0]
              /\ found' = [found EXCEPT ![t] = NULL]
              /\ Goto(t, "next")
              /\ UNCHANGED <<cfgv, fbla, mbla, nextSlot, slotCount, mapv, li>>

Step(t) == \/ Begin(t) \/ FGuard(t) \/ FInc(t) \/ FLoad(t) \/ FBlaTry(t) \/ FDUnlock(t) \/ FDBla(t) \/ FDRelock(t)
           \/ FGrowCheck(t) \/ FLockAll(t) \/ FNgUnbla(t) \/ FGUnbla(t) \/ FPublish(t)
           \/ MLock(t) \/ MLoad(t) \/ MCas(t) \/ MInc(t) \/ MBlaTry(t) \/ MDUnlock(t) \/ MDBla(t) \/ MDRelock(t)
           \/ MGrowCheck(t) \/ MLockAll(t) \/ MNgUnbla(t) \/ MGUnbla(t) \/ MUnlock(t)
AllDone == \A t \in Threads : pc[t] = "next" /\ ip[t] > Len(prog[t])
\* the finished system stutters, so that TLC's deadlock check reports exactly the states where threads block each other
Finished == AllDone /\ UNCHANGED vars
Next == (\E t \in Threads : Step(t)) \/ Finished
Spec == Init /\ [][Next]_vars
FairSpec == Spec /\ \A t \in Threads : WF_vars(Step(t))

(***************************************************************************)
(* The iterator (ConcurrentFlyweight::Iterator), evaluated on a quiescent  *)
(* state: begin(lane) ... end().  NONE is the largest slot value in the    *)
(* code; here a handle without reserved slot simply never qualifies.       *)
(***************************************************************************)
END == -2
\* FindNextMaybeUnassignedSlot with Slot = s (s = NULL: the begin iterator): <<NextMaybeUnassignedSlot, ..Handle>>
FindNMU(s) == LET cand == {h \in Lanes : hslot[h] # NULL /\ (s = NULL \/ hslot[h] > s)} IN
              IF cand = {} THEN <<nextSlot, NULL>>
              ELSE LET m == Min({hslot[h] : h \in cand}) IN <<m, CHOOSE h \in cand : hslot[h] = m>>
\* MoveToNextAssignedSlot from state <<Slot, NextMaybeUnassignedSlot, NextMaybeUnassignedHandle>>: the new state
RECURSIVE Move(_, _, _)
Move(s, nmu, nmh) ==
    IF s = END THEN <<END, END, NULL>>
    ELSE IF s + 1 < nmu
      THEN IF s + 1 = 0 /\ Reserve THEN Move(s + 1, nmu, nmh) ELSE <<s + 1, nmu, nmh>>
      ELSE IF nmh = NULL THEN <<END, END, NULL>>
      ELSE LET assigned == hslot[nmh] = NULL \/ s + 1 < hslot[nmh]
               f == FindNMU(s + 1) IN
           IF assigned THEN <<s + 1, f[1], f[2]>> ELSE Move(s + 1, f[1], f[2])
\* the sequence of slots visited by for (it = begin(); it != end(); ++it)
RECURSIVE IterFrom(_)
IterFrom(st) == IF st[1] = END THEN <<>> ELSE <<st[1]>> \o IterFrom(Move(st[1], st[2], st[3]))
IterSlots == LET f == FindNMU(NULL) IN IterFrom(Move(NULL, f[1], f[2]))

(***************************************************************************)
(* Properties (C31)                                                        *)
(***************************************************************************)
PCs == {"next", "f_guard", "f_inc", "f_load", "f_blatry", "f_d_unlock", "f_d_bla", "f_d_relock", "f_growcheck",
        "f_lockall", "f_ng_unbla", "f_g_unbla", "f_publish", "m_lock", "m_load", "m_cas", "m_inc", "m_blatry",
        "m_d_unlock", "m_d_bla", "m_d_relock", "m_growcheck", "m_lockall", "m_ng_unbla", "m_g_unbla", "m_unlock"}
\* between the successful CAS and the return of the call
PostCas == {"m_inc", "m_blatry", "m_d_unlock", "m_d_bla", "m_d_relock", "m_growcheck", "m_lockall", "m_ng_unbla",
            "m_g_unbla"}
InMap == UNION {Range(Chain(buckets[b], nnext)) : b \in 0..bucketCount-1}
\* the ghost is exactly the content of the bucket lists; the properties below are stated over it
GhostOK == inmap = InMap
Completed == {o \in Threads \X (1..MaxNode) : o[2] <= Len(rets[o[1]])}
ValOf(o) == prog[o[1]][o[2]]
IdxOf(o) == rets[o[1]][o[2]][1]
InsOf(o) == rets[o[1]][o[2]][2]

TypeOK == /\ \A t \in Threads : pc[t] \in PCs
          /\ nextSlot <= MaxNode /\ DOMAIN slots = 0..slotCount-1 /\ DOMAIN buckets = 0..bucketCount-1
          /\ \A l \in Lanes : hslot[l] \in Nodes \cup {NULL}
\* equal values always get the same reference, different values different references
SameValueSameIndex == \A a, b \in Completed : ValOf(a) = ValOf(b) => IdxOf(a) = IdxOf(b)
DiffValueDiffIndex == \A a, b \in Completed : ValOf(a) # ValOf(b) => IdxOf(a) # IdxOf(b)
\* decoding a returned reference gives the original value (fetch: Slots[Idx]->first)
DecodeOK == \A a \in Completed : /\ IdxOf(a) < slotCount /\ slots[IdxOf(a)] # NULL
                                 /\ nkey[slots[IdxOf(a)]] = ValOf(a)
\* the reserved first slot (nil record) is never returned
NoNil == Reserve => \A a \in Completed : IdxOf(a) # 0
\* at most one call reports "inserted" per value; exactly one once everybody is done
OneInserter == /\ \A a, b \in Completed : (ValOf(a) = ValOf(b) /\ InsOf(a) /\ InsOf(b)) => a = b
               /\ AllDone => \A a \in Completed : \E b \in Completed : ValOf(b) = ValOf(a) /\ InsOf(b)
\* the map holds each key once, in the bucket of its hash
MapOK == /\ \A m, n \in inmap : nkey[m] = nkey[n] => m = n
         /\ \A b \in 0..bucketCount-1 : \A n \in Range(Chain(buckets[b], nnext)) : Hash(nkey[n]) % bucketCount = b
         /\ size <= Cardinality(inmap)
         /\ Cardinality(inmap) <= size + Cardinality({t \in Threads : pc[t] = "m_inc"})
\* map and slots agree: a node in the map is published in its slot
SlotsAgree == \A n \in inmap : n < slotCount /\ slots[n] = n
\* a slot reserved by a lane and not yet consumed is not in the map, lanes reserve different slots
ReservedOK == /\ \A l \in Lanes : (hslot[l] # NULL /\ hslot[l] \in inmap) =>
                      \E t \in Threads : lane[t] = l /\ found[t] = NULL /\ pc[t] \in PostCas \cup {"m_unlock"}
              /\ \A l, k \in Lanes : (l # k /\ hslot[l] # NULL) => hslot[l] # hslot[k]
              /\ \A l \in Lanes : hslot[l] # NULL => hslot[l] < nextSlot
\* the local Slot is the lane's reserved slot whenever it is used as an array index
SlotLocalOK == \A t \in Threads : pc[t] \in ({"f_publish", "m_lock", "m_load", "m_cas", "m_unlock"} \cup PostCas)
                                     => slot[t] = hslot[H(t)] /\ slot[t] < slotCount
\* iteration on a quiescent table lists every interned value exactly once (and never dereferences an empty slot)
QuiescentI == \A t \in Threads : pc[t] = "next"
IterOK == QuiescentI =>
            LET it == IterSlots IN
            /\ \A k \in 1..Len(it) : it[k] < slotCount /\ slots[it[k]] # NULL
            /\ Range(it) = inmap
            /\ Len(it) = Cardinality(inmap)
\* the mutexes are released when nobody is inside a call
LocksFree == QuiescentI => /\ fbla = 0 /\ mbla = 0 /\ \A l \in Lanes : flk[l] = 0 /\ mlk[l] = 0

Termination == <>AllDone

(***************************************************************************)
(* Refinement: the implementation is an interning table (InternAbs).       *)
(* enc/dec = the keys in the bucket lists; a call is linearized by the     *)
(* search round that finds its key or by its successful CAS.               *)
(***************************************************************************)
AbsOp(t) == IF pc[t] = "next" THEN [st |-> "idle"]
            ELSE IF pc[t] \in PostCas \/ (pc[t] = "m_unlock" /\ found[t] = NULL)
              THEN [st |-> "lin", v |-> V(t), i |-> hslot[H(t)], ins |-> TRUE]
            ELSE IF pc[t] = "m_unlock"
              THEN [st |-> "lin", v |-> V(t), i |-> found[t], ins |-> FALSE]
            ELSE [st |-> "called", v |-> V(t)]
Abs == INSTANCE InternAbs WITH
          Indices <- Nodes,
          NilIndices <- IF Reserve THEN {0} ELSE {},
          enc <- [v \in {nkey[n] : n \in inmap} |-> CHOOSE n \in inmap : nkey[n] = v],
          dec <- [n \in inmap |-> nkey[n]],
          op <- [t \in Threads |-> AbsOp(t)]
Refines == Abs!ASpec
\* the result returned is the one the linearization fixed
ReturnsLinResult == [][\A t \in Threads : (pc[t] = "m_unlock" /\ pc'[t] = "next") =>
                          Last(rets'[t]) = <<AbsOp(t).i, AbsOp(t).ins>>]_vars
=============================================================================
