CONSTANT Threads <- T3
CONSTANT M = 3
CONSTANT Fill <- FillB
CONSTANT Prog <- ProgB33
CONSTANT UseHints <- NoHints3
SPECIFICATION Spec
INVARIANT NoErr QuiescentOK FinalOK ParentsOK Progress
CHECK_DEADLOCK FALSE
