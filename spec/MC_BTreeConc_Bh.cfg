CONSTANT Threads <- T2
CONSTANT M = 3
CONSTANT Fill <- FillB
CONSTANT Prog <- ProgBh
CONSTANT UseHints <- Hints
SPECIFICATION Spec
INVARIANT NoErr QuiescentOK FinalOK ParentsOK Progress
CHECK_DEADLOCK FALSE
