------------------------------ MODULE MC_Brie ------------------------------
EXTENDS BrieImpl
\* index alphabets (BITS = 1, LW = 1: sparse-array index = i \div 2, leaf = 2 words, levels 0..2 for i < 16)
\*   0,1 same word; 0,2 same leaf; 0,4 sibling leaves; 9 / 15 need two raiseLevel steps from a leaf at 0
IdxQ == {0, 1, 4, 9}
IdxQ3 == {0, 1, 9}
IdxT == {0, 1, 2, 4, 9, 15}
SeqsUpTo(A, n) == UNION {[1..k -> A] : k \in 0..n}
\* 2 threads x 2 inserts; the threads are symmetric, so keep one representative of each mirrored pair
Leq(s, t) == \/ Len(s) < Len(t)
             \/ Len(s) = Len(t) /\ \A i \in 1..Len(s) : (\A j \in 1..(i - 1) : s[j] = t[j]) => s[i] <= t[i]
P22(A) == {f \in [1..2 -> [1..2 -> A]] : Leq(f[1], f[2])}
PQ22 == P22(IdxQ3)
PM22 == P22(IdxQ)
PT22 == P22(IdxT)
\* 3 threads x 1 insert
PT31 == {f \in [1..3 -> [1..1 -> IdxT]] : f[1][1] <= f[2][1] /\ f[2][1] <= f[3][1]}
PQ31 == {f \in PT31 : <<f[1][1], f[2][1], f[3][1]>> \in {<<0, 1, 9>>}}
\* 3 threads: 2,1,1 inserts
PT32 == {f \in [1..3 -> SeqsUpTo(IdxQ, 2)] : f[1] = <<0, 9>> /\ f[2] = <<4>> /\ f[3] \in {<<0>>, <<9>>}}
\* replay space (quick): programs whose walks are replayed on the real SparseBitMap<1>
PR == {f \in [1..2 -> SeqsUpTo({0, 1, 4, 9}, 2)] : Len(f[1]) = 2 /\ Len(f[2]) = 1}
PRt == {f \in PR : f[1] \in {<<0, 9>>, <<9, 0>>, <<1, 4>>} /\ f[2] \in {<<0>>, <<9>>, <<1>>, <<4>>}}
PRq == {f \in PR : <<f[1], f[2]>> \in {<<<<0, 9>>, <<0>>>>, <<<<9, 1>>, <<4>>>>}}
\* liveness (small)
PL == {f \in [1..2 -> [1..1 -> {0, 1, 9}]] : TRUE}
=============================================================================
