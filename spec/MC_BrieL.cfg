CONSTANT Threads = {1, 2}
CONSTANT BITS = 1
CONSTANT LW = 1
CONSTANT MaxN = 8
CONSTANT ProgSpace <- PL
SPECIFICATION FairSpec
INVARIANT Final
PROPERTY Termination
CHECK_DEADLOCK FALSE
