-------------------------- MODULE MC_BTreeSeqTrace --------------------------
(* Replays recorded sequential histories of the real btree_delete_set (3 keys per node) on the structural spec BTreeSeq *)
(* and compares the real tree's shape and the operation's result after every step.  A rejection is a MODEL-DRIFT (spec  *)
(* and code disagree on the node layout), not a violation; the property verdict comes from SortedSetAbsTrace.           *)
(* TraceData: <<[op |-> "reset"] | [op |-> "ins"/"del", key |-> k, res |-> 0/1, chk |-> BOOLEAN, tree |-> nested shape]>> *)
(* (the shape is recorded at every step with chk = TRUE only, to keep the data module small)                          *)
EXTENDS BTreeSeq, TLC, TraceDataModule
VARIABLE l
tvars == <<tree, last, l>>
TInit == Init /\ l = 1
TNext == /\ l <= Len(TraceData)
         /\ l' = l + 1
         /\ LET e == TraceData[l]
            IN CASE e.op = "reset" -> tree' = Empty /\ last' = [op |-> "none", key |-> 0, res |-> 0]
                 [] e.op = "ins"   -> Insert(e.key) /\ (e.chk => tree' = e.tree) /\ last'.res = e.res
                 [] e.op = "del"   -> Erase(e.key) /\ (e.chk => tree' = e.tree) /\ last'.res = e.res
TSpec == TInit /\ [][TNext]_tvars
Accepted == TLCGet("stats").diameter - 1 = Len(TraceData)
=============================================================================
