------------------------------ MODULE MC_Api ------------------------------
(* Model-checking harness of Api.tla: the programs (with their API universe) come from the generated module *)
(* DatalogData in the TLA-Library path; every program is an initial state.                                   *)
EXTENDS Api

ASSUME \A i \in 1..Len(Programs) : D!ValidStratification(Programs[i])
\* the universe is well-formed: tuples of the right arity, for the right relations
ASSUME \A i \in 1..Len(Programs) :
         LET Pg == Programs[i]
             ar(r) == D!RelInfo(Pg, r).arity
         IN /\ DOMAIN Pg.univ = D!InputRels(Pg) /\ DOMAIN Pg.files = D!InputRels(Pg)
            /\ DOMAIN Pg.probe = D!RelNames(Pg)
            /\ \A r \in DOMAIN Pg.univ : \A j \in 1..Len(Pg.univ[r]) : Len(Pg.univ[r][j]) = ar(r)
            /\ \A r \in DOMAIN Pg.files : \A j \in 1..Len(Pg.files[r]) : Len(Pg.files[r][j]) = ar(r)
            /\ \A r \in DOMAIN Pg.probe : \A j \in 1..Len(Pg.probe[r]) : Len(Pg.probe[r][j]) = ar(r)
\* exploration bound: call sequences of at most MaxDepth state-changing calls (queries are self loops and do not count);
\* TLC's breadth-first level of a state is the length of the shortest call sequence reaching it
CONSTANT MaxDepth
Bounded == TLCGet("level") <= MaxDepth + 1      \* the initial state has level 1
=============================================================================
