CONSTANT Threads = {1, 2, 3}
CONSTANT NLanes = 3
CONSTANT Values = {1, 2}
CONSTANT InitCap = 1
CONSTANT Reserve = TRUE
CONSTANT InitBuckets = 1
CONSTANT InitMaxSize = 1
CONSTANT HashMul = 1
CONSTANT MaxNode = 6
CONSTANT Scenarios <- Sc3
SPECIFICATION Spec
INVARIANT TypeOK GhostOK SameValueSameIndex DiffValueDiffIndex DecodeOK NoNil OneInserter MapOK SlotsAgree ReservedOK SlotLocalOK IterOK LocksFree
PROPERTY Refines ReturnsLinResult
