SPECIFICATION Spec
INVARIANT Emit EmitKinds
CHECK_DEADLOCK FALSE
