----------------------------- MODULE Components -----------------------------
(***************************************************************************)
(* Meaning of souffle's component system (C16): Flatten(CP) is the flat    *)
(* Datalog program a component program CP stands for - "the names expanded *)
(* by hand".  Pure operators only; the result has exactly the format       *)
(* spec/Datalog.tla reads ([rels, clauses, strata, dom, edbs]), so that    *)
(* the unchanged MC_Datalog computes the expected outputs of the           *)
(* instantiated program from  Programs == << Flatten(CP1), ... >>.         *)
(*                                                                         *)
(* Transcribed from src/ast/transform/ComponentInstantiation.cpp           *)
(* (getInstantiatedContent / collectContent / transform) and               *)
(* src/ast/analysis/ComponentLookup.{h,cpp} (getComponent, TypeBinding).   *)
(*                                                                         *)
(* A component program CP:                                                 *)
(*   rels, clauses : the global relations / clauses (Datalog.tla format)   *)
(*   comps   : seq of component declarations                               *)
(*       [name, encl (index of the enclosing declaration, 0 = global),     *)
(*        params  : seq of type-parameter names,                           *)
(*        bases   : seq of [name, args]   (`: Base<A1,..>`),               *)
(*        rels    : seq of relations (attribute types may be parameters),  *)
(*        clauses : seq of clauses,                                        *)
(*        overrides : seq of relation names (`.override R`),               *)
(*        inits   : seq of [inst, comp, args]  (`.init inst = comp<args>`)]*)
(*   inits   : the top-level instantiations                                *)
(*   dom, edbs : as in Datalog.tla (the input relations are global)        *)
(* Names are strings; a qualified name is written with dots ("a.inner.r"). *)
(* Every helper is LOCAL: the module is EXTENDed by the generated data     *)
(* module next to Datalog.tla and must export nothing but Flatten.         *)
(* No parameter or LET name here may be spelled like a VARIABLE of          *)
(* Datalog.tla (pi edb I si iters k oob): TLC's level bound goes by name,   *)
(* would take  Programs == <<Flatten(..)>>  for state-dependent and expand  *)
(* every program again on every reference (measured: 2106 times).           *)
(***************************************************************************)
LOCAL INSTANCE Integers
LOCAL INSTANCE Sequences
LOCAL INSTANCE FiniteSets
LOCAL INSTANCE TLC

LOCAL SeqSet(s) == {s[i] : i \in 1..Len(s)}
LOCAL Names(rels) == {rels[i].name : i \in 1..Len(rels)}
LOCAL MinOf(S) == CHOOSE i \in S : \A j \in S : i <= j

\* QualifiedName::getQualifiers()[0]: the text before the first dot
LOCAL FirstQual(n) ==
    LET dots == {i \in 1..Len(n) : SubSeq(n, i, i) = "."} IN
    IF dots = {} THEN n ELSE SubSeq(n, 1, MinOf(dots) - 1)

\* ---- TypeBinding (ComponentLookup.h) -------------------------------------
LOCAL NoBinding == [x \in {} |-> ""]
\* find() returns the empty name when unbound and every caller then keeps the name it asked for
LOCAL Forward(b, n) == IF n \in DOMAIN b THEN b[n] ELSE n
\* extend(): formal |-> actual, the actual forwarded ONCE through the binding in force where it is written
LOCAL Extend(b, formals, actuals) ==
    IF Len(formals) # Len(actuals) THEN b
    ELSE [f \in SeqSet(formals) |->
             LET i == CHOOSE j \in 1..Len(formals) :
                          formals[j] = f /\ \A m \in (j + 1)..Len(formals) : formals[m] # f
             IN Forward(b, actuals[i])]

\* ---- ComponentLookupAnalysis::getComponent --------------------------------
\* scope: index of a declaration (0 = global scope); result: index of the declaration found, 0 = none.
\* Search order: declarations nested in the scope, then (through the scope's base components) theirs,
\* then the enclosing scope, ..., finally the global declarations.
RECURSIVE CompLookup(_, _, _, _), CompLookupBases(_, _, _, _, _)
LOCAL CompLookup(CP, scope, name, b) ==
    LET bound == Forward(b, name)
        decl  == {i \in 1..Len(CP.comps) : CP.comps[i].encl = scope /\ CP.comps[i].name = bound}
    IN IF decl # {} THEN MinOf(decl)
       ELSE IF scope = 0 THEN 0
       ELSE LET r == CompLookupBases(CP, scope, 1, name, b) IN
            IF r.stop THEN r.idx ELSE CompLookup(CP, CP.comps[scope].encl, name, b)
LOCAL CompLookupBases(CP, scope, at, name, b) ==
    IF at > Len(CP.comps[scope].bases) THEN [stop |-> FALSE, idx |-> 0]
    ELSE LET base == CompLookup(CP, CP.comps[scope].encl, CP.comps[scope].bases[at].name, b) IN
         IF base = scope THEN [stop |-> TRUE, idx |-> 0]
         ELSE IF base = 0 THEN CompLookupBases(CP, scope, at + 1, name, b)
         ELSE LET f == CompLookup(CP, base, name, b) IN
              IF f # 0 THEN [stop |-> TRUE, idx |-> f] ELSE CompLookupBases(CP, scope, at + 1, name, b)

\* ---- renaming of relation references (fixNames: every Atom of a clause) ---
LOCAL Ren(n, names, inst) == IF n \in names THEN inst \o "." \o n ELSE n
RECURSIVE RenLit(_, _, _)
LOCAL RenLit(l, names, inst) ==
    CASE l.k \in {"atom", "neg"} -> [l EXCEPT !.rel = Ren(@, names, inst)]
      [] l.k = "agg" -> [l EXCEPT !.body = [i \in 1..Len(@) |-> RenLit(@[i], names, inst)]]
      [] OTHER -> l
LOCAL RenClause(c, names, inst) ==
    [c EXCEPT !.head = [@ EXCEPT !.rel = Ren(@, names, inst)],
              !.body = [i \in 1..Len(@) |-> RenLit(@[i], names, inst)]]
LOCAL RenClauses(cs, names, inst) == [i \in 1..Len(cs) |-> RenClause(cs[i], names, inst)]

\* the clauses of cs whose head relation is (yes = TRUE) / is not (yes = FALSE) in S
RECURSIVE CompHeads(_, _, _), CompKeep(_, _)
LOCAL CompHeads(cs, S, yes) ==
    IF cs = <<>> THEN <<>>
    ELSE (IF (Head(cs).head.rel \in S) = yes THEN <<Head(cs)>> ELSE <<>>) \o CompHeads(Tail(cs), S, yes)
\* the clauses of cs whose head relation (first qualifier) is not overridden
LOCAL CompKeep(cs, ov) ==
    IF cs = <<>> THEN <<>>
    ELSE (IF FirstQual(Head(cs).head.rel) \notin ov THEN <<Head(cs)>> ELSE <<>>) \o CompKeep(Tail(cs), ov)

\* ---- getInstantiatedContent / collectContent -------------------------------
\* The accumulator acc = [rels, clauses, orph]: ComponentContent `res` plus the shared list of orphan clauses
\* (clauses whose head relation is not declared where they are written; they travel outwards).
RECURSIVE CompInst(_, _, _, _, _, _), CompInsts(_, _, _, _, _, _, _),
          CompCollect(_, _, _, _, _, _), CompCollectBases(_, _, _, _, _, _, _)

\* content of ONE `.init init.inst = init.comp<init.args>` written in scope encl: [rels, clauses, orph]
LOCAL CompInst(CP, init, encl, orph, ov, b) ==
    LET ci == CompLookup(CP, encl, init.comp, b) IN
    IF ci = 0 THEN Assert(FALSE, <<"Components.tla: component not found", init>>)
    ELSE
    LET c  == CP.comps[ci]
        ab == Extend(b, c.params, init.args)
        \* nested instantiations first (their relations already carry the nested instance name) ...
        n  == CompInsts(CP, c.inits, 1, ci, [rels |-> <<>>, clauses |-> <<>>, orph |-> orph], ov, ab)
        \* ... then the component's own and inherited content
        r  == CompCollect(CP, ci, ab, c.encl, n, ov)
        \* every relation of the instance gets the instance name in front; atoms naming one of them follow,
        \* all other names (global relations, relations of enclosing instances) are left alone
        names == Names(r.rels)
    IN [rels    |-> [i \in 1..Len(r.rels) |-> [r.rels[i] EXCEPT !.name = Ren(@, names, init.inst)]],
        clauses |-> RenClauses(r.clauses, names, init.inst),
        orph    |-> RenClauses(r.orph, names, init.inst)]

\* the instantiations inits[at..] written inside declaration ci, appended to acc
LOCAL CompInsts(CP, inits, at, ci, acc, ov, b) ==
    IF at > Len(inits) THEN acc
    ELSE LET x == CompInst(CP, inits[at], ci, acc.orph, ov, b) IN
         CompInsts(CP, inits, at + 1, ci,
                   [rels |-> acc.rels \o x.rels, clauses |-> acc.clauses \o x.clauses, orph |-> x.orph], ov, b)

\* collectContent: base components first (recursively), then the local relations and clauses
LOCAL CompCollect(CP, ci, b, encl, acc, ov) ==
    LET c     == CP.comps[ci]
        sov   == ov \cup SeqSet(c.overrides)           \* what is overridden for everything inherited
        a1    == CompCollectBases(CP, ci, 1, b, encl, acc, sov)
        local == [i \in 1..Len(c.rels) |->
                     [c.rels[i] EXCEPT !.types = [j \in 1..Len(@) |-> Forward(b, @[j])]]]
        rels2 == a1.rels \o local
        index == Names(rels2)
        \* clauses of a relation overridden further down the hierarchy are not inherited
        keep  == CompKeep(c.clauses, ov)
        orph1 == a1.orph \o CompHeads(keep, index, FALSE)
    IN [rels    |-> rels2,
        clauses |-> a1.clauses \o CompHeads(keep, index, TRUE) \o CompHeads(orph1, index, TRUE),
        orph    |-> CompHeads(orph1, index, FALSE)]

LOCAL CompCollectBases(CP, ci, at, b, encl, acc, sov) ==
    IF at > Len(CP.comps[ci].bases) THEN acc
    ELSE LET base == CP.comps[ci].bases[at]
             bi   == CompLookup(CP, encl, base.name, b)
         IN IF bi = 0 THEN Assert(FALSE, <<"Components.tla: base component not found", base>>)
            ELSE LET bc == CP.comps[bi]
                     ab == Extend(b, bc.params, base.args)
                     a1 == CompInsts(CP, bc.inits, 1, bi, acc, {}, ab)      \* the base's own nested instances
                     a2 == CompCollect(CP, bi, ab, bc.encl, a1, sov)
                 IN CompCollectBases(CP, ci, at + 1, b, encl, a2, sov)

\* ---- a stratification of the flat program (finest: the SCCs of the dependency graph) ----------------------
RECURSIVE LitRels(_)
LOCAL LitRels(l) == CASE l.k \in {"atom", "neg"} -> {l.rel}
                      [] l.k = "agg" -> UNION {LitRels(l.body[i]) : i \in 1..Len(l.body)}
                      [] OTHER -> {}
LOCAL BodyRels(c) == UNION {LitRels(c.body[j]) : j \in 1..Len(c.body)}
LOCAL CompStep(X) == X \cup UNION {{<<p[1], q[2]>> : q \in {z \in X : z[1] = p[2]}} : p \in X}
RECURSIVE CompLfp(_), CompSetSeq(_), CompOrder(_, _, _)
LOCAL CompLfp(X) == IF CompStep(X) = X THEN X ELSE CompLfp(CompStep(X))
LOCAL CompSetSeq(S) == IF S = {} THEN <<>> ELSE LET x == CHOOSE y \in S : TRUE IN <<x>> \o CompSetSeq(S \ {x})
\* everything the set of relations S depends on (S included), C the reflexive-transitive dependency relation
LOCAL CompBelow(S, N, C) == {s \in N : \E r \in S : <<s, r>> \in C}
LOCAL CompOrder(Ss, N, C) ==
    IF Ss = {} THEN <<>>
    ELSE LET m == CHOOSE x \in Ss : \A y \in Ss : Cardinality(CompBelow(x, N, C)) <= Cardinality(CompBelow(y, N, C))
         IN <<CompSetSeq(m)>> \o CompOrder(Ss \ {m}, N, C)
LOCAL Stratify(rels, clauses) ==
    LET N  == Names(rels)
        E0 == {<<x, x>> : x \in N} \cup
              UNION {{<<d, clauses[i].head.rel>> : d \in BodyRels(clauses[i])} : i \in 1..Len(clauses)}
        C  == CompLfp(E0)
    IN CompOrder({{s \in N : <<s, r>> \in C /\ <<r, s>> \in C} : r \in N}, N, C)

\* ---- ComponentInstantiationTransformer::transform ---------------------------
RECURSIVE CompTop(_, _, _)
LOCAL CompTop(CP, at, acc) ==
    IF at > Len(CP.inits) THEN acc
    ELSE LET x == CompInst(CP, CP.inits[at], 0, <<>>, {}, NoBinding) IN
         \* what is still an orphan at the top refers to a global relation: added as it is
         CompTop(CP, at + 1, [rels |-> acc.rels \o x.rels, clauses |-> acc.clauses \o x.clauses \o x.orph])

LOCAL FlatRel(r) == [name |-> r.name, arity |-> r.arity, types |-> r.types,
                     input |-> r.input, output |-> r.output, eqrel |-> r.eqrel]

Flatten(CP) ==
    LET t    == CompTop(CP, 1, [rels |-> CP.rels, clauses |-> CP.clauses])
        rels == [i \in 1..Len(t.rels) |-> FlatRel(t.rels[i])]
        decl == {t.clauses[i].head.rel : i \in 1..Len(t.clauses)} \cup
                UNION {BodyRels(t.clauses[i]) : i \in 1..Len(t.clauses)}
    IN IF Cardinality(Names(rels)) # Len(rels)
       THEN Assert(FALSE, <<"Components.tla: relation declared twice (souffle rejects the program)", Names(rels)>>)
       ELSE IF ~(decl \subseteq Names(rels))
       THEN Assert(FALSE, <<"Components.tla: undeclared relation used (souffle rejects the program)", decl \ Names(rels)>>)
       ELSE [rels |-> rels, clauses |-> t.clauses, strata |-> Stratify(rels, t.clauses),
             dom |-> CP.dom, edbs |-> CP.edbs]
=============================================================================
