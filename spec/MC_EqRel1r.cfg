CONSTANT Rels = {1}
CONSTANT Elems <- E4
CONSTANT RightFirst = TRUE
CONSTANT MaxOps = 4
SPECIFICATION Spec
INVARIANT CacheFresh ForestOK
PROPERTY Refines
CHECK_DEADLOCK FALSE
