---- MODULE MC_UnionFind_replayq ----
EXTENDS MC_UnionFind
Space == ReplayQ(4)
====
