------------------------------- MODULE Dyadic -------------------------------
(***************************************************************************)
(* Souffle's RamFloat (IEEE-754 binary32) restricted to the values and     *)
(* results that TLC can decide exactly:                                    *)
(*     <<"fin", m, e>>   the number m * 2^e, m odd, |m| < 2^24,            *)
(*                       -126 <= e + bitlen(|m|) - 1 <= 127  (a normal)    *)
(*     <<"zero", s>>     +0.0 (s = 0) and -0.0 (s = 1)                     *)
(*     <<"inf", s>>      +infinity / -infinity                             *)
(*     <<"nan">>         a NaN (sign and payload are not specified)        *)
(* Every operator returns <<v>> when the IEEE result is one of these       *)
(* values EXACTLY, and <<>> otherwise: IEEE *rounding* is not modelled, a  *)
(* vector whose exact result is not representable (or is subnormal, or     *)
(* overflows) is outside this specification's domain.  Nothing here leaves *)
(* TLC's 32-bit integers.                                                  *)
(* Semantics pinned to interpreter/Engine.cpp and synthesiser/Synthesiser: *)
(* + - * / are the C++ operators on float, max/min are std::max/std::min   *)
(* (a left fold of  (a < b) ? b : a  /  (b < a) ? b : a ), conversions are *)
(* static_cast, to_string is std::to_string(float) = "%f", to_float is     *)
(* std::stof, ^ is std::pow(float, float).                                 *)
(***************************************************************************)
EXTENDS Functors

PZero == <<"zero", 0>>
NZero == <<"zero", 1>>
PInf  == <<"inf", 0>>
NInf  == <<"inf", 1>>
NaN   == <<"nan">>
Fin(m, e) == <<"fin", m, e>>
FOne  == Fin(1, 0)

IsFin(x)  == x[1] = "fin"
IsZero(x) == x[1] = "zero"
IsInf(x)  == x[1] = "inf"
IsNaN(x)  == x[1] = "nan"
\* sign bit (0 / 1); not meaningful for NaN
SignOf(x) == IF IsFin(x) THEN (IF x[2] < 0 THEN 1 ELSE 0) ELSE x[2]
Xor1(s, t) == IF s = t THEN 0 ELSE 1

TwoP24 == 16777216
MantOK(m) == -TwoP24 < m /\ m < TwoP24
TopExp(m, e) == e + BitLen(IF m < 0 THEN -m ELSE m) - 1         \* |m| < 2^31
Representable(m, e) == MantOK(m) /\ m % 2 = 1 /\ TopExp(m, e) >= -126 /\ TopExp(m, e) <= 127
WellFormed(x) == \/ x \in {PZero, NZero, PInf, NInf, NaN}
                 \/ (Len(x) = 3 /\ IsFin(x) /\ Representable(x[2], x[3]))

RECURSIVE NormAcc(_, _)
NormAcc(m, e) == IF m % 2 = 0 THEN NormAcc(m \div 2, e + 1) ELSE <<m, e>>    \* m # 0 (MinInt is fine)
\* the float m * 2^e for any int m # 0, when it is one
MkFin(m, e) == LET n == NormAcc(m, e) IN IF Representable(n[1], n[2]) THEN <<Fin(n[1], n[2])>> ELSE <<>>

\* ---- negation -------------------------------------------------------------
FNegV(x) == CASE IsFin(x) -> Fin(-x[2], x[3])
              [] IsZero(x) \/ IsInf(x) -> <<x[1], 1 - x[2]>>
              [] OTHER -> NaN

\* ---- addition -------------------------------------------------------------
\* finite + finite with e1 >= e2.  m2 is odd, so for d > 0 the sum's mantissa is m1*2^d + m2, odd.
AddFinOrd(m1, e1, m2, e2) ==
    LET d == e1 - e2 IN
    IF d > 25 THEN <<>>
    ELSE IF Abs(m1) > 33554432 \div Pow2(d) THEN <<>>        \* |m1|*2^d > 2^25: the sum needs more than 24 bits
    ELSE LET s == m1 * Pow2(d) + m2 IN
         IF s = 0 THEN <<PZero>> ELSE MkFin(s, e2)           \* x + (-x) = +0 (round to nearest)
FAddV(x, y) ==
    CASE IsNaN(x) \/ IsNaN(y) -> <<NaN>>
      [] IsInf(x) /\ IsInf(y) -> IF x[2] = y[2] THEN <<x>> ELSE <<NaN>>
      [] IsInf(x) -> <<x>>
      [] IsInf(y) -> <<y>>
      [] IsZero(x) /\ IsZero(y) -> IF x[2] = 1 /\ y[2] = 1 THEN <<NZero>> ELSE <<PZero>>
      [] IsZero(x) -> <<y>>
      [] IsZero(y) -> <<x>>
      [] OTHER -> IF x[3] >= y[3] THEN AddFinOrd(x[2], x[3], y[2], y[3])
                                  ELSE AddFinOrd(y[2], y[3], x[2], x[3])
FSubV(x, y) == FAddV(x, FNegV(y))                          \* IEEE: x - y = x + (-y)

\* ---- multiplication / division ---------------------------------------------
FMulV(x, y) ==
    LET s == Xor1(SignOf(x), SignOf(y)) IN
    CASE IsNaN(x) \/ IsNaN(y) -> <<NaN>>
      [] (IsInf(x) /\ IsZero(y)) \/ (IsZero(x) /\ IsInf(y)) -> <<NaN>>
      [] IsInf(x) \/ IsInf(y) -> << <<"inf", s>> >>
      [] IsZero(x) \/ IsZero(y) -> << <<"zero", s>> >>
      [] OTHER -> IF Abs(x[2]) > 16777215 \div Abs(y[2]) THEN <<>>
                  ELSE LET m == x[2] * y[2]  e == x[3] + y[3] IN
                       IF Representable(m, e) THEN <<Fin(m, e)>> ELSE <<>>
FDivV(x, y) ==
    LET s == Xor1(SignOf(x), SignOf(y)) IN
    CASE IsNaN(x) \/ IsNaN(y) -> <<NaN>>
      [] IsInf(x) /\ IsInf(y) -> <<NaN>>
      [] IsZero(x) /\ IsZero(y) -> <<NaN>>
      [] IsInf(x) -> << <<"inf", s>> >>
      [] IsInf(y) -> << <<"zero", s>> >>
      [] IsZero(y) -> << <<"inf", s>> >>                   \* finite / 0
      [] IsZero(x) -> << <<"zero", s>> >>
      [] OTHER -> IF x[2] % Abs(y[2]) # 0 THEN <<>>          \* quotient is not dyadic with 24 bits... not exact
                  ELSE LET m == TDiv(x[2], y[2])  e == x[3] - y[3] IN
                       IF Representable(m, e) THEN <<Fin(m, e)>> ELSE <<>>

\* ---- order ------------------------------------------------------------------
\* magnitudes a1*2^e1 ? a2*2^e2 with a1, a2 > 0:  -1 / 0 / 1
MagCmp(a1, e1, a2, e2) ==
    LET t1 == e1 + BitLen(a1)  t2 == e2 + BitLen(a2) IN
    IF t1 # t2 THEN (IF t1 < t2 THEN -1 ELSE 1)
    ELSE LET b1 == IF e1 >= e2 THEN a1 * Pow2(e1 - e2) ELSE a1         \* same top bit: shifts stay below 2^24
             b2 == IF e2 >= e1 THEN a2 * Pow2(e2 - e1) ELSE a2
         IN  IF b1 < b2 THEN -1 ELSE IF b1 > b2 THEN 1 ELSE 0
\* class of a non-NaN value on the extended line: -2 (-inf) -1 (negative) 0 (zeros) 1 (positive) 2 (+inf)
ClassOf(x) == CASE IsInf(x) -> IF x[2] = 1 THEN -2 ELSE 2
                [] IsZero(x) -> 0
                [] OTHER -> IF x[2] < 0 THEN -1 ELSE 1
\* -1 / 0 / 1, and 2 for unordered (a NaN operand)
FCmp3(x, y) ==
    IF IsNaN(x) \/ IsNaN(y) THEN 2
    ELSE IF ClassOf(x) # ClassOf(y) THEN (IF ClassOf(x) < ClassOf(y) THEN -1 ELSE 1)
    ELSE IF ~IsFin(x) THEN 0                                   \* equal infinities, or +0 = -0
    ELSE IF x[2] > 0 THEN MagCmp(x[2], x[3], y[2], y[3])
    ELSE MagCmp(-y[2], y[3], -x[2], x[3])
FLt(x, y) == FCmp3(x, y) = -1
FMaxV(x, y) == IF FLt(x, y) THEN y ELSE x                  \* std::max(x, y)
FMinV(x, y) == IF FLt(y, x) THEN y ELSE x                  \* std::min(x, y)

\* ---- conversions -------------------------------------------------------------
I2FV(i) == IF i = 0 THEN <<PZero>> ELSE MkFin(i, 0)
U2FV(u) == IF u >= 0 THEN I2FV(u)
           ELSE IF u % 2 = 1 THEN <<>>                      \* >= 2^31 and odd: 32 significant bits
           ELSE MkFin(Shr1U(u), 1)
\* truncation toward zero; defined iff the truncated value fits the target type
F2IV(x) ==
    CASE IsZero(x) -> <<0>>
      [] IsFin(x) ->
           LET m == x[2]  e == x[3] IN
           IF e >= 0 THEN (IF BitLen(Abs(m)) + e <= 31 THEN <<m * Pow2(e)>>
                           ELSE IF m = -1 /\ e = 31 THEN <<MinInt>> ELSE <<>>)
           ELSE IF -e >= 24 THEN <<0>> ELSE <<TDiv(m, Pow2(-e))>>
      [] OTHER -> <<>>
F2UV(x) ==
    CASE IsZero(x) -> <<0>>
      [] IsFin(x) ->
           LET m == x[2]  e == x[3] IN
           IF m < 0 THEN (IF e < 0 /\ (-e >= 24 \/ -m < Pow2(-e)) THEN <<0>> ELSE <<>>)   \* only (-1, 0) truncates to 0
           ELSE IF e >= 0 THEN (IF BitLen(m) + e <= 32 THEN <<ShlN(m, e)>> ELSE <<>>)    \* the signed twin
           ELSE IF -e >= 24 THEN <<0>> ELSE <<m \div Pow2(-e)>>
      [] OTHER -> <<>>

\* std::to_string(float): "%f" of the value, six decimals.  Exactly six decimals suffice iff e >= -6.
Pad6(n) == LET s == ToString(n) IN SubSeq("000000", 1, 6 - Len(s)) \o s
F2SV(x) ==
    CASE IsZero(x) -> <<IF x[2] = 1 THEN "-0.000000" ELSE "0.000000">>
      [] IsInf(x)  -> <<IF x[2] = 1 THEN "-inf" ELSE "inf">>
      [] IsFin(x)  ->
           LET a == Abs(x[2])  e == x[3]  sg == IF x[2] < 0 THEN "-" ELSE "" IN
           IF e >= 0 THEN (IF BitLen(a) + e <= 31 THEN <<sg \o ToString(a * Pow2(e)) \o ".000000">> ELSE <<>>)
           ELSE IF e < -6 THEN <<>>                                   \* printing rounds: not modelled
           ELSE LET k == Pow2(-e) IN
                <<sg \o ToString(a \div k) \o "." \o Pad6((a % k) * (1000000 \div k))>>
      [] OTHER -> <<>>                                               \* "nan" / "-nan": sign unspecified

\* std::stof on the plain decimal forms  [-]digits[.digits]  (at most 9 digits in all); exact iff dyadic
Pow5(k) == <<1, 5, 25, 125, 625, 3125, 15625, 78125, 390625, 1953125>>[k + 1]
DotAt(s) == IF \E i \in 1..Len(s) : Ch(s, i) = "." THEN CHOOSE i \in 1..Len(s) : Ch(s, i) = "." ELSE 0
S2FV(s0) ==
    LET neg == Len(s0) > 0 /\ Ch(s0, 1) = "-"
        s   == IF neg THEN SubSeq(s0, 2, Len(s0)) ELSE s0
        d   == DotAt(s)
        ip  == IF d = 0 THEN s ELSE SubSeq(s, 1, d - 1)
        fp  == IF d = 0 THEN "" ELSE SubSeq(s, d + 1, Len(s))
        k   == Len(fp)
    IN  IF Len(ip) = 0 \/ (d # 0 /\ k = 0) \/ ~AllDigits(ip) \/ ~AllDigits(fp) \/ Len(ip) + k > 9 THEN <<>>
        ELSE LET n == ParseNat(ip \o fp, 1, 0)[1] IN
             IF n = 0 THEN <<IF neg THEN NZero ELSE PZero>>
             ELSE IF n % Pow5(k) # 0 THEN <<>>                         \* not dyadic: the result is rounded
             ELSE MkFin(IF neg THEN -(n \div Pow5(k)) ELSE n \div Pow5(k), -k)

\* std::pow(float, float) for an integral exponent of small size, by exact repeated multiplication
RECURSIVE FPowAcc(_, _, _)
FPowAcc(x, n, acc) == IF n = 0 THEN <<acc>>
                      ELSE LET p == FMulV(acc, x) IN IF p = <<>> THEN <<>> ELSE FPowAcc(x, n - 1, p[1])
FExpV(x, y) ==
    LET n == F2IV(y) IN
    IF IsNaN(x) \/ IsNaN(y) \/ IsInf(y) \/ n = <<>> THEN <<>>
    ELSE IF I2FV(n[1]) # <<y>> /\ ~IsZero(y) THEN <<>>                 \* y is not an integer
    ELSE IF n[1] > 16 \/ n[1] < -16 THEN <<>>
    ELSE IF n[1] = 0 THEN <<FOne>>
    ELSE IF n[1] > 0 THEN FPowAcc(x, n[1], FOne)
    ELSE LET p == FPowAcc(x, -n[1], FOne) IN IF p = <<>> THEN <<>> ELSE FDivV(FOne, p[1])

\* range(a, b, s) on floats (runRange<RamFloat>): every partial sum must be exact
RECURSIVE FRangeAcc(_, _, _, _)
FRangeAcc(x, to, step, acc) ==
    IF (ClassOf(step) > 0 /\ ~FLt(x, to)) \/ (ClassOf(step) < 0 /\ ~FLt(to, x)) THEN <<acc>>
    ELSE IF Len(acc) >= RangeCap THEN <<>>
    ELSE LET nx == FAddV(x, step) IN
         IF nx = <<>> THEN <<>> ELSE FRangeAcc(nx[1], to, step, Append(acc, x))
FRange3(a, b, s) ==
    IF IsNaN(a) \/ IsNaN(b) \/ IsNaN(s) \/ IsInf(a) \/ IsInf(b) \/ IsInf(s) THEN <<>>
    ELSE IF IsZero(s) THEN <<IF FCmp3(a, b) # 0 THEN <<a>> ELSE <<>>>>
    ELSE FRangeAcc(a, b, s, <<>>)
FRange2(a, b) == FRange3(a, b, IF FCmp3(a, b) \in {-1, 0} THEN FOne ELSE Fin(-1, 0))

\* the binary32 bit pattern as a signed twin (what `ord` shows, and what a type-blind to_string prints)
BitsOf(x) ==
    CASE IsZero(x) -> IF x[2] = 1 THEN MinInt ELSE 0
      [] IsInf(x)  -> IF x[2] = 1 THEN 2139095040 + MinInt ELSE 2139095040
      [] IsFin(x)  -> LET a == Abs(x[2])  b == BitLen(a)
                          p == (TopExp(x[2], x[3]) + 127) * 8388608 + (a * Pow2(24 - b) - 8388608)
                      IN  IF x[2] < 0 THEN p + MinInt ELSE p

FloatOps == {"FNEG", "FADD", "FSUB", "FMUL", "FDIV", "FEXP", "FMAX", "FMIN", "F2F", "F2I", "F2U", "F2S",
             "I2F", "U2F", "S2F", "FRANGE"}
RECURSIVE FApply(_, _)
FApply(op, a) ==
    IF op \in {"FMAX", "FMIN"} /\ Len(a) > 2
    THEN LET h == FApply(op, <<a[1], a[2]>>) IN FApply(op, <<h[1]>> \o SubSeq(a, 3, Len(a)))
    ELSE CASE op = "FNEG" -> <<FNegV(a[1])>>
           [] op = "FADD" -> FAddV(a[1], a[2])
           [] op = "FSUB" -> FSubV(a[1], a[2])
           [] op = "FMUL" -> FMulV(a[1], a[2])
           [] op = "FDIV" -> FDivV(a[1], a[2])
           [] op = "FEXP" -> FExpV(a[1], a[2])
           [] op = "FMAX" -> <<FMaxV(a[1], a[2])>>
           [] op = "FMIN" -> <<FMinV(a[1], a[2])>>
           [] op = "F2F"  -> <<a[1]>>
           [] op = "F2I"  -> F2IV(a[1])
           [] op = "F2U"  -> F2UV(a[1])
           [] op = "F2S"  -> F2SV(a[1])
           [] op = "I2F"  -> I2FV(a[1])
           [] op = "U2F"  -> U2FV(a[1])
           [] op = "S2F"  -> S2FV(a[1])
           [] op = "FRANGE" -> IF Len(a) = 2 THEN FRange2(a[1], a[2]) ELSE FRange3(a[1], a[2], a[3])

FCmpOps == {"FEQ", "FNE", "FLT", "FLE", "FGT", "FGE"}
FCmpX(op, l, r) ==
    LET c == FCmp3(l, r) IN
    CASE op = "FEQ" -> <<c = 0>>
      [] op = "FNE" -> <<c # 0>>                               \* NaN # anything, itself included
      [] op = "FLT" -> <<c = -1>>
      [] op = "FLE" -> <<c \in {-1, 0}>>
      [] op = "FGT" -> <<c = 1>>
      [] op = "FGE" -> <<c \in {0, 1}>>
=============================================================================
