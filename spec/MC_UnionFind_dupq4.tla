---- MODULE MC_UnionFind_dupq4 ----
EXTENDS MC_UnionFind
Space == DupQ(4)
====
