---- MODULE MC_UnionFind_knownobs ----
EXTENDS MC_UnionFind
Space == KnownObs(4)
====
