---- MODULE MC_UnionFindAbs ----
EXTENDS UnionFindAbs
====
