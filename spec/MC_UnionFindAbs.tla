---------------------------- MODULE MC_UnionFindAbs ----------------------------
(* Model of UnionFindAbs for TLC: arguments restricted to a < b (find: a = b) to keep req small. *)
EXTENDS UnionFindAbs
MCNext == \E c \in Clients : \/ \E op \in {"u", "s"}, a, b \in Node : a < b /\ Call(c, op, a, b)
                             \/ \E a \in Node : Call(c, "f", a, a)
                             \/ Lin(c)
                             \/ \E r \in Node : Ret(c, r)
MCSpec == AInit /\ [][MCNext]_avars
=============================================================================
