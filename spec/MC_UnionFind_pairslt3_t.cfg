CONSTANTS N = 3  NT = 2  Variant = "textbook"
CONSTANT ConfigSpace <- Space
SPECIFICATION Spec
INVARIANT TypeOK Acyclic UnionsHold NoSpurious FinalPartition SameSetSound FindSound RankMonotone
CHECK_DEADLOCK FALSE
