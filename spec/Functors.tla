------------------------------ MODULE Functors ------------------------------
(***************************************************************************)
(* Value semantics of souffle's intrinsic functors and binary constraints  *)
(* (FunctorOps.h, BinaryConstraintOps.h, interpreter/Engine.cpp            *)
(* evalIntrinsicOperator / evalConstraint; Synthesiser.cpp emits the same).*)
(* Apply(op, args) returns <<v>> when the application is inside the        *)
(* defined domain and <<>> otherwise (signed overflow, division by zero).  *)
(* Operator names are souffle's FunctorOp / BinaryConstraintOp enumerators.*)
(* Unsigned values travel as signed twins (Word32).                        *)
(***************************************************************************)
EXTENDS Integers, Sequences, TLC, Word32

Nil == 0      \* the nil record is RAM value 0 (RecordTable)

\* ---- byte order on strings (symbols compare lexicographically by byte) --
Ascii == <<" ","!","\"","#","$","%","&","'","(",")","*","+",",","-",".","/",
           "0","1","2","3","4","5","6","7","8","9",":",";","<","=",">","?",
           "@","A","B","C","D","E","F","G","H","I","J","K","L","M","N","O",
           "P","Q","R","S","T","U","V","W","X","Y","Z","[","\\","]","^","_",
           "`","a","b","c","d","e","f","g","h","i","j","k","l","m","n","o",
           "p","q","r","s","t","u","v","w","x","y","z","{","|","}","~">>
Ord1(c) == CHOOSE i \in 1..Len(Ascii) : Ascii[i] = c
Ch(s, i) == SubSeq(s, i, i)
RECURSIVE StrLtFrom(_, _, _)
StrLtFrom(a, b, i) ==
    IF i > Len(b) THEN FALSE
    ELSE IF i > Len(a) THEN TRUE
    ELSE IF Ch(a, i) = Ch(b, i) THEN StrLtFrom(a, b, i + 1)
    ELSE Ord1(Ch(a, i)) < Ord1(Ch(b, i))
StrLt(a, b) == StrLtFrom(a, b, 1)
StrLe(a, b) == a = b \/ StrLt(a, b)

\* ---- decimal parsing for to_number --------------------------------------
Digits == <<"0","1","2","3","4","5","6","7","8","9">>
IsDigit(c) == \E i \in 1..10 : Digits[i] = c
DigitVal(c) == (CHOOSE i \in 1..10 : Digits[i] = c) - 1
RECURSIVE ParseNat(_, _, _)
\* returns <<v>> or <<>> (empty on a non-digit or overflow beyond MaxInt)
ParseNat(s, i, acc) ==
    IF i > Len(s) THEN <<acc>>
    ELSE IF ~IsDigit(Ch(s, i)) THEN <<>>
    ELSE IF acc > (MaxInt - DigitVal(Ch(s, i))) \div 10 THEN <<>>
    ELSE ParseNat(s, i + 1, acc * 10 + DigitVal(Ch(s, i)))
ParseInt(s) ==
    IF Len(s) = 0 THEN <<>>
    ELSE IF Ch(s, 1) = "-" THEN
            (IF Len(s) = 1 THEN <<>> ELSE
             LET r == ParseNat(s, 2, 0) IN IF r = <<>> THEN <<>> ELSE <<-r[1]>>)
    ELSE ParseNat(s, 1, 0)

Bool(b) == IF b THEN 1 ELSE 0

RECURSIVE PowAcc(_, _, _)
\* signed exponent by repeated multiplication; <<>> on overflow
PowAcc(b, e, acc) == IF e = 0 THEN <<acc>>
                     ELSE IF ~MulOK(acc, b) THEN <<>> ELSE PowAcc(b, e - 1, acc * b)

Substr(s, i, l) ==   \* substr(s,i,l): clamps at the end; "" when i > strlen or i<0 or l<0
    IF i < 0 \/ l < 0 \/ i > Len(s) THEN ""
    ELSE SubSeq(s, i + 1, IF i + l > Len(s) THEN Len(s) ELSE i + l)

Apply(op, a) ==
    CASE op = "ADD" -> IF AddOK(a[1], a[2]) THEN <<a[1] + a[2]>> ELSE <<>>
      [] op = "SUB" -> IF SubOK(a[1], a[2]) THEN <<a[1] - a[2]>> ELSE <<>>
      [] op = "MUL" -> IF MulOK(a[1], a[2]) THEN <<a[1] * a[2]>> ELSE <<>>
      [] op = "DIV" -> IF DivOK(a[1], a[2]) THEN <<TDiv(a[1], a[2])>> ELSE <<>>
      [] op = "MOD" -> IF DivOK(a[1], a[2]) THEN <<TMod(a[1], a[2])>> ELSE <<>>
      [] op = "EXP" -> IF a[2] < 0 \/ a[2] > 64 THEN <<>> ELSE PowAcc(a[1], a[2], 1)
      [] op = "NEG" -> IF a[1] = MinInt THEN <<>> ELSE <<-a[1]>>
      [] op = "MAX" -> <<IF a[1] >= a[2] THEN a[1] ELSE a[2]>>
      [] op = "MIN" -> <<IF a[1] <= a[2] THEN a[1] ELSE a[2]>>
      [] op \in {"BAND", "UBAND"} -> <<Band(a[1], a[2])>>
      [] op \in {"BOR", "UBOR"}   -> <<Bor(a[1], a[2])>>
      [] op \in {"BXOR", "UBXOR"} -> <<Bxor(a[1], a[2])>>
      [] op \in {"BNOT", "UBNOT"} -> <<Bnot(a[1])>>
      [] op \in {"BSHIFT_L", "UBSHIFT_L"} -> <<Shl(a[1], a[2])>>
      [] op = "BSHIFT_R" -> <<ShrS(a[1], a[2])>>
      [] op \in {"BSHIFT_R_UNSIGNED", "UBSHIFT_R", "UBSHIFT_R_UNSIGNED"} -> <<ShrU(a[1], a[2])>>
      [] op \in {"LAND", "ULAND"} -> <<Bool(a[1] # 0 /\ a[2] # 0)>>
      [] op \in {"LOR", "ULOR"}   -> <<Bool(a[1] # 0 \/ a[2] # 0)>>
      [] op \in {"LXOR", "ULXOR"} -> <<Bool((a[1] # 0) # (a[2] # 0))>>
      [] op \in {"LNOT", "ULNOT"} -> <<Bool(a[1] = 0)>>
      [] op = "UADD" -> <<AddW(a[1], a[2])>>
      [] op = "USUB" -> <<SubW(a[1], a[2])>>
      [] op = "UMUL" -> <<MulW(a[1], a[2])>>
      [] op = "UDIV" -> IF a[2] = 0 THEN <<>> ELSE <<UDiv(a[1], a[2])>>
      [] op = "UMOD" -> IF a[2] = 0 THEN <<>> ELSE <<UMod(a[1], a[2])>>
      [] op = "UMAX" -> <<IF ULe(a[2], a[1]) THEN a[1] ELSE a[2]>>
      [] op = "UMIN" -> <<IF ULe(a[1], a[2]) THEN a[1] ELSE a[2]>>
      [] op = "SMAX" -> <<IF StrLe(a[2], a[1]) THEN a[1] ELSE a[2]>>
      [] op = "SMIN" -> <<IF StrLe(a[1], a[2]) THEN a[1] ELSE a[2]>>
      [] op = "CAT"  -> <<a[1] \o a[2]>>
      [] op = "STRLEN" -> <<Len(a[1])>>
      [] op = "SUBSTR" -> <<Substr(a[1], a[2], a[3])>>
      [] op = "I2S" -> <<ToString(a[1])>>
      [] op = "S2I" -> ParseInt(a[1])
      [] op \in {"I2I", "S2S", "U2U", "I2U", "U2I"} -> <<a[1]>>

\* binary constraints; operands are of one type.  Returns BOOLEAN.
Cmp(op, l, r) ==
    CASE op = "EQ" -> l = r
      [] op = "NE" -> l # r
      [] op = "LT" -> l < r
      [] op = "LE" -> l <= r
      [] op = "GT" -> l > r
      [] op = "GE" -> l >= r
      [] op = "ULT" -> ULt(l, r)
      [] op = "ULE" -> ULe(l, r)
      [] op = "UGT" -> ULt(r, l)
      [] op = "UGE" -> ULe(r, l)
      [] op = "SLT" -> StrLt(l, r)
      [] op = "SLE" -> StrLe(l, r)
      [] op = "SGT" -> StrLt(r, l)
      [] op = "SGE" -> StrLe(r, l)
(***************************************************************************)
(* Additions for C24 (every FunctorOp / BinaryConstraintOp enumerator).    *)
(* Nothing above this line is changed.  ApplyX / CmpX extend Apply / Cmp:  *)
(*   ApplyX(op, a) = <<v>>  inside the defined domain, <<>> outside it;    *)
(*   generators (RANGE, URANGE) return <<seq>>, the sequence in order;     *)
(*   CmpX(op, l, r) = <<b>> with b BOOLEAN, <<>> outside the fragment.     *)
(* Float operators live in Dyadic.tla (FApply / FCmpX).                    *)
(* Outside the spec, stated once: ORD (exposes the interning order),       *)
(* MATCH / NOT_MATCH beyond the literal . * fragment below (std::regex).   *)
(***************************************************************************)

\* ---- unsigned decimal text of a signed twin, digit by digit --------------
RECURSIVE UDecAcc(_, _)
UDecAcc(x, acc) == LET qr == UDivAcc(x, 10, 31, 0, 0)
                       t  == Digits[qr[2] + 1] \o acc
                   IN  IF qr[1] = 0 THEN t ELSE UDecAcc(qr[1], t)
UDecimal(x) == UDecAcc(x, "")

\* ---- to_unsigned on text: digits only, value at most 2^32-1 --------------
RECURSIVE StripZeros(_), ParseUAcc(_, _, _)
StripZeros(s) == IF Len(s) > 1 /\ Ch(s, 1) = "0" THEN StripZeros(SubSeq(s, 2, Len(s))) ELSE s
AllDigits(s) == \A i \in 1..Len(s) : IsDigit(Ch(s, i))
ParseUAcc(s, i, acc) == IF i > Len(s) THEN acc
                        ELSE ParseUAcc(s, i + 1, AddW(MulW(acc, 10), DigitVal(Ch(s, i))))
ParseUnsigned(s) ==
    IF Len(s) = 0 \/ ~AllDigits(s) THEN <<>>
    ELSE LET t == StripZeros(s) IN
         IF Len(t) > 10 \/ (Len(t) = 10 /\ StrLt("4294967295", t)) THEN <<>>
         ELSE <<ParseUAcc(t, 1, 0)>>
\* to_number on text: the canonical decimal forms (ParseInt) plus the one it misses
ParseSigned(s) == IF s = "-2147483648" THEN <<MinInt>> ELSE ParseInt(s)

\* ---- exponentiation: static_cast<int>(std::pow(double, double)) ----------
\* defined when the mathematical result is finite and, truncated, fits the type
PowSigned(b, e) ==
    IF b = 0 THEN (IF e = 0 THEN <<1>> ELSE IF e > 0 THEN <<0>> ELSE <<>>)
    ELSE IF b = 1 THEN <<1>>
    ELSE IF b = -1 THEN <<IF e % 2 = 0 THEN 1 ELSE -1>>
    ELSE IF e < 0 THEN <<0>>                         \* |b| >= 2: 0 < |b^e| < 1 truncates to 0
    ELSE IF e > 31 THEN <<>>
    ELSE PowAcc(b, e, 1)
RECURSIVE UPowAcc(_, _, _)
UPowAcc(b, e, acc) == IF e = 0 THEN <<acc>>
                      ELSE IF ~UMulOK(acc, b) THEN <<>> ELSE UPowAcc(b, e - 1, MulW(acc, b))
PowUnsigned(b, e) ==
    IF b = 0 THEN <<IF e = 0 THEN 1 ELSE 0>>
    ELSE IF b = 1 THEN <<1>>
    ELSE IF e < 0 \/ e > 31 THEN <<>>               \* e < 0 is an exponent >= 2^31
    ELSE UPowAcc(b, e, 1)

\* ---- range generators (EvaluatorUtil.h runRange) --------------------------
RangeCap == 48      \* longer ranges are outside the explored domain
RECURSIVE RangeSAcc(_, _, _, _), RangeUAcc(_, _, _, _), RangeUDown(_, _, _)
\* signed, step # 0.  `x += step` runs once more after the last element: it must not overflow.
RangeSAcc(x, to, step, acc) ==
    IF (step > 0 /\ x >= to) \/ (step < 0 /\ x <= to) THEN <<acc>>
    ELSE IF Len(acc) >= RangeCap \/ ~AddOK(x, step) THEN <<>>
    ELSE RangeSAcc(x + step, to, step, Append(acc, x))
RangeSigned3(a, b, s) == IF s = 0 THEN <<IF a # b THEN <<a>> ELSE <<>>>> ELSE RangeSAcc(a, b, s, <<>>)
RangeSigned2(a, b) == RangeSAcc(a, b, IF a <= b THEN 1 ELSE -1, <<>>)
\* unsigned: a step is never negative; stepping that wraps is outside the explored domain
RangeUAcc(x, to, step, acc) ==
    IF ~ULt(x, to) THEN <<acc>>
    ELSE IF Len(acc) >= RangeCap \/ ~UAddOK(x, step) THEN <<>>
    ELSE RangeUAcc(AddW(x, step), to, step, Append(acc, x))
RangeUDown(x, to, acc) ==
    IF ~ULt(to, x) THEN <<acc>>
    ELSE IF Len(acc) >= RangeCap THEN <<>>
    ELSE RangeUDown(SubW(x, 1), to, Append(acc, x))
RangeUnsigned3(a, b, s) == IF s = 0 THEN <<IF a # b THEN <<a>> ELSE <<>>>> ELSE RangeUAcc(a, b, s, <<>>)
RangeUnsigned2(a, b) == IF ULe(a, b) THEN RangeUAcc(a, b, 1, <<>>) ELSE RangeUDown(a, b, <<>>)

\* ---- contains / match ------------------------------------------------------
StrContains(pat, text) ==
    \E i \in 1..(Len(text) - Len(pat) + 1) : SubSeq(text, i, i + Len(pat) - 1) = pat
\* regular expressions: only  c  .  c*  .*  with c a letter or digit (the rest of std::regex is not specified)
ReLit(c) == \E i \in 1..Len(Ascii) : Ascii[i] = c /\ (   (i >= 17 /\ i <= 26)     \* 0-9
                                                      \/ (i >= 34 /\ i <= 59)     \* A-Z
                                                      \/ (i >= 66 /\ i <= 91))    \* a-z
ReFragment(p) == /\ \A i \in 1..Len(p) : ReLit(Ch(p, i)) \/ Ch(p, i) = "." \/ Ch(p, i) = "*"
                 /\ \A i \in 1..Len(p) : Ch(p, i) = "*" => (i > 1 /\ Ch(p, i - 1) # "*")
ReStar(p, i) == i + 1 <= Len(p) /\ Ch(p, i + 1) = "*"
ReAtom(c, d) == c = "." \/ c = d
RECURSIVE ReMatch(_, _, _, _)
ReMatch(p, i, t, j) ==          \* p from position i matches exactly t from position j
    IF i > Len(p) THEN j > Len(t)
    ELSE IF ReStar(p, i)
         THEN \/ ReMatch(p, i + 2, t, j)
              \/ (j <= Len(t) /\ ReAtom(Ch(p, i), Ch(t, j)) /\ ReMatch(p, i, t, j + 1))
         ELSE j <= Len(t) /\ ReAtom(Ch(p, i), Ch(t, j)) /\ ReMatch(p, i + 1, t, j + 1)

VariadicOps == {"MAX", "MIN", "UMAX", "UMIN", "SMAX", "SMIN", "CAT"}
RECURSIVE ApplyX(_, _)
ApplyX(op, a) ==
    IF op \in VariadicOps /\ Len(a) > 2                   \* left fold, as both back-ends do
    THEN LET h == ApplyX(op, <<a[1], a[2]>>) IN ApplyX(op, <<h[1]>> \o SubSeq(a, 3, Len(a)))
    ELSE CASE op = "EXP"  -> PowSigned(a[1], a[2])
           [] op = "UEXP" -> PowUnsigned(a[1], a[2])
           [] op = "U2S"  -> <<UDecimal(a[1])>>
           [] op = "S2U"  -> ParseUnsigned(a[1])
           [] op = "S2I"  -> ParseSigned(a[1])
           [] op = "SSADD" -> <<a[1] \o a[2]>>
           \* a negative index or length is outside the documented domain (std::string::substr(size_t, size_t))
           \* (the length is clamped before Substr sees it: i + l must not overflow TLC's ints)
           [] op = "SUBSTR" -> IF a[2] < 0 \/ a[3] < 0 THEN <<>>
                               ELSE IF a[2] > Len(a[1]) THEN <<"">>
                               ELSE <<Substr(a[1], a[2], IF a[3] > Len(a[1]) - a[2] THEN Len(a[1]) - a[2] ELSE a[3])>>
           [] op = "RANGE"  -> IF Len(a) = 2 THEN RangeSigned2(a[1], a[2]) ELSE RangeSigned3(a[1], a[2], a[3])
           [] op = "URANGE" -> IF Len(a) = 2 THEN RangeUnsigned2(a[1], a[2]) ELSE RangeUnsigned3(a[1], a[2], a[3])
           [] OTHER -> Apply(op, a)

CmpX(op, l, r) ==
    CASE op = "CONTAINS"     -> <<StrContains(l, r)>>
      [] op = "NOT_CONTAINS" -> <<~StrContains(l, r)>>
      [] op = "MATCH"        -> IF ReFragment(l) THEN <<ReMatch(l, 1, r, 1)>> ELSE <<>>
      [] op = "NOT_MATCH"    -> IF ReFragment(l) THEN <<~ReMatch(l, 1, r, 1)>> ELSE <<>>
      [] OTHER -> <<Cmp(op, l, r)>>
=============================================================================
