------------------------------ MODULE Functors ------------------------------
(***************************************************************************)
(* Value semantics of souffle's intrinsic functors and binary constraints  *)
(* (FunctorOps.h, BinaryConstraintOps.h, interpreter/Engine.cpp            *)
(* evalIntrinsicOperator / evalConstraint; Synthesiser.cpp emits the same).*)
(* Apply(op, args) returns <<v>> when the application is inside the        *)
(* defined domain and <<>> otherwise (signed overflow, division by zero).  *)
(* Operator names are souffle's FunctorOp / BinaryConstraintOp enumerators.*)
(* Unsigned values travel as signed twins (Word32).                        *)
(***************************************************************************)
EXTENDS Integers, Sequences, TLC, Word32

Nil == 0      \* the nil record is RAM value 0 (RecordTable)

\* ---- byte order on strings (symbols compare lexicographically by byte) --
Ascii == <<" ","!","\"","#","$","%","&","'","(",")","*","+",",","-",".","/",
           "0","1","2","3","4","5","6","7","8","9",":",";","<","=",">","?",
           "@","A","B","C","D","E","F","G","H","I","J","K","L","M","N","O",
           "P","Q","R","S","T","U","V","W","X","Y","Z","[","\\","]","^","_",
           "`","a","b","c","d","e","f","g","h","i","j","k","l","m","n","o",
           "p","q","r","s","t","u","v","w","x","y","z","{","|","}","~">>
Ord1(c) == CHOOSE i \in 1..Len(Ascii) : Ascii[i] = c
Ch(s, i) == SubSeq(s, i, i)
RECURSIVE StrLtFrom(_, _, _)
StrLtFrom(a, b, i) ==
    IF i > Len(b) THEN FALSE
    ELSE IF i > Len(a) THEN TRUE
    ELSE IF Ch(a, i) = Ch(b, i) THEN StrLtFrom(a, b, i + 1)
    ELSE Ord1(Ch(a, i)) < Ord1(Ch(b, i))
StrLt(a, b) == StrLtFrom(a, b, 1)
StrLe(a, b) == a = b \/ StrLt(a, b)

\* ---- decimal parsing for to_number --------------------------------------
Digits == <<"0","1","2","3","4","5","6","7","8","9">>
IsDigit(c) == \E i \in 1..10 : Digits[i] = c
DigitVal(c) == (CHOOSE i \in 1..10 : Digits[i] = c) - 1
RECURSIVE ParseNat(_, _, _)
\* returns <<v>> or <<>> (empty on a non-digit or overflow beyond MaxInt)
ParseNat(s, i, acc) ==
    IF i > Len(s) THEN <<acc>>
    ELSE IF ~IsDigit(Ch(s, i)) THEN <<>>
    ELSE IF acc > (MaxInt - DigitVal(Ch(s, i))) \div 10 THEN <<>>
    ELSE ParseNat(s, i + 1, acc * 10 + DigitVal(Ch(s, i)))
ParseInt(s) ==
    IF Len(s) = 0 THEN <<>>
    ELSE IF Ch(s, 1) = "-" THEN
            (IF Len(s) = 1 THEN <<>> ELSE
             LET r == ParseNat(s, 2, 0) IN IF r = <<>> THEN <<>> ELSE <<-r[1]>>)
    ELSE ParseNat(s, 1, 0)

Bool(b) == IF b THEN 1 ELSE 0

RECURSIVE PowAcc(_, _, _)
\* signed exponent by repeated multiplication; <<>> on overflow
PowAcc(b, e, acc) == IF e = 0 THEN <<acc>>
                     ELSE IF ~MulOK(acc, b) THEN <<>> ELSE PowAcc(b, e - 1, acc * b)

Substr(s, i, l) ==   \* substr(s,i,l): clamps at the end; "" when i > strlen or i<0 or l<0
    IF i < 0 \/ l < 0 \/ i > Len(s) THEN ""
    ELSE SubSeq(s, i + 1, IF i + l > Len(s) THEN Len(s) ELSE i + l)

Apply(op, a) ==
    CASE op = "ADD" -> IF AddOK(a[1], a[2]) THEN <<a[1] + a[2]>> ELSE <<>>
      [] op = "SUB" -> IF SubOK(a[1], a[2]) THEN <<a[1] - a[2]>> ELSE <<>>
      [] op = "MUL" -> IF MulOK(a[1], a[2]) THEN <<a[1] * a[2]>> ELSE <<>>
      [] op = "DIV" -> IF DivOK(a[1], a[2]) THEN <<TDiv(a[1], a[2])>> ELSE <<>>
      [] op = "MOD" -> IF DivOK(a[1], a[2]) THEN <<TMod(a[1], a[2])>> ELSE <<>>
      [] op = "EXP" -> IF a[2] < 0 \/ a[2] > 64 THEN <<>> ELSE PowAcc(a[1], a[2], 1)
      [] op = "NEG" -> IF a[1] = MinInt THEN <<>> ELSE <<-a[1]>>
      [] op = "MAX" -> <<IF a[1] >= a[2] THEN a[1] ELSE a[2]>>
      [] op = "MIN" -> <<IF a[1] <= a[2] THEN a[1] ELSE a[2]>>
      [] op \in {"BAND", "UBAND"} -> <<Band(a[1], a[2])>>
      [] op \in {"BOR", "UBOR"}   -> <<Bor(a[1], a[2])>>
      [] op \in {"BXOR", "UBXOR"} -> <<Bxor(a[1], a[2])>>
      [] op \in {"BNOT", "UBNOT"} -> <<Bnot(a[1])>>
      [] op \in {"BSHIFT_L", "UBSHIFT_L"} -> <<Shl(a[1], a[2])>>
      [] op = "BSHIFT_R" -> <<ShrS(a[1], a[2])>>
      [] op \in {"BSHIFT_R_UNSIGNED", "UBSHIFT_R", "UBSHIFT_R_UNSIGNED"} -> <<ShrU(a[1], a[2])>>
      [] op \in {"LAND", "ULAND"} -> <<Bool(a[1] # 0 /\ a[2] # 0)>>
      [] op \in {"LOR", "ULOR"}   -> <<Bool(a[1] # 0 \/ a[2] # 0)>>
      [] op \in {"LXOR", "ULXOR"} -> <<Bool((a[1] # 0) # (a[2] # 0))>>
      [] op \in {"LNOT", "ULNOT"} -> <<Bool(a[1] = 0)>>
      [] op = "UADD" -> <<AddW(a[1], a[2])>>
      [] op = "USUB" -> <<SubW(a[1], a[2])>>
      [] op = "UMUL" -> <<MulW(a[1], a[2])>>
      [] op = "UDIV" -> IF a[2] = 0 THEN <<>> ELSE <<UDiv(a[1], a[2])>>
      [] op = "UMOD" -> IF a[2] = 0 THEN <<>> ELSE <<UMod(a[1], a[2])>>
      [] op = "UMAX" -> <<IF ULe(a[2], a[1]) THEN a[1] ELSE a[2]>>
      [] op = "UMIN" -> <<IF ULe(a[1], a[2]) THEN a[1] ELSE a[2]>>
      [] op = "SMAX" -> <<IF StrLe(a[2], a[1]) THEN a[1] ELSE a[2]>>
      [] op = "SMIN" -> <<IF StrLe(a[1], a[2]) THEN a[1] ELSE a[2]>>
      [] op = "CAT"  -> <<a[1] \o a[2]>>
      [] op = "STRLEN" -> <<Len(a[1])>>
      [] op = "SUBSTR" -> <<Substr(a[1], a[2], a[3])>>
      [] op = "I2S" -> <<ToString(a[1])>>
      [] op = "S2I" -> ParseInt(a[1])
      [] op \in {"I2I", "S2S", "U2U", "I2U", "U2I"} -> <<a[1]>>

\* binary constraints; operands are of one type.  Returns BOOLEAN.
Cmp(op, l, r) ==
    CASE op = "EQ" -> l = r
      [] op = "NE" -> l # r
      [] op = "LT" -> l < r
      [] op = "LE" -> l <= r
      [] op = "GT" -> l > r
      [] op = "GE" -> l >= r
      [] op = "ULT" -> ULt(l, r)
      [] op = "ULE" -> ULe(l, r)
      [] op = "UGT" -> ULt(r, l)
      [] op = "UGE" -> ULe(r, l)
      [] op = "SLT" -> StrLt(l, r)
      [] op = "SLE" -> StrLe(l, r)
      [] op = "SGT" -> StrLt(r, l)
      [] op = "SGE" -> StrLe(r, l)
=============================================================================
