CONSTANT Tier = 2
INIT Init
NEXT Next
INVARIANT Emit Canon
CHECK_DEADLOCK FALSE
