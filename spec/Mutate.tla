------------------------------- MODULE Mutate -------------------------------
(***************************************************************************)
(* Token-level mutation of souffle programs (property C14: no input text   *)
(* crashes or hangs the compiler).  A program is a sequence of tokens; one *)
(* mutation deletes a token, inserts a token of the alphabet at any        *)
(* position, or substitutes a token by a different token of the alphabet.  *)
(* TLC enumerates every program reachable from each seed by at most MaxMut *)
(* mutations (exhaustively for MaxMut = 1; by random walks for more).      *)
(* The glue only tokenises the seeds and joins the tokens of each mutant;  *)
(* the pseudo-tokens <NUL> <FF> <DQ> <BS> <NL> stand for the raw bytes     *)
(* 0x00, 0xFF, a lone double quote, a lone backslash and a line break.     *)
(***************************************************************************)
EXTENDS Integers, Sequences, TLC, MutateData
\* MutateData (generated) defines Seeds == sequence of token sequences, as a plain definition
CONSTANT MaxMut       \* number of mutations per program

Alphabet == << ".decl", ".input", ".output", ".type", ".comp", ".init", ".functor", ".pragma",
               "a", "x", "number", "symbol", "0", "1", "\"s\"",
               "(", ")", ",", ".", ":-", "!", "=", "!=", "<", "<:", "[", "]", "{", "}", ":", ";", "_", "$", "|",
               "+", "-", "*", "#", "count", "min", "nil", "as",
               "<NUL>", "<FF>", "<DQ>", "<BS>", "<NL>" >>

VARIABLES s,      \* index of the seed
          toks,   \* current token sequence
          k,      \* mutations applied so far
          last    \* the last mutation <<kind, position, token>> (history only, not part of the view)
vars == <<s, toks, k, last>>
View == <<s, toks, k>>

Init == /\ s \in 1..Len(Seeds) /\ toks = Seeds[s] /\ k = 0 /\ last = <<"seed", 0, "">>

Delete(p) == /\ p \in 1..Len(toks)
             /\ toks' = SubSeq(toks, 1, p - 1) \o SubSeq(toks, p + 1, Len(toks))
             /\ last' = <<"delete", p, toks[p]>>
Insert(p, t) == /\ p \in 1..(Len(toks) + 1)
                /\ toks' = SubSeq(toks, 1, p - 1) \o <<t>> \o SubSeq(toks, p, Len(toks))
                /\ last' = <<"insert", p, t>>
Substitute(p, t) == /\ p \in 1..Len(toks) /\ t # toks[p]
                    /\ toks' = [toks EXCEPT ![p] = t]
                    /\ last' = <<"substitute", p, t>>
Next == /\ k < MaxMut /\ k' = k + 1 /\ s' = s
        /\ \/ \E p \in 1..Len(toks) : Delete(p)
           \/ \E p \in 1..(Len(toks) + 1), i \in 1..Len(Alphabet) : Insert(p, Alphabet[i])
           \/ \E p \in 1..Len(toks), i \in 1..Len(Alphabet) : Substitute(p, Alphabet[i])
Spec == Init /\ [][Next]_vars

\* every mutant differs from its seed by at most MaxMut token edits (length changes by at most one per mutation)
Bounded == /\ k \in 0..MaxMut
           /\ Len(toks) >= Len(Seeds[s]) - k /\ Len(toks) <= Len(Seeds[s]) + k
=============================================================================
