CONSTANTS MaxN = 4 Scheme = "souffle"
SPECIFICATION Spec
INVARIANT Complete NonRedundant
CHECK_DEADLOCK FALSE
