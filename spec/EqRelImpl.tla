------------------------------ MODULE EqRelImpl ------------------------------
(***************************************************************************)
(* Implementation-shaped, sequential model of souffle::EquivalenceRelation *)
(* (EquivalenceRelation.h) on top of SparseDisjointSet / DisjointSet       *)
(* (UnionFind.h): one action per API call, each a deterministic function   *)
(* of the object state, transcribed from the code:                         *)
(*   d2s   dense id -> sparse value (denseToSparseMap; ids are handed out  *)
(*         in first-use order; sparseToDenseMap is its inverse, iterated   *)
(*         in ascending signed key order)                                  *)
(*   par, rnk   the union-find forest (a_blocks): findNode halves paths,   *)
(*         unionNodes links the lower-ranked (on a tie the smaller id)     *)
(*         root below the other (the child keeps its own rank:             *)
(*         updateRoot(x, xrank, y, xrank)), then bumps the parent's rank   *)
(*         on a tie                                                        *)
(*   stale      statesMapStale                                             *)
(*   cache      equivalencePartition: representative -> members in dense   *)
(*         order; only meaningful (and only compared) while ~stale         *)
(* Sequences are 1-based: dense id i lives at position i + 1.              *)
(* unionNodes(toDense(x), toDense(y)): the two toDense calls are           *)
(* unsequenced in C++; GCC evaluates the right argument first, which the   *)
(* constant RightFirst mirrors (it only matters for the order in which two *)
(* new elements receive their dense ids).                                  *)
(***************************************************************************)
EXTENDS Integers, Sequences, FiniteSets, TLC
CONSTANTS Rels, Elems, RightFirst, MaxOps
VARIABLES obj, out, nops
vars == <<obj, out, nops>>

Empty == [d2s |-> <<>>, par |-> <<>>, rnk |-> <<>>, stale |-> FALSE, cache |-> <<>>]
Init == obj = [r \in Rels |-> Empty] /\ out = "-" /\ nops = 0

(* ----------------------------- SparseDisjointSet ------------------------ *)
Pos(s, v) == CHOOSE i \in 1..Len(s) : s[i] = v
Exists(R, v) == \E i \in 1..Len(R.d2s) : R.d2s[i] = v
\* toDense: <<R', position>>
ToDense(R, v) == IF Exists(R, v) THEN <<R, Pos(R.d2s, v)>>
                 ELSE LET n == Len(R.d2s) + 1 IN
                      <<[R EXCEPT !.d2s = Append(@, v), !.par = Append(@, n), !.rnk = Append(@, 0)], n>>
\* findNode with path halving: <<par', root>>
RECURSIVE FindP(_, _)
FindP(par, x) == IF par[x] = x THEN <<par, x>> ELSE LET gp == par[par[x]] IN FindP([par EXCEPT ![x] = gp], gp)
Find(R, x) == LET f == FindP(R.par, x) IN <<[R EXCEPT !.par = f[1]], f[2]>>
SameSet(R, x, y) == LET f1 == Find(R, x)  f2 == Find(f1[1], y) IN <<f2[1], f1[2] = f2[2]>>
UnionD(R, x0, y0) ==
    LET f1 == Find(R, x0)  f2 == Find(f1[1], y0)
        R2 == f2[1]  rx == f1[2]  ry == f2[2]
    IN IF rx = ry THEN R2
       ELSE LET swap == R2.rnk[rx] > R2.rnk[ry] \/ (R2.rnk[rx] = R2.rnk[ry] /\ rx > ry)
                x == IF swap THEN ry ELSE rx
                y == IF swap THEN rx ELSE ry
                xr == R2.rnk[x]  yr == R2.rnk[y]
                R3 == [R2 EXCEPT !.par[x] = y]                    \* updateRoot(x, xrank, y, xrank): the child keeps its rank
            IN IF xr = yr THEN [R3 EXCEPT !.rnk[y] = yr + 1] ELSE R3
\* sds.unionNodes(a, b) on sparse values
UnionS(R, a, b) ==
    IF RightFirst
    THEN LET d2 == ToDense(R, b)  d1 == ToDense(d2[1], a) IN UnionD(d1[1], d1[2], d2[2])
    ELSE LET d1 == ToDense(R, a)  d2 == ToDense(d1[1], b) IN UnionD(d2[1], d1[2], d2[2])
\* sds.contains(a, b): <<R', bool>> (no node is created)
ContainsS(R, a, b) == IF Exists(R, a) /\ Exists(R, b) THEN SameSet(R, Pos(R.d2s, a), Pos(R.d2s, b)) ELSE <<R, FALSE>>
\* sds.findNode(v) for an existing value: <<R', sparse representative>>
FindS(R, v) == LET f == Find(R, Pos(R.d2s, v)) IN <<f[1], f[1].d2s[f[2]]>>

(* ---------------------------- EquivalenceRelation ----------------------- *)
\* insert(a, b): <<R', result>>
InsertE(R, a, b) == LET R1 == [R EXCEPT !.stale = TRUE, !.cache = <<>>]
                        c == ContainsS(R1, a, b)
                    IN <<UnionS(c[1], a, b), ~c[2]>>
\* genAllDisjointSetLists
RECURSIVE GenLoop(_, _, _)
GenLoop(R, i, cache) ==
    IF i > Len(R.d2s) THEN [R EXCEPT !.stale = FALSE, !.cache = cache]
    ELSE LET f == FindS(R, R.d2s[i])
             rep == f[2]
             c2 == IF rep \in DOMAIN cache THEN [cache EXCEPT ![rep] = Append(@, R.d2s[i])] ELSE cache @@ (rep :> <<R.d2s[i]>>)
         IN GenLoop(f[1], i + 1, c2)
Regen(R) == IF ~R.stale THEN R ELSE GenLoop(R, 1, <<>>)
Square(n) == n * n
RECURSIVE SumSqD(_, _)
SumSqD(cache, D) == IF D = {} THEN 0 ELSE LET k == CHOOSE k \in D : TRUE IN Square(Len(cache[k])) + SumSqD(cache, D \ {k})
SizeOf(R) == SumSqD(R.cache, DOMAIN R.cache)      \* after Regen
\* ascending order of a finite set of integers, as a sequence
RECURSIVE Sorted(_)
Sorted(Sx) == IF Sx = {} THEN <<>> ELSE LET m == CHOOSE m \in Sx : \A y \in Sx : m <= y IN <<m>> \o Sorted(Sx \ {m})
\* insertAll(other): for every (rep, list) of the other's partition, in ascending rep order: unionNodes(rep, member)
RECURSIVE UnionList(_, _, _, _)
UnionList(R, rep, list, i) == IF i > Len(list) THEN R ELSE UnionList(UnionS(R, rep, list[i]), rep, list, i + 1)
RECURSIVE UnionReps(_, _, _, _)
UnionReps(R, cache, reps, i) == IF i > Len(reps) THEN R
                                ELSE UnionReps(UnionList(R, reps[i], cache[reps[i]], 1), cache, reps, i + 1)
InsertAllE(R, O) == LET O1 == Regen(O)
                        R1 == UnionReps(R, O1.cache, Sorted(DOMAIN O1.cache), 1)
                    IN <<[R1 EXCEPT !.stale = TRUE, !.cache = <<>>], O1>>
\* n.extendAndInsert(m): <<N', M'>>
KeysOf(R) == Sorted({R.d2s[i] : i \in 1..Len(R.d2s)})
\* loop 1 over N's elements: state <<N, M, repsCovered, toInsert>>
RECURSIVE Ext1(_, _, _, _, _, _)
Ext1(N, M, keys, i, covered, todo) ==
    IF i > Len(keys) THEN <<N, M, covered, todo>>
    ELSE LET el == keys[i]
             fm == IF Exists(M, el) THEN FindS(M, el) ELSE <<M, el>>
             cov == IF Exists(M, el) THEN covered \cup {fm[2]} ELSE covered
             fn == FindS(N, el)
         IN Ext1(fn[1], fm[1], keys, i + 1, cov, Append(todo, <<el, fn[2]>>))
\* loop 2 over M's elements
RECURSIVE Ext2(_, _, _, _, _)
Ext2(N, M, keys, i, covered) ==
    IF i > Len(keys) THEN <<N, M>>
    ELSE LET fm == FindS(M, keys[i])
             N2 == IF fm[2] \in covered THEN InsertE(N, keys[i], fm[2])[1] ELSE N
         IN Ext2(N2, fm[1], keys, i + 1, covered)
RECURSIVE Ext3(_, _, _)
Ext3(M, todo, i) == IF i > Len(todo) THEN M ELSE Ext3(InsertE(M, todo[i][1], todo[i][2])[1], todo, i + 1)
ExtendE(N, M) ==
    LET M0 == Regen(M)                                        \* other.size()
        N0 == IF SizeOf(M0) = 0 THEN Regen(N) ELSE N          \* && this->size()
    IN IF SizeOf(M0) = 0 /\ SizeOf(N0) = 0 THEN <<N0, M0>>
       ELSE LET s1 == Ext1(N0, M0, KeysOf(N0), 1, {}, <<>>)
                s2 == Ext2(s1[1], s1[2], KeysOf(s1[2]), 1, s1[3])
            IN <<s2[1], Ext3(s2[2], s1[4], 1)>>

(* --------------------------------- actions ------------------------------ *)
Tick == nops < MaxOps /\ nops' = nops + 1
Insert(r, a, b) == /\ Tick
                   /\ LET x == InsertE(obj[r], a, b) IN obj' = [obj EXCEPT ![r] = x[1]] /\ out' = ToString(x[2])
InsertAll(r, o) == /\ Tick /\ r # o
                   /\ LET x == InsertAllE(obj[r], obj[o]) IN obj' = [obj EXCEPT ![r] = x[1], ![o] = x[2]] /\ out' = "-"
Extend(r, o) == /\ Tick /\ r # o
                /\ LET x == ExtendE(obj[r], obj[o]) IN obj' = [obj EXCEPT ![r] = x[1], ![o] = x[2]] /\ out' = "-"
Contains(r, a, b) == /\ Tick
                     /\ LET x == ContainsS(obj[r], a, b) IN obj' = [obj EXCEPT ![r] = x[1]] /\ out' = ToString(x[2])
Size(r) == /\ Tick
           /\ LET R == Regen(obj[r]) IN obj' = [obj EXCEPT ![r] = R] /\ out' = ToString(SizeOf(R))
\* getBoundaries<1>(a): nodeExists, then anteriorIt: genAllDisjointSetLists + findNode(a)
Anterior(r, a) == /\ Tick
                  /\ IF Exists(obj[r], a)
                     THEN LET f == FindS(Regen(obj[r]), a) IN obj' = [obj EXCEPT ![r] = f[1]] /\ out' = ToString(Len(f[1].cache[f[2]]))
                     ELSE obj' = obj /\ out' = "0"
Next == \E r \in Rels : \/ \E a, b \in Elems : Insert(r, a, b) \/ Contains(r, a, b)
                        \/ \E o \in Rels : InsertAll(r, o) \/ Extend(r, o)
                        \/ Size(r)
                        \/ \E a \in Elems : Anterior(r, a)
Spec == Init /\ [][Next]_vars

(* ------------------------- refinement of EqRelAbs ----------------------- *)
\* the partition the forest represents
RootOf(R, i) == FindP(R.par, i)[2]
Classes(R) == {{R.d2s[j] : j \in {j \in 1..Len(R.d2s) : RootOf(R, j) = RootOf(R, i)}} : i \in 1..Len(R.d2s)}
rel == [r \in Rels |-> Classes(obj[r])]
Abs == INSTANCE EqRelAbs WITH rel <- rel
\* every action is the abstract update of the same name, or leaves the abstract relation unchanged (queries)
Refines == [][\/ \E r \in Rels : \/ \E a, b \in Elems : Abs!Insert(r, a, b)
                               \/ \E o \in Rels \ {r} : Abs!InsertAll(r, o) \/ Abs!ExtendAndInsert(r, o)
              \/ UNCHANGED rel]_vars
\* a fresh cache is exactly the partition, members listed once, keyed by the current representative
CacheFresh == \A r \in Rels : ~obj[r].stale =>
                 LET R == obj[r] IN
                 /\ {Abs!Range(R.cache[k]) : k \in DOMAIN R.cache} = Classes(R)
                 /\ \A k \in DOMAIN R.cache : /\ Len(R.cache[k]) = Cardinality(Abs!Range(R.cache[k]))
                                              /\ Exists(R, k) /\ R.d2s[RootOf(R, Pos(R.d2s, k))] = k
\* forest sanity: parents in range, roots reachable (FindP terminates), rank of a root bounds its tree
ForestOK == \A r \in Rels : LET R == obj[r] IN
               /\ Len(R.par) = Len(R.d2s) /\ Len(R.rnk) = Len(R.d2s)
               /\ \A i \in 1..Len(R.par) : R.par[i] \in 1..Len(R.par)
               /\ \A i, j \in 1..Len(R.d2s) : i # j => R.d2s[i] # R.d2s[j]
=============================================================================
