CONSTANT Threads = {1, 2}
CONSTANT BITS = 1
CONSTANT LW = 1
CONSTANT MaxN = 8
CONSTANT ProgSpace <- PRt
SPECIFICATION Spec
INVARIANT PcOK WellFormed RootConsistent NoLostElement NothingInvented FirstConsistent SnapshotEven Final
PROPERTY Monotone
CHECK_DEADLOCK FALSE
