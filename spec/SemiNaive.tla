----------------------------- MODULE SemiNaive -----------------------------
(***************************************************************************)
(* The delta-version scheme of semi-naive evaluation (C09), abstractly.    *)
(* A recursive rule has N recursive body atoms.  In one iteration every    *)
(* recursive relation is split into OLD tuples (known before the previous  *)
(* iteration) and DELTA tuples (found in the previous iteration).  A       *)
(* combination of body tuples is a tagging c \in [1..N -> {"old","delta"}].*)
(* Scheme "souffle" (ast2ram/utility/Utils.cpp getAtomName +               *)
(* ClauseTranslator::addBodyLiteralConstraints): version i reads @delta at *)
(* position i, the full relation (old or delta) at positions before i, and *)
(* requires positions after i NOT to be in @delta.                         *)
(* Theorem checked by TLC for every N <= MaxN and every tagging: a         *)
(* combination with at least one delta tuple is handled by exactly one     *)
(* version; a combination of old tuples only by none.                      *)
(* The two classic wrong schemes are kept as vacuity witnesses:            *)
(*   "nofilter"  no negated-delta filter      -> redundant                 *)
(*   "wrongside" filter on positions BEFORE i, full AFTER -> still exact   *)
(*               (it is the mirror image), "oldonly" full replaced by old  *)
(*               everywhere else -> incomplete.                            *)
(***************************************************************************)
EXTENDS Integers, FiniteSets
CONSTANTS MaxN, Scheme
VARIABLES n, c
vars == <<n, c>>
Tag == {"old", "delta"}
Handles(i, comb, len) ==
    CASE Scheme = "souffle"   -> comb[i] = "delta" /\ \A j \in (i + 1)..len : comb[j] = "old"
      [] Scheme = "nofilter"  -> comb[i] = "delta"
      [] Scheme = "oldonly"   -> comb[i] = "delta" /\ \A j \in 1..len : j # i => comb[j] = "old"
Init == n \in 1..MaxN /\ c \in [1..n -> Tag]
Next == UNCHANGED vars
Spec == Init /\ [][Next]_vars
Versions == {i \in 1..n : Handles(i, c, n)}
HasDelta == \E j \in 1..n : c[j] = "delta"
\* complete: every combination containing a new tuple is considered
Complete == HasDelta => Cardinality(Versions) >= 1
\* non-redundant: by exactly one version; combinations of old tuples are not re-derived
NonRedundant == Cardinality(Versions) <= 1 /\ (~HasDelta => Versions = {})
=============================================================================
