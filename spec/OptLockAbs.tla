----------------------------- MODULE OptLockAbs -----------------------------
(***************************************************************************)
(* Property-level (abstract) specification of an optimistic read-write     *)
(* lock: what C30 demands of OptimisticReadWriteLock, stated over the API  *)
(* events a client can observe.  One action per completed API call.        *)
(*   holder   : the client holding write permission (0 = nobody)           *)
(*   commits  : number of committed (ended, not aborted) write phases      *)
(*   lease[c] : commits when c's current lease was issued                  *)
(*   stable   : the version value of the last stable (unlocked) state      *)
(*   ver      : the version value observable now                           *)
(* A failed try/upgrade/validate is always permitted (the property only    *)
(* says when success is allowed).                                          *)
(***************************************************************************)
EXTENDS Integers, Sequences, FiniteSets
CONSTANT Clients
VARIABLES holder, commits, lease, stable, ver
avars == <<holder, commits, lease, stable, ver>>

AInit == /\ holder = 0 /\ commits = 0 /\ lease = [c \in Clients |-> 0] /\ stable = 0 /\ ver = 0

\* start_read returned a lease: only while nobody holds write permission
Lease(c) == /\ holder = 0
            /\ lease' = [lease EXCEPT ![c] = commits]
            /\ UNCHANGED <<holder, commits, stable, ver>>
\* validate / end_read
Validate(c, ok) == /\ ok => (holder = 0 /\ lease[c] = commits)
                   /\ UNCHANGED avars
\* start_write returned, or try_start_write / try_upgrade_to_write returned true; v = version observed afterwards
Acquire(c, v) == /\ holder = 0
                 /\ v % 2 = 1 /\ v > stable
                 /\ holder' = c /\ ver' = v
                 /\ UNCHANGED <<commits, lease, stable>>
\* A failed upgrade / try changes nothing.  The version observed at that moment is NOT constrained: another
\* client's failing upgrade holds the version odd for an instant (fetch_or .. abort_write), which a concurrent
\* failing call can observe.  That the instant ends with the old version restored is checked by the next
\* Lease / Acquire / AbortWrite event (they compare with `stable`).
Upgrade(c, ok, v) == IF ok THEN lease[c] = commits /\ Acquire(c, v) ELSE UNCHANGED avars
TryAcquire(c, ok, v) == IF ok THEN Acquire(c, v) ELSE UNCHANGED avars
\* end_write: the phase commits; the new stable version differs from every earlier one
EndWrite(c, v) == /\ holder = c
                  /\ v % 2 = 0 /\ v > ver
                  /\ holder' = 0 /\ commits' = commits + 1 /\ stable' = v /\ ver' = v
                  /\ UNCHANGED lease
\* abort_write: the version outstanding readers hold is restored
AbortWrite(c, v) == /\ holder = c
                    /\ v = stable
                    /\ holder' = 0 /\ ver' = v
                    /\ UNCHANGED <<commits, lease, stable>>

MutualExclusionAbs == holder \in Clients \cup {0}
=============================================================================
