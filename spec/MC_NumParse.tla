----------------------------- MODULE MC_NumParse -----------------------------
(* Model-checking harness of NumParse / CsvIO for C18: every vector (a fact file for a column type and format, or a *)
(* numeric constant in program text) is a state; TLC classifies it (accept with value / reject / either) and       *)
(* prints it as one JSON line.  Invariants: the strict language is contained in the lenient one with equal values.  *)
EXTENDS CsvIO, Json
CONSTANT Tier                       \* 1 = quick, 2 = thorough

TAB == "\t"
Plain(d, ex) == [kind |-> "text", rfc |-> FALSE, delim |-> d, explicit |-> ex, headers |-> FALSE, name |-> "text"]
RfcF == [kind |-> "text", rfc |-> TRUE, delim |-> <<",">>, explicit |-> FALSE, headers |-> FALSE, name |-> "text"]

A11 == {"+", "-", "0", "1", "9", "x", "b", "a", ".", "e", " "}
Strs(S, n) == UNION {[1..k -> S] : k \in 0..n}
Dele(t) == {SubSeq(t, 1, i - 1) \o SubSeq(t, i + 1, Len(t)) : i \in 1..Len(t)}
Ins(t, S) == {SubSeq(t, 1, i) \o <<c>> \o SubSeq(t, i + 1, Len(t)) : i \in 0..Len(t), c \in S}
Sub(t, S) == {[t EXCEPT ![i] = c] : i \in 1..Len(t), c \in S}
Mut(t, S) == {t} \cup Dele(t) \cup Ins(t, S) \cup Sub(t, S)
Muts(T, S) == UNION {Mut(Cs(t), S) : t \in T}

N == IF Tier = 1 THEN 3 ELSE 4
MA == IF Tier = 1 THEN {"0", "9", "-", " ", "x", "."} ELSE A11            \* mutation alphabet of the numeric templates
CA == {"[", "]", ",", " ", Q, BS, "1", "a", "n", "(", ")", "$"}           \* mutation alphabet of the container templates
Ones(n) == [i \in 1..n |-> "1"]

TplI == {"2147483647", "2147483648", "-2147483648", "-2147483649", "0x7fffffff", "0b1", "99999999999", "00000000001"}
TplU == {"4294967295", "4294967296", "2147483648", "0xffffffff", "0x100000000", "18446744073709551615", "18446744073709551616"}
TplF == {"1e39", "1e38", "3.4028235e38", "3.4028236e38", "1e-46", "1e-37", "1.17549435e-38", "1.5", "-2.25", "nan", "inf",
         "-inf", "infinity", "0x1p3", "1e5", "16777217", "0.1"}
VecI == Strs(A11, N) \cup Muts(TplI, MA)
VecU == Strs(A11, N) \cup Muts(TplU, MA) \cup Mut(Cs("0b") \o Ones(32), {"0", "1"}) \cup {Cs("0b") \o Ones(33)}
VecF == Strs(A11, N) \cup Muts(TplF, MA)
VecS == Strs(A11, N)
VecR == Muts({"nil", "[a, 5]", "[a,5]", "[, 5]", "[a, -2147483648]"}, CA) \cup Mut(<<"[", Q, "a", BS, Q, "b", Q, ",", " ", "5", "]">>, CA)
        \cup Strs({"[", "]", ",", "a", "1"}, N)
VecRR == Muts({"nil", "[nil, 4294967295]", "[[a, 5], 1]", "[nil, 4294967296]"}, CA)
VecA == Muts({"$N", "$C(-7, a)", "$S(a)", "$W([a, 5])", "$W(nil)"}, CA)
VecCS == Strs({"[", "]", "a", ",", " ", "("}, N)
VecCR == Muts({"nil", "[a, 5]", "[[, 5]"}, {"[", "]", ",", "a", " "})
VecQ == Strs({Q, "a", ",", BS, NL}, N + 1)
VecQR == Mut(<<Q>> \o Cs("[") \o <<Q, Q>> \o Cs("a") \o <<Q, Q>> \o Cs(", 5]") \o <<Q>>, {Q, BS, "[", "]", ",", "a"}) \cup Mut(<<Q>> \o Cs("nil") \o <<Q>>, {Q, "a", ","})

\* a family: format, column types (the vector is column 1, column 2 is a number), a good first line, the vectors
Fam(fmt, ty, good, vs) == [fmt |-> fmt, types |-> <<ty, "i">>, good |-> good, vecs |-> vs]
Fams ==
  [ i  |-> Fam(Plain(<<TAB>>, FALSE), "i", Cs("0"), VecI),
    u  |-> Fam(Plain(<<TAB>>, FALSE), "u", Cs("0"), VecU),
    f  |-> Fam(Plain(<<TAB>>, FALSE), "f", Cs("0"), VecF),
    s  |-> Fam(Plain(<<TAB>>, FALSE), "s", Cs("g"), VecS),
    R  |-> Fam(Plain(<<TAB>>, FALSE), "R", Cs("nil"), VecR),
    RR |-> Fam(Plain(<<TAB>>, FALSE), "RR", Cs("nil"), VecRR),
    A  |-> Fam(Plain(<<TAB>>, FALSE), "A", Cs("$N"), VecA),
    cs |-> Fam(Plain(<<",">>, TRUE), "s", Cs("g"), VecCS),
    cR |-> Fam(Plain(<<",">>, TRUE), "R", Cs("nil"), VecCR),
    q  |-> Fam(RfcF, "s", <<Q, "g", Q>>, VecQ),
    qR |-> Fam(RfcF, "R", <<Q>> \o Cs("nil") \o <<Q>>, VecQR) ]
ConstVecs == [ i |-> Strs(A11, N) \cup Muts(TplI, MA), u |-> Strs(A11, N) \cup Muts(TplU, MA),
               f |-> Strs(A11, N) \cup Muts({"1.5", "340282346638528859811704183484516925440.0", "340282356779733661637539395458142568448.0",
                                              "0.00000000000000000000000000000000000001", "16777217.0"}, {"0", "9", "-", ".", " "}) ]

FileOf(fam, vec) == fam.good \o fam.fmt.delim \o <<"1", NL>> \o vec \o fam.fmt.delim \o <<"7", NL>>

VARIABLE st
Init == st = [l |-> 0]
Next == \/ st.l = 0 /\ \E fn \in DOMAIN Fams : st' = [l |-> 1, fam |-> fn]
        \/ st.l = 0 /\ \E ty \in DOMAIN ConstVecs : st' = [l |-> 1, fam |-> "const", ty |-> ty]
        \/ st.l = 1 /\ st.fam # "const" /\ \E v \in Fams[st.fam].vecs : st' = [l |-> 2, fam |-> st.fam, vec |-> v]
        \/ st.l = 1 /\ st.fam = "const" /\ \E v \in ConstVecs[st.ty] : st' = [l |-> 2, fam |-> "const", ty |-> st.ty, vec |-> v]

RECURSIVE EncV(_)
EncV(v) == CASE v.k = "s" -> [k |-> "s", c |-> Codes(v.c)]
             [] v.k \in {"i", "u"} -> [k |-> v.k, d |-> Codes(v.d)]
             [] v.k = "fv" -> [k |-> "fv", neg |-> v.neg, m |-> Codes(v.m), x |-> v.x]
             [] v.k = "f" -> [k |-> "f", neg |-> v.neg, m |-> Codes(v.m), e10 |-> v.e10, e2 |-> v.e2]
             [] v.k \in {"fs", "nil", "none", "tiny"} -> v
             [] v.k = "rec" -> [k |-> "rec", a |-> [i \in 1..Len(v.a) |-> EncV(v.a[i])]]
             [] v.k = "adt" -> [k |-> "adt", b |-> v.b, a |-> [i \in 1..Len(v.a) |-> EncV(v.a[i])]]
EncT(tups) == [i \in 1..Len(tups) |-> [j \in 1..Len(tups[i]) |-> EncV(tups[i][j])]]

\* class of a whole fact file
FileClass(fam, vec) ==
    LET text == FileOf(fam, vec)
        r == ReadFile(fam.fmt, fam.types, text)
        rl == ReadFile(fam.fmt @@ [lx |-> TRUE], fam.types, text)
        fc == ClassifyField(fam.types[1], vec)                  \* the vector as a field of its column type (for `why`)
    IN  IF r.ok THEN [cls |-> IF r.strict THEN "accept" ELSE "either", tuples |-> r.v, line |-> 0, why |-> ""]
        ELSE IF rl.ok THEN [cls |-> "either", tuples |-> rl.v, line |-> 0, why |-> "surplus field"]
        ELSE [cls |-> "reject", tuples |-> <<>>, line |-> r.line, why |-> fc.why,
              wrap |-> IF "wrap" \in DOMAIN fc THEN fc.wrap ELSE <<>>]

\* a float that is only known to be tiny has no modelled value: such vectors are left out ("skip")
HasTiny(tups) == \E i \in 1..Len(tups) : \E j \in 1..Len(tups[i]) : tups[i][j].k \in {"tiny", "none"}

EmitFile ==
    LET fam == Fams[st.fam]
        c == FileClass(fam, st.vec) IN
    PrintT(ToJson([tag |-> "V", fam |-> st.fam, types |-> fam.types, rfc |-> fam.fmt.rfc, delim |-> Codes(fam.fmt.delim),
                   explicit |-> fam.fmt.explicit, vec |-> Codes(st.vec), file |-> Codes(FileOf(fam, st.vec)),
                   cls |-> IF c.cls # "reject" /\ HasTiny(c.tuples) THEN "skip" ELSE c.cls,
                   tuples |-> IF c.cls # "reject" /\ ~HasTiny(c.tuples) THEN EncT(c.tuples) ELSE <<>>,
                   line |-> c.line, why |-> c.why, wrap |-> IF c.cls = "reject" THEN Codes(c.wrap) ELSE <<>>]))
EmitConst ==
    LET c == ConstClass(st.ty, st.vec) IN
    c.cls # "skip" =>
    PrintT(ToJson([tag |-> "C", ty |-> st.ty, vec |-> Codes(st.vec), cls |-> IF c.cls # "reject" /\ c.v.k \in {"tiny", "none"} THEN "skip" ELSE c.cls,
                   v |-> IF c.cls # "reject" THEN EncV(IF c.v.k = "f" /\ c.v.e2 = 0 THEN [k |-> "fv"] @@ FloatNorm(c.v) ELSE c.v) ELSE [k |-> "none"],
                   why |-> c.why, wrap |-> IF "wrap" \in DOMAIN c THEN Codes(c.wrap) ELSE <<>>]))
Emit == st.l = 2 => IF st.fam = "const" THEN EmitConst ELSE EmitFile

\* sanity of the classification itself: canonical in-range literals are accepted with their own value
Canon == st.l = 2 /\ st.fam \in {"i", "u"} /\ st.vec # <<>> /\ AllIn(st.vec, Digits) /\ Len(st.vec) < 10
            => LET c == ClassifyField(st.fam, st.vec) IN c.cls = "accept" /\ c.v.d = Strip(st.vec)
=============================================================================
