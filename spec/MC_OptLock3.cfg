CONSTANT Clients = {1, 2, 3}
CONSTANT ProgSpace <- PS3
SPECIFICATION FairSpec
INVARIANT TypeOK MutualExclusion OddIffHeld ValidateSound VersionCounts
PROPERTY AbortRestores Termination Progress
CHECK_DEADLOCK FALSE
