---------------------------- MODULE EqRelAbsTrace ----------------------------
(* Trace validation for C28: the recorded API history of real souffle::EquivalenceRelation objects must be a behaviour of       *)
(* EqRelAbs.  One TLC step per recorded event; histories are separated by "reset".                                            *)
(*   updates  [e |-> "insert", r, a, b]  [e |-> "insertAll", r, o]  [e |-> "extend", r, o]   (r.extendAndInsert(o))           *)
(*   queries  [e |-> "contains", r, a, b, res] [e |-> "size", r, n] [e |-> "all", r, s] [e |-> "ant", r, a, s]                *)
(*            [e |-> "antpost", r, a, b, s] [e |-> "closure", r, a, s] [e |-> "part", r, n, ch]                               *)
(* The spec is deterministic (insert results are not constrained), so a query whose recorded answer differs from the partition  *)
(* model is reported with its position and the expected answer (PrintT "MISMATCH") and the trace continues.                    *)
EXTENDS EqRelAbs, TLC, TraceDataModule   \* TraceDataModule (generated) defines TraceData
VARIABLE l
tvars == <<rel, l>>
TInit == AInit /\ l = 1
Ev == TraceData[l]
Report(ok, exp) == IF ok THEN TRUE ELSE PrintT(<<"MISMATCH", l, exp>>)
Query == /\ UNCHANGED rel
         /\ CASE Ev.e = "contains" -> Report(Contains(Ev.r, Ev.a, Ev.b, Ev.res), ExpContains(Ev.r, Ev.a, Ev.b))
              [] Ev.e = "size"     -> Report(Size(Ev.r, Ev.n), ExpSize(Ev.r))
              [] Ev.e = "all"      -> Report(IterAll(Ev.r, Ev.s), ExpAll(Ev.r))
              [] Ev.e = "ant"      -> Report(Anterior(Ev.r, Ev.a, Ev.s), ExpAnterior(Ev.r, Ev.a))
              [] Ev.e = "antpost"  -> Report(AntPost(Ev.r, Ev.a, Ev.b, Ev.s), ExpAntPost(Ev.r, Ev.a, Ev.b))
              [] Ev.e = "closure"  -> Report(Closure(Ev.r, Ev.a, Ev.s), ExpClosure(Ev.r, Ev.a))
              [] Ev.e = "part"     -> Report(Partition(Ev.r, Ev.ch), ExpAll(Ev.r))
TNext == /\ l <= Len(TraceData)
         /\ l' = l + 1
         /\ CASE Ev.e = "reset"     -> rel' = [r \in Rels |-> {}]
              [] Ev.e = "insert"    -> Insert(Ev.r, Ev.a, Ev.b)
              [] Ev.e = "insertAll" -> InsertAll(Ev.r, Ev.o)
              [] Ev.e = "extend"    -> ExtendAndInsert(Ev.r, Ev.o)
              [] OTHER              -> Query
TSpec == TInit /\ [][TNext]_tvars
Accepted == TLCGet("stats").diameter - 1 = Len(TraceData)
=============================================================================
