SPECIFICATION Spec
INVARIANT IsModel Supported PureModelAgrees Emit
PROPERTY Monotone
CHECK_DEADLOCK FALSE
