------------------------- MODULE SortedSetAbsTrace -------------------------
(***************************************************************************)
(* Trace validation: a history of API events recorded from the real        *)
(* B-tree must be a behaviour of SortedSetAbs.  One step per event, so     *)
(* TLC's search depth - 1 = number of accepted events.                     *)
(*                                                                         *)
(* Events (records; histories are concatenated with "reset"):              *)
(*   reset                         a fresh, empty tree                     *)
(*   fill  ks rs                   sequential inserts of ks with results rs*)
(*   call  t k / ret t k ok        invocation / response of insert(k) by   *)
(*                                 thread t; in cooperative runs the order *)
(*                                 is the scheduler's total order, in      *)
(*                                 real-thread runs the events are ordered *)
(*                                 by tickets drawn from one atomic counter*)
(*                                 (call ticket before the invocation, ret *)
(*                                 ticket after the response: the recorded *)
(*                                 interval contains the real one, which   *)
(*                                 can only make the check more lenient)   *)
(*   ins k ok / erase k n          sequential insert / erase               *)
(*   ops ks ins rs                 a run of sequential inserts / erases    *)
(*                                 folded into one event (op i inserts     *)
(*                                 ks[i] iff ins[i]; rs[i] = it reported   *)
(*                                 a new key / one removed key)            *)
(*   scan size iter                size() and a full iteration begin..end  *)
(*   probe q has find lb ub        contains/find/lower_bound/upper_bound   *)
(*                                 for every probe key q[i] (<<>> = end()) *)
(*   chunks n cs                   getChunks(n), every chunk iterated      *)
(*                                                                         *)
(* Linearisation points are not observable, so the "ret" step is the       *)
(* composition  Lin(u)? ; Lin(t)? ; Ret(t)  ("lazy linearisation").        *)
(* This loses no behaviour of SortedSetAbs: postpone every Lin step to     *)
(* just before the next Ret step (Lin commutes with Call steps, which      *)
(* neither read nor write `set`); inside such a batch before Ret(t), a     *)
(* Lin(u) of a different key commutes with Lin(t) and Ret(t) and is        *)
(* postponed to the next batch; a Lin(u) of the same key k that follows    *)
(* Lin(t) is postponed as well; of those preceding Lin(t) only the first   *)
(* matters (if k is new it wins, the others report FALSE now or later      *)
(* alike).  Hence a batch is  [Lin(t)]  or  [Lin(u), Lin(t)]  with u a     *)
(* pending insert of the same key that wins, or empty if t was linearised  *)
(* earlier as somebody's u.                                                *)
(* Consequently a history in which two overlapping inserts of a new key    *)
(* both return TRUE, or both FALSE, or a FALSE precedes every possible     *)
(* winner's call, is rejected.                                             *)
(***************************************************************************)
EXTENDS SortedSetAbs, TLC, TraceDataModule   \* TraceDataModule (generated) defines TraceData
VARIABLE l
tvars == <<set, pend, l>>
TInit == AInit /\ l = 1
Ev == TraceData[l]

RetStep(t, k, ok) ==
    /\ pend[t].k = k
    /\ \/ /\ pend[t].st = "done"                                   \* linearised earlier as the winner of a batch
          /\ ok = pend[t].res
          /\ set' = set /\ pend' = [pend EXCEPT ![t] = Idle]
       \/ /\ pend[t].st = "called"                                 \* Lin(t) ; Ret(t)
          /\ ok = (k \notin set)
          /\ set' = Add(set, k) /\ pend' = [pend EXCEPT ![t] = Idle]
       \/ /\ pend[t].st = "called" /\ ~ok /\ k \notin set           \* Lin(u) ; Lin(t) ; Ret(t)
          /\ \E u \in Threads \ {t} :
                /\ pend[u].st = "called" /\ pend[u].k = k
                /\ pend' = [pend EXCEPT ![t] = Idle, ![u] = [k |-> k, st |-> "done", res |-> TRUE]]
          /\ set' = Add(set, k)

\* a sequence of sequential inserts folded into one event: the i-th insert reports TRUE iff its key is neither in
\* the set before the fill nor among the earlier keys of the fill
FillOK(S, ks, rs) == \A i \in DOMAIN ks : rs[i] = (ks[i] \notin S /\ \A j \in 1..(i - 1) : ks[j] # ks[i])

\* a run of sequential insert / erase operations: key k is present before op i iff the last earlier op of the run on k
\* was an insert, or, if there is none, iff k was in the set before the run
Max(S) == CHOOSE x \in S : \A y \in S : y <= x
PresentBefore(S, e, i, k) == LET js == {j \in 1..(i - 1) : e.ks[j] = k} IN IF js = {} THEN k \in S ELSE e.ins[Max(js)]
OpsOK(S, e) == \A i \in DOMAIN e.ks : e.rs[i] = (IF e.ins[i] THEN ~PresentBefore(S, e, i, e.ks[i]) ELSE PresentBefore(S, e, i, e.ks[i]))
OpsResult(S, e) == {k \in S \cup Range(e.ks) : PresentBefore(S, e, Len(e.ks) + 1, k)}

ProbeOK(e, S) ==
    \A i \in DOMAIN e.q :
          LET q == e.q[i] IN /\ e.has[i] = Contains(S, q)
                             /\ e.find[i] = Find(S, q)
                             /\ e.lb[i] = LowerBound(S, q)
                             /\ e.ub[i] = UpperBound(S, q)

\* "(state predicate) = TRUE": TLC then evaluates the predicate as an expression instead of unfolding its quantifiers as
\* action-level conjunctions (one stack frame group per probe key / sequence element)
TNext == /\ l <= Len(TraceData)
         /\ l' = l + 1
         /\ CASE Ev.e = "reset"  -> set' = {} /\ pend' = [t \in Threads |-> Idle]
              [] Ev.e = "fill"   -> /\ (Quiet /\ Len(Ev.ks) = Len(Ev.rs) /\ FillOK(set, Ev.ks, Ev.rs)) = TRUE
                                    /\ set' = {x : x \in set \cup Range(Ev.ks)} /\ UNCHANGED pend
              [] Ev.e = "call"   -> Call(Ev.t, Ev.k)
              [] Ev.e = "ret"    -> RetStep(Ev.t, Ev.k, Ev.ok)
              [] Ev.e = "ins"    -> Insert(Ev.k, Ev.ok)
              [] Ev.e = "erase"  -> Erase(Ev.k, Ev.n)
              [] Ev.e = "ops"    -> /\ (Quiet /\ Len(Ev.ks) = Len(Ev.ins) /\ Len(Ev.ks) = Len(Ev.rs) /\ OpsOK(set, Ev)) = TRUE
                                    /\ set' = OpsResult(set, Ev) /\ UNCHANGED pend
              [] Ev.e = "scan"   -> (Quiet /\ Ev.size = Size(set) /\ IsIterationOf(Ev.iter, set)) = TRUE /\ UNCHANGED avars
              [] Ev.e = "probe"  -> (Quiet /\ ProbeOK(Ev, set)) = TRUE /\ UNCHANGED avars
              [] Ev.e = "chunks" -> (Quiet /\ IsChunkingOf(Ev.cs, set)) = TRUE /\ UNCHANGED avars
TSpec == TInit /\ [][TNext]_tvars
Accepted == TLCGet("stats").diameter - 1 = Len(TraceData)
=============================================================================
