---------------------------- MODULE JudgeAutoInc ----------------------------
(* Uniqueness of many values: sort-free linear check through the set of values (Cardinality of the value set equals  *)
(* the number of uses).  Same predicate as Judge!AutoIncOK, evaluated in O(n log n).                                  *)
EXTENDS Integers, Sequences, FiniteSets, TLC, JudgeData
Verdict(c) == Cardinality({c.vals[k] : k \in 1..Len(c.vals)}) = Len(c.vals)
VARIABLE i
Init == i \in 1..Len(JudgeCases)
Next == UNCHANGED i
Spec == Init /\ [][Next]_i
Emit == PrintT(<<"VERDICT", i, Verdict(JudgeCases[i])>>)
=============================================================================
