------------------------------ MODULE Subsume ------------------------------
(***************************************************************************)
(* Subsumption (C11).  A program carries `subsume`: a sequence of          *)
(* subsumptive clauses [rel, a1, a2, body]:  rel(a1) <= rel(a2) :- body    *)
(* ("the first tuple is dominated by the second when body holds"; body is  *)
(* pure constraints).  The result predicate judges the FINAL database F of *)
(* a real run against M, the model of the same program WITHOUT its         *)
(* subsumptive clauses (computed by spec/Datalog.tla):                     *)
(*   NoDominated   no tuple of F[R] is dominated by another tuple of F[R]; *)
(*   Derivable     F[R] \subseteq M[R];                                    *)
(*   MinimalEq     (monotone-cost programs only) F[R] = Minimal(M[R]);     *)
(*   the strata above R are exactly what their clauses give from F.        *)
(* The dominance relation must be a strict partial order on M[R] (checked).*)
(***************************************************************************)
EXTENDS Choice

SubClauses(Pg, r) == {Pg.subsume[j] : j \in {x \in 1..Len(Pg.subsume) : Pg.subsume[x].rel = r}}
SubRels(Pg) == {Pg.subsume[j].rel : j \in 1..Len(Pg.subsume)}

\* t is dominated by u according to subsumptive clause sc
DominatedBy(sc, t, u) ==
    LET m1 == MatchSeq(sc.a1, t, 1, EmptyEnv) IN
    IF m1[1] = <<>> THEN FALSE
    ELSE LET m2 == MatchSeq(sc.a2, u, 1, m1[1][1]) IN
         IF m2[1] = <<>> THEN FALSE
         ELSE Solve(sc.body, DOMAIN m2[1][1], {m2[1][1]}, [x \in {} |-> {}]).e # {}
Dominated(Pg, r, t, u) == \E sc \in SubClauses(Pg, r) : DominatedBy(sc, t, u)

NoDominated(Pg, F, r) == \A t, u \in F[r] : t # u => ~Dominated(Pg, r, t, u)
Minimal(Pg, r, X) == {t \in X : ~\E u \in X : u # t /\ Dominated(Pg, r, t, u)}
StrictPartialOrder(Pg, r, X) ==
    /\ \A t \in X : ~Dominated(Pg, r, t, t)
    /\ \A t, u, v \in X : (Dominated(Pg, r, t, u) /\ Dominated(Pg, r, u, v)) => Dominated(Pg, r, t, v)

\* strata strictly above every subsumptive relation are recomputed from F
UpperOK(Pg, F, ed) ==
    \A sx \in 1..Len(Pg.strata) :
        LET St == SeqToSet(Pg.strata[sx]) IN
        (St \cap SubRels(Pg) = {}) =>
            LET J0 == [r \in DOMAIN F |-> IF r \in St THEN (IF r \in DOMAIN ed THEN ed[r] ELSE {}) ELSE F[r]]
                J  == LfpS(Pg, St, J0)
            IN \A r \in St : J[r] = F[r]

\* chk: whether to (re)check the order property for this (program, EDB) - it does not depend on the run
SubsumeDiag(Pg, F, M, ed, mono, chk) ==
    {<<r, "not-a-strict-partial-order">> : r \in {x \in SubRels(Pg) : chk /\ ~StrictPartialOrder(Pg, x, M[x])}}
    \cup {<<r, "dominated-tuple-present">> : r \in {x \in SubRels(Pg) : ~NoDominated(Pg, F, x)}}
    \cup {<<r, "tuple-not-derivable-without-subsumption">> : r \in {x \in SubRels(Pg) : ~(F[x] \subseteq M[x])}}
    \cup {<<r, "not-the-minimal-tuples">> : r \in {x \in SubRels(Pg) : mono /\ F[x] # Minimal(Pg, x, M[x])}}
    \cup (IF UpperOK(Pg, F, ed) THEN {} ELSE {<<"*", "upper-strata-differ">>})
SubsumeOK(Pg, F, M, ed, mono, chk) == SubsumeDiag(Pg, F, M, ed, mono, chk) \subseteq {<<r, "not-a-strict-partial-order">> : r \in SubRels(Pg)}
=============================================================================
