CONSTANT Threads = {1, 2, 3}
CONSTANT Values = {1, 2}
CONSTANT Indices = {0, 1, 2}
CONSTANT NilIndices = {0}
SPECIFICATION HSpec
INVARIANT Bijection NoNil SameValueSameIndex DiffValueDiffIndex NilNeverReturned AtMostOneInserter DecodeEncode ExactlyOneInserter ListingExists
PROPERTY Stable InsertedIffNew
