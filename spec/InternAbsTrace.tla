-------------------------- MODULE InternAbsTrace --------------------------
(***************************************************************************)
(* Trace validation: a recorded history of API events of the real          *)
(* interning tables must be a behaviour of InternAbs.                      *)
(*                                                                         *)
(* Events (TraceData[l], in real-time order: scheduler order under the     *)
(* cooperative scheduler, ticket order for real threads):                  *)
(*  [e "reset"]                 a fresh table (histories are concatenated) *)
(*  [e "call", t, v, r]         t invokes FindOrInsert(v); r = position of *)
(*                              the matching "ret" event (checked below)   *)
(*  [e "ret", t, v, i, b]       ... which returns reference i and the      *)
(*                              inserted flag b: "T", "F", or "?" when the *)
(*                              API does not report it (encode, pack)      *)
(*  [e "fetch", i, v]           decode/unpack/fetch of i returned v        *)
(*  [e "ibegin", id]            an iteration starts (table quiescent)      *)
(*  [e "iend", id, xs, xm]      it listed xs = <<value, reference>>...     *)
(* A reference is <<m, index>>: m is the map inside a record table (the    *)
(* arity; 0 for symbol tables): references of different maps are unrelated *)
(* and the nil rule applies to the index.                                  *)
(*                                                                         *)
(* Calls of different threads overlap, so the history has a call and a     *)
(* return event per call and the linearization step Lin of InternAbs is    *)
(* not logged.  Silent steps are avoided as follows.  (1) Every            *)
(* linearization can be moved later until just before the next return      *)
(* event of the history without changing any result (moving it over call   *)
(* events and over observations of other calls that are not yet returned   *)
(* is invisible), so it suffices to linearize in batches at return events. *)
(* (2) Calls on different values commute, so the batch at the return of t  *)
(* only needs calls on t's value.  (3) Within a batch the order "inserted  *)
(* = T, then ?, then F" is the only one that can succeed.  TNext therefore *)
(* consumes exactly one event per step; at a return event it chooses the   *)
(* set S of pending calls on the same value to linearize with it:          *)
(*   Mode = "general": any subset (complete by (1)-(3))                    *)
(*   Mode = "eager"  : S = the pending calls whose own return reports      *)
(*                     inserted = T (their effect can only help others:    *)
(*                     the table only grows) - one successor per event,    *)
(*                     used as the fast path; "eager" behaviours are       *)
(*                     "general" behaviours, so acceptance is sound, and   *)
(*                     a history it rejects is re-validated with "general" *)
(*                     before it is reported.                              *)
(* The result a pending call is going to return is read from its return    *)
(* event (a prophecy taken from the log itself; the pointer r is verified  *)
(* when the return event is reached).                                      *)
(***************************************************************************)
EXTENDS InternAbs, TraceDataModule   \* TraceDataModule (generated) defines TraceData
CONSTANT Mode
VARIABLES l, retOf, snap
tvars == <<enc, dec, op, l, retOf, snap>>

Ev == TraceData[l]
TInit == AInit /\ l = 1 /\ retOf = [t \in Threads |-> 0] /\ snap = <<>>

Proph(u) == TraceData[retOf[u]]
Pending(u) == op[u].st = "called"
\* linearize the calls of the sequence us one after the other, starting from tables <<e, d>>
RECURSIVE LinAll(_, _, _)
LinAll(us, e, d) ==
    IF us = <<>> THEN [ok |-> TRUE, e |-> e, d |-> d]
    ELSE LET u == Head(us)
             v == op[u].v
             P == Proph(u)
             ins == v \notin DOMAIN e IN
         IF LinOK(e, d, v, P.i, ins) /\ (P.b = "?" \/ P.b = (IF ins THEN "T" ELSE "F"))
           THEN LinAll(Tail(us), LinEnc(e, v, P.i), IF ins THEN LinDec(d, v, P.i) ELSE d)
           ELSE [ok |-> FALSE, e |-> e, d |-> d]
RECURSIVE SeqOf(_)
SeqOf(S) == IF S = {} THEN <<>> ELSE LET x == CHOOSE x \in S : TRUE IN <<x>> \o SeqOf(S \ {x})
Ordered(S) == SeqOf({u \in S : Proph(u).b = "T"}) \o SeqOf({u \in S : Proph(u).b = "?"}) \o SeqOf({u \in S : Proph(u).b = "F"})

\* the candidates for the batch at the return of t
Same(t) == {u \in Threads \ {t} : Pending(u) /\ op[u].v = op[t].v}
Batches(t) == IF Mode = "eager" THEN {{u \in Same(t) : Proph(u).b = "T"}} ELSE SUBSET Same(t)

TCall == /\ Ev.e = "call"
         /\ Call(Ev.t, Ev.v)
         /\ Ev.r > l /\ Ev.r <= Len(TraceData)
         /\ TraceData[Ev.r].e = "ret" /\ TraceData[Ev.r].t = Ev.t /\ TraceData[Ev.r].v = Ev.v
         /\ retOf' = [retOf EXCEPT ![Ev.t] = Ev.r]
         /\ UNCHANGED snap
TRet == /\ Ev.e = "ret"
        /\ op[Ev.t].st \in {"called", "lin"} /\ retOf[Ev.t] = l
        /\ \E B \in Batches(Ev.t) :
              LET S == B \cup (IF Pending(Ev.t) THEN {Ev.t} ELSE {})
                  r == LinAll(Ordered(S), enc, dec) IN
              /\ r.ok
              /\ enc' = r.e /\ dec' = r.d
              /\ op' = [u \in Threads |-> IF u = Ev.t THEN Idle
                                          ELSE IF u \in S THEN [st |-> "lin", v |-> op[u].v] ELSE op[u]]
        /\ UNCHANGED <<retOf, snap>>
TFetch == /\ Ev.e = "fetch"
          /\ CanFetch(Ev.i) /\ FetchResult(Ev.i) = Ev.v
          /\ UNCHANGED <<enc, dec, op, retOf, snap>>
TIBegin == /\ Ev.e = "ibegin"
           /\ Quiescent
           /\ snap' = (Ev.id :> DOMAIN enc) @@ snap
           /\ UNCHANGED <<enc, dec, op, retOf>>
\* every value interned when the iteration began is listed exactly once, nothing is listed twice, every listed
\* pair is in the table; xm = maps that are not enumerable (the empty record of SpecializedRecordMap<0> is a constant).
\* (A state-level operator: TLC evaluates it as a predicate instead of unfolding the quantifiers as an action.)
IEndOK == LET listed == {Ev.xs[k][1] : k \in 1..Len(Ev.xs)}
              hidden == {Ev.xm[k] : k \in 1..Len(Ev.xm)} IN
          /\ Quiescent /\ Ev.id \in DOMAIN snap
          /\ Cardinality(listed) = Len(Ev.xs)
          /\ \A k \in 1..Len(Ev.xs) : Ev.xs[k][1] \in DOMAIN enc /\ enc[Ev.xs[k][1]] = Ev.xs[k][2]
          /\ \A v \in snap[Ev.id] : v \in listed \/ enc[v][1] \in hidden
TIEnd == /\ Ev.e = "iend"
         /\ IEndOK = TRUE     \* "= TRUE": evaluated as a value, not unfolded by the next-state enumeration
         /\ UNCHANGED <<enc, dec, op, retOf, snap>>
TReset == /\ Ev.e = "reset"
          /\ enc' = <<>> /\ dec' = <<>> /\ op' = [t \in Threads |-> Idle]
          /\ retOf' = [t \in Threads |-> 0] /\ snap' = <<>>

TNext == /\ l <= Len(TraceData)
         /\ l' = l + 1
         /\ (TCall \/ TRet \/ TFetch \/ TIBegin \/ TIEnd \/ TReset)
TSpec == TInit /\ [][TNext]_tvars
Accepted == TLCGet("stats").diameter - 1 = Len(TraceData)

\* nil references of tables whose first slot is reserved (CONSTANT NilIndices <- NilRefs)
NilRefs == {<<m, 0>> : m \in 0..32}
NoRefs == {}
=============================================================================
