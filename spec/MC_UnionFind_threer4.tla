---- MODULE MC_UnionFind_threer4 ----
EXTENDS MC_UnionFind
Space == ThreeR(4)
====
