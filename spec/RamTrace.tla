------------------------------ MODULE RamTrace ------------------------------
(***************************************************************************)
(* Trace validation of the interpreter against the RAM machine             *)
(* (direction T).  Hook H5 makes Engine.cpp write one event per executed   *)
(* RAM statement, after its effect: kind, statement id, the size of every  *)
(* relation, whether an EXIT was taken.  RamData.RamTraces[ei] is the      *)
(* trace recorded when the real interpreter ran the program on RamEDBs[ei]. *)
(* Every event must be matched by the one enabled action of Ram.tla with   *)
(* the same statement id, and the sizes of all relations after the step    *)
(* must be those the engine reported (record/ADT values are references     *)
(* into a hash-consing record table on both sides, so cardinalities agree  *)
(* whatever references the two tables hand out).  A behaviour that         *)
(* consumes the whole trace and ends with an empty control stack prints    *)
(* ACCEPT <ei>.                                                            *)
(***************************************************************************)
EXTENDS Ram
VARIABLE l
tvars == <<ei, db, stack, vars, outs, oob, last, glog, rtab, l>>

TInit == Init /\ l = 1
TraceOf == RamTraces[ei]
Evt == TraceOf[l]
SizesMatch(D, sz) == \A r \in DOMAIN sz : r \in DOMAIN D /\ Cardinality(D[r]) = sz[r]

RECURSIVE HasBreak(_)
HasBreak(op) == \/ op.k = "Break"
                \/ ("body" \in DOMAIN op /\ HasBreak(op.body))
Consume == /\ l <= Len(TraceOf)
           /\ Next
           /\ last'.e = Evt.e
           /\ last'.sid = Evt.sid
           /\ (Evt.e = "Exit" => last'.taken = Evt.taken)
           \* number of INSERT executions of the query (scan-order independent unless a BREAK cuts a scan short)
           /\ (Evt.e = "Query" /\ Evt.att >= 0 /\ ~HasBreak(S.op)) => last'.att = Evt.att      \* generated code logs att = -1
           /\ SizesMatch(db', Evt.sz)
           /\ l' = l + 1
\* the whole trace was consumed and the machine has terminated as well
Accept == /\ l = Len(TraceOf) + 1 /\ Finished
          /\ PrintT(<<"ACCEPT", ei>>)
          /\ l' = l + 1
          /\ UNCHANGED rvars
TNext == Consume \/ Accept
TSpec == TInit /\ [][TNext]_tvars
\* properties of Ram.tla evaluated on every state of the real run
TraceInvariants == FinalIsModel /\ LoopHead /\ TempsCleared /\ RecordsOK
=============================================================================
