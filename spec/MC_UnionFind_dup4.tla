---- MODULE MC_UnionFind_dup4 ----
EXTENDS MC_UnionFind
Space == Dup(4)
====
