CONSTANT Keys <- K10
CONSTANT M = 3
SPECIFICATION Spec
INVARIANT ShapeOK
PROPERTY StepOK
CHECK_DEADLOCK FALSE
