-------------------------- MODULE SemiNaiveOracle --------------------------
(***************************************************************************)
(* What a complete and non-redundant semi-naive evaluation of a recursive  *)
(* stratum must do, derived from the DECLARATIVE semantics (Datalog.tla),  *)
(* independently of any RAM program:                                       *)
(*   I_0 = lower strata + input facts, I_k = I_{k-1} \cup T_P(I_{k-1}),    *)
(*   K = number of productive applications (I_K is the least fixpoint).    *)
(* Iteration j of the fixpoint loop (j = 1 .. K, the K-th finds nothing    *)
(* new) must consider, for clause c, exactly the body valuations           *)
(*   New(c, j) = Sat(c, I_j) \ Sat(c, I_{j-1})                             *)
(* - the combinations containing at least one tuple found in the previous  *)
(* iteration - each once; after the "head not yet known" filter the number *)
(* of INSERT executions of all versions of c in iteration j is             *)
(*   Att(c, j) = |{v \in New(c, j) : head(v) \notin I_j}|.                 *)
(* (The preamble evaluates the non-recursive clauses: I_1.)                *)
(* Emits one JSON line per (program, EDB): per stratum K and Att.          *)
(***************************************************************************)
EXTENDS Datalog, Json

SatEnvs(c, J) == Solve(c.body, {}, {EmptyEnv}, J).e
HeadOf(c, env) == [i \in 1..Len(c.head.args) |-> Eval(c.head.args[i], env)[1]]

\* the sequence <<I_0, I_1, ..., I_K, I_K>> of a stratum (last element repeated: the unproductive application)
RECURSIVE StageSeq(_, _, _)
StageSeq(Pg, St, acc) ==
    LET J == acc[Len(acc)]
        r == TP(Pg, St, J)
    IN IF r.I = J THEN acc ELSE StageSeq(Pg, St, Append(acc, r.I))

IsRecursiveClause(Pg, c, St) == \E i \in 1..Len(c.body) : c.body[i].k = "atom" /\ c.body[i].rel \in St

StratumReport(Pg, sx, J0) ==
    LET St == SeqToSet(Pg.strata[sx])
        seq == StageSeq(Pg, St, <<J0>>)              \* I_0 .. I_K
        K == Len(seq) - 1
        rc == {i \in 1..Len(Pg.clauses) : Pg.clauses[i].head.rel \in St /\ IsRecursiveClause(Pg, Pg.clauses[i], St)}
        \* loop iteration j = 1..K works on I_j (index j+1) against I_{j-1} (index j); needs K >= 1
        att(i, j) == LET c == Pg.clauses[i]
                         new == SatEnvs(c, seq[j + 1]) \ SatEnvs(c, seq[j])
                     IN Cardinality({v \in new : HeadOf(c, v) \notin seq[j + 1][c.head.rel]})
    IN [stratum |-> sx, K |-> K, final |-> seq[Len(seq)],
        att |-> [i \in rc |-> [j \in 1..K |-> att(i, j)]],
        recursive |-> rc # {}]

RECURSIVE Reports(_, _, _, _)
Reports(Pg, sx, J, acc) ==
    IF sx > Len(Pg.strata) THEN acc
    ELSE LET rep == StratumReport(Pg, sx, J) IN
         Reports(Pg, sx + 1, rep.final, Append(acc, [stratum |-> rep.stratum, K |-> rep.K, att |-> rep.att, recursive |-> rep.recursive]))

VARIABLE started
OInit == /\ pi \in 1..Len(Programs) /\ edb \in EDBSpace(Programs[pi])
         /\ I = InitI(Programs[pi], edb) /\ si = 1 /\ k = 0 /\ iters = <<>> /\ oob = FALSE /\ started = TRUE
ONext == UNCHANGED <<vars, started>>
OSpec == OInit /\ [][ONext]_<<vars, started>>
EmitO == PrintT(ToJson([tag |-> "SEMINAIVE", p |-> pi, edb |-> edb, strata |-> Reports(P, 1, I, <<>>)]))
=============================================================================
