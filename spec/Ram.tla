-------------------------------- MODULE Ram --------------------------------
(***************************************************************************)
(* The RAM machine: operational semantics of souffle's relational algebra  *)
(* machine language (src/ram/*.h), as executed by the interpreter          *)
(* (src/interpreter/Engine.cpp) and by generated C++                       *)
(* (src/synthesiser/Synthesiser.cpp).                                      *)
(*                                                                         *)
(* The program executed here is the REAL RAM program produced by souffle's *)
(* front-end: hook H3 dumps it as JSON, vf/ramjson.py turns the JSON into  *)
(* the TLA+ value RamProg of the generated module RamData (operator enums  *)
(* become their enumerator names; DebugInfo/LogTimer wrappers are peeled;  *)
(* LogSize/EstimateJoinSize, which have no effect on relations, are        *)
(* dropped; Sequence and Parallel both become "Seq" - the engine executes  *)
(* the children of a Parallel statement in order).                         *)
(*                                                                         *)
(* State:  db    relation name |-> set of tuples                           *)
(*         stack control stack of frames [s |-> statement, i |-> cursor]   *)
(*         vars  RAM variables (loop_counter)                              *)
(*         outs  relation name |-> tuples written by an output IO          *)
(*         ei    index of the EDB of this behaviour                        *)
(* One action per statement kind; the action names are the event kinds of  *)
(* the interpreter trace (hook H5): CallBegin, CallEnd, IO, Query, Assign, *)
(* LoopBegin, LoopIter, LoopEnd, Exit, Swap, Clear, MergeExtend.           *)
(*                                                                         *)
(* Values: integers (signed words; unsigned as signed twins) and strings.  *)
(* Records/ADTs, auto-increment, user-defined functors, floats and         *)
(* provenance are outside this module (vf/ramjson.py marks such programs   *)
(* unsupported and they are not given to it).                              *)
(***************************************************************************)
EXTENDS Integers, Sequences, FiniteSets, TLC, Functors, Json, RamData
\* RamData defines: RamProg  == [relations, main, subroutines]
\*                  RamEDBs  == << [rel |-> <<tuples>>] ... >>      input facts per behaviour
\*                  RamClearPolicy == "interp" | "compiled";  RamStored == <<relations written by an output IO>>
\*                  RamExpect == << [have |-> BOOLEAN, m |-> [rel |-> <<tuples>>]] ... >>  Model(P, EDB) from spec/Datalog.tla

SeqSet(s) == {s[i] : i \in 1..Len(s)}
RelNamesR == {RamProg.relations[i].name : i \in 1..Len(RamProg.relations)}
RelInfoR(n) == LET i == CHOOSE j \in 1..Len(RamProg.relations) : RamProg.relations[j].name = n IN RamProg.relations[i]
IsEqrel(n) == RelInfoR(n).repr = "eqrel"
ColIsUnsigned(n, c) == RelInfoR(n).attrTypes[c] = "u"

EqCloseR(T) ==      \* reflexive-symmetric-transitive closure (eqrel storage)
    LET el  == {t[1] : t \in T} \cup {t[2] : t \in T}
        sym == T \cup {<<t[2], t[1]>> : t \in T} \cup {<<x, x>> : x \in el}
        step(X) == X \cup UNION {{<<a[1], b[2]>> : b \in {y \in X : y[1] = a[2]}} : a \in X}
        RECURSIVE Fix(_)
        Fix(X) == IF step(X) = X THEN X ELSE Fix(step(X))
    IN Fix(sym)

\* ---- results of evaluating an operation tree -----------------------------
\* R(D, brk, oob, att): D the database after the operation, brk "leave the enclosing scan",
\* oob "evaluation left the defined value domain", att number of INSERT executions
Res(D, brk, oob, att) == [D |-> D, brk |-> brk, oob |-> oob, att |-> att]

\* ---- expressions: <<v>> or <<>> (undefined) ------------------------------
RECURSIVE EvalE(_, _, _, _)
EvalE(e, env, D, V) ==
    CASE e.k \in {"Signed", "Unsigned", "String"} -> <<e.v>>
      [] e.k = "TupleElement" -> <<env[e.id][e.col + 1]>>
      [] e.k = "Variable" -> <<V[e.name]>>
      [] e.k = "RelationSize" -> <<Cardinality(D[e.rel])>>
      [] e.k = "Intrinsic" ->
            LET as == [i \in 1..Len(e.args) |-> EvalE(e.args[i], env, D, V)] IN
            IF \E i \in 1..Len(e.args) : as[i] = <<>> THEN <<>>
            ELSE Apply(e.op, [i \in 1..Len(e.args) |-> as[i][1]])

IsUndef(e) == e.k = "Undef"

\* ---- conditions: "T", "F" or "U" (undefined) -----------------------------
Tri(b) == IF b THEN "T" ELSE "F"
RECURSIVE EvalC(_, _, _, _)
EvalC(c, env, D, V) ==
    CASE c.k = "True" -> "T"
      [] c.k = "False" -> "F"
      [] c.k = "Conjunction" ->
            LET l == EvalC(c.l, env, D, V) IN
            IF l = "F" THEN "F" ELSE IF l = "U" THEN "U" ELSE EvalC(c.r, env, D, V)
      [] c.k = "Negation" ->
            LET x == EvalC(c.c, env, D, V) IN IF x = "U" THEN "U" ELSE Tri(x = "F")
      [] c.k = "Constraint" ->
            LET l == EvalE(c.l, env, D, V)  r == EvalE(c.r, env, D, V) IN
            IF l = <<>> \/ r = <<>> THEN "U" ELSE Tri(Cmp(c.op, l[1], r[1]))
      [] c.k = "EmptinessCheck" -> Tri(D[c.rel] = {})
      [] c.k = "ExistenceCheck" ->
            LET n == Len(c.vals)
                vs == [i \in 1..n |-> IF IsUndef(c.vals[i]) THEN <<"*">> ELSE EvalE(c.vals[i], env, D, V)]
            IN IF \E i \in 1..n : vs[i] = <<>> THEN "U"
               ELSE Tri(\E t \in D[c.rel] : \A i \in 1..n : IsUndef(c.vals[i]) \/ t[i] = vs[i][1])

\* ---- index range patterns -------------------------------------------------
\* a bound is [d |-> defined?, v |-> <<value>> or <<>> when its evaluation is undefined]; UNDEF = unbounded
Bounds(es, env, D, V) == [i \in 1..Len(es) |-> IF IsUndef(es[i]) THEN [d |-> FALSE, v |-> <<0>>]
                                                 ELSE [d |-> TRUE, v |-> EvalE(es[i], env, D, V)]]
BoundsUndefined(b) == \E i \in 1..Len(b) : b[i].v = <<>>
InRange(rel, t, lo, hi) ==
    \A i \in 1..Len(lo) :
        IF lo[i].d /\ hi[i].d /\ lo[i].v = hi[i].v THEN t[i] = lo[i].v[1]          \* equality (any type)
        ELSE /\ lo[i].d => (IF ColIsUnsigned(rel, i) THEN ULe(lo[i].v[1], t[i]) ELSE lo[i].v[1] <= t[i])
             /\ hi[i].d => (IF ColIsUnsigned(rel, i) THEN ULe(t[i], hi[i].v[1]) ELSE t[i] <= hi[i].v[1])

RangeValsR(a) ==   \* evaluator::runRange
    LET from == a[1]  to == a[2]
        step == IF Len(a) = 3 THEN a[3] ELSE IF from <= to THEN 1 ELSE -1
    IN IF step > 0 THEN {x \in from..(to - 1) : (x - from) % step = 0}
       ELSE IF step < 0 THEN {x \in (to + 1)..from : (from - x) % (-step) = 0}
       ELSE IF from # to THEN {from} ELSE {}

\* Scan order.  RamOrders (RamData) is a sequence of value sequences; behaviour number V["@ord"] scans every relation
\* in the lexicographic order induced by ranking values by their position in RamOrders[V["@ord"]] (values not listed
\* rank after the listed ones, in natural order; integer-only relations).  The empty sequence <<>> stands for TLC's own
\* fixed enumeration order.  Results of programs without choice-domain must not depend on the order (C03); for
\* choice-domain every order must give an admissible result (C10).
RankOf(o, v) == IF \E i \in 1..Len(o) : o[i] = v THEN CHOOSE i \in 1..Len(o) : o[i] = v ELSE 1000000 + v
RECURSIVE KeyLess(_, _, _, _)
KeyLess(o, t, u, i) == IF i > Len(t) THEN FALSE
                       ELSE IF RankOf(o, t[i]) # RankOf(o, u[i]) THEN RankOf(o, t[i]) < RankOf(o, u[i])
                       ELSE KeyLess(o, t, u, i + 1)
RECURSIVE SortBy(_, _), ChooseSeq(_)
SortBy(o, X) == IF X = {} THEN <<>>
                ELSE LET m == CHOOSE t \in X : \A u \in X \ {t} : KeyLess(o, t, u, 1) IN <<m>> \o SortBy(o, X \ {m})
ChooseSeq(X) == IF X = {} THEN <<>> ELSE LET x == CHOOSE y \in X : TRUE IN <<x>> \o ChooseSeq(X \ {x})
SetToSeq(X, V) == IF RamOrders[V["@ord"]] = <<>> THEN ChooseSeq(X) ELSE SortBy(RamOrders[V["@ord"]], X)

InsertT(D, rel, t) == [D EXCEPT ![rel] = IF IsEqrel(rel) THEN EqCloseR(@ \cup {t}) ELSE @ \cup {t}]

\* ---- operations -----------------------------------------------------------
RECURSIVE Exec(_, _, _, _), ScanOver(_, _, _, _, _, _)
\* iterate the body over the tuples ts (a sequence) bound to tuple id
ScanOver(ts, i, op, env, D, V) ==
    IF i > Len(ts) THEN Res(D, FALSE, FALSE, 0)
    ELSE LET r == Exec(op.body, env @@ (op.id :> ts[i]), D, V) IN
         IF r.brk \/ r.oob THEN Res(r.D, FALSE, r.oob, r.att)          \* Break leaves this scan only
         ELSE LET s == ScanOver(ts, i + 1, op, env, r.D, V) IN Res(s.D, FALSE, s.oob, r.att + s.att)

EnvSet(env, id, t) == [x \in (DOMAIN env) \cup {id} |-> IF x = id THEN t ELSE env[x]]

Exec(op, env, D, V) ==
    CASE op.k = "Scan" ->
            ScanOver(SetToSeq(D[op.rel], V), 1, op, [x \in (DOMAIN env) \ {op.id} |-> env[x]], D, V)
      [] op.k = "IndexScan" ->
            LET lo == Bounds(op.lo, env, D, V)  hi == Bounds(op.hi, env, D, V) IN
            IF BoundsUndefined(lo) \/ BoundsUndefined(hi) THEN Res(D, FALSE, TRUE, 0)
            ELSE ScanOver(SetToSeq({t \in D[op.rel] : InRange(op.rel, t, lo, hi)}, V), 1, op,
                          [x \in (DOMAIN env) \ {op.id} |-> env[x]], D, V)
      [] op.k \in {"IfExists", "IndexIfExists"} ->
            LET lo == IF op.k = "IndexIfExists" THEN Bounds(op.lo, env, D, V) ELSE <<>>
                hi == IF op.k = "IndexIfExists" THEN Bounds(op.hi, env, D, V) ELSE <<>>
                cand == IF op.k = "IndexIfExists" THEN {t \in D[op.rel] : InRange(op.rel, t, lo, hi)} ELSE D[op.rel]
                cs == [t \in cand |-> EvalC(op.cond, EnvSet(env, op.id, t), D, V)]
                wit == {t \in cand : cs[t] = "T"}
            IN IF BoundsUndefined(lo) \/ BoundsUndefined(hi) \/ (\E t \in cand : cs[t] = "U") THEN Res(D, FALSE, TRUE, 0)
               ELSE IF wit = {} THEN Res(D, FALSE, FALSE, 0)
               ELSE LET r == Exec(op.body, EnvSet(env, op.id, SetToSeq(wit, V)[1]), D, V)
                    IN Res(r.D, FALSE, r.oob, r.att)
      [] op.k \in {"Aggregate", "IndexAggregate"} ->
            LET lo == IF op.k = "IndexAggregate" THEN Bounds(op.lo, env, D, V) ELSE <<>>
                hi == IF op.k = "IndexAggregate" THEN Bounds(op.hi, env, D, V) ELSE <<>>
                cand == IF op.k = "IndexAggregate" THEN {t \in D[op.rel] : InRange(op.rel, t, lo, hi)} ELSE D[op.rel]
                cs == [t \in cand |-> EvalC(op.cond, EnvSet(env, op.id, t), D, V)]
                sel == {t \in cand : cs[t] = "T"}
                fn == op.agg
                vals == [t \in sel |-> IF fn = "COUNT" THEN <<1>> ELSE EvalE(op.expr, EnvSet(env, op.id, t), D, V)]
                bad == BoundsUndefined(lo) \/ BoundsUndefined(hi) \/ (\E t \in cand : cs[t] = "U")
                          \/ (\E t \in sel : vals[t] = <<>>)
                xs == {vals[t][1] : t \in sel}
                RECURSIVE SumSeq(_, _, _)
                SumSeq(s, i, acc) == IF i > Len(s) THEN <<acc>>
                                     ELSE IF fn = "USUM" THEN SumSeq(s, i + 1, AddW(acc, vals[s[i]][1]))
                                     ELSE IF ~AddOK(acc, vals[s[i]][1]) THEN <<>>
                                     ELSE SumSeq(s, i + 1, acc + vals[s[i]][1])
                sum == IF fn \in {"SUM", "USUM"} THEN SumSeq(ChooseSeq(sel), 1, 0) ELSE <<0>>
                none == fn \in {"MIN", "MAX", "UMIN", "UMAX"} /\ sel = {}       \* min/max over nothing: body not run
                aggv == CASE fn = "COUNT" -> Cardinality(sel)
                          [] fn \in {"SUM", "USUM"} -> IF sum = <<>> THEN 0 ELSE sum[1]
                          [] none -> 0
                          [] fn = "MIN" -> CHOOSE x \in xs : \A y \in xs : x <= y
                          [] fn = "MAX" -> CHOOSE x \in xs : \A y \in xs : x >= y
                          [] fn = "UMIN" -> CHOOSE x \in xs : \A y \in xs : ULe(x, y)
                          [] fn = "UMAX" -> CHOOSE x \in xs : \A y \in xs : ULe(y, x)
            IN IF bad \/ sum = <<>> THEN Res(D, FALSE, TRUE, 0)
               ELSE IF none THEN Res(D, FALSE, FALSE, 0)
               ELSE LET r == Exec(op.body, EnvSet(env, op.id, <<aggv>>), D, V)
                    IN Res(r.D, FALSE, r.oob, r.att)
      [] op.k = "NestedIntrinsic" ->
            LET as == [i \in 1..Len(op.args) |-> EvalE(op.args[i], env, D, V)] IN
            IF \E i \in 1..Len(op.args) : as[i] = <<>> THEN Res(D, FALSE, TRUE, 0)
            ELSE LET xs == RangeValsR([i \in 1..Len(op.args) |-> as[i][1]])
                 IN ScanOver(SetToSeq({<<x>> : x \in xs}, V), 1, op, [x \in (DOMAIN env) \ {op.id} |-> env[x]], D, V)
      [] op.k = "Filter" ->
            LET c == EvalC(op.cond, env, D, V) IN
            IF c = "U" THEN Res(D, FALSE, TRUE, 0)
            ELSE IF c = "F" THEN Res(D, FALSE, FALSE, 0) ELSE Exec(op.body, env, D, V)
      [] op.k = "Break" ->
            LET c == EvalC(op.cond, env, D, V) IN
            IF c = "U" THEN Res(D, FALSE, TRUE, 0)
            ELSE IF c = "T" THEN Res(D, TRUE, FALSE, 0) ELSE Exec(op.body, env, D, V)
      [] op.k \in {"Insert", "GuardedInsert", "Erase"} ->
            LET g == IF op.k = "GuardedInsert" THEN EvalC(op.cond, env, D, V) ELSE "T"
                vs == [i \in 1..Len(op.vals) |-> EvalE(op.vals[i], env, D, V)]
            IN IF g = "U" THEN Res(D, FALSE, TRUE, 0)
               ELSE IF g = "F" THEN Res(D, FALSE, FALSE, 0)
               ELSE IF \E i \in 1..Len(op.vals) : vs[i] = <<>> THEN Res(D, FALSE, TRUE, 0)
               ELSE LET t == [i \in 1..Len(op.vals) |-> vs[i][1]] IN
                    IF op.k = "Erase" THEN Res([D EXCEPT ![op.rel] = @ \ {t}], FALSE, FALSE, 0)
                    ELSE Res(InsertT(D, op.rel, t), FALSE, FALSE, 1)

\* MergeExtend (eqrel): EquivalenceRelation::extendAndInsert - src is extended by the classes of trg
\* that it touches, and trg receives everything of src
MergeExtendDB(D, src, trg) ==
    LET touch == {t \in D[trg] : \E s \in D[src] : s[1] = t[1]}
        src2 == EqCloseR(D[src] \cup touch)
        trg2 == EqCloseR(D[trg] \cup D[src])
    IN [D EXCEPT ![src] = src2, ![trg] = trg2]

\* ---- the state machine ----------------------------------------------------
VARIABLES ei, db, stack, vars, outs, oob, last, glog
rvars == <<ei, db, stack, vars, outs, oob, last, glog>>
\* glog (ghost, for C09): [iter |-> number of completed iterations of the running loop,
\*                         att  |-> sequence of [line, iter, att] one per QUERY executed inside a loop,
\*                         runs |-> sequence of [sid, n] one per finished loop: n = body executions]
\* last = [e |-> event kind, sid |-> statement id, att |-> inserts executed, taken |-> exit taken]: what the step did
\* (the trace specification matches it against the recorded event; model checking hides it with a VIEW)

Frame(s) == [s |-> s, i |-> 1]
Top == stack[Len(stack)]
Pop(st) == SubSeq(st, 1, Len(st) - 1)

\* descend through sequences until the top frame is an atomic statement (or the stack is empty)
RECURSIVE Norm(_)
Norm(st) ==
    IF st = <<>> THEN st
    ELSE LET f == st[Len(st)] IN
         IF f.s.k = "Seq" THEN
              IF f.i > Len(f.s.stmts) THEN Norm(Pop(st))
              ELSE Norm(Append(Pop(st) \o <<[f EXCEPT !.i = @ + 1]>>, Frame(f.s.stmts[f.i])))
         ELSE st

EmptyDB == [r \in RelNamesR |-> {}]
Init == /\ ei \in 1..Len(RamEDBs)
        /\ db = EmptyDB
        /\ stack = Norm(<<Frame(RamProg.main)>>)
        /\ \E o \in 1..Len(RamOrders) : vars = ("@ord" :> o)
        /\ outs = [x \in {} |-> {}]
        /\ oob = FALSE
        /\ last = [e |-> "Init", sid |-> -1, att |-> 0, taken |-> FALSE]
        /\ glog = [iter |-> 0, att |-> <<>>, runs |-> <<>>]

InLoop == \E i \in 1..Len(stack) : stack[i].s.k = "Loop"
Running == stack # <<>>
S == Top.s
Done(st) == stack' = Norm(st)            \* continue after the current atomic statement
Ev(e, att, taken) == last' = [e |-> e, sid |-> S.sid, att |-> att, taken |-> taken]

Query == /\ Running /\ S.k = "Query"
         /\ LET r == Exec(S.op, [x \in {} |-> <<>>], db, vars) IN
            /\ db' = r.D /\ oob' = (oob \/ r.oob) /\ Ev("Query", r.att, FALSE)
            /\ glog' = IF InLoop /\ "line" \in DOMAIN S
                        THEN [glog EXCEPT !.att = Append(@, [line |-> S.line, iter |-> glog.iter, att |-> r.att])]
                        ELSE glog
         /\ Done(Pop(stack)) /\ UNCHANGED <<ei, vars, outs>>
Clear == /\ Running /\ S.k = "Clear"
         \* generated C++ (Synthesiser.cpp visit_ Clear) does not clear a stored (output) relation; the interpreter does
         /\ db' = IF RamClearPolicy = "compiled" /\ S.rel \in SeqSet(RamStored) THEN db ELSE [db EXCEPT ![S.rel] = {}]
         /\ Ev("Clear", 0, FALSE)
         /\ Done(Pop(stack)) /\ UNCHANGED <<ei, vars, outs, oob, glog>>
Swap == /\ Running /\ S.k = "Swap"
        /\ db' = [db EXCEPT ![S.a] = db[S.b], ![S.b] = db[S.a]] /\ Ev("Swap", 0, FALSE)
        /\ Done(Pop(stack)) /\ UNCHANGED <<ei, vars, outs, oob, glog>>
MergeExtend == /\ Running /\ S.k = "MergeExtend"
               /\ db' = MergeExtendDB(db, S.src, S.trg) /\ Ev("MergeExtend", 0, FALSE)
               /\ Done(Pop(stack)) /\ UNCHANGED <<ei, vars, outs, oob, glog>>
IO == /\ Running /\ S.k = "IO"
      /\ IF S.op = "input"
           THEN /\ db' = [db EXCEPT ![S.rel] = LET T == @ \cup SeqSet(RamEDBs[ei][S.rel]) IN
                                              IF IsEqrel(S.rel) THEN EqCloseR(T) ELSE T]
                /\ UNCHANGED outs
           ELSE /\ outs' = (S.rel :> db[S.rel]) @@ outs
                /\ UNCHANGED db
      /\ Ev("IO", 0, FALSE)
      /\ Done(Pop(stack)) /\ UNCHANGED <<ei, vars, oob, glog>>
Assign == /\ Running /\ S.k = "Assign"
          /\ LET v == EvalE(S.value, [x \in {} |-> <<>>], db, vars) IN
             /\ vars' = (S.var :> (IF v = <<>> THEN 0 ELSE v[1])) @@ vars
             /\ oob' = (oob \/ v = <<>>)
          /\ Ev("Assign", 0, FALSE)
          /\ Done(Pop(stack)) /\ UNCHANGED <<ei, db, outs, glog>>
\* CALL: the frame stays (cursor 2 = "returning") while the subroutine body runs above it
CallBegin == /\ Running /\ S.k = "Call" /\ Top.i = 1
             /\ Ev("CallBegin", 0, FALSE)
             /\ stack' = LET st == Append(Pop(stack) \o <<[Top EXCEPT !.i = 2]>>, Frame(RamProg.subroutines[S.name]))
                         IN  LET n == Norm(st) IN
                             \* an empty subroutine returns at once: keep the call frame on top
                             IF Len(n) < Len(stack) THEN Pop(stack) \o <<[Top EXCEPT !.i = 2]>> ELSE n
             /\ UNCHANGED <<ei, db, vars, outs, oob, glog>>
CallEnd == /\ Running /\ S.k = "Call" /\ Top.i = 2
           /\ Ev("CallEnd", 0, FALSE)
           /\ Done(Pop(stack)) /\ UNCHANGED <<ei, db, vars, outs, oob, glog>>
\* LOOP: cursor 1 = not entered, 2 = body running above, the body frame is re-pushed by LoopIter
LoopBegin == /\ Running /\ S.k = "Loop" /\ Top.i = 1
             /\ Ev("LoopBegin", 0, FALSE)
             /\ stack' = Norm(Append(Pop(stack) \o <<[Top EXCEPT !.i = 2]>>, Frame(S.body)))
             /\ glog' = [glog EXCEPT !.iter = 0]
             /\ UNCHANGED <<ei, db, vars, outs, oob>>
LoopIter == /\ Running /\ S.k = "Loop" /\ Top.i = 2          \* the body ran to its end: next iteration
            /\ Ev("LoopIter", 0, FALSE)
            /\ stack' = Norm(Append(stack, Frame(S.body)))
            /\ glog' = [glog EXCEPT !.iter = @ + 1]
            /\ UNCHANGED <<ei, db, vars, outs, oob>>
LoopEnd == /\ Running /\ S.k = "Loop" /\ Top.i = 3           \* an EXIT fired inside
           /\ Ev("LoopEnd", 0, FALSE)
           /\ glog' = [glog EXCEPT !.runs = Append(@, [sid |-> S.sid, n |-> glog.iter + 1]), !.iter = 0]
           /\ Done(Pop(stack)) /\ UNCHANGED <<ei, db, vars, outs, oob>>
\* EXIT: when the condition holds unwind to the innermost enclosing loop frame
RECURSIVE Unwind(_)
Unwind(st) == IF st = <<>> THEN st
              ELSE IF st[Len(st)].s.k = "Loop" THEN Pop(st) \o <<[st[Len(st)] EXCEPT !.i = 3]>>
              ELSE Unwind(Pop(st))
Exit == /\ Running /\ S.k = "Exit"
        /\ LET c == EvalC(S.cond, [x \in {} |-> <<>>], db, vars) IN
           /\ oob' = (oob \/ c = "U")
           /\ Ev("Exit", 0, c = "T")
           /\ stack' = IF c = "T" THEN Unwind(Pop(stack)) ELSE Norm(Pop(stack))
        /\ UNCHANGED <<ei, db, vars, outs, glog>>

Next == \/ Query \/ Clear \/ Swap \/ MergeExtend \/ IO \/ Assign \/ CallBegin \/ CallEnd
        \/ LoopBegin \/ LoopIter \/ LoopEnd \/ Exit
Spec == Init /\ [][Next]_rvars
View == <<ei, db, stack, vars, outs, oob, glog>>

(***************************************************************************)
(* Properties of the real RAM program (direction A)                        *)
(***************************************************************************)
Finished == stack = <<>>
\* every output relation equals the declarative model computed by spec/Datalog.tla
FinalIsModel ==
    (Finished /\ ~oob /\ RamExpect[ei].have) =>
        \A r \in DOMAIN RamExpect[ei].m : r \in DOMAIN outs /\ outs[r] = SeqSet(RamExpect[ei].m[r])
\* semi-naive bookkeeping at every loop head: delta is part of the main relation, new is empty
IsPrefix(p, s) == Len(s) >= Len(p) /\ SubSeq(s, 1, Len(p)) = p
DeltaRels == {r \in RelNamesR : IsPrefix("@delta_", r)}
NewRels == {r \in RelNamesR : IsPrefix("@new_", r)}
BaseOf(r, p) == SubSeq(r, Len(p) + 1, Len(r))
AtLoopHead == last.e \in {"LoopBegin", "LoopIter"}
LoopHead == AtLoopHead =>
              /\ \A d \in DeltaRels : BaseOf(d, "@delta_") \in RelNamesR => db[d] \subseteq db[BaseOf(d, "@delta_")]
              /\ \A n \in NewRels : db[n] = {}
\* the loop is left only when nothing new was found
ExitAtFixpoint == (last.e = "Exit" /\ last.taken) =>
                     \A n \in NewRels : (BaseOf(n, "@new_") \in RelNamesR /\ ~IsEqrel(n)) => db[n] \subseteq db[BaseOf(n, "@new_")]
\* C09: the real RAM does exactly what a complete, non-redundant semi-naive evaluation must do (SemiNaiveOracle.tla):
\* RamSN[ei] = [have, loops |-> (loop sid :> K), att |-> (source line of a recursive clause :> <<Att(c,1..K)>>)]
RECURSIVE SumAtt(_, _, _, _)
SumAtt(lg, i, line, it) == IF i > Len(lg) THEN 0
                           ELSE (IF lg[i].line = line /\ lg[i].iter = it THEN lg[i].att ELSE 0) + SumAtt(lg, i + 1, line, it)
SemiNaiveOK ==
    (Finished /\ ~oob /\ RamSN[ei].have) =>
        /\ \A i \in 1..Len(glog.runs) :
               glog.runs[i].sid \in DOMAIN RamSN[ei].loops =>
                   glog.runs[i].n = (IF RamSN[ei].loops[glog.runs[i].sid] = 0 THEN 1 ELSE RamSN[ei].loops[glog.runs[i].sid])
        /\ \A ln \in DOMAIN RamSN[ei].att :
               \A j \in 1..Len(RamSN[ei].att[ln]) : SumAtt(glog.att, 1, ln, j - 1) = RamSN[ei].att[ln][j]
\* prints the final outputs of every terminated behaviour (used when the contract is a result predicate judged elsewhere)
EmitFinal == Finished => PrintT(ToJson([tag |-> "RAMFINAL", ei |-> ei, ord |-> vars["@ord"], oob |-> oob, outs |-> outs]))
\* temporaries are empty when the program ends
TempsCleared == Finished => \A r \in DeltaRels \cup NewRels : db[r] = {}
=============================================================================
