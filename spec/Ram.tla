-------------------------------- MODULE Ram --------------------------------
(***************************************************************************)
(* The RAM machine: operational semantics of souffle's relational algebra  *)
(* machine language (src/ram/*.h), as executed by the interpreter          *)
(* (src/interpreter/Engine.cpp) and by generated C++                       *)
(* (src/synthesiser/Synthesiser.cpp).                                      *)
(*                                                                         *)
(* The program executed here is the REAL RAM program produced by souffle's *)
(* front-end: hook H3 dumps it as JSON, vf/ramjson.py turns the JSON into  *)
(* the TLA+ value RamProg of the generated module RamData (operator enums  *)
(* become their enumerator names; DebugInfo/LogTimer wrappers are peeled;  *)
(* LogSize/EstimateJoinSize, which have no effect on relations, are        *)
(* dropped; Sequence and Parallel both become "Seq" - the engine executes  *)
(* the children of a Parallel statement in order).                         *)
(*                                                                         *)
(* State:  db    relation name |-> set of tuples                           *)
(*         stack control stack of frames [s |-> statement, i |-> cursor]   *)
(*         vars  RAM variables (loop_counter)                              *)
(*         outs  relation name |-> tuples written by an output IO          *)
(*         ei    index of the EDB of this behaviour                        *)
(*         rtab  the record table (see RECORDS AND ADTS below)             *)
(* One action per statement kind; the action names are the event kinds of  *)
(* the interpreter trace (hook H5): CallBegin, CallEnd, IO, Query, Assign, *)
(* LoopBegin, LoopIter, LoopEnd, Exit, Swap, Clear, MergeExtend.           *)
(*                                                                         *)
(* Values: integers (signed words; unsigned as signed twins) and strings.  *)
(*                                                                         *)
(* RECORDS AND ADTS.  As in the real engine a record value is an integer:  *)
(* a reference into a RECORD TABLE                                         *)
(* (souffle/datastructure/RecordTableImpl.h) which is part of the machine  *)
(* state (variable rtab).  rtab.t is a sequence of entries [k |-> key, t   *)
(* |-> tuple]; reference r > 0 denotes rtab.t[r].t, reference 0 is nil.    *)
(* PACK looks the tuple up and appends it when it is new (hash-consing:    *)
(* equal tuples get equal references, different tuples different ones);    *)
(* UNPACK reads the entry and skips its body when the reference is 0       *)
(* (Engine.cpp CASE(UnpackRecord)).  The real table has one map per arity; *)
(* here one sequence serves all arities, which renames the references      *)
(* injectively - no well-typed program can observe that, and an UNPACK     *)
(* whose arity differs from the entry's is recorded in rtab.bad (invariant *)
(* RecordsOK).  TLC cannot compare a string with an integer, and tuples of *)
(* one arity may hold either at a position ([1,"a"] and [1,2]), so the     *)
(* look-up compares the keys k = ToString(tuple), which is injective on    *)
(* tuples of integers and strings.                                         *)
(* Because PACK occurs inside expressions (also in conditions and index    *)
(* bounds: `(PACK(t0.0,"z"),_) IN r0`), evaluation THREADS the table, as   *)
(* the engine's side effect on its table does: EvalE returns <<value,      *)
(* table'>>, EvalC <<truth, table'>>, Exec a result with field T;          *)
(* sub-evaluations happen left to right, each starting from the table the  *)
(* previous one returned.  (Pre-interning all records was rejected: the    *)
(* records a program builds depend on the data.)  The order in which       *)
(* records get their references is unobservable: relations are compared by *)
(* cardinality (trace) and BY VALUE (FinalIsModel): an output IO decodes   *)
(* every tuple through the table (Dec, a transcription of WriteStream.h    *)
(* outputRecord/outputADT) into the value form of spec/Datalog.tla         *)
(* (<<"nil">>, <<"rec", v..>>, <<"adt", branch, v..>>); an input IO packs  *)
(* the EDB values (Enc, a transcription of ReadStream.h                    *)
(* readRecord/readADT).                                                    *)
(* ADT encoding (ast2ram ValueTranslator.cpp visit_(BranchInit)): branch   *)
(* id = index in the list of branches sorted by name; an enum-only ADT is  *)
(* the plain number id; otherwise [id, arg] for a branch with one argument *)
(* and [id, [args..]] for 0 or >= 2 arguments.  The type table             *)
(* RamProg.types is the one the REAL IO statements carry in their `types`  *)
(* directive (records: name |-> field types; adts: name |-> [enum,         *)
(* branches |-> <<[name, types]>> in id order]).                           *)
(* Auto-increment, user-defined functors, floats and provenance are        *)
(* outside this module (vf/ramjson.py marks such programs unsupported and  *)
(* they are not given to it).                                              *)
(***************************************************************************)
EXTENDS Integers, Sequences, FiniteSets, TLC, Functors, Json, RamData
\* RamData defines: RamProg  == [relations, main, subroutines, types]
\*                  RamEDBs  == << [rel |-> <<tuples>>] ... >>      input facts per behaviour (Datalog.tla value form)
\*                  RamClearPolicy == "interp" | "compiled";  RamStored == <<relations written by an output IO>>
\*                  RamExpect == << [have |-> BOOLEAN, m |-> [rel |-> <<tuples>>]] ... >>  Model(P, EDB) from spec/Datalog.tla

SeqSet(s) == {s[i] : i \in 1..Len(s)}
RelNamesR == {RamProg.relations[i].name : i \in 1..Len(RamProg.relations)}
RelIndexR == [n \in RelNamesR |-> CHOOSE j \in 1..Len(RamProg.relations) : RamProg.relations[j].name = n]   \* evaluated once
RelInfoR(n) == RamProg.relations[RelIndexR[n]]
IsEqrel(n) == RelInfoR(n).repr = "eqrel"
ColIsUnsigned(n, c) == RelInfoR(n).attrTypes[c] = "u"

EqCloseR(T) ==      \* reflexive-symmetric-transitive closure (eqrel storage)
    LET el  == {t[1] : t \in T} \cup {t[2] : t \in T}
        sym == T \cup {<<t[2], t[1]>> : t \in T} \cup {<<x, x>> : x \in el}
        step(X) == X \cup UNION {{<<a[1], b[2]>> : b \in {y \in X : y[1] = a[2]}} : a \in X}
        RECURSIVE Fix(_)
        Fix(X) == IF step(X) = X THEN X ELSE Fix(step(X))
    IN Fix(sym)

\* ---- the record table ------------------------------------------------------
\* T is the sequence rtab.t.  Pack(T, t) = <<reference of tuple t, table'>>  (RecordTableImpl.h pack: findOrInsert)
RKey(t) == ToString(t)
Pack(T, t) == LET key == RKey(t)
                  f == {i \in 1..Len(T) : T[i].k = key}
              IN IF f # {} THEN <<CHOOSE i \in f : TRUE, T>> ELSE <<Len(T) + 1, Append(T, [k |-> key, t |-> t])>>
ValidRef(x, n, T) == x \in 1..Len(T) /\ Len(T[x].t) = n         \* a reference an UNPACK of arity n may read

\* ---- column types ----------------------------------------------------------
\* an attribute type is "i", "u", "s", or the qualifier of a record ("r:Name") or ADT ("+:Name") of the type table
RTypes == RamProg.types
IsRecT(ty) == ty \in DOMAIN RTypes.records
IsAdtT(ty) == ty \in DOMAIN RTypes.adts

\* Dec(x, ty, T): the RAM value x of type ty as a value of spec/Datalog.tla (WriteStream.h outputRecord / outputADT);
\* <<"bad">> stands for a dangling reference or a branch id outside the type (never part of a model)
RECURSIVE Dec(_, _, _)
Dec(x, ty, T) ==
    IF IsRecT(ty) THEN
        LET fts == RTypes.records[ty] IN
        IF x = 0 THEN <<"nil">>
        ELSE IF ~ValidRef(x, Len(fts), T) THEN <<"bad">>
        ELSE <<"rec">> \o [i \in 1..Len(fts) |-> Dec(T[x].t[i], fts[i], T)]
    ELSE IF IsAdtT(ty) THEN
        LET info == RTypes.adts[ty]  nb == Len(info.branches) IN
        IF info.enum THEN (IF x \in 0..(nb - 1) THEN <<"adt", info.branches[x + 1].name>> ELSE <<"bad">>)
        ELSE IF ~ValidRef(x, 2, T) THEN <<"bad">>
        ELSE IF T[x].t[1] \notin 0..(nb - 1) THEN <<"bad">>
        ELSE LET b == info.branches[T[x].t[1] + 1]  n == Len(b.types)  p == T[x].t[2] IN
             IF n > 1 /\ ~ValidRef(p, n, T) THEN <<"bad">>
             ELSE LET args == IF n > 1 THEN T[p].t ELSE <<p>> IN          \* [id, [args]] or [id, arg]
                  <<"adt", b.name>> \o [i \in 1..n |-> Dec(args[i], b.types[i], T)]
    ELSE x
DecTuple(t, tys, T) == [i \in 1..Len(t) |-> Dec(t[i], tys[i], T)]

\* Enc(v, ty, T) = <<RAM value, table'>>: the Datalog.tla value v of type ty packed (ReadStream.h readRecord / readADT)
RECURSIVE Enc(_, _, _), EncVals(_, _, _, _, _)
EncVals(vs, tys, i, acc, T) ==
    IF i > Len(vs) THEN <<acc, T>>
    ELSE LET r == Enc(vs[i], tys[i], T) IN EncVals(vs, tys, i + 1, Append(acc, r[1]), r[2])
Enc(v, ty, T) ==
    IF IsRecT(ty) THEN
        IF v = <<"nil">> THEN <<0, T>>
        ELSE LET r == EncVals(Tail(v), RTypes.records[ty], 1, <<>>, T) IN Pack(r[2], r[1])
    ELSE IF IsAdtT(ty) THEN
        LET info == RTypes.adts[ty]
            bi == CHOOSE j \in 1..Len(info.branches) : info.branches[j].name = v[2]
            fts == info.branches[bi].types
        IN IF info.enum THEN <<bi - 1, T>>
           ELSE LET r == EncVals(SubSeq(v, 3, Len(v)), fts, 1, <<>>, T)
                    p == IF Len(fts) # 1 THEN Pack(r[2], r[1]) ELSE <<r[1][1], r[2]>>
                IN Pack(p[2], <<bi - 1, p[1]>>)
    ELSE <<v, T>>
RECURSIVE EncTuples(_, _, _, _, _)
EncTuples(ts, tys, i, acc, T) ==          \* the sequence ts of EDB tuples: <<set of RAM tuples, table'>>
    IF i > Len(ts) THEN <<acc, T>>
    ELSE LET r == EncVals(ts[i], tys, 1, <<>>, T) IN EncTuples(ts, tys, i + 1, acc \cup {r[1]}, r[2])

\* ---- results of evaluating an operation tree -----------------------------
\* Res(D, T, brk, oob, att, bad): D the database and T the record table after the operation, brk "leave the enclosing
\* scan", oob "evaluation left the defined value domain", att number of INSERT executions, bad "an UNPACK met a
\* reference that is not a record of its arity"
Res(D, T, brk, oob, att, bad) == [D |-> D, T |-> T, brk |-> brk, oob |-> oob, att |-> att, bad |-> bad]
Skip(D, T) == Res(D, T, FALSE, FALSE, 0, FALSE)
Undefd(D, T) == Res(D, T, FALSE, TRUE, 0, FALSE)

IsUndef(e) == e.k = "Undef"

\* ---- expressions: <<>> (undefined) or <<value, table'>> --------------------
RECURSIVE EvalE(_, _, _, _, _), EvalEs(_, _, _, _, _, _, _)
\* the expressions es from the i-th on, left to right: <<>> or <<values, table'>>
EvalEs(es, i, acc, env, D, V, T) ==
    IF i > Len(es) THEN <<acc, T>>
    ELSE LET r == EvalE(es[i], env, D, V, T) IN
         IF r = <<>> THEN <<>> ELSE EvalEs(es, i + 1, Append(acc, r[1]), env, D, V, r[2])
EvalE(e, env, D, V, T) ==
    CASE e.k \in {"Signed", "Unsigned", "String"} -> <<e.v, T>>
      [] e.k = "TupleElement" -> <<env[e.id][e.col + 1], T>>
      [] e.k = "Variable" -> <<V[e.name], T>>
      [] e.k = "RelationSize" -> <<Cardinality(D[e.rel]), T>>
      [] e.k = "Intrinsic" ->
            LET as == EvalEs(e.args, 1, <<>>, env, D, V, T) IN
            IF as = <<>> THEN <<>>
            ELSE LET r == Apply(e.op, as[1]) IN IF r = <<>> THEN <<>> ELSE <<r[1], as[2]>>
      [] e.k = "PackRecord" ->
            LET as == EvalEs(e.args, 1, <<>>, env, D, V, T) IN
            IF as = <<>> THEN <<>> ELSE Pack(as[2], as[1])

\* ---- index range patterns / value patterns ---------------------------------
\* a bound is [d |-> defined?, v |-> <<value>> or <<>> when its evaluation is undefined]; UNDEF = unbounded
\* Bounds(es, ..) = <<sequence of bounds, table'>>
RECURSIVE BoundsF(_, _, _, _, _, _, _)
BoundsF(es, i, acc, env, D, V, T) ==
    IF i > Len(es) THEN <<acc, T>>
    ELSE IF IsUndef(es[i]) THEN BoundsF(es, i + 1, Append(acc, [d |-> FALSE, v |-> <<0>>]), env, D, V, T)
    ELSE LET r == EvalE(es[i], env, D, V, T) IN
         IF r = <<>> THEN BoundsF(es, i + 1, Append(acc, [d |-> TRUE, v |-> <<>>]), env, D, V, T)
         ELSE BoundsF(es, i + 1, Append(acc, [d |-> TRUE, v |-> <<r[1]>>]), env, D, V, r[2])
Bounds(es, env, D, V, T) == BoundsF(es, 1, <<>>, env, D, V, T)
BoundsUndefined(b) == \E i \in 1..Len(b) : b[i].v = <<>>
InRange(rel, t, lo, hi) ==
    \A i \in 1..Len(lo) :
        IF lo[i].d /\ hi[i].d /\ lo[i].v = hi[i].v THEN t[i] = lo[i].v[1]          \* equality (any type)
        ELSE /\ lo[i].d => (IF ColIsUnsigned(rel, i) THEN ULe(lo[i].v[1], t[i]) ELSE lo[i].v[1] <= t[i])
             /\ hi[i].d => (IF ColIsUnsigned(rel, i) THEN ULe(t[i], hi[i].v[1]) ELSE t[i] <= hi[i].v[1])

\* ---- conditions: <<"T" | "F" | "U" (undefined), table'>> -------------------
Tri(b) == IF b THEN "T" ELSE "F"
RECURSIVE EvalC(_, _, _, _, _)
EvalC(c, env, D, V, T) ==
    CASE c.k = "True" -> <<"T", T>>
      [] c.k = "False" -> <<"F", T>>
      [] c.k = "Conjunction" ->
            LET a == EvalC(c.l, env, D, V, T) IN
            IF a[1] # "T" THEN a ELSE EvalC(c.r, env, D, V, a[2])
      [] c.k = "Negation" ->
            LET a == EvalC(c.c, env, D, V, T) IN IF a[1] = "U" THEN a ELSE <<Tri(a[1] = "F"), a[2]>>
      [] c.k = "Constraint" ->
            LET a == EvalE(c.l, env, D, V, T) IN
            IF a = <<>> THEN <<"U", T>>
            ELSE LET b == EvalE(c.r, env, D, V, a[2]) IN
                 IF b = <<>> THEN <<"U", a[2]>> ELSE <<Tri(Cmp(c.op, a[1], b[1])), b[2]>>
      [] c.k = "EmptinessCheck" -> <<Tri(D[c.rel] = {}), T>>
      [] c.k = "ExistenceCheck" ->
            LET b == Bounds(c.vals, env, D, V, T) IN
            IF BoundsUndefined(b[1]) THEN <<"U", b[2]>>
            ELSE <<Tri(\E t \in D[c.rel] : \A i \in 1..Len(c.vals) : (~b[1][i].d) \/ t[i] = b[1][i].v[1]), b[2]>>

RangeValsR(a) ==   \* evaluator::runRange
    LET from == a[1]  to == a[2]
        step == IF Len(a) = 3 THEN a[3] ELSE IF from <= to THEN 1 ELSE -1
    IN IF step > 0 THEN {x \in from..(to - 1) : (x - from) % step = 0}
       ELSE IF step < 0 THEN {x \in (to + 1)..from : (from - x) % (-step) = 0}
       ELSE IF from # to THEN {from} ELSE {}

\* Scan order.  RamOrders (RamData) is a sequence of value sequences; behaviour number V["@ord"] scans every relation
\* in the lexicographic order induced by ranking values by their position in RamOrders[V["@ord"]] (values not listed
\* rank after the listed ones, in natural order; integer-only relations - record references are integers).  The empty
\* sequence <<>> stands for TLC's own fixed enumeration order.  Results of programs without choice-domain must not
\* depend on the order (C03); for choice-domain every order must give an admissible result (C10).
RankOf(o, v) == IF \E i \in 1..Len(o) : o[i] = v THEN CHOOSE i \in 1..Len(o) : o[i] = v ELSE 1000000 + v
RECURSIVE KeyLess(_, _, _, _)
KeyLess(o, t, u, i) == IF i > Len(t) THEN FALSE
                       ELSE IF RankOf(o, t[i]) # RankOf(o, u[i]) THEN RankOf(o, t[i]) < RankOf(o, u[i])
                       ELSE KeyLess(o, t, u, i + 1)
SX == INSTANCE SequencesExt
RECURSIVE SortBy(_, _)
SortBy(o, X) == IF X = {} THEN <<>>
                ELSE LET m == CHOOSE t \in X : \A u \in X \ {t} : KeyLess(o, t, u, 1) IN <<m>> \o SortBy(o, X \ {m})
\* TLC's own enumeration order of the set: the sequence <<CHOOSE y \in X : TRUE, CHOOSE y \in X \ {that} : TRUE, ..>>,
\* computed by the Java override of SequencesExt!SetToSeq (same order, linear instead of quadratic)
ChooseSeq(X) == SX!SetToSeq(X)
SetToSeq(X, V) == IF RamOrders[V["@ord"]] = <<>> THEN ChooseSeq(X) ELSE SortBy(RamOrders[V["@ord"]], X)

InsertT(D, rel, t) == [D EXCEPT ![rel] = IF IsEqrel(rel) THEN EqCloseR(@ \cup {t}) ELSE @ \cup {t}]

EnvSet(env, id, t) == [x \in (DOMAIN env) \cup {id} |-> IF x = id THEN t ELSE env[x]]

\* condition c / expression e for every tuple of the sequence ts bound to tuple id, one after the other (the table is
\* threaded): <<sequence of truth values, table'>> / <<sequence of <<value>> or <<>>, table'>>
RECURSIVE CondSeq(_, _, _, _, _, _, _, _, _), ExprSeq(_, _, _, _, _, _, _, _, _)
CondSeq(ts, i, acc, c, id, env, D, V, T) ==
    IF i > Len(ts) THEN <<acc, T>>
    ELSE LET r == EvalC(c, EnvSet(env, id, ts[i]), D, V, T) IN CondSeq(ts, i + 1, Append(acc, r[1]), c, id, env, D, V, r[2])
ExprSeq(ts, i, acc, e, id, env, D, V, T) ==
    IF i > Len(ts) THEN <<acc, T>>
    ELSE LET r == EvalE(e, EnvSet(env, id, ts[i]), D, V, T) IN
         IF r = <<>> THEN ExprSeq(ts, i + 1, Append(acc, <<>>), e, id, env, D, V, T)
         ELSE ExprSeq(ts, i + 1, Append(acc, <<r[1]>>), e, id, env, D, V, r[2])

\* ---- operations -----------------------------------------------------------
RECURSIVE Exec(_, _, _, _, _), ScanOver(_, _, _, _, _, _, _)
\* iterate the body over the tuples ts (a sequence) bound to tuple id
ScanOver(ts, i, op, env, D, V, T) ==
    IF i > Len(ts) THEN Skip(D, T)
    ELSE LET r == Exec(op.body, env @@ (op.id :> ts[i]), D, V, T) IN
         IF r.brk \/ r.oob THEN Res(r.D, r.T, FALSE, r.oob, r.att, r.bad)          \* Break leaves this scan only
         ELSE LET s == ScanOver(ts, i + 1, op, env, r.D, V, r.T) IN Res(s.D, s.T, FALSE, s.oob, r.att + s.att, r.bad \/ s.bad)

Exec(op, env, D, V, T) ==
    CASE op.k = "Scan" ->
            ScanOver(SetToSeq(D[op.rel], V), 1, op, [x \in (DOMAIN env) \ {op.id} |-> env[x]], D, V, T)
      [] op.k = "IndexScan" ->
            LET lo == Bounds(op.lo, env, D, V, T)  hi == Bounds(op.hi, env, D, V, lo[2]) IN
            IF BoundsUndefined(lo[1]) \/ BoundsUndefined(hi[1]) THEN Undefd(D, T)
            ELSE ScanOver(SetToSeq({t \in D[op.rel] : InRange(op.rel, t, lo[1], hi[1])}, V), 1, op,
                          [x \in (DOMAIN env) \ {op.id} |-> env[x]], D, V, hi[2])
      [] op.k \in {"IfExists", "IndexIfExists"} ->
            LET idx == op.k = "IndexIfExists"
                lo == IF idx THEN Bounds(op.lo, env, D, V, T) ELSE <<<<>>, T>>
                hi == IF idx THEN Bounds(op.hi, env, D, V, lo[2]) ELSE <<<<>>, T>>
                cand == IF idx THEN {t \in D[op.rel] : InRange(op.rel, t, lo[1], hi[1])} ELSE D[op.rel]
                cseq == ChooseSeq(cand)
                cs == CondSeq(cseq, 1, <<>>, op.cond, op.id, env, D, V, hi[2])
                wit == {cseq[j] : j \in {m \in 1..Len(cseq) : cs[1][m] = "T"}}
            IN IF BoundsUndefined(lo[1]) \/ BoundsUndefined(hi[1]) THEN Undefd(D, T)
               ELSE IF \E j \in 1..Len(cseq) : cs[1][j] = "U" THEN Undefd(D, cs[2])
               ELSE IF wit = {} THEN Skip(D, cs[2])
               ELSE LET r == Exec(op.body, EnvSet(env, op.id, SetToSeq(wit, V)[1]), D, V, cs[2])
                    IN Res(r.D, r.T, FALSE, r.oob, r.att, r.bad)
      [] op.k \in {"Aggregate", "IndexAggregate"} ->
            LET idx == op.k = "IndexAggregate"
                lo == IF idx THEN Bounds(op.lo, env, D, V, T) ELSE <<<<>>, T>>
                hi == IF idx THEN Bounds(op.hi, env, D, V, lo[2]) ELSE <<<<>>, T>>
                cand == IF idx THEN {t \in D[op.rel] : InRange(op.rel, t, lo[1], hi[1])} ELSE D[op.rel]
                cseq == ChooseSeq(cand)
                cs == CondSeq(cseq, 1, <<>>, op.cond, op.id, env, D, V, hi[2])
                RECURSIVE Pick(_)
                Pick(j) == IF j > Len(cseq) THEN <<>> ELSE (IF cs[1][j] = "T" THEN <<cseq[j]>> ELSE <<>>) \o Pick(j + 1)
                sel == Pick(1)                                      \* the selected tuples, a sequence
                fn == op.agg
                vals == IF fn = "COUNT" THEN <<[j \in 1..Len(sel) |-> <<1>>], cs[2]>>
                        ELSE ExprSeq(sel, 1, <<>>, op.expr, op.id, env, D, V, cs[2])
                bad == (\E j \in 1..Len(cseq) : cs[1][j] = "U") \/ (\E j \in 1..Len(sel) : vals[1][j] = <<>>)
                xs == {vals[1][j][1] : j \in 1..Len(sel)}
                RECURSIVE SumSeq(_, _)
                SumSeq(j, acc) == IF j > Len(sel) THEN <<acc>>
                                  ELSE IF fn = "USUM" THEN SumSeq(j + 1, AddW(acc, vals[1][j][1]))
                                  ELSE IF ~AddOK(acc, vals[1][j][1]) THEN <<>>
                                  ELSE SumSeq(j + 1, acc + vals[1][j][1])
                sum == IF fn \in {"SUM", "USUM"} THEN SumSeq(1, 0) ELSE <<0>>
                none == fn \in {"MIN", "MAX", "UMIN", "UMAX"} /\ sel = <<>>       \* min/max over nothing: body not run
                aggv == CASE fn = "COUNT" -> Len(sel)
                          [] fn \in {"SUM", "USUM"} -> IF sum = <<>> THEN 0 ELSE sum[1]
                          [] none -> 0
                          [] fn = "MIN" -> CHOOSE x \in xs : \A y \in xs : x <= y
                          [] fn = "MAX" -> CHOOSE x \in xs : \A y \in xs : x >= y
                          [] fn = "UMIN" -> CHOOSE x \in xs : \A y \in xs : ULe(x, y)
                          [] fn = "UMAX" -> CHOOSE x \in xs : \A y \in xs : ULe(y, x)
            IN IF BoundsUndefined(lo[1]) \/ BoundsUndefined(hi[1]) THEN Undefd(D, T)
               ELSE IF bad \/ sum = <<>> THEN Undefd(D, vals[2])
               ELSE IF none THEN Skip(D, vals[2])
               ELSE LET r == Exec(op.body, EnvSet(env, op.id, <<aggv>>), D, V, vals[2])
                    IN Res(r.D, r.T, FALSE, r.oob, r.att, r.bad)
      [] op.k = "NestedIntrinsic" ->
            LET as == EvalEs(op.args, 1, <<>>, env, D, V, T) IN
            IF as = <<>> THEN Undefd(D, T)
            ELSE LET xs == RangeValsR(as[1])
                 IN ScanOver(SetToSeq({<<x>> : x \in xs}, V), 1, op, [x \in (DOMAIN env) \ {op.id} |-> env[x]], D, V, as[2])
      [] op.k = "UnpackRecord" ->          \* Engine.cpp CASE(UnpackRecord): nil skips the body (and does not break)
            LET r == EvalE(op.expr, env, D, V, T) IN
            IF r = <<>> THEN Undefd(D, T)
            ELSE IF r[1] = 0 THEN Skip(D, r[2])
            ELSE IF ~ValidRef(r[1], op.arity, r[2]) THEN Res(D, r[2], FALSE, FALSE, 0, TRUE)
            ELSE Exec(op.body, EnvSet(env, op.id, r[2][r[1]].t), D, V, r[2])
      [] op.k = "Filter" ->
            LET c == EvalC(op.cond, env, D, V, T) IN
            IF c[1] = "U" THEN Undefd(D, c[2])
            ELSE IF c[1] = "F" THEN Skip(D, c[2]) ELSE Exec(op.body, env, D, V, c[2])
      [] op.k = "Break" ->
            LET c == EvalC(op.cond, env, D, V, T) IN
            IF c[1] = "U" THEN Undefd(D, c[2])
            ELSE IF c[1] = "T" THEN Res(D, c[2], TRUE, FALSE, 0, FALSE) ELSE Exec(op.body, env, D, V, c[2])
      [] op.k \in {"Insert", "GuardedInsert", "Erase"} ->
            LET g == IF op.k = "GuardedInsert" THEN EvalC(op.cond, env, D, V, T) ELSE <<"T", T>>
                vs == EvalEs(op.vals, 1, <<>>, env, D, V, g[2])
            IN IF g[1] = "U" THEN Undefd(D, g[2])
               ELSE IF g[1] = "F" THEN Skip(D, g[2])
               ELSE IF vs = <<>> THEN Undefd(D, g[2])
               ELSE IF op.k = "Erase" THEN Res([D EXCEPT ![op.rel] = @ \ {vs[1]}], vs[2], FALSE, FALSE, 0, FALSE)
               ELSE Res(InsertT(D, op.rel, vs[1]), vs[2], FALSE, FALSE, 1, FALSE)

\* MergeExtend (eqrel): EquivalenceRelation::extendAndInsert - src is extended by the classes of trg
\* that it touches, and trg receives everything of src
MergeExtendDB(D, src, trg) ==
    LET touch == {t \in D[trg] : \E s \in D[src] : s[1] = t[1]}
        src2 == EqCloseR(D[src] \cup touch)
        trg2 == EqCloseR(D[trg] \cup D[src])
    IN [D EXCEPT ![src] = src2, ![trg] = trg2]

\* ---- the state machine ----------------------------------------------------
VARIABLES ei, db, stack, vars, outs, oob, last, glog, rtab
rvars == <<ei, db, stack, vars, outs, oob, last, glog, rtab>>
\* rtab = [t |-> the record table (sequence of [k, t]), bad |-> an UNPACK met a reference that is no record of its arity]
\* glog (ghost, for C09): [iter |-> number of completed iterations of the running loop,
\*                         att  |-> sequence of [line, iter, att] one per QUERY executed inside a loop,
\*                         runs |-> sequence of [sid, n] one per finished loop: n = body executions]
\* last = [e |-> event kind, sid |-> statement id, att |-> inserts executed, taken |-> exit taken]: what the step did
\* (the trace specification matches it against the recorded event; model checking hides it with a VIEW)

Frame(s) == [s |-> s, i |-> 1]
Top == stack[Len(stack)]
Pop(st) == SubSeq(st, 1, Len(st) - 1)

\* descend through sequences until the top frame is an atomic statement (or the stack is empty)
RECURSIVE Norm(_)
Norm(st) ==
    IF st = <<>> THEN st
    ELSE LET f == st[Len(st)] IN
         IF f.s.k = "Seq" THEN
              IF f.i > Len(f.s.stmts) THEN Norm(Pop(st))
              ELSE Norm(Append(Pop(st) \o <<[f EXCEPT !.i = @ + 1]>>, Frame(f.s.stmts[f.i])))
         ELSE st

EmptyDB == [r \in RelNamesR |-> {}]
Init == /\ ei \in 1..Len(RamEDBs)
        /\ db = EmptyDB
        /\ stack = Norm(<<Frame(RamProg.main)>>)
        /\ \E o \in 1..Len(RamOrders) : vars = ("@ord" :> o)
        /\ outs = [x \in {} |-> {}]
        /\ oob = FALSE
        /\ last = [e |-> "Init", sid |-> -1, att |-> 0, taken |-> FALSE]
        /\ glog = [iter |-> 0, att |-> <<>>, runs |-> <<>>]
        /\ rtab = [t |-> <<>>, bad |-> FALSE]

InLoop == \E i \in 1..Len(stack) : stack[i].s.k = "Loop"
Running == stack # <<>>
S == Top.s
Done(st) == stack' = Norm(st)            \* continue after the current atomic statement
Ev(e, att, taken) == last' = [e |-> e, sid |-> S.sid, att |-> att, taken |-> taken]

Query == /\ Running /\ S.k = "Query"
         /\ LET r == Exec(S.op, [x \in {} |-> <<>>], db, vars, rtab.t) IN
            /\ db' = r.D /\ oob' = (oob \/ r.oob) /\ Ev("Query", r.att, FALSE)
            /\ rtab' = [t |-> r.T, bad |-> rtab.bad \/ r.bad]
            /\ glog' = IF InLoop /\ "line" \in DOMAIN S
                        THEN [glog EXCEPT !.att = Append(@, [line |-> S.line, iter |-> glog.iter, att |-> r.att])]
                        ELSE glog
         /\ Done(Pop(stack)) /\ UNCHANGED <<ei, vars, outs>>
Clear == /\ Running /\ S.k = "Clear"
         \* generated C++ (Synthesiser.cpp visit_ Clear) does not clear a stored (output) relation; the interpreter does
         /\ db' = IF RamClearPolicy = "compiled" /\ S.rel \in SeqSet(RamStored) THEN db ELSE [db EXCEPT ![S.rel] = {}]
         /\ Ev("Clear", 0, FALSE)
         /\ Done(Pop(stack)) /\ UNCHANGED <<ei, vars, outs, oob, glog, rtab>>
Swap == /\ Running /\ S.k = "Swap"
        /\ db' = [db EXCEPT ![S.a] = db[S.b], ![S.b] = db[S.a]] /\ Ev("Swap", 0, FALSE)
        /\ Done(Pop(stack)) /\ UNCHANGED <<ei, vars, outs, oob, glog, rtab>>
MergeExtend == /\ Running /\ S.k = "MergeExtend"
               /\ db' = MergeExtendDB(db, S.src, S.trg) /\ Ev("MergeExtend", 0, FALSE)
               /\ Done(Pop(stack)) /\ UNCHANGED <<ei, vars, outs, oob, glog, rtab>>
IO == /\ Running /\ S.k = "IO"
      /\ IF S.op = "input"        \* the facts are packed (records, ADTs) as ReadStream does
           THEN LET e == EncTuples(RamEDBs[ei][S.rel], RelInfoR(S.rel).attrTypes, 1, {}, rtab.t) IN
                /\ db' = [db EXCEPT ![S.rel] = LET X == @ \cup e[1] IN IF IsEqrel(S.rel) THEN EqCloseR(X) ELSE X]
                /\ rtab' = [rtab EXCEPT !.t = e[2]]
                /\ UNCHANGED outs
           \* the tuples are written BY VALUE: references are decoded through the table as WriteStream does
           ELSE /\ outs' = (S.rel :> {DecTuple(t, RelInfoR(S.rel).attrTypes, rtab.t) : t \in db[S.rel]}) @@ outs
                /\ UNCHANGED <<db, rtab>>
      /\ Ev("IO", 0, FALSE)
      /\ Done(Pop(stack)) /\ UNCHANGED <<ei, vars, oob, glog>>
Assign == /\ Running /\ S.k = "Assign"
          /\ LET v == EvalE(S.value, [x \in {} |-> <<>>], db, vars, rtab.t) IN
             /\ vars' = (S.var :> (IF v = <<>> THEN 0 ELSE v[1])) @@ vars
             /\ oob' = (oob \/ v = <<>>)
             /\ rtab' = IF v = <<>> THEN rtab ELSE [rtab EXCEPT !.t = v[2]]
          /\ Ev("Assign", 0, FALSE)
          /\ Done(Pop(stack)) /\ UNCHANGED <<ei, db, outs, glog>>
\* CALL: the frame stays (cursor 2 = "returning") while the subroutine body runs above it
CallBegin == /\ Running /\ S.k = "Call" /\ Top.i = 1
             /\ Ev("CallBegin", 0, FALSE)
             /\ stack' = LET st == Append(Pop(stack) \o <<[Top EXCEPT !.i = 2]>>, Frame(RamProg.subroutines[S.name]))
                         IN  LET n == Norm(st) IN
                             \* an empty subroutine returns at once: keep the call frame on top
                             IF Len(n) < Len(stack) THEN Pop(stack) \o <<[Top EXCEPT !.i = 2]>> ELSE n
             /\ UNCHANGED <<ei, db, vars, outs, oob, glog, rtab>>
CallEnd == /\ Running /\ S.k = "Call" /\ Top.i = 2
           /\ Ev("CallEnd", 0, FALSE)
           /\ Done(Pop(stack)) /\ UNCHANGED <<ei, db, vars, outs, oob, glog, rtab>>
\* LOOP: cursor 1 = not entered, 2 = body running above, the body frame is re-pushed by LoopIter
LoopBegin == /\ Running /\ S.k = "Loop" /\ Top.i = 1
             /\ Ev("LoopBegin", 0, FALSE)
             /\ stack' = Norm(Append(Pop(stack) \o <<[Top EXCEPT !.i = 2]>>, Frame(S.body)))
             /\ glog' = [glog EXCEPT !.iter = 0]
             /\ UNCHANGED <<ei, db, vars, outs, oob, rtab>>
LoopIter == /\ Running /\ S.k = "Loop" /\ Top.i = 2          \* the body ran to its end: next iteration
            /\ Ev("LoopIter", 0, FALSE)
            /\ stack' = Norm(Append(stack, Frame(S.body)))
            /\ glog' = [glog EXCEPT !.iter = @ + 1]
            /\ UNCHANGED <<ei, db, vars, outs, oob, rtab>>
LoopEnd == /\ Running /\ S.k = "Loop" /\ Top.i = 3           \* an EXIT fired inside
           /\ Ev("LoopEnd", 0, FALSE)
           /\ glog' = [glog EXCEPT !.runs = Append(@, [sid |-> S.sid, n |-> glog.iter + 1]), !.iter = 0]
           /\ Done(Pop(stack)) /\ UNCHANGED <<ei, db, vars, outs, oob, rtab>>
\* EXIT: when the condition holds unwind to the innermost enclosing loop frame
RECURSIVE Unwind(_)
Unwind(st) == IF st = <<>> THEN st
              ELSE IF st[Len(st)].s.k = "Loop" THEN Pop(st) \o <<[st[Len(st)] EXCEPT !.i = 3]>>
              ELSE Unwind(Pop(st))
Exit == /\ Running /\ S.k = "Exit"
        /\ LET c == EvalC(S.cond, [x \in {} |-> <<>>], db, vars, rtab.t) IN
           /\ oob' = (oob \/ c[1] = "U")
           /\ Ev("Exit", 0, c[1] = "T")
           /\ stack' = IF c[1] = "T" THEN Unwind(Pop(stack)) ELSE Norm(Pop(stack))
           /\ rtab' = [rtab EXCEPT !.t = c[2]]
        /\ UNCHANGED <<ei, db, vars, outs, glog>>

Next == \/ Query \/ Clear \/ Swap \/ MergeExtend \/ IO \/ Assign \/ CallBegin \/ CallEnd
        \/ LoopBegin \/ LoopIter \/ LoopEnd \/ Exit
Spec == Init /\ [][Next]_rvars
View == <<ei, db, stack, vars, outs, oob, glog, rtab>>

(***************************************************************************)
(* Properties of the real RAM program (direction A)                        *)
(***************************************************************************)
Finished == stack = <<>>
\* every output relation equals the declarative model computed by spec/Datalog.tla (outs holds VALUES: an output IO
\* decodes record/ADT references through the record table into the value form of Datalog.tla)
FinalIsModel ==
    (Finished /\ ~oob /\ RamExpect[ei].have) =>
        \A r \in DOMAIN RamExpect[ei].m : r \in DOMAIN outs /\ outs[r] = SeqSet(RamExpect[ei].m[r])
\* every UNPACK read a record of its arity (rtab.bad is set by Exec otherwise)
RecordsOK == ~rtab.bad
\* semi-naive bookkeeping at every loop head: delta is part of the main relation, new is empty
IsPrefix(p, s) == Len(s) >= Len(p) /\ SubSeq(s, 1, Len(p)) = p
DeltaRels == {r \in RelNamesR : IsPrefix("@delta_", r)}
NewRels == {r \in RelNamesR : IsPrefix("@new_", r)}
BaseOf(r, p) == SubSeq(r, Len(p) + 1, Len(r))
AtLoopHead == last.e \in {"LoopBegin", "LoopIter"}
LoopHead == AtLoopHead =>
              /\ \A d \in DeltaRels : BaseOf(d, "@delta_") \in RelNamesR => db[d] \subseteq db[BaseOf(d, "@delta_")]
              /\ \A n \in NewRels : db[n] = {}
\* the loop is left only when nothing new was found
ExitAtFixpoint == (last.e = "Exit" /\ last.taken) =>
                     \A n \in NewRels : (BaseOf(n, "@new_") \in RelNamesR /\ ~IsEqrel(n)) => db[n] \subseteq db[BaseOf(n, "@new_")]
\* C09: the real RAM does exactly what a complete, non-redundant semi-naive evaluation must do (SemiNaiveOracle.tla):
\* RamSN[ei] = [have, loops |-> (loop sid :> K), att |-> (source line of a recursive clause :> <<Att(c,1..K)>>)]
RECURSIVE SumAtt(_, _, _, _)
SumAtt(lg, i, line, it) == IF i > Len(lg) THEN 0
                           ELSE (IF lg[i].line = line /\ lg[i].iter = it THEN lg[i].att ELSE 0) + SumAtt(lg, i + 1, line, it)
SemiNaiveOK ==
    (Finished /\ ~oob /\ RamSN[ei].have) =>
        /\ \A i \in 1..Len(glog.runs) :
               glog.runs[i].sid \in DOMAIN RamSN[ei].loops =>
                   glog.runs[i].n = (IF RamSN[ei].loops[glog.runs[i].sid] = 0 THEN 1 ELSE RamSN[ei].loops[glog.runs[i].sid])
        /\ \A ln \in DOMAIN RamSN[ei].att :
               \A j \in 1..Len(RamSN[ei].att[ln]) : SumAtt(glog.att, 1, ln, j - 1) = RamSN[ei].att[ln][j]
\* prints the final outputs of every terminated behaviour (used when the contract is a result predicate judged elsewhere)
EmitFinal == Finished => PrintT(ToJson([tag |-> "RAMFINAL", ei |-> ei, ord |-> vars["@ord"], oob |-> oob, outs |-> outs]))
\* temporaries are empty when the program ends
TempsCleared == Finished => \A r \in DeltaRels \cup NewRels : db[r] = {}
=============================================================================
