-------------------------- MODULE UnionFindAbsTrace --------------------------
(***************************************************************************)
(* Trace validation for C29: histories recorded from the REAL DisjointSet  *)
(* under the cooperative scheduler must be behaviours of UnionFindAbs.     *)
(*                                                                         *)
(* TraceData (generated module TraceDataModule) is a sequence of events in *)
(* the order the scheduler produced them (tuples, kind first):             *)
(*   <<"reset", j>>                 a new history j (fresh object)         *)
(*   <<"call", t, op, a, b>>        client t calls op(a, b)                *)
(*   <<"ret", t, r>>                that call returns r                    *)
(*   <<"st", par, rk>>              the real parent / rank arrays after a  *)
(*                                  step that changed them                 *)
(*   <<"final", par>>               all threads finished                   *)
(*   <<"end">>                      end of the batch                       *)
(*                                                                         *)
(* The silent Lin steps of UnionFindAbs are not in the trace, so the spec   *)
(* tracks the SET S of abstract states the history may be in: an event     *)
(* maps S to the set of successors; before a "ret" any sequence of Lin      *)
(* steps may have happened (LinStar).  S = {} means no behaviour of         *)
(* UnionFindAbs explains the history: it is rejected at that event.         *)
(*   "st"    is explained iff the observed parent array is acyclic;         *)
(*   "final" iff nobody is pending, the array is acyclic and represents     *)
(*           exactly the closure of the requested unions.                   *)
(* So that one TLC run judges a whole batch, a rejection is printed as a    *)
(* JSON line [job, at, why, sig] and the rest of that history is skipped;   *)
(* "end" prints the number of rejections (the batch was read to the end).   *)
(*                                                                         *)
(* sig (only for why = "cycle"): the link that closed the cycle made a      *)
(* root x the child of a node y that is no longer a root and whose rank     *)
(* field was OVERWRITTEN when y itself was linked (its rank grew in the     *)
(* step that gave it a parent) - the observable signature of the known      *)
(* finding "lost-union-rank-overwrite" (unionNodes stores the new parent's  *)
(* rank in the child and later trusts that field).                          *)
(***************************************************************************)
EXTENDS UnionFindAbs, TLC, Json, TraceDataModule   \* TraceDataModule (generated) defines TraceData
VARIABLES l,        \* next event
          S,        \* set of [part, pend] states the current history may be in
          job,      \* current history
          dead,     \* the current history has been rejected
          ppar, prk,\* last observed arrays
          ow,       \* nodes whose rank field grew in the step that linked them
          rej       \* number of rejections so far
tvars == <<l, S, req, job, dead, ppar, prk, ow, rej, part, pend>>

Ev == TraceData[l]
Kind == Ev[1]
EvT == Ev[2]                    \* call / ret: the client
EvPar == Ev[2]                  \* st / final: the parent array
EvRk == Ev[3]                   \* st: the rank array
Ident == [i \in 1..N |-> i - 1]
Zero == [i \in 1..N |-> 0]
\* every state reachable from s by silent Lin steps (at most 3 calls are pending: <= 16 orders)
RECURSIVE LinStar(_)
LinStar(s) == {s} \cup UNION {LinStar(LinS(s, c)) : c \in {d \in Clients : CanLin(s, d)}}

Succ(s) == CASE Kind = "call" -> IF CanCall(s, EvT, Ev[3], Ev[4], Ev[5]) THEN {CallS(s, EvT, Ev[3], Ev[4], Ev[5])} ELSE {}
             [] Kind = "ret" -> {RetS(q, EvT) : q \in {z \in LinStar(s) : RetOK(z, EvT, Ev[3])}}
             [] Kind = "st" -> IF AcyclicP(EvPar) THEN {s} ELSE {}
             [] Kind = "final" -> IF AllIdle(s) /\ AcyclicP(EvPar) /\ RepresentsP(EvPar, ClosureRep(req)) /\ s.part = ClosureRep(req)
                                    THEN {s} ELSE {}
             [] OTHER -> {s}
Why == CASE Kind = "st" -> "cycle"
         [] Kind = "final" -> IF ~AcyclicP(EvPar) THEN "cycle"
                              ELSE IF \E s \in S : ~AllIdle(s) THEN "pending call at the end"
                              ELSE "final partition is not the closure of the requested unions"
         [] Kind = "ret" -> "answer not correct at any instant of the call"
         [] OTHER -> "malformed history"
\* nodes that stopped being roots in the step leading to the observed array
Linked(par) == {n \in Node : ppar[n + 1] = n /\ par[n + 1] # n}
Sig == Kind = "st" /\ AcyclicP(ppar) /\ \E n \in Linked(EvPar) : EvPar[n + 1] \in ow /\ ppar[EvPar[n + 1] + 1] # EvPar[n + 1]

TInit == /\ l = 1 /\ S = {InitS} /\ req = {} /\ job = 0 /\ dead = FALSE /\ ppar = Ident /\ prk = Zero /\ ow = {} /\ rej = 0
         /\ part = InitS.part /\ pend = InitS.pend      \* variables of UnionFindAbs: unused here (S holds the state set)
TNext == /\ l <= Len(TraceData)
         /\ l' = l + 1
         /\ UNCHANGED <<part, pend>>
         /\ IF Kind = "reset"
              THEN /\ S' = {InitS} /\ req' = {} /\ job' = Ev[2] /\ dead' = FALSE /\ ppar' = Ident /\ prk' = Zero /\ ow' = {}
                   /\ rej' = rej
              ELSE IF Kind = "end"
              THEN /\ PrintT(ToJson([done |-> rej]))
                   /\ UNCHANGED <<S, req, job, dead, ppar, prk, ow, rej>>
              ELSE IF dead
              THEN UNCHANGED <<S, req, job, dead, ppar, prk, ow, rej>>
              ELSE LET nS == UNION {Succ(s) : s \in S} IN
                   /\ req' = IF Kind = "call" /\ Ev[3] = "u" THEN req \cup {<<Ev[4], Ev[5]>>} ELSE req
                   /\ IF Kind = "st"
                        THEN /\ ppar' = EvPar /\ prk' = EvRk
                             /\ ow' = ow \cup {n \in Linked(EvPar) : EvRk[n + 1] > prk[n + 1]}
                        ELSE UNCHANGED <<ppar, prk, ow>>
                   /\ job' = job
                   /\ IF nS = {}
                        THEN /\ dead' = TRUE /\ S' = S /\ rej' = rej + 1
                             /\ PrintT(ToJson([job |-> job, at |-> l, why |-> Why, sig |-> Sig]))
                        ELSE /\ dead' = FALSE /\ S' = nS /\ rej' = rej
TSpec == TInit /\ [][TNext]_tvars
Accepted == TLCGet("stats").diameter - 1 = Len(TraceData)
=============================================================================
