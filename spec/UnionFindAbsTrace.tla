-------------------------- MODULE UnionFindAbsTrace --------------------------
(***************************************************************************)
(* Trace validation for C29: histories recorded from the REAL DisjointSet  *)
(* under the cooperative scheduler must be behaviours of UnionFindAbs.     *)
(*                                                                         *)
(* TraceData (generated module TraceDataModule) is a sequence of events in *)
(* the order the scheduler produced them:                                  *)
(*   [e |-> "reset", job |-> j]                a new history (fresh object)*)
(*   [e |-> "call", t, op, a, b]               client t calls op(a, b)     *)
(*   [e |-> "ret", t, r]                       that call returns r         *)
(*   [e |-> "st", par, rk]                     the real parent / rank      *)
(*                                             arrays after a step that    *)
(*                                             changed them                *)
(*   [e |-> "final", par]                      all threads joined          *)
(*   [e |-> "end"]                             end of the batch            *)
(*                                                                         *)
(* The silent Lin steps of UnionFindAbs are not in the trace, so the spec   *)
(* tracks the SET S of abstract states the history may be in: an event     *)
(* maps S to the set of successors; before a "ret" any sequence of Lin      *)
(* steps may have happened (LinStar).  S = {} means no behaviour of         *)
(* UnionFindAbs explains the history: it is rejected at that event.         *)
(*   "st"    is explained iff the observed parent array is acyclic;         *)
(*   "final" iff nobody is pending, the array is acyclic and represents     *)
(*           exactly the closure of the requested unions.                   *)
(* So that one TLC run judges a whole batch, a rejection is recorded in     *)
(* `rej` ([job, at, why, sig]) and the rest of that history is skipped; the *)
(* batch is accepted iff rej is empty at "end" (printed as JSON).           *)
(*                                                                         *)
(* sig (only for why = "cycle"): the link that closed the cycle made a      *)
(* root x the child of a node y that is no longer a root and whose rank     *)
(* field was OVERWRITTEN when y itself was linked (its rank changed in the  *)
(* step that gave it a parent) - the observable signature of the known      *)
(* finding "lost-union-rank-overwrite" (unionNodes stores the new parent's  *)
(* rank in the child and later trusts that field).                          *)
(***************************************************************************)
EXTENDS UnionFindAbs, TLC, Json, TraceDataModule   \* TraceDataModule (generated) defines TraceData
VARIABLES l,        \* next event
          S,        \* set of [part, pend] states the current history may be in
          job,      \* current history
          dead,     \* the current history has been rejected
          ppar, prk,\* last observed arrays
          ow,       \* nodes whose rank field changed in the step that linked them
          rej       \* rejections so far
tvars == <<l, S, req, job, dead, ppar, prk, ow, rej, part, pend>>

Ev == TraceData[l]
Ident == [i \in 1..N |-> i - 1]
Zero == [i \in 1..N |-> 0]
RECURSIVE LinStar(_)
LinStar(SS) == LET nx == SS \cup {LinS(s[1], s[2]) : s \in {q \in SS \X Clients : CanLin(q[1], q[2])}}
               IN IF nx = SS THEN SS ELSE LinStar(nx)

Succ(s) == CASE Ev.e = "call" -> IF CanCall(s, Ev.t, Ev.op, Ev.a, Ev.b) THEN {CallS(s, Ev.t, Ev.op, Ev.a, Ev.b)} ELSE {}
             [] Ev.e = "ret" -> {RetS(q, Ev.t) : q \in {z \in LinStar({s}) : RetOK(z, Ev.t, Ev.r)}}
             [] Ev.e = "st" -> IF AcyclicP(Ev.par) THEN {s} ELSE {}
             [] Ev.e = "final" -> IF AllIdle(s) /\ AcyclicP(Ev.par) /\ RepresentsP(Ev.par, ClosureRep(req)) /\ s.part = ClosureRep(req)
                                    THEN {s} ELSE {}
             [] OTHER -> {s}
Why == CASE Ev.e = "st" -> "cycle"
         [] Ev.e = "final" -> IF ~AcyclicP(Ev.par) THEN "cycle"
                              ELSE IF \E s \in S : ~AllIdle(s) THEN "pending call at the end"
                              ELSE "final partition is not the closure of the requested unions"
         [] Ev.e = "ret" -> "answer not correct at any instant of the call"
         [] OTHER -> "malformed history"
\* nodes that stopped being roots in the step leading to the observed array
Linked(par) == {n \in Node : ppar[n + 1] = n /\ par[n + 1] # n}
Sig == Ev.e = "st" /\ AcyclicP(ppar) /\ \E n \in Linked(Ev.par) : Ev.par[n + 1] \in ow /\ ppar[Ev.par[n + 1] + 1] # Ev.par[n + 1]

TInit == /\ l = 1 /\ S = {InitS} /\ req = {} /\ job = 0 /\ dead = FALSE /\ ppar = Ident /\ prk = Zero /\ ow = {} /\ rej = <<>>
         /\ part = InitS.part /\ pend = InitS.pend      \* variables of UnionFindAbs: unused here (S holds the state set)
TNext == /\ l <= Len(TraceData)
         /\ l' = l + 1
         /\ UNCHANGED <<part, pend>>
         /\ IF Ev.e = "reset"
              THEN /\ S' = {InitS} /\ req' = {} /\ job' = Ev.job /\ dead' = FALSE /\ ppar' = Ident /\ prk' = Zero /\ ow' = {}
                   /\ rej' = rej
              ELSE IF Ev.e = "end"
              THEN /\ PrintT(ToJson([rejected |-> rej]))
                   /\ UNCHANGED <<S, req, job, dead, ppar, prk, ow, rej>>
              ELSE IF dead
              THEN UNCHANGED <<S, req, job, dead, ppar, prk, ow, rej>>
              ELSE LET nS == UNION {Succ(s) : s \in S} IN
                   /\ req' = IF Ev.e = "call" /\ Ev.op = "u" THEN req \cup {<<Ev.a, Ev.b>>} ELSE req
                   /\ IF Ev.e = "st"
                        THEN /\ ppar' = Ev.par /\ prk' = Ev.rk
                             /\ ow' = ow \cup {n \in Linked(Ev.par) : Ev.rk[n + 1] # prk[n + 1]}
                        ELSE UNCHANGED <<ppar, prk, ow>>
                   /\ job' = job
                   /\ IF nS = {}
                        THEN /\ dead' = TRUE /\ S' = S
                             /\ rej' = Append(rej, [job |-> job, at |-> l, why |-> Why, sig |-> Sig])
                        ELSE /\ dead' = FALSE /\ S' = nS /\ rej' = rej
TSpec == TInit /\ [][TNext]_tvars
Accepted == TLCGet("stats").diameter - 1 = Len(TraceData)
=============================================================================
