-------------------------------- MODULE Api --------------------------------
(***************************************************************************)
(* The embedding API of a compiled program (C21): SouffleProgram /         *)
(* Relation of SouffleInterface.h as implemented by the class and the      *)
(* RelationWrapper that Synthesiser.cpp generates.                         *)
(*                                                                         *)
(* State: db = relation name |-> set of tuples, for every relation the     *)
(* program object exposes (input, output, internal).  One action per API   *)
(* call.  Calls that only read are self loops whose return value is a      *)
(* parameter of the action, so that TLC's state graph (-dump dot,          *)
(* actionlabels) carries the expected result on the edge:                  *)
(*    Contains("path", <<1, 2>>, TRUE)   Size("path", 3)                   *)
(*    Iterate("path", {<<1, 2>>, ..})    PrintAll({<<"path", {..}>>})      *)
(*                                                                         *)
(* Meaning of run(), read off the generated code (runFunction calls every  *)
(* stratum; run() passes performIO = false, pruneImdtRels = false):        *)
(*  - nothing is cleared first, every stratum inserts into the relations   *)
(*    as they are: a non-recursive rule is evaluated on the current lower  *)
(*    relations, a recursive stratum starts its delta from the whole       *)
(*    current relation.  That is the fixpoint of T_P per stratum *started  *)
(*    from the current db* = Datalog!ModelFrom(P, db);                     *)
(*  - facts written in the program text are clauses with an empty body,    *)
(*    so they are re-derived by every run (also after a purge);            *)
(*  - inputs and intermediates are kept (CLEAR of a non-temporary relation *)
(*    is emitted as `if (pruneImdtRels)`); running twice adds nothing.     *)
(* runAll(in, out) = load the fact files into the inputs (on top of what   *)
(* is there), evaluate, write the outputs, and clear every non-output      *)
(* relation that some clause uses (it "expires", RelationSchedule.cpp).    *)
(*                                                                         *)
(* `exact` says whether the property's text fixes the result of the last   *)
(* evaluation: it does when evaluating from the current db gives the model *)
(* of the current inputs (fresh object, or purged and re-run, or a         *)
(* monotone continuation).  After e.g. insert/run/insert/run on a program  *)
(* with negation the outputs still hold tuples of the first run; that is   *)
(* what the generated code does and what this spec says, but the property  *)
(* is silent about it: a deviation of the real code there is reported as   *)
(* MODEL-DRIFT, not as a violation.                                        *)
(*                                                                         *)
(* A program (DatalogData.Programs[i]) is a Datalog.tla program plus       *)
(*   univ  : input relation |-> seq of tuples that Insert may add          *)
(*   probe : relation |-> seq of tuples that Contains is asked about       *)
(*   files : input relation |-> seq of tuples in the fact file             *)
(***************************************************************************)
EXTENDS Integers, Sequences, FiniteSets, TLC, DatalogData

\* the semantics of programs: Datalog.tla, as pure operators (its state machine is not used here)
D == INSTANCE Datalog WITH pi <- 1, edb <- <<>>, I <- <<>>, si <- 0, iters <- <<>>, k <- 0, oob <- FALSE

VARIABLES prog,    \* index of the program (fixed along a behaviour)
          db,      \* relation |-> set of tuples held by the program object
          exact    \* the last evaluation produced exactly the model of the inputs (see above)
vars == <<prog, db, exact>>

P == Programs[prog]
Rels == D!RelNames(P)
IsIn(r) == D!RelInfo(P, r).input
IsOut(r) == D!RelInfo(P, r).output
InRels == {r \in Rels : IsIn(r)}
OutRels == {r \in Rels : IsOut(r)}
IntRels == {r \in Rels : ~IsIn(r) /\ ~IsOut(r)}
SeqSet(s) == {s[i] : i \in 1..Len(s)}
Univ(r) == SeqSet(P.univ[r])
Probe(r) == SeqSet(P.probe[r])
Files(r) == SeqSet(P.files[r])
\* relations read by some clause: they expire in some stratum and are cleared there when pruning is on
Used == UNION {D!PosRels(P.clauses[i].body) \cup D!NegRels(P.clauses[i].body) : i \in 1..Len(P.clauses)}

\* ---- the pure parts ------------------------------------------------------
Eval(J) == D!ModelFrom(P, J)                                   \* [I, o]: evaluate every stratum starting from J
OnlyInputs(J) == [r \in Rels |-> IF IsIn(r) THEN J[r] ELSE {}]
Fresh(J) == D!ModelFrom(P, OnlyInputs(J))                       \* what a new object holding J's inputs computes
Purged(J, S) == [r \in Rels |-> IF r \in S THEN {} ELSE J[r]]
Loaded(J) == [r \in Rels |-> IF IsIn(r) THEN J[r] \cup Files(r) ELSE J[r]]
Pruned(J) == Purged(J, {r \in Used : ~IsOut(r)})
Outputs(J) == {<<r, J[r]>> : r \in OutRels}                     \* what printAll / runAll write, per output file

\* ---- calls that change the object ----------------------------------------
Insert(r, t) == /\ db' = [db EXCEPT ![r] = @ \cup {t}]
                /\ UNCHANGED <<prog, exact>>
\* exact' : evaluating from J gave the model of J's inputs (trivially so when J holds nothing but inputs)
ExactAfter(J, m) == IF OnlyInputs(J) = J THEN TRUE ELSE m.I = Fresh(J).I
Run == LET m == Eval(db) IN
       /\ db' = m.I
       /\ exact' = ExactAfter(db, m)
       /\ UNCHANGED prog
LoadAll == /\ db' = Loaded(db)
           /\ UNCHANGED <<prog, exact>>
\* the output files written by the call hold the output relations of the state reached (outputs are never pruned)
RunAll == LET m == Eval(Loaded(db)) IN
          /\ db' = Pruned(m.I)
          /\ exact' = ExactAfter(Loaded(db), m)
          /\ UNCHANGED prog
PurgeInputRelations    == db' = Purged(db, InRels)  /\ UNCHANGED <<prog, exact>>
PurgeOutputRelations   == db' = Purged(db, OutRels) /\ UNCHANGED <<prog, exact>>
PurgeInternalRelations == db' = Purged(db, IntRels) /\ UNCHANGED <<prog, exact>>

\* ---- calls that only read (the last parameter is the value returned) -----
Contains(r, t, b) == b = (t \in db[r]) /\ UNCHANGED vars
Size(r, n)        == n = Cardinality(db[r]) /\ UNCHANGED vars
Iterate(r, S)     == S = db[r] /\ UNCHANGED vars
PrintAll(out)     == out = Outputs(db) /\ UNCHANGED vars

Init == /\ prog \in 1..Len(Programs)
        /\ db = [r \in D!RelNames(Programs[prog]) |-> {}]
        /\ exact = TRUE

Next == \/ \E r \in InRels : \E t \in Univ(r) : Insert(r, t)
        \/ Run
        \/ LoadAll
        \/ RunAll
        \/ PurgeInputRelations \/ PurgeOutputRelations \/ PurgeInternalRelations
        \/ \E r \in Rels : \E t \in Probe(r) : \E b \in {t \in db[r]} : Contains(r, t, b)
        \/ \E r \in Rels : \E n \in {Cardinality(db[r])} : Size(r, n)
        \/ \E r \in Rels : \E S \in {db[r]} : Iterate(r, S)
        \/ \E out \in {Outputs(db)} : PrintAll(out)

Spec == Init /\ [][Next]_vars

\* ---- properties of the API machine (checked by TLC on every reachable state) ----
TypeOK == /\ DOMAIN db = Rels
          /\ \A r \in Rels : \A t \in db[r] : Len(t) = D!RelInfo(P, r).arity
          /\ exact \in BOOLEAN
\* Laws of the machine, for the evaluation m of the current state (one invariant so that TLC evaluates m once):
\*  - the hand-written programs stay inside the defined value domain;
\*  - run() only adds, and a second run() adds nothing;
\*  - API insert + run on an otherwise empty object = the model of the program with those tuples as the EDB
\*    (Datalog!ModelOf, what a file-based run computes);
\*  - after an exact evaluation, purging outputs and internals and running again reproduces the result.
Laws ==
    LET m == Eval(db)
        f == Fresh(db)
        e == [r \in InRels |-> db[r]]
    IN /\ ~m.o
       /\ \A r \in Rels : db[r] \subseteq m.I[r]
       /\ Eval(m.I).I = m.I
       /\ f.I = D!ModelOf(P, e).I
       /\ (m.I = f.I /\ InRels \cap OutRels = {}) => Eval(Purged(m.I, OutRels \cup IntRels)).I = m.I
       /\ m.I = f.I => Eval(Purged(m.I, IntRels)).I = m.I
=============================================================================
