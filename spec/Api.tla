-------------------------------- MODULE Api --------------------------------
(***************************************************************************)
(* The embedding API of a compiled program (C21): SouffleProgram /         *)
(* Relation of SouffleInterface.h as implemented by the class and the      *)
(* RelationWrapper that Synthesiser.cpp generates.                         *)
(*                                                                         *)
(* State: db = relation name |-> set of tuples, for every relation the     *)
(* program object exposes (input, output, internal).  One action per API   *)
(* call.  Calls that only read are self loops; what they return is held in *)
(* the derived variable obs (a function of db, evaluated by TLC):          *)
(*    obs[r].n      what Relation::size() returns                          *)
(*    obs[r].has[i] what Relation::contains(probe[r][i]) returns           *)
(* and begin()..end() enumerates exactly db[r]; printAll / runAll write    *)
(* db[r] of the output relations.  The parameters of all actions range     *)
(* over constant sets, so TLC's state graph (-dump dot,actionlabels) names *)
(* every edge by its call: Insert("e", 1), Contains("path", 3),            *)
(* Size("path"), Iterate("path"), Run, PurgeInputRelations, ...            *)
(*                                                                         *)
(* Meaning of run(), read off the generated code (runFunction calls every  *)
(* stratum; run() passes performIO = false, pruneImdtRels = false):        *)
(*  - nothing is cleared first, every stratum inserts into the relations   *)
(*    as they are: a non-recursive rule is evaluated on the current lower  *)
(*    relations, a recursive stratum starts its delta from the whole       *)
(*    current relation.  That is the fixpoint of T_P per stratum *started  *)
(*    from the current db* = Datalog!ModelFrom(P, db);                     *)
(*  - facts written in the program text are clauses with an empty body,    *)
(*    so they are re-derived by every run (also after a purge);            *)
(*  - inputs and intermediates are kept (CLEAR of a non-temporary relation *)
(*    is emitted as `if (pruneImdtRels)`); running twice adds nothing.     *)
(* runAll(in, out, performIO = true, pruneImdtRels = true) = load the fact *)
(* files into the inputs (on top of what is there), evaluate, write the    *)
(* outputs, and clear every non-output relation that some clause uses (it  *)
(* "expires" in the last stratum reading it, RelationSchedule.cpp).        *)
(*                                                                         *)
(* `exact` says whether the property's text fixes the result of the last   *)
(* evaluation: it does when evaluating from the current db gives the model *)
(* of the current inputs (fresh object, or purged and re-run, or a         *)
(* monotone continuation).  After e.g. insert/run/insert/run on a program  *)
(* with negation the outputs still hold tuples of the first run; that is   *)
(* what the generated code does and what this spec says, but the property  *)
(* is silent about it: a deviation of the real code there is reported as   *)
(* MODEL-DRIFT, not as a violation.                                        *)
(*                                                                         *)
(* A program (DatalogData.Programs[i]) is a Datalog.tla program plus       *)
(*   univ  : input relation |-> seq of tuples that Insert may add (by      *)
(*           index)                                                        *)
(*   probe : relation |-> seq of tuples that Contains is asked about (by   *)
(*           index)                                                        *)
(*   files : input relation |-> seq of tuples in the fact file             *)
(***************************************************************************)
EXTENDS Integers, Sequences, FiniteSets, TLC, DatalogData

\* the semantics of programs: Datalog.tla, as pure operators (its state machine is not used here)
D == INSTANCE Datalog WITH pi <- 1, edb <- <<>>, I <- <<>>, si <- 0, iters <- <<>>, k <- 0, oob <- FALSE

VARIABLES prog,    \* index of the program (fixed along a behaviour)
          db,      \* relation |-> set of tuples held by the program object
          exact,   \* the last evaluation produced exactly the model of the inputs (see above)
          obs      \* what the reading calls return in this state (function of db)
vars == <<prog, db, exact, obs>>

P == Programs[prog]
Rels == D!RelNames(P)
IsIn(r) == D!RelInfo(P, r).input
IsOut(r) == D!RelInfo(P, r).output
InRels == {r \in Rels : IsIn(r)}
OutRels == {r \in Rels : IsOut(r)}
IntRels == {r \in Rels : ~IsIn(r) /\ ~IsOut(r)}
SeqSet(s) == {s[i] : i \in 1..Len(s)}
Files(r) == SeqSet(P.files[r])
\* relations read by some clause: they expire in some stratum and are cleared there when pruning is on
Used == UNION {D!PosRels(P.clauses[i].body) \cup D!NegRels(P.clauses[i].body) : i \in 1..Len(P.clauses)}

\* constant parameter spaces (over all programs; the actions guard what applies to the current one)
AllRels == UNION {D!RelNames(Programs[i]) : i \in 1..Len(Programs)}
MaxUniv == CHOOSE n \in 0..64 : /\ \A i \in 1..Len(Programs) : \A r \in DOMAIN Programs[i].univ : Len(Programs[i].univ[r]) <= n
                                /\ \E i \in 1..Len(Programs) : \E r \in DOMAIN Programs[i].univ : Len(Programs[i].univ[r]) = n
MaxProbes == CHOOSE n \in 0..64 : /\ \A i \in 1..Len(Programs) : \A r \in DOMAIN Programs[i].probe : Len(Programs[i].probe[r]) <= n
                                  /\ \E i \in 1..Len(Programs) : \E r \in DOMAIN Programs[i].probe : Len(Programs[i].probe[r]) = n

ObsOf(Pg, J) == [r \in D!RelNames(Pg) |->
                   [n |-> Cardinality(J[r]), has |-> [i \in 1..Len(Pg.probe[r]) |-> Pg.probe[r][i] \in J[r]]]]

\* ---- the pure parts ------------------------------------------------------
Eval(J) == D!ModelFrom(P, J)                                   \* [I, o]: evaluate every stratum starting from J
OnlyInputs(J) == [r \in Rels |-> IF IsIn(r) THEN J[r] ELSE {}]
Fresh(J) == D!ModelFrom(P, OnlyInputs(J))                       \* what a new object holding J's inputs computes
Purged(J, S) == [r \in Rels |-> IF r \in S THEN {} ELSE J[r]]
Loaded(J) == [r \in Rels |-> IF IsIn(r) THEN J[r] \cup Files(r) ELSE J[r]]
Pruned(J) == Purged(J, {r \in Used : ~IsOut(r)})

\* ---- calls that change the object ----------------------------------------
\* (every action sets obs' = ObsOf(P, db'); the conjuncts are written out because TLC labels an edge of the state
\* graph with the innermost operator that is an action)
\* exact' : evaluating from J stayed inside the defined value domain (no overflow, division by zero, ...) and gave the
\* model of J's inputs (trivially so when J holds nothing but inputs)
ExactAfter(J, m) == ~m.o /\ (IF OnlyInputs(J) = J THEN TRUE ELSE m.I = Fresh(J).I)

Insert(r, i) == /\ r \in InRels /\ i \in 1..Len(P.univ[r])          \* inserts the tuple P.univ[r][i]
                /\ db' = [db EXCEPT ![r] = @ \cup {P.univ[r][i]}]
                /\ obs' = ObsOf(P, db') /\ UNCHANGED <<prog, exact>>
Run == LET m == Eval(db) IN
       /\ db' = m.I
       /\ exact' = ExactAfter(db, m)
       /\ obs' = ObsOf(P, db') /\ UNCHANGED prog
\* runAll("", "", performIO = false, pruneImdtRels = true): the interface's default way to evaluate without files
RunPrune == LET m == Eval(db) IN
            /\ db' = Pruned(m.I)
            /\ exact' = ExactAfter(db, m)
            /\ obs' = ObsOf(P, db') /\ UNCHANGED prog
LoadAll == /\ db' = Loaded(db)
           /\ obs' = ObsOf(P, db') /\ UNCHANGED <<prog, exact>>
\* runAll(in, out, true, true); the output files hold the output relations of the state reached (never pruned)
RunAll == LET m == Eval(Loaded(db)) IN
          /\ db' = Pruned(m.I)
          /\ exact' = ExactAfter(Loaded(db), m)
          /\ obs' = ObsOf(P, db') /\ UNCHANGED prog
PurgeInputRelations    == db' = Purged(db, InRels)  /\ obs' = ObsOf(P, db') /\ UNCHANGED <<prog, exact>>
PurgeOutputRelations   == db' = Purged(db, OutRels) /\ obs' = ObsOf(P, db') /\ UNCHANGED <<prog, exact>>
PurgeInternalRelations == db' = Purged(db, IntRels) /\ obs' = ObsOf(P, db') /\ UNCHANGED <<prog, exact>>

\* ---- calls that only read: their results are obs / db of the state -------
Contains(r, i) == r \in Rels /\ i \in 1..Len(P.probe[r]) /\ UNCHANGED vars    \* returns obs[r].has[i]
Size(r)        == r \in Rels /\ UNCHANGED vars                                 \* returns obs[r].n
Iterate(r)     == r \in Rels /\ UNCHANGED vars                                 \* enumerates db[r]
PrintAll       == UNCHANGED vars                                               \* writes db[r] for r in OutRels

Init == /\ prog \in 1..Len(Programs)
        /\ db = [r \in D!RelNames(Programs[prog]) |-> {}]
        /\ exact = TRUE
        /\ obs = ObsOf(Programs[prog], db)

Next == \/ \E r \in AllRels : \E i \in 1..MaxUniv : Insert(r, i)
        \/ Run \/ RunPrune \/ LoadAll \/ RunAll
        \/ PurgeInputRelations \/ PurgeOutputRelations \/ PurgeInternalRelations
        \/ \E r \in AllRels : \E i \in 1..MaxProbes : Contains(r, i)
        \/ \E r \in AllRels : Size(r)
        \/ \E r \in AllRels : Iterate(r)
        \/ PrintAll

Spec == Init /\ [][Next]_vars

\* ---- properties of the API machine (checked by TLC on every reachable state) ----
TypeOK == /\ DOMAIN db = Rels
          /\ \A r \in Rels : \A t \in db[r] : Len(t) = D!RelInfo(P, r).arity
          /\ exact \in BOOLEAN
          /\ obs = ObsOf(P, db)
\* Laws of the machine, for the evaluation m of the current state (one invariant so that TLC evaluates m once):
\*  - run() only adds, and a second run() adds nothing;
\*  - after an exact evaluation (the result is the model of the inputs = what inserting them into a new object, or
\*    loading them from files, and running gives), purging outputs and internals and running again reproduces it.
Laws ==
    LET m == Eval(db)
        f == IF OnlyInputs(db) = db THEN m ELSE Fresh(db)
    IN /\ \A r \in Rels : db[r] \subseteq m.I[r]
       /\ Eval(m.I).I = m.I
       /\ (m.I = f.I /\ InRels \cap OutRels = {}) => Eval(Purged(m.I, OutRels \cup IntRels)).I = m.I
\* an object that holds only inputs evaluates to Datalog's model of the program on those inputs as the EDB
FreshIsModel == OnlyInputs(db) = db => Eval(db).I = D!ModelOf(P, [r \in InRels |-> db[r]]).I
=============================================================================
