CONSTANTS Workers = {1, 2, 3} PerWorker = 3 Atomic = FALSE
SPECIFICATION Spec
INVARIANT Unique Dense
CHECK_DEADLOCK FALSE
