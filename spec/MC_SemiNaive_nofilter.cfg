CONSTANTS MaxN = 4 Scheme = "nofilter"
SPECIFICATION Spec
INVARIANT Complete NonRedundant
CHECK_DEADLOCK FALSE
