------------------------------ MODULE Lattice ------------------------------
(***************************************************************************)
(* Lattice relations (C12).  A relation R with a lattice-typed last column *)
(* holds a map key |-> lattice value.  Its meaning is the least fixpoint   *)
(* of: value(key) = join of all values the clauses of R derive for key     *)
(* from the current database.  LatticeLfp computes it by Kleene iteration  *)
(* (finite lattices, monotone rules); LatticeOK compares the final         *)
(* database F of a real run with it, and demands at most one tuple per key.*)
(* The join operators are constant tables mirrored by the C functors of    *)
(* harness/lattice_functors.cpp:                                           *)
(*   "max"  chain 0 < 1 < 2 < 3 ...        join = maximum                  *)
(*   "min"  the dual chain                  join = minimum                  *)
(*   "or"   subsets of a 2-set as bit masks 0..3, join = bitwise or        *)
(*   "flat" 0 bottom, 3 top, 1 and 2 incomparable                          *)
(* A program carries `lattice`: [rel, join] (one lattice relation).        *)
(***************************************************************************)
EXTENDS Choice

Join(j, a, b) ==
    CASE j = "max" -> IF a >= b THEN a ELSE b
      [] j = "min" -> IF a <= b THEN a ELSE b
      [] j = "or"  -> Bor(a, b)
      [] j = "flat" -> IF a = b THEN a ELSE IF a = 0 THEN b ELSE IF b = 0 THEN a ELSE 3

KeyOf(t) == SubSeq(t, 1, Len(t) - 1)
ValOf(t) == t[Len(t)]
RECURSIVE JoinAll(_, _)
JoinAll(j, S) == IF Cardinality(S) = 1 THEN CHOOSE x \in S : TRUE
                 ELSE LET x == CHOOSE y \in S : TRUE IN Join(j, x, JoinAll(j, S \ {x}))
\* collapse a set of tuples to one tuple per key
LubPerKey(j, T) == {KeyOf(t) \o <<JoinAll(j, {ValOf(u) : u \in {w \in T : KeyOf(w) = KeyOf(t)}})>> : t \in T}

\* Kleene iteration of the lattice relation's stratum from J (lower strata final)
RECURSIVE LatLfp(_, _, _, _)
LatLfp(Pg, r, St, J) ==
    LET tp == TP(Pg, St, J)                                    \* other relations of the stratum grow as usual
        N == [x \in DOMAIN J |-> IF x = r THEN LubPerKey(Pg.lattice.join, tp.I[r]) ELSE tp.I[x]]
    IN IF N = J THEN J ELSE LatLfp(Pg, r, St, N)

OnePerKey(F, r) == \A t, u \in F[r] : KeyOf(t) = KeyOf(u) => t = u

LatticeDiag(Pg, F, ed) ==
    LET r == Pg.lattice.rel
        lows == [x \in DOMAIN F |-> F[x]]
        chk(sx) == LET St == SeqToSet(Pg.strata[sx])
                       J0 == [x \in DOMAIN F |-> IF x \in St THEN (IF x \in DOMAIN ed THEN ed[x] ELSE {}) ELSE F[x]]
                       J == IF r \in St THEN LatLfp(Pg, r, St, J0) ELSE LfpS(Pg, St, J0)
                   IN {x \in St : J[x] # F[x]}
    IN (IF OnePerKey(F, r) THEN {} ELSE {<<r, "two-tuples-for-one-key">>})
       \cup {<<x, "differs-from-least-fixpoint">> : x \in UNION {chk(sx) : sx \in 1..Len(Pg.strata)}}
LatticeOK(Pg, F, ed) == LatticeDiag(Pg, F, ed) = {}
=============================================================================
