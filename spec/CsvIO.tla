-------------------------------- MODULE CsvIO --------------------------------
(***************************************************************************)
(* The text formats of souffle's fact / output files as functions over     *)
(* character sequences (io/WriteStreamCSV.h, ReadStreamCSV.h,              *)
(* WriteStream.h, ReadStream.h):                                           *)
(*   WriteFile(fmt, attrs, types, tuples)  exact file text                 *)
(*   ReadFile(fmt, types, text)            Good(sequence of tuples) or Err *)
(*   Representable(fmt, types, tuple)      by character classes            *)
(*   theorem (checked by TLC in MC_CsvIO over the enumerated space):       *)
(*      Representable /\ ~KnownGap <=> ReadFile(WriteFile(<<tuple>>)) = <<tuple>>  *)
(*                                                                         *)
(* fmt = [kind, rfc, delim, explicit, headers]:                            *)
(*   kind "text": delimiter-separated text; rfc = the rfc4180 option;      *)
(*        delim = the delimiter; explicit = the delimiter option was given *)
(*        (default: tab, or comma under rfc4180); headers = first line     *)
(*        lists the attribute names;                                       *)
(*        (a gzip-compressed file is the same text, compressed);           *)
(*   kind "channel" (JSON, SQLite): the file bytes are not modelled; the   *)
(*        format is specified as the identity on typed tuples (every value *)
(*        is representable).                                               *)
(*                                                                         *)
(* Container text (records / ADTs), as the writer produces it and the      *)
(* reader documents it:                                                    *)
(*   record  nil | [e1, e2, ...]         ADT  $Branch | $Branch(e1, ...)   *)
(*   a symbol element is raw text up to the next ',' or closing bracket    *)
(*   (plain text formats), or a double-quoted string in which '\' escapes  *)
(*   the next character (what the writer emits under rfc4180, where the    *)
(*   whole field is additionally quoted with '"' doubled).                 *)
(* The reader is lenient about blanks around the punctuation; the writer   *)
(* emits exactly ", " between elements.  ParseVal reports whether only the *)
(* canonical form was used (strict) so that C18 can separate "must accept" *)
(* from "may accept".                                                      *)
(*                                                                         *)
(* Values: [k|->"s",c|->chars] [k|->"i",d|->digits] [k|->"u",d|->digits]   *)
(*   [k|->"fv",neg,m,x] (decimal float, see NumParse.FloatText)            *)
(*   [k|->"fs",s] (inf/-inf/nan)  [k|->"nil"]  [k|->"rec",a|->elements]    *)
(*   [k|->"adt",b|->branch name,a|->arguments]                             *)
(***************************************************************************)
EXTENDS NumParse

Q  == "\""
BS == "\\"
NL == "\n"

\* ---- the type environment used by the C17 / C18 vectors ----------------------
Types ==
  [ R  |-> [k |-> "rec", f |-> <<"s", "i">>],
    RR |-> [k |-> "rec", f |-> <<"R", "u">>],
    RA |-> [k |-> "rec", f |-> <<"A", "i">>],
    A  |-> [k |-> "adt", b |-> << [n |-> "N", f |-> <<>>], [n |-> "C", f |-> <<"i", "s">>],
                                  [n |-> "S", f |-> <<"s">>], [n |-> "W", f |-> <<"R">>] >>],
    E  |-> [k |-> "adt", b |-> << [n |-> "Red", f |-> <<>>], [n |-> "Green", f |-> <<>>] >>] ]
Scalars == {"i", "u", "f", "s"}
IsRec(ty) == ty \notin Scalars /\ Types[ty].k = "rec"
IsAdt(ty) == ty \notin Scalars /\ Types[ty].k = "adt"
Chars(str) == str             \* documentation only: names below are written as sequences
NameOf == [ N |-> <<"N">>, C |-> <<"C">>, S |-> <<"S">>, W |-> <<"W">>,
            Red |-> <<"R", "e", "d">>, Green |-> <<"G", "r", "e", "e", "n">> ]
NameChars == {"a","b","c","d","e","f","g","h","i","j","k","l","m","n","o","p","q","r","s","t","u","v","w","x","y","z",
              "A","B","C","D","E","F","G","H","I","J","K","L","M","N","O","P","Q","R","S","T","U","V","W","X","Y","Z",
              "0","1","2","3","4","5","6","7","8","9","_","?","."}

\* ---- small sequence helpers -----------------------------------------------------
RECURSIVE Concat(_)
Concat(ss) == IF ss = <<>> THEN <<>> ELSE ss[1] \o Concat(Tail(ss))
RECURSIVE Join(_, _)
Join(sep, ss) == IF ss = <<>> THEN <<>> ELSE IF Len(ss) = 1 THEN ss[1] ELSE ss[1] \o sep \o Join(sep, Tail(ss))
Occurs(pat, t, p) == p + Len(pat) - 1 <= Len(t) /\ SubSeq(t, p, p + Len(pat) - 1) = pat
\* first position >= p at which pat occurs in t; Len(t)+1 if none
RECURSIVE Find(_, _, _)
Find(pat, t, p) == IF p > Len(t) THEN p ELSE IF Occurs(pat, t, p) THEN p ELSE Find(pat, t, p + 1)
Has(t, c) == \E i \in 1..Len(t) : t[i] = c
MapChars(t, f(_)) == Concat([i \in 1..Len(t) |-> f(t[i])])

\* ---- writer ------------------------------------------------------------------------
\* `dev` is a set of *known deviations* of the unrepaired writer, used only to recognise their exact signature
\* (the specification itself is dev = {}):
\*   "q": a '"' in a top-level symbol under rfc4180 is written as \"" instead of ""
\*   "b": a '\' in a symbol inside a record / ADT under rfc4180 is written without escaping
DblQ(t) == MapChars(t, LAMBDA c : IF c = Q THEN <<Q, Q>> ELSE <<c>>)                 \* RFC 4180: "" inside a quoted field
EscQ(t) == MapChars(t, LAMBDA c : IF c = Q \/ c = BS THEN <<BS, c>> ELSE <<c>>)      \* quoted symbol inside a container
DblQD(t, dev) == IF "q" \in dev THEN MapChars(t, LAMBDA c : IF c = Q THEN <<BS, Q, Q>> ELSE <<c>>) ELSE DblQ(t)
EscQD(t, dev) == IF "b" \in dev THEN MapChars(t, LAMBDA c : IF c = Q THEN <<BS, c>> ELSE <<c>>) ELSE EscQ(t)
DminText == Cs("1.40129846e-45")         \* the smallest subnormal binary32 as "%.9g" prints it (an opaque token here)

RECURSIVE WriteValD(_, _, _, _)
\* text of a value inside a container (quoted = symbols are written as "...")
WriteValD(ty, v, quoted, dev) ==
    CASE ty = "s" -> IF quoted THEN <<Q>> \o EscQD(v.c, dev) \o <<Q>> ELSE v.c
      [] ty \in {"i", "u"} -> v.d
      [] ty = "f" -> IF v.k = "fs" THEN (CASE v.s = "inf" -> Cs("inf") [] v.s = "-inf" -> Cs("-inf")
                                           [] v.s = "nan" -> Cs("nan") [] v.s = "dmin" -> DminText)
                     ELSE FloatText(v)
      [] IsRec(ty) -> IF v.k = "nil" THEN <<"n", "i", "l">>
                      ELSE <<"[">> \o Join(<<",", " ">>, [i \in 1..Len(v.a) |-> WriteValD(Types[ty].f[i], v.a[i], quoted, dev)]) \o <<"]">>
      [] IsAdt(ty) -> LET br == CHOOSE b \in {Types[ty].b[i] : i \in 1..Len(Types[ty].b)} : b.n = v.b IN
                      <<"$">> \o NameOf[v.b] \o
                      (IF br.f = <<>> THEN <<>>
                       ELSE <<"(">> \o Join(<<",", " ">>, [i \in 1..Len(v.a) |-> WriteValD(br.f[i], v.a[i], quoted, dev)]) \o <<")">>)
WriteVal(ty, v, quoted) == WriteValD(ty, v, quoted, {})

WriteFieldD(fmt, ty, v, dev) ==
    IF fmt.rfc THEN
        (IF ty = "s" THEN <<Q>> \o DblQD(v.c, dev) \o <<Q>>
         ELSE IF ty \in Scalars THEN WriteVal(ty, v, FALSE)
         ELSE <<Q>> \o DblQ(WriteValD(ty, v, TRUE, dev)) \o <<Q>>)
    ELSE WriteVal(ty, v, FALSE)
WriteField(fmt, ty, v) == WriteFieldD(fmt, ty, v, {})

WriteTupleD(fmt, types, tup, dev) == Join(fmt.delim, [i \in 1..Len(types) |-> WriteFieldD(fmt, types[i], tup[i], dev)]) \o <<NL>>
\* the header joins the attribute names with the delimiter *option* (tab when the option is absent, even under rfc4180)
Header(fmt, attrs) == IF fmt.headers THEN Join(IF fmt.explicit THEN fmt.delim ELSE <<"\t">>, attrs) \o <<NL>> ELSE <<>>
WriteFileD(fmt, attrs, types, tuples, dev) ==
    Header(fmt, attrs) \o Concat([i \in 1..Len(tuples) |-> WriteTupleD(fmt, types, tuples[i], dev)])
WriteFile(fmt, attrs, types, tuples) == WriteFileD(fmt, attrs, types, tuples, {})

\* ---- container reader ----------------------------------------------------------------
Fail == [ok |-> FALSE, uw |-> FALSE]
FailU == [ok |-> FALSE, uw |-> TRUE]     \* failed on an unsigned element that is a literal outside 0..2^32-1
Ok(v, p, strict) == [ok |-> TRUE, v |-> v, p |-> p, strict |-> strict]
RECURSIVE DropTrailBlanks(_)
DropTrailBlanks(t) == IF t # <<>> /\ t[Len(t)] \in Blanks THEN DropTrailBlanks(SubSeq(t, 1, Len(t) - 1)) ELSE t

ScalarValue(c) ==         \* value forms of NumParse -> value forms of this module
    IF c.v.k = "f" THEN (IF c.v.e2 = 0 THEN [k |-> "fv"] @@ FloatNorm(c.v) ELSE c.v) ELSE c.v

RECURSIVE QuotedEnd(_, _, _)
\* scan a quoted symbol whose opening quote is at p-1; returns [ok, c (unescaped text), p (after the closing quote)]
QuotedEnd(t, p, acc) ==
    IF p > Len(t) THEN Fail
    ELSE IF t[p] = BS THEN (IF p + 1 > Len(t) THEN Fail ELSE QuotedEnd(t, p + 2, Append(acc, t[p + 1])))
    ELSE IF t[p] = Q THEN [ok |-> TRUE, c |-> acc, p |-> p + 1]
    ELSE QuotedEnd(t, p + 1, Append(acc, t[p]))

RECURSIVE StopAt(_, _, _)
StopAt(t, p, stop) == IF p > Len(t) THEN p ELSE IF t[p] \in stop THEN p ELSE StopAt(t, p + 1, stop)
RECURSIVE ParseVal(_, _, _, _), ParseElems(_, _, _, _, _, _, _)
\* parse a value of type ty at position p of t, inside a container closed by `closer`; blanks before p are already skipped
ParseVal(ty, t, p, closer) ==
    LET stop == {",", closer}
        q == StopAt(t, p, stop)
    IN
    IF ty \in {"i", "u", "f"} THEN
        (IF q > Len(t) THEN Fail
         ELSE LET tok == SubSeq(t, p, q - 1)
                  core == DropTrailBlanks(tok)
                  c == ClassifyScalar(ty, core)
              IN  IF c.cls \in {"accept", "either"} /\ c.v.k # "tiny"
                  THEN Ok(ScalarValue(c), q, c.cls = "accept" /\ core = tok)
                  ELSE IF ty = "u" /\ c.why = "range" THEN FailU ELSE Fail)
    ELSE IF ty = "s" THEN
        (IF p <= Len(t) /\ t[p] = Q THEN
            LET e == QuotedEnd(t, p + 1, <<>>) IN IF e.ok THEN Ok([k |-> "s", c |-> e.c], e.p, TRUE) ELSE Fail
         ELSE IF q > Len(t) THEN Fail
         ELSE Ok([k |-> "s", c |-> SubSeq(t, p, q - 1)], q, TRUE))
    ELSE IF IsRec(ty) THEN
        (IF Occurs(<<"n", "i", "l">>, t, p) THEN Ok([k |-> "nil"], p + 3, TRUE)
         ELSE IF p <= Len(t) /\ t[p] = "[" THEN
            LET es == ParseElems(Types[ty].f, t, p + 1, "]", 1, <<>>, TRUE) IN
            IF es.ok THEN Ok([k |-> "rec", a |-> es.v], es.p, es.strict) ELSE es
         ELSE Fail)
    ELSE \* ADT
        (IF ~(p <= Len(t) /\ t[p] = "$") THEN Fail
         ELSE LET n0 == RunEnd(t, p + 1, Blanks)
                  n1 == RunEnd(t, n0, NameChars)
                  nm == SubSeq(t, n0, n1 - 1)
                  cands == {i \in 1..Len(Types[ty].b) : NameOf[Types[ty].b[i].n] = nm}
              IN  IF cands = {} THEN Fail
                  ELSE LET br == Types[ty].b[CHOOSE i \in cands : TRUE] IN
                       IF br.f = <<>> THEN Ok([k |-> "adt", b |-> br.n, a |-> <<>>], n1, n0 = p + 1)
                       ELSE LET o == RunEnd(t, n1, Blanks) IN
                            IF ~(o <= Len(t) /\ t[o] = "(") THEN Fail
                            ELSE LET es == ParseElems(br.f, t, o + 1, ")", 1, <<>>, TRUE) IN
                                 IF es.ok THEN Ok([k |-> "adt", b |-> br.n, a |-> es.v], es.p, es.strict /\ n0 = p + 1 /\ o = n1)
                                 ELSE es)

\* elements i..n of a container; p is just after '[' / '(' (i = 1) or after the previous element
ParseElems(fs, t, p, closer, i, acc, strict) ==
    IF i > Len(fs) THEN
        LET c == RunEnd(t, p, Blanks) IN
        IF c <= Len(t) /\ t[c] = closer THEN [ok |-> TRUE, v |-> acc, p |-> c + 1, strict |-> strict /\ c = p] ELSE Fail
    ELSE
        LET c == IF i = 1 THEN p ELSE RunEnd(t, p, Blanks)          \* blanks before ','
            okSep == i = 1 \/ (c <= Len(t) /\ t[c] = ",")
            a == IF i = 1 THEN p ELSE c + 1
            b == RunEnd(t, a, Blanks)                                \* blanks before the element
            canon == (i = 1 /\ b = a) \/ (i > 1 /\ c = p /\ (b = a \/ (b = a + 1 /\ t[a] = " ")))
        IN  IF ~okSep THEN Fail
            ELSE LET r == ParseVal(fs[i], t, b, closer) IN
                 IF ~r.ok THEN r ELSE ParseElems(fs, t, r.p, closer, i + 1, Append(acc, r.v), strict /\ canon /\ r.strict)

\* a whole field of a fact file: class and value (C18), for every column type
ClassifyField(ty, t) ==
    IF ty = "f" /\ t = DminText THEN Res("accept", [k |-> "fs", s |-> "dmin"], "")     \* C17 only: what the writer printed
    ELSE IF ty \in Scalars THEN
        LET c == ClassifyScalar(ty, t) IN
        IF c.cls \in {"accept", "either"} /\ c.v.k \notin {"tiny", "none"} THEN [c EXCEPT !.v = ScalarValue(c)] ELSE c
    ELSE LET b == RunEnd(t, 1, Blanks)
             r == ParseVal(ty, t, b, "\n") IN          \* no closer at top level: "\n" cannot occur inside a field here
         IF r.ok /\ r.p = Len(t) + 1 THEN Res(IF r.strict /\ b = 1 THEN "accept" ELSE "either", r.v, "")
         ELSE Res("reject", NoVal, IF ~r.ok /\ r.uw THEN "range-nested-unsigned" ELSE "shape")

\* ---- line / file reader ------------------------------------------------------------------
\* Plain text: a field ends at the first delimiter; when the delimiter contains ',' the reader's "record/tuple
\* delimiter coincidence" rule applies: a delimiter inside [...] does not count and the brackets must balance.
RECURSIVE DepthScan(_, _, _, _)
\* first position q >= p outside all brackets where delim occurs (or Len+1 at the end of the line);
\* -1 when a ']' has no '[' or a '[' is never closed
DepthScan(t, p, delim, depth) ==
    IF p > Len(t) THEN (IF depth = 0 THEN p ELSE -1)
    ELSE IF depth = 0 /\ Occurs(delim, t, p) THEN p
    ELSE IF t[p] = "[" THEN DepthScan(t, p + 1, delim, depth + 1)
    ELSE IF t[p] = "]" THEN (IF depth > 0 THEN DepthScan(t, p + 1, delim, depth - 1) ELSE -1)
    ELSE DepthScan(t, p + 1, delim, depth)
FieldEnd(fmt, t, p) == IF Has(fmt.delim, ",") THEN DepthScan(t, p, fmt.delim, 0) ELSE Find(fmt.delim, t, p)

Err == [ok |-> FALSE]
Good(v) == [ok |-> TRUE, v |-> v]
\* fmt.lx (optional): text after the last column's field is ignored (used by C18 to classify lines with surplus fields,
\* about which the property is silent, as "either")
LX(fmt) == "lx" \in DOMAIN fmt /\ fmt.lx
RECURSIVE SplitPlain(_, _, _, _)
\* the n fields of a line: Good(field texts) or Err
SplitPlain(fmt, t, p, n) ==
    LET e == FieldEnd(fmt, t, p) IN
    IF e = -1 THEN Err
    ELSE IF n = 1 THEN (IF e = Len(t) + 1 \/ LX(fmt) THEN Good(<<SubSeq(t, p, e - 1)>>) ELSE Err)
    ELSE IF e = Len(t) + 1 THEN Err
    ELSE LET rest == SplitPlain(fmt, t, e + Len(fmt.delim), n - 1) IN
         IF ~rest.ok THEN Err ELSE Good(<<SubSeq(t, p, e - 1)>> \o rest.v)

RECURSIVE Lines(_, _)
Lines(t, p) == IF p > Len(t) THEN <<>>
               ELSE LET e == Find(<<NL>>, t, p) IN <<SubSeq(t, p, e - 1)>> \o Lines(t, e + 1)

ParseTuple(types, fields) ==          \* [ok, v (sequence of values), strict (every field in canonical form), cs (field classes)]
    LET cs == [i \in 1..Len(types) |-> ClassifyField(types[i], fields[i])] IN
    IF \E i \in 1..Len(types) : cs[i].cls \notin {"accept", "either"} THEN [ok |-> FALSE, cs |-> cs]
    ELSE [ok |-> TRUE, v |-> [i \in 1..Len(types) |-> cs[i].v], strict |-> \A i \in 1..Len(types) : cs[i].cls = "accept", cs |-> cs]

\* rfc4180: one logical record starting at p: fields are "quoted" ("" = quote, may span lines) or bare.
RECURSIVE RfcQuoted(_, _, _)
RfcQuoted(t, p, acc) ==            \* p is after the opening quote; returns [ok, c, p after the closing quote]
    IF p > Len(t) THEN Fail
    ELSE IF t[p] = Q THEN (IF p + 1 <= Len(t) /\ t[p + 1] = Q THEN RfcQuoted(t, p + 2, Append(acc, Q))
                           ELSE [ok |-> TRUE, c |-> acc, p |-> p + 1])
    ELSE RfcQuoted(t, p + 1, Append(acc, t[p]))

RECURSIVE RfcFields(_, _, _, _, _)
\* returns [ok, fs (field texts), p (after the record's newline)]
RfcFields(fmt, t, p, n, acc) ==
    LET quoted == p <= Len(t) /\ t[p] = Q
        qf == RfcQuoted(t, p + 1, <<>>)
        nl == Find(<<NL>>, t, p)
        de == Find(fmt.delim, t, p)
        bareEnd == IF de < nl THEN de ELSE nl
        ok == IF quoted THEN qf.ok ELSE TRUE
        txt == IF quoted THEN qf.c ELSE SubSeq(t, p, bareEnd - 1)
        e == IF quoted THEN qf.p ELSE bareEnd
        st == quoted \/ ~Has(txt, Q)          \* a '"' inside a bare field: RFC 4180 forbids it, the reader takes it literally
    IN  IF ~ok THEN Fail
        ELSE IF n = 1 THEN (IF e = Len(t) + 1 \/ t[e] = NL THEN [ok |-> TRUE, fs |-> Append(acc.fs, txt), p |-> e + 1, strict |-> acc.strict /\ st]
                            ELSE IF LX(fmt) /\ Occurs(fmt.delim, t, e) THEN [ok |-> TRUE, fs |-> Append(acc.fs, txt), p |-> Find(<<NL>>, t, e) + 1, strict |-> FALSE]
                            ELSE Fail)
        ELSE IF Occurs(fmt.delim, t, e) THEN RfcFields(fmt, t, e + Len(fmt.delim), n - 1, [fs |-> Append(acc.fs, txt), strict |-> acc.strict /\ st])
        ELSE Fail

RECURSIVE RfcRecords(_, _, _, _)
RfcRecords(fmt, types, t, p) ==
    IF p > Len(t) THEN [ok |-> TRUE, v |-> <<>>, strict |-> TRUE]
    ELSE LET r == RfcFields(fmt, t, p, Len(types), [fs |-> <<>>, strict |-> TRUE]) IN
         IF ~r.ok THEN Err
         ELSE LET tup == ParseTuple(types, r.fs)
                  rest == RfcRecords(fmt, types, t, r.p) IN
              IF ~tup.ok \/ ~rest.ok THEN Err ELSE [ok |-> TRUE, v |-> <<tup.v>> \o rest.v, strict |-> r.strict /\ tup.strict /\ rest.strict]

\* ReadFile: [ok |-> TRUE, v |-> sequence of tuples, strict |-> only canonical forms were used]
\*        or [ok |-> FALSE, line |-> number of the first offending line (plain text formats; 0 = not modelled)]
ReadFile(fmt, types, text) ==
    LET body == IF fmt.headers THEN From(text, Find(<<NL>>, text, 1) + 1) ELSE text IN
    IF fmt.rfc THEN (LET r == RfcRecords(fmt, types, body, 1) IN IF r.ok THEN r ELSE [ok |-> FALSE, line |-> 0])
    ELSE LET ls == Lines(body, 1)
             fs == [i \in 1..Len(ls) |-> SplitPlain(fmt, ls[i], 1, Len(types))]
             ts == [i \in 1..Len(ls) |-> IF fs[i].ok THEN ParseTuple(types, fs[i].v) ELSE Err]
             bad == {i \in 1..Len(ls) : ~ts[i].ok}
         IN  IF bad # {} THEN [ok |-> FALSE, line |-> MinOf(bad) + (IF fmt.headers THEN 1 ELSE 0)]
             ELSE [ok |-> TRUE, v |-> [i \in 1..Len(ls) |-> ts[i].v], strict |-> \A i \in 1..Len(ls) : ts[i].strict]

\* ---- representability, by character classes --------------------------------------------------
\* Plain text formats cannot carry in a symbol: a newline; the delimiter; with a ','-delimiter an unbalanced '[' / ']';
\* and, for a symbol inside a record / ADT (written raw): ',' , the container's closing bracket, a leading blank or a
\* leading '"'.  Under rfc4180 everything is quoted and escaped: every symbol is representable.
RECURSIVE SymsOK(_, _, _)
\* every symbol inside value v of type ty (closer = closing bracket of the enclosing container, "" at top level)
SymsOK(ty, v, closer) ==
    CASE ty = "s" -> closer = "" \/ (~Has(v.c, ",") /\ ~Has(v.c, closer) /\ (v.c = <<>> \/ (v.c[1] \notin Blanks /\ v.c[1] # Q)))
      [] ty \in {"i", "u", "f"} -> TRUE
      [] IsRec(ty) -> v.k = "nil" \/ \A i \in 1..Len(v.a) : SymsOK(Types[ty].f[i], v.a[i], "]")
      [] IsAdt(ty) -> LET br == CHOOSE b \in {Types[ty].b[i] : i \in 1..Len(Types[ty].b)} : b.n = v.b IN
                      \A i \in 1..Len(v.a) : SymsOK(br.f[i], v.a[i], ")")

\* the first delimiter found from the start of field i is the one the writer put after it (none in the last field)
Probe(fmt, types, ft, i) == IF i < Len(types) THEN ft[i] \o fmt.delim ELSE ft[i]
FieldSplits(fmt, types, ft, i) ==
    IF Has(fmt.delim, ",") THEN
        (IF types[i] \in Scalars THEN DepthScan(Probe(fmt, types, ft, i), 1, fmt.delim, 0) = Len(ft[i]) + 1
         ELSE DepthScan(ft[i], 1, <<NL>>, 0) = Len(ft[i]) + 1)        \* container: its own ", " aside, the brackets balance
    ELSE Find(fmt.delim, Probe(fmt, types, ft, i), 1) = Len(ft[i]) + 1

Representable(fmt, types, tup) ==
    fmt.kind = "channel" \/ fmt.rfc \/
    LET ft == [i \in 1..Len(types) |-> WriteField(fmt, types[i], tup[i])]
        n == Len(types)
    IN  /\ \A i \in 1..n : SymsOK(types[i], tup[i], "")
        /\ \A i \in 1..n : ~Has(ft[i], NL)
        /\ \A i \in 1..n : FieldSplits(fmt, types, ft, i)

\* Known gap of the plain text format itself (reported as a finding, not hidden as "unrepresentable": the property
\* names ADTs and custom delimiters): with a ','-delimiter the commas of an ADT's argument list are not protected.
KnownGap(fmt, types, tup) ==
    fmt.kind = "text" /\ ~fmt.rfc /\ Has(fmt.delim, ",") /\
    LET ft == [i \in 1..Len(types) |-> WriteField(fmt, types[i], tup[i])] IN
    \E i \in 1..Len(types) : IsAdt(types[i]) /\ DepthScan(Probe(fmt, types, ft, i), 1, fmt.delim, 0) # Len(ft[i]) + 1

\* the round trip the specification promises
RoundTrips(fmt, attrs, types, tup) ==
    fmt.kind = "channel" \/ LET r == ReadFile(fmt, types, WriteFile(fmt, attrs, types, <<tup>>)) IN r.ok /\ r.v = <<tup>>
Theorem(fmt, attrs, types, tup) == (Representable(fmt, types, tup) /\ ~KnownGap(fmt, types, tup)) <=> RoundTrips(fmt, attrs, types, tup)
=============================================================================
