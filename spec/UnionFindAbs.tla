---------------------------- MODULE UnionFindAbs ----------------------------
(***************************************************************************)
(* Property-level (abstract) specification of a linearizable union-find:   *)
(* what C29 demands of DisjointSet, stated over what a client can observe  *)
(* (calls, returns, answers) - no parent links, no ranks.                  *)
(*                                                                         *)
(*   part : Node -> Node   the partition, as "least member of my class"    *)
(*   pend : per client, the call in progress (op = "idle" if none)         *)
(*   req  : the set of pairs whose union was requested so far              *)
(*                                                                         *)
(* A call takes effect at ONE silent instant between its call and its      *)
(* return (Lin):                                                           *)
(*   union(a,b)   merges the classes of a and b                            *)
(*   sameSet(a,b) reads whether a and b are in one class  - so "every      *)
(*                same-set answer is correct at some instant during that   *)
(*                call"                                                    *)
(*   find(a)      reads the class of a; the returned representative must   *)
(*                be a member of it                                        *)
(* The return is enabled only after that instant and only with the answer  *)
(* read there.  Classes are only ever merged, and only by Lin of a union,  *)
(* hence when every client is idle the partition is exactly the closure of *)
(* the requested unions (FinalIsClosure, checked by TLC on this module).   *)
(* Acyclicity is a statement about the representation; it is evaluated by  *)
(* Acyclic(par) on parent arrays observed on the real object               *)
(* (UnionFindAbsTrace).                                                    *)
(*                                                                         *)
(* The transition relation is written as functions on state records        *)
(* s = [part, pend] so that UnionFindAbsTrace can compose a return with    *)
(* the silent steps that may precede it.                                   *)
(***************************************************************************)
EXTENDS Integers, Sequences, FiniteSets
CONSTANTS N,        \* nodes 0..N-1
          Clients   \* client (thread) identifiers
Node == 0..N-1
Idle == [op |-> "idle", a |-> 0, b |-> 0, lin |-> FALSE, same |-> FALSE, cls |-> {}]
Rep0 == [n \in Node |-> n]
Merge(rep, a, b) == IF rep[a] = rep[b] THEN rep
                    ELSE LET lo == IF rep[a] < rep[b] THEN rep[a] ELSE rep[b]
                             hi == IF rep[a] < rep[b] THEN rep[b] ELSE rep[a]
                         IN [n \in Node |-> IF rep[n] = hi THEN lo ELSE rep[n]]
RECURSIVE MergeAll(_, _)
MergeAll(rep, E) == IF E = {} THEN rep
                    ELSE LET e == CHOOSE e \in E : TRUE IN MergeAll(Merge(rep, e[1], e[2]), E \ {e})
ClosureRep(E) == MergeAll(Rep0, E)            \* closure of a set of requested unions

\* ---------------------------------------------------------------- transitions as functions on s = [part, pend]
InitS == [part |-> Rep0, pend |-> [c \in Clients |-> Idle]]
CanCall(s, c, op, a, b) == s.pend[c].op = "idle" /\ op \in {"u", "s", "f"} /\ a \in Node /\ b \in Node
CallS(s, c, op, a, b) == [s EXCEPT !.pend[c] = [op |-> op, a |-> a, b |-> b, lin |-> FALSE, same |-> FALSE, cls |-> {}]]
CanLin(s, c) == s.pend[c].op # "idle" /\ ~s.pend[c].lin
LinS(s, c) == LET p == s.pend[c] IN
              CASE p.op = "u" -> [part |-> Merge(s.part, p.a, p.b), pend |-> [s.pend EXCEPT ![c].lin = TRUE]]
                [] p.op = "s" -> [s EXCEPT !.pend[c].lin = TRUE, !.pend[c].same = (s.part[p.a] = s.part[p.b])]
                [] p.op = "f" -> [s EXCEPT !.pend[c].lin = TRUE, !.pend[c].cls = {n \in Node : s.part[n] = s.part[p.a]}]
\* the call of client c may return r (union: r ignored; sameSet: 1/0; find: a node)
RetOK(s, c, r) == LET p == s.pend[c] IN
                  /\ p.op # "idle" /\ p.lin
                  /\ CASE p.op = "u" -> TRUE
                       [] p.op = "s" -> (r = 1 /\ p.same) \/ (r = 0 /\ ~p.same)
                       [] p.op = "f" -> r \in p.cls
RetS(s, c) == [s EXCEPT !.pend[c] = Idle]
AllIdle(s) == \A c \in Clients : s.pend[c].op = "idle"

\* ---------------------------------------------------------------- observed parent arrays (tuples, node n at index n+1)
RECURSIVE UpP(_, _, _)
UpP(par, n, k) == IF par[n + 1] = n THEN n ELSE IF k = 0 \/ par[n + 1] \notin Node THEN -1 ELSE UpP(par, par[n + 1], k - 1)
RootP(par, n) == UpP(par, n, N)
AcyclicP(par) == \A n \in Node : RootP(par, n) # -1       \* the only cycles are roots pointing to themselves
\* the partition the array represents is exactly `rep`
RepresentsP(par, rep) == \A a, b \in Node : (RootP(par, a) = RootP(par, b)) <=> (rep[a] = rep[b])

\* ---------------------------------------------------------------- the specification
VARIABLES part, pend, req
avars == <<part, pend, req>>
St == [part |-> part, pend |-> pend]
Become(s) == part' = s.part /\ pend' = s.pend
AInit == part = InitS.part /\ pend = InitS.pend /\ req = {}
Call(c, op, a, b) == /\ CanCall(St, c, op, a, b) /\ Become(CallS(St, c, op, a, b))
                     /\ req' = IF op = "u" THEN req \cup {<<a, b>>} ELSE req
Lin(c) == CanLin(St, c) /\ Become(LinS(St, c)) /\ UNCHANGED req
Ret(c, r) == RetOK(St, c, r) /\ Become(RetS(St, c)) /\ UNCHANGED req
ANext == \E c \in Clients : \/ \E op \in {"u", "s", "f"}, a, b \in Node : Call(c, op, a, b)
                            \/ Lin(c)
                            \/ \E r \in Node : Ret(c, r)
ASpec == AInit /\ [][ANext]_avars

ATypeOK == /\ part \in [Node -> Node] /\ \A n \in Node : part[n] <= n /\ part[part[n]] = part[n]
           /\ \A c \in Clients : pend[c].op \in {"idle", "u", "s", "f"} /\ pend[c].cls \subseteq Node
           /\ req \subseteq Node \X Node
\* never more than requested, never less than what has taken effect; with everybody idle: exactly the closure
NotYet == {<<pend[c].a, pend[c].b>> : c \in {d \in Clients : pend[d].op = "u" /\ ~pend[d].lin}}
PartBetween == LET lo == ClosureRep(req \ NotYet)  hi == ClosureRep(req)
               IN \A a, b \in Node : (lo[a] = lo[b] => part[a] = part[b]) /\ (part[a] = part[b] => hi[a] = hi[b])
FinalIsClosure == AllIdle(St) => part = ClosureRep(req)
\* classes only grow
Monotone == [][\A a, b \in Node : part[a] = part[b] => part'[a] = part'[b]]_avars
=============================================================================
