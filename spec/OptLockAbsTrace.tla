-------------------------- MODULE OptLockAbsTrace --------------------------
(* Trace validation: a recorded history of API events of the real lock (cooperative scheduler order, one line per  *)
(* completed call: [e, c, ok, v]) must be a behaviour of OptLockAbs.  Histories are concatenated with "reset".     *)
EXTENDS OptLockAbs, TLC, TraceDataModule   \* TraceDataModule (generated) defines TraceData
VARIABLE l
tvars == <<holder, commits, lease, stable, ver, l>>
TInit == AInit /\ l = 1
Ev == TraceData[l]
TNext == /\ l <= Len(TraceData)
         /\ l' = l + 1
         /\ CASE Ev.e = "reset"    -> holder' = 0 /\ commits' = 0 /\ lease' = [c \in Clients |-> 0] /\ stable' = 0 /\ ver' = 0
              [] Ev.e = "lease"    -> Lease(Ev.c) /\ Ev.v = ver
              [] Ev.e = "validate" -> Validate(Ev.c, Ev.ok)
              [] Ev.e = "acquire"  -> Acquire(Ev.c, Ev.v)
              [] Ev.e = "upgrade"  -> Upgrade(Ev.c, Ev.ok, Ev.v)
              [] Ev.e = "try"      -> TryAcquire(Ev.c, Ev.ok, Ev.v)
              [] Ev.e = "end"      -> EndWrite(Ev.c, Ev.v)
              [] Ev.e = "abort"    -> AbortWrite(Ev.c, Ev.v)
TSpec == TInit /\ [][TNext]_tvars
Accepted == TLCGet("stats").diameter - 1 = Len(TraceData)
=============================================================================
