CONSTANT Keys <- K7
CONSTANT M = 3
SPECIFICATION Spec
INVARIANT ShapeOK
PROPERTY StepOK
CHECK_DEADLOCK FALSE
