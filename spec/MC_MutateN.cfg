SPECIFICATION Spec
CONSTANT MaxMut = 4
VIEW View
INVARIANT Bounded Emit
CHECK_DEADLOCK FALSE
