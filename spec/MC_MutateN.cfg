SPECIFICATION Spec
CONSTANT MaxMut = 4
INVARIANT Bounded
CHECK_DEADLOCK FALSE
