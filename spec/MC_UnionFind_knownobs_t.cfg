CONSTANTS N = 4  NT = 2  Variant = "textbook"
CONSTANT ConfigSpace <- Space
SPECIFICATION FairSpec
INVARIANT TypeOK Acyclic UnionsHold NoSpurious FinalPartition SameSetSound FindSound RankMonotone
PROPERTY Termination
CHECK_DEADLOCK FALSE
