CONSTANT Tier = 2
INIT Init
NEXT Next
INVARIANT TheoremHolds Emit
CHECK_DEADLOCK FALSE
