--------------------------- MODULE SortedSetAbsMC ---------------------------
(* Small-model check of the statements C25 makes at the property level: whatever the overlap of insert calls,      *)
(* (1) no key's insertion reports success twice, (2) once all calls have returned the set is exactly the union of   *)
(* the inserted keys and every distinct key was reported new exactly once.  History variables only.                *)
EXTENDS SortedSetAbs
CONSTANTS Keys, MaxOps
VARIABLES nops, trues, called
mvars == <<set, pend, nops, trues, called>>
MCInit == AInit /\ nops = [t \in Threads |-> 0] /\ trues = [k \in Keys |-> 0] /\ called = {}
MCNext == \/ \E t \in Threads, k \in Keys : /\ nops[t] < MaxOps /\ Call(t, k)
                                            /\ nops' = [nops EXCEPT ![t] = @ + 1] /\ called' = called \cup {k}
                                            /\ UNCHANGED trues
          \/ \E t \in Threads : Lin(t) /\ UNCHANGED <<nops, trues, called>>
          \/ \E t \in Threads : /\ pend[t].st = "done" /\ Ret(t, pend[t].k, pend[t].res)
                                /\ trues' = [trues EXCEPT ![pend[t].k] = @ + (IF pend[t].res THEN 1 ELSE 0)]
                                /\ UNCHANGED <<nops, called>>
MCSpec == MCInit /\ [][MCNext]_mvars
SuccessAtMostOnce == \A k \in Keys : trues[k] <= 1
SubsetOfInserted  == set \subseteq called
UnionWhenQuiet    == Quiet => (set = called /\ \A k \in called : trues[k] = 1)
=============================================================================
