CONSTANT Tier = 1
INIT Init
NEXT Next
INVARIANT Emit Canon
CHECK_DEADLOCK FALSE
