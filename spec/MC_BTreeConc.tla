---------------------------- MODULE MC_BTreeConc ----------------------------
EXTENDS BTreeConc
Asc(n) == [i \in 1..n |-> 10 * i]
T2 == {1, 2}
NoHints == [t \in T2 |-> FALSE]
Hints == [t \in T2 |-> TRUE]
\* tiny: empty tree, both threads create the root
FillEmpty == <<>>
ProgEmpty == <<<<5>>, <<7, 5>>>>
\* full root leaf: root growth; duplicate racing
FillA == Asc(3)
ProgA == <<<<40>>, <<5>>>>
ProgAdup == <<<<25, 20>>, <<25>>>>
\* [[10] 20 [30 40 50]]: left-rebalance
FillB == Asc(5)
ProgB == <<<<60>>, <<15>>>>
ProgBh == <<<<60, 70>>, <<15, 45>>>>
\* [[10 20 30] 40 [50 60 70]]: both leaves full
FillE == Asc(7)
ProgE == <<<<45>>, <<35>>>>
\* root inner full, all leaves full: leaf split -> inner split -> root growth
FillC == Asc(15)
ProgC == <<<<160>>, <<55>>>>
\* depth 3, right inner full, left inner has room: inner rebalance
FillD == Asc(20)
ProgD == <<<<135>>, <<45>>>>
\* thorough tier: three keys per thread / three threads
ProgA3 == <<<<40, 5, 25>>, <<25, 35, 5>>>>
ProgB3 == <<<<60, 70, 45>>, <<15, 45, 16>>>>
ProgC2 == <<<<160, 170>>, <<55, 5>>>>
ProgD2 == <<<<135, 136>>, <<45, 75>>>>
T3 == {1, 2, 3}
NoHints3 == [t \in T3 |-> FALSE]
Hints3 == [t \in T3 |-> t # 2]
ProgA33 == <<<<40, 25>>, <<5, 25>>, <<25, 45>>>>
ProgB33 == <<<<60>>, <<15, 45>>, <<45, 12>>>>
=============================================================================
