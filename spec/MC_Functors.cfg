SPECIFICATION Spec
INVARIANT Emit ResultsWellFormed CrossChecks
CHECK_DEADLOCK FALSE
