CONSTANT Threads <- T2
CONSTANT M = 3
CONSTANT Fill <- FillB
CONSTANT Prog <- ProgB
CONSTANT UseHints <- NoHints
SPECIFICATION Spec
INVARIANT NoErr QuiescentOK FinalOK ParentsOK Progress
CHECK_DEADLOCK FALSE
