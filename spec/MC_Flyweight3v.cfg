CONSTANT Threads = {1, 2, 3}
CONSTANT NLanes = 3
CONSTANT Values = {1, 2, 3}
CONSTANT InitCap = 2
CONSTANT Reserve = FALSE
CONSTANT InitBuckets = 1
CONSTANT InitMaxSize = 0
CONSTANT HashMul = 13
CONSTANT MaxNode = 4
CONSTANT Scenarios <- Sc3v
SPECIFICATION FairSpec
INVARIANT TypeOK GhostOK SameValueSameIndex DiffValueDiffIndex DecodeOK NoNil OneInserter MapOK SlotsAgree ReservedOK SlotLocalOK IterOK LocksFree
PROPERTY Termination ReturnsLinResult
