CONSTANTS N = 3  Clients = {1, 2}
SPECIFICATION MCSpec
INVARIANT ATypeOK PartBetween FinalIsClosure
PROPERTY Monotone
CHECK_DEADLOCK FALSE
