----------------------------- MODULE MC_Lattice -----------------------------
(* DatalogData defines Programs (with `lattice`, `choice`) and LatticeCases == << [p, edb, final] >>. *)
EXTENDS Lattice
VARIABLE ci
JInit == /\ ci \in 1..Len(LatticeCases)
         /\ pi = 1 /\ edb = <<>> /\ I = <<>> /\ si = 1 /\ iters = <<>> /\ k = 0 /\ oob = FALSE
JNext == UNCHANGED <<ci, vars>>
JSpec == JInit /\ [][JNext]_<<ci, vars>>
ToSets(f) == [r \in DOMAIN f |-> SeqToSet(f[r])]
Case == LatticeCases[ci]
Emit == PrintT(<<"VERDICT", ci, LatticeOK(Programs[Case.p], ToSets(Case.final), ToSets(Case.edb)),
                 LatticeDiag(Programs[Case.p], ToSets(Case.final), ToSets(Case.edb))>>)
=============================================================================
