----------------------------- MODULE DriverTrace -----------------------------
(***************************************************************************)
(* Trace validation of souffle invocations against Driver.tla.             *)
(* TraceData (generated) is the concatenation of the recorded life-cycle   *)
(* traces (hook H7, file SOUFFLE_VERIF_TRACE) of many invocations; every   *)
(* run ends with the event the glue appends from the process status,       *)
(*   [e |-> "Exit", code, signal, timeout, diag, internal, outs]           *)
(* and runs are separated by [e |-> "Reset"].  Consecutive AstTransformer  *)
(* events and consecutive interpreter statement events of one kind are     *)
(* run-length encoded by the glue (field n); nothing else is dropped.      *)
(* A run is accepted iff it is a behaviour of Driver; a run that ends with *)
(* a signal, a time-out, an internal-error message, a status other than    *)
(* 0/1, a status 1 without diagnostic, or that translates/executes after a *)
(* check point reported errors has no matching transition.                 *)
(* The Exit event also carries `expect`: "accept"/"reject" = the verdict   *)
(* of Static.tla for the program that was run (C13), "any" otherwise:      *)
(*   accept => status 0 and no error diagnostic;                           *)
(*   reject => status 1, an error diagnostic, nothing evaluated and no     *)
(*             output file.                                                *)
(***************************************************************************)
EXTENDS Driver, Sequences, TraceDataModule
VARIABLE l
tvars == <<phase, errors, sawErrors, executed, ok, exit, l>>
TInit == Init /\ l = 1
Ev == TraceData[l]
PhaseEvent(p) == CASE p = "Parsed"       -> Parse(Ev.errors)
                   [] p = "Transformed"  -> TransformDone
                   [] p = "Translated"   -> Translate
                   [] p = "RamOptimised" -> RamOptimise
                   [] p = "Execute"      -> Execute
                   [] p = "Executed"     -> ExecDone(Ev.ok)
                   [] p = "Synthesise"   -> Synthesise
                   [] OTHER              -> FALSE
TNext == /\ l <= Len(TraceData)
         /\ l' = l + 1
         /\ CASE Ev.e = "Reset"          -> /\ phase = "Exited"
                                            /\ phase' = "Start" /\ errors' = 0 /\ sawErrors' = FALSE
                                            /\ executed' = FALSE /\ ok' = FALSE /\ exit' = -1
              [] Ev.e = "Phase"          -> PhaseEvent(Ev.p)
              [] Ev.e = "AstTransformer" -> Transform
              [] Ev.e = "ExitIfErrors"   -> CheckFail(Ev.errors)
              [] Ev.e = "Stmt"           -> Stmt
              [] Ev.e = "Exit"           -> /\ Ev.signal = 0 /\ ~Ev.timeout /\ ~Ev.internal
                                            /\ (Ev.expect = "accept" => Ev.code = 0 /\ ~Ev.diag)
                                            /\ (Ev.expect = "reject" => Ev.code = 1 /\ Ev.diag /\ Ev.outs = 0 /\ ~executed)
                                            /\ Exit(Ev.code, Ev.diag, Ev.outs)
              [] OTHER                   -> FALSE
TSpec == TInit /\ [][TNext]_tvars
Accepted == TLCGet("stats").diameter - 1 = Len(TraceData)
=============================================================================
