CONSTANT Threads <- T2
CONSTANT M = 3
CONSTANT Fill <- FillA
CONSTANT Prog <- ProgA
CONSTANT UseHints <- NoHints
SPECIFICATION Spec
INVARIANT NoErr QuiescentOK FinalOK ParentsOK Progress
CHECK_DEADLOCK FALSE
