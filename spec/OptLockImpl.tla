---------------------------- MODULE OptLockImpl ----------------------------
(***************************************************************************)
(* Implementation-shaped specification of souffle's                        *)
(* OptimisticReadWriteLock (src/include/souffle/utility/ParallelUtil.h).   *)
(* One action per atomic access of `version`; the action names are the     *)
(* scheduling points of hook H2 (orw.sr.load, orw.validate, orw.up.for,    *)
(* orw.sw.for, orw.tsw.for, orw.abort, orw.end).                           *)
(*                                                                         *)
(* A client runs a sequence of operations (Prog[c]):                       *)
(*   "read"     lease = start_read(); ...; validate(lease)                 *)
(*   "rw"       lease = start_read(); if try_upgrade_to_write(lease)       *)
(*                                       then end_write()                  *)
(*   "rabort"   same, but abort_write() instead of end_write()             *)
(*   "write"    start_write(); end_write()                                 *)
(*   "wabort"   start_write(); abort_write()                               *)
(*   "trywrite" if try_start_write() then end_write()                      *)
(*                                                                         *)
(* Ghost state (not in the code): `commits` counts committed write phases, *)
(* lease[c].c / lease[c].w remember `commits` and the presence of a writer *)
(* when the lease was taken, wbase[c] the version before c's write phase,  *)
(* sound[c] whether the last successful validation was justified.          *)
(***************************************************************************)
EXTENDS Integers, Sequences, FiniteSets, TLC

CONSTANTS Clients,      \* e.g. 1..3
          ProgSpace     \* set of functions Clients -> Seq(op); every element is an initial state

Ops == {"read", "rw", "rabort", "write", "wabort", "trywrite"}

VARIABLES prog,      \* the client programs of this behaviour
          version,   \* the atomic<int>
          pc,        \* per client: next, sr_load, reading, up_abort, sw_for, tsw_for, writing
          ip,        \* per client: index of the current operation
          lease,     \* per client: [v |-> version read by start_read, c |-> commits then]
          res,       \* per client: result of the last completed operation (visible on return)
          commits,   \* ghost: number of committed write phases
          wbase,     \* ghost: version at the beginning of the client's write phase
          sound      \* ghost: last "valid"/"upok" answer was justified
vars == <<prog, version, pc, ip, lease, res, commits, wbase, sound>>

Odd(v) == v % 2 = 1
Op(c) == IF ip[c] <= Len(prog[c]) THEN prog[c][ip[c]] ELSE "done"
Writers == {c \in Clients : pc[c] = "writing"}
LockHolders == {c \in Clients : pc[c] \in {"writing", "up_abort"}}

Init == /\ prog \in ProgSpace
        /\ version = 0
        /\ pc = [c \in Clients |-> "next"]
        /\ ip = [c \in Clients |-> 1]
        /\ lease = [c \in Clients |-> [v |-> 0, c |-> 0]]
        /\ res = [c \in Clients |-> "none"]
        /\ commits = 0
        /\ wbase = [c \in Clients |-> 0]
        /\ sound = [c \in Clients |-> TRUE]

Goto(c, l) == pc' = [pc EXCEPT ![c] = l]
Return(c, r) == /\ res' = [res EXCEPT ![c] = r]
                /\ ip' = [ip EXCEPT ![c] = @ + 1]
                /\ pc' = [pc EXCEPT ![c] = "next"]

\* operation boundary: the driver's "begin next operation" step (no shared access)
Begin(c) == /\ pc[c] = "next" /\ Op(c) # "done"
            /\ Goto(c, CASE Op(c) \in {"read", "rw", "rabort"} -> "sr_load"
                         [] Op(c) \in {"write", "wabort"} -> "sw_for"
                         [] Op(c) = "trywrite" -> "tsw_for")
            /\ UNCHANGED <<prog, version, ip, lease, res, commits, wbase, sound>>

\* start_read: v = version.load(); spin while odd
SrLoad(c) == /\ pc[c] = "sr_load"
             /\ IF Odd(version)
                  THEN UNCHANGED <<pc, lease>>
                  ELSE /\ lease' = [lease EXCEPT ![c] = [v |-> version, c |-> commits]]
                       /\ Goto(c, "reading")
             /\ UNCHANGED <<prog, version, ip, res, commits, wbase, sound>>

\* validate: lease.version == version.load()
Validate(c) == /\ pc[c] = "reading" /\ Op(c) = "read"
               /\ LET ok == lease[c].v = version IN
                  /\ Return(c, IF ok THEN "valid" ELSE "invalid")
                  /\ sound' = [sound EXCEPT ![c] = ok => (commits = lease[c].c /\ Writers = {})]
               /\ UNCHANGED <<prog, version, lease, commits, wbase>>

\* try_upgrade_to_write: v = fetch_or(1); odd -> false; v = lease -> true; else abort_write, false
UpgradeFor(c) ==
    /\ pc[c] = "reading" /\ Op(c) \in {"rw", "rabort"}
    /\ version' = IF Odd(version) THEN version ELSE version + 1
    /\ IF Odd(version)
         THEN /\ Return(c, "upfail") /\ UNCHANGED <<wbase, sound>>
         ELSE IF lease[c].v = version
           THEN /\ Goto(c, "writing") /\ UNCHANGED <<res, ip>>
                /\ wbase' = [wbase EXCEPT ![c] = version]
                /\ sound' = [sound EXCEPT ![c] = (commits = lease[c].c /\ Writers = {})]
           ELSE /\ Goto(c, "up_abort") /\ UNCHANGED <<res, ip, sound>>
                /\ wbase' = [wbase EXCEPT ![c] = version]
    /\ UNCHANGED <<prog, lease, commits>>

\* the abort_write() inside a failed upgrade
UpAbort(c) == /\ pc[c] = "up_abort"
              /\ version' = version - 1
              /\ Return(c, "upfail")
              /\ UNCHANGED <<prog, lease, commits, wbase, sound>>

\* start_write: fetch_or(1), spin while the old value was odd
SwFor(c) == /\ pc[c] = "sw_for"
            /\ IF Odd(version)
                 THEN UNCHANGED <<version, pc, wbase>>
                 ELSE /\ version' = version + 1 /\ Goto(c, "writing")
                      /\ wbase' = [wbase EXCEPT ![c] = version]
            /\ UNCHANGED <<prog, ip, lease, res, commits, sound>>

\* try_start_write: one fetch_or(1)
TswFor(c) == /\ pc[c] = "tsw_for"
             /\ IF Odd(version)
                  THEN /\ Return(c, "tryfail") /\ UNCHANGED <<version, wbase>>
                  ELSE /\ version' = version + 1 /\ Goto(c, "writing") /\ UNCHANGED <<res, ip>>
                       /\ wbase' = [wbase EXCEPT ![c] = version]
             /\ UNCHANGED <<prog, lease, commits, sound>>

\* end_write: fetch_add(1)
EndWrite(c) == /\ pc[c] = "writing" /\ Op(c) \in {"rw", "write", "trywrite"}
               /\ version' = version + 1
               /\ commits' = commits + 1
               /\ Return(c, CASE Op(c) = "rw" -> "upok" [] Op(c) = "write" -> "wrote" [] OTHER -> "tryok")
               /\ UNCHANGED <<prog, lease, wbase, sound>>

\* abort_write: fetch_sub(1)
AbortWrite(c) == /\ pc[c] = "writing" /\ Op(c) \in {"rabort", "wabort"}
                 /\ version' = version - 1
                 /\ Return(c, IF Op(c) = "rabort" THEN "upok" ELSE "aborted")
                 /\ UNCHANGED <<prog, lease, commits, wbase, sound>>

Step(c) == \/ Begin(c) \/ SrLoad(c) \/ Validate(c) \/ UpgradeFor(c) \/ UpAbort(c)
           \/ SwFor(c) \/ TswFor(c) \/ EndWrite(c) \/ AbortWrite(c)
Next == \E c \in Clients : Step(c)
Spec == Init /\ [][Next]_vars
FairSpec == Spec /\ \A c \in Clients : WF_vars(Step(c))

(***************************************************************************)
(* Properties (C30)                                                        *)
(***************************************************************************)
TypeOK == /\ version \in Nat
          /\ \A c \in Clients : pc[c] \in {"next", "sr_load", "reading", "up_abort", "sw_for", "tsw_for", "writing"}

\* at most one writer holds the lock at any time
MutualExclusion == Cardinality(LockHolders) <= 1
\* odd version <=> somebody holds the write permission
OddIffHeld == Odd(version) <=> LockHolders # {}
\* a validation (or upgrade) succeeds only if no committed or ongoing write phase overlapped the read phase
ValidateSound == \A c \in Clients : sound[c]
\* an aborted write restores the version the write phase started from, so outstanding leases stay valid
AbortRestores == [][\A c \in Clients :
                      (pc[c] \in {"writing", "up_abort"} /\ pc'[c] = "next" /\ version' < version)
                          => version' = wbase[c]]_vars
\* the version never decreases below a committed version: committed phases add exactly 2
VersionCounts == (LockHolders = {}) => version = 2 * commits
\* no operation livelocks: under weak fairness every client finishes its program
AllDone == \A c \in Clients : Op(c) = "done" /\ pc[c] = "next"
Termination == <>AllDone
\* a pending start_write gets the lock whenever writers keep finishing
Progress == \A c \in Clients : (pc[c] = "sw_for") ~> (pc[c] = "writing")
=============================================================================
