------------------------------- MODULE Judge -------------------------------
(***************************************************************************)
(* Result predicates: properties whose contract is a SET of admissible     *)
(* outcomes (size limits, choice-domain, subsumption, lattices, ...) are   *)
(* stated here as predicates over (what the spec computed, what the real   *)
(* souffle produced).  JudgeData (generated) defines JudgeCases, a         *)
(* sequence of records; TLC evaluates Verdict on every case and prints it. *)
(***************************************************************************)
EXTENDS Integers, Sequences, FiniteSets, TLC, JudgeData
SeqSetJ(s) == {s[i] : i \in 1..Len(s)}

\* C23: a size limit truncates recursion soundly.  model = unlimited result, out = real output, k = limit
LimitOK(c) == LET M == SeqSetJ(c.model)  O == SeqSetJ(c.out) IN
              /\ O \subseteq M
              /\ (Cardinality(M) < c.k => O = M)
              /\ (Cardinality(M) >= c.k => Cardinality(O) >= c.k)
\* C22: auto-increment values are unique within a run.  vals = every value produced (a sequence, with repetitions)
AutoIncOK(c) == \A i, j \in 1..Len(c.vals) : i # j => c.vals[i] # c.vals[j]
\* C20: profile size = relation size.  sizes = <<[rel, reported, actual]>>
ProfileOK(c) == \A i \in 1..Len(c.sizes) : c.sizes[i].reported = c.sizes[i].actual

Verdict(c) == CASE c.kind = "limit" -> LimitOK(c)
                [] c.kind = "autoinc" -> AutoIncOK(c)
                [] c.kind = "profile" -> ProfileOK(c)

VARIABLE i
Init == i \in 1..Len(JudgeCases)
Next == UNCHANGED i
Spec == Init /\ [][Next]_i
Emit == PrintT(<<"VERDICT", i, Verdict(JudgeCases[i])>>)
=============================================================================
