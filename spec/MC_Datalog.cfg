SPECIFICATION Spec
INVARIANT IsModel Supported Emit
PROPERTY Monotone
CHECK_DEADLOCK FALSE
