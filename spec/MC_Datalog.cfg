SPECIFICATION Spec
CONSTANT Programs <- ProgramsFromFile
INVARIANT IsModel Supported Emit
PROPERTY Monotone
CHECK_DEADLOCK FALSE
