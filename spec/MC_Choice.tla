----------------------------- MODULE MC_Choice -----------------------------
(* Judges real final databases: DatalogData defines Programs and ChoiceCases == << [p, edb, final] >>. *)
EXTENDS Choice
VARIABLE ci
\* the variables of Datalog's own state machine are not used here: pin them
JInit == /\ ci \in 1..Len(ChoiceCases)
         /\ pi = 1 /\ edb = <<>> /\ I = <<>> /\ si = 1 /\ iters = <<>> /\ k = 0 /\ oob = FALSE
JNext == UNCHANGED <<ci, vars>>
JSpec == JInit /\ [][JNext]_<<ci, vars>>
ToSets(f) == [r \in DOMAIN f |-> SeqToSet(f[r])]
Case == ChoiceCases[ci]
Emit == PrintT(<<"VERDICT", ci, ChoiceOK(Programs[Case.p], ToSets(Case.final), ToSets(Case.edb)),
                 ChoiceDiag(Programs[Case.p], ToSets(Case.final), ToSets(Case.edb))>>)
=============================================================================
