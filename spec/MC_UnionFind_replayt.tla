---- MODULE MC_UnionFind_replayt ----
EXTENDS MC_UnionFind
Space == ReplayT(4)
====
