------------------------------- MODULE Driver -------------------------------
(***************************************************************************)
(* Life cycle of one souffle invocation (MainDriver.cpp souffle::main,     *)
(* ast/transform/Transformer.cpp apply, reports/ErrorReport.h exitIfErrors)*)
(* at the level of properties C13 ("rejected ... without evaluating        *)
(* anything") and C14 ("ends with either a successful run or error         *)
(* diagnostics and exit status 1; never a signal, assertion, internal      *)
(* error or hang").                                                        *)
(*                                                                         *)
(* The machine is the INTENDED driver: the error report is consulted at    *)
(* check points (after parsing, after every AST transformer); a check      *)
(* point that finds errors aborts with status 1; only an error-free        *)
(* translation unit is translated, optimised and executed; the process     *)
(* ends with status 0 after a successful run and with status 1 plus a      *)
(* diagnostic otherwise.  There is NO transition for a death by signal, a  *)
(* failed assertion, an internal-error abort or a time-out: a recorded run *)
(* that ends that way is not a behaviour of this machine.                  *)
(*                                                                         *)
(* `errors` is the error count seen at the last check point (that is what  *)
(* the hook H7 reports); transformers between two check points do not      *)
(* change it.  The machine is lenient where the property is silent: a      *)
(* driver may run further AST passes while errors are pending, but it can  *)
(* never reach Transformed/Translated/Executing with them.                 *)
(***************************************************************************)
EXTENDS Integers, TLC

CONSTANT MaxErrors          \* bound on the error count (model checking only; trace validation uses Nat)

VARIABLES phase,      \* where the driver is
          errors,     \* error count at the last check point
          sawErrors,  \* history: some check point has seen errors > 0
          executed,   \* history: evaluation has started (Execute / IO / Query ...)
          ok,         \* result of the evaluation (interpretTranslationUnit)
          exit        \* exit status of the process; -1 while running
vars == <<phase, errors, sawErrors, executed, ok, exit>>

Rank == [Start |-> 0, Parsed |-> 1, Transforming |-> 2, Transformed |-> 3, Translated |-> 4, RamOptimised |-> 5,
         Executing |-> 6, Synthesising |-> 6, Executed |-> 7, Failed |-> 8, Exited |-> 9]
Phases == DOMAIN Rank

Init == phase = "Start" /\ errors = 0 /\ sawErrors = FALSE /\ executed = FALSE /\ ok = FALSE /\ exit = -1

\* ParserDriver::parseTranslationUnit returned; n syntax errors are in the report   (event Phase/Parsed)
Parse(n) == /\ phase = "Start" /\ phase' = "Parsed"
            /\ errors' = n /\ sawErrors' = (n > 0)
            /\ UNCHANGED <<executed, ok, exit>>
\* one or more AST transformers ran (Transformer::apply)                               (event AstTransformer)
Transform == /\ phase \in {"Parsed", "Transforming"} /\ phase' = "Transforming"
             /\ UNCHANGED <<errors, sawErrors, executed, ok, exit>>
\* a check point found n > 0 errors: print the report and leave                        (event ExitIfErrors)
CheckFail(n) == /\ phase \in {"Parsed", "Transforming"} /\ n > 0 /\ n >= errors
                /\ phase' = "Failed" /\ errors' = n /\ sawErrors' = TRUE
                /\ UNCHANGED <<executed, ok, exit>>
\* the pipeline ended and every check point passed                                     (event Phase/Transformed)
TransformDone == /\ phase \in {"Parsed", "Transforming"} /\ errors = 0
                 /\ phase' = "Transformed" /\ UNCHANGED <<errors, sawErrors, executed, ok, exit>>
Translate   == phase = "Transformed"  /\ phase' = "Translated"   /\ UNCHANGED <<errors, sawErrors, executed, ok, exit>>
RamOptimise == phase = "Translated"   /\ phase' = "RamOptimised" /\ UNCHANGED <<errors, sawErrors, executed, ok, exit>>
\* the interpreter starts                                                              (event Phase/Execute)
Execute == /\ phase = "RamOptimised" /\ phase' = "Executing" /\ executed' = TRUE
           /\ UNCHANGED <<errors, sawErrors, ok, exit>>
\* one RAM statement was executed (IO, Query, Call, ...)                               (interpreter events)
Stmt == phase = "Executing" /\ UNCHANGED vars
\* the interpreter returned                                                            (event Phase/Executed)
ExecDone(b) == /\ phase = "Executing" /\ phase' = "Executed" /\ ok' = b
               /\ UNCHANGED <<errors, sawErrors, executed, exit>>
\* code generation instead of interpretation                                           (event Phase/Synthesise)
Synthesise == phase = "RamOptimised" /\ phase' = "Synthesising" /\ UNCHANGED <<errors, sawErrors, executed, ok, exit>>

\* the process ends: c = status, diag = an error diagnostic was printed, outs = number of output files written
ExitGuard(c, diag, outs) ==
    /\ c \in {0, 1}
    /\ (c = 1 => diag)                                           \* status 1 comes with a diagnostic
    /\ (sawErrors => c = 1 /\ outs = 0 /\ phase = "Failed")      \* errors: status 1, nothing written
    /\ (c = 0 => /\ phase \in {"Executed", "Synthesising"}       \* status 0 only after a successful run
                 /\ (phase = "Executed" => ok))
    /\ (phase = "Executed" /\ ~ok => c = 1)
Exit(c, diag, outs) == /\ phase # "Exited" /\ ExitGuard(c, diag, outs)
                       /\ phase' = "Exited" /\ exit' = c
                       /\ UNCHANGED <<errors, sawErrors, executed, ok>>

Next == \/ \E n \in 0..MaxErrors : Parse(n) \/ CheckFail(n)
        \/ Transform \/ TransformDone \/ Translate \/ RamOptimise \/ Execute \/ Stmt \/ Synthesise
        \/ \E b \in BOOLEAN : ExecDone(b)
        \/ \E c \in {0, 1}, d \in BOOLEAN, o \in 0..1 : Exit(c, d, o)
Spec == Init /\ [][Next]_vars
FairSpec == Spec /\ WF_vars(Next)

\* ---- properties (checked by TLC on this machine; the real runs are bound to it by DriverTrace) ----------------
TypeOK == /\ phase \in Phases /\ errors \in 0..MaxErrors /\ sawErrors \in BOOLEAN /\ executed \in BOOLEAN
          /\ ok \in BOOLEAN /\ exit \in {-1, 0, 1}
\* errors > 0 at a check point => nothing is ever evaluated
NoExecAfterErrors == sawErrors => ~executed
\* ... and the status is 1
ErrorsExitOne == (phase = "Exited" /\ sawErrors) => exit = 1
ExitCodes == exit \in {-1, 0, 1} /\ (phase = "Exited" <=> exit # -1)
\* a translation unit with errors is never translated
NoTranslateWithErrors == phase \in {"Transformed", "Translated", "RamOptimised", "Executing", "Executed", "Synthesising"}
                            => errors = 0 /\ ~sawErrors
\* phases only advance
PhasesAdvance == [][Rank[phase'] >= Rank[phase]]_vars
\* errors at a check point lead to exit status 1
ErrorsLeadToExit == sawErrors ~> (phase = "Exited" /\ exit = 1)
=============================================================================
