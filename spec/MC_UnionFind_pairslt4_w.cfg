CONSTANTS N = 4  NT = 2  Variant = "written"
CONSTANT ConfigSpace <- Space
SPECIFICATION Spec
INVARIANT TypeOK Acyclic UnionsHold NoSpurious FinalPartition SameSetSound FindSound
CHECK_DEADLOCK FALSE
