CONSTANT Threads = {1, 2, 3}
CONSTANT NLanes = 3
CONSTANT Values = {1, 2}
CONSTANT InitCap = 2
CONSTANT Reserve = FALSE
CONSTANT InitBuckets = 2
CONSTANT InitMaxSize = 0
CONSTANT HashMul = 1
CONSTANT MaxNode = 5
CONSTANT Scenarios <- Sc3
SPECIFICATION Spec
INVARIANT TypeOK GhostOK SameValueSameIndex DiffValueDiffIndex DecodeOK NoNil OneInserter MapOK SlotsAgree ReservedOK SlotLocalOK IterOK LocksFree
PROPERTY ReturnsLinResult
