SPECIFICATION Spec
CONSTANT MaxMut = 1
VIEW View
INVARIANT Bounded Emit
CHECK_DEADLOCK FALSE
