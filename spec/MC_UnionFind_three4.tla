---- MODULE MC_UnionFind_three4 ----
EXTENDS MC_UnionFind
Space == Three(4)
====
