---------------------------- MODULE MC_Functors ----------------------------
(***************************************************************************)
(* C24: TLC enumerates, for every intrinsic functor and binary constraint, *)
(* the argument vectors over boundary-value sets (below) plus the seeded   *)
(* random vectors of the generated data module FunctorData, applies the    *)
(* specification (Functors.tla, Dyadic.tla) and prints one JSON line per   *)
(* vector:  [op, a, k, def, r, alt]                                        *)
(*   k    "fn" functor, "gen" generator (r is the whole sequence), "cmp"   *)
(*   def  FALSE: outside the specification's domain (r is then <<>>)       *)
(*   r    <<v>> (fn), <<v1, ..., vn>> (gen), <<b>> (cmp)                   *)
(*   alt  for U2S / F2S only: the text a type-blind std::to_string of the  *)
(*        raw 32-bit word would give (the signature of a known defect)     *)
(* Every vector is one state; Emit is checked on each of them.             *)
(***************************************************************************)
EXTENDS Dyadic, Json, FunctorData      \* FunctorData: Tier, RandVecs

VARIABLE v
Thorough == Tier = "thorough"

MaxI == MaxInt
\* ---- boundary values per type --------------------------------------------
SI == {0, 1, -1, 2, -2, 3, 7, -8, 10, 255, 65536, -65536, 46340, 46341, 1073741824, MaxI, MaxI - 1, MinInt, MinInt + 1}
      \cup (IF Thorough THEN {-3, 5, 16, 31, 32, 33, 100, -100, 256, 65535, -65535, 32768, -46341, -1073741824,
                               1073741823, 1431655765, -1431655766} ELSE {})
\* unsigned values as signed twins: MinInt = 2^31, -1 = 2^32-1
SU == {0, 1, 2, 3, 7, 10, 255, 65535, 65536, 65537, MaxI, MinInt, MinInt + 1, -1, -2, -8}
      \cup (IF Thorough THEN {5, 16, 31, 32, 33, 100, 256, 46341, 1073741824, -65536, -1073741824, 1431655765,
                               -1431655766, -16777216, -256} ELSE {})
\* shift amounts (the second operand of a shift is any value of the type)
SH == {0, 1, 4, 31, 32, 33, 63, 64, -1, MinInt, 65539} \cup (IF Thorough THEN {2, 8, 16, 30, 35, MaxI, -31, -32} ELSE {})
\* small values for three-argument vectors
SI3 == {0, 1, -1, 7, MaxI, MinInt}
SU3 == {0, 1, 7, MaxI, MinInt, -1}
\* exponents
SE == {0, 1, 2, 3, 5, 15, 16, 30, 31, 32, 33, 64, 65, -1, -2, MinInt, MaxI}
SB == {0, 1, -1, 2, -2, 3, -3, 10, 256, 46340, 46341, 65536, MaxI, MinInt}
SBU == {0, 1, 2, 3, 10, 255, 256, 65535, 65536, MaxI, MinInt, -1}
\* dyadic floats
SF == {PZero, NZero, PInf, NInf, NaN,
       Fin(1, -1), Fin(-1, -1), Fin(1, 0), Fin(-1, 0), Fin(3, -1), Fin(3, 0), Fin(-3, 0), Fin(1, 1), Fin(5, -3),
       Fin(25, 2), Fin(1, 23), Fin(16777215, 0), Fin(-16777215, 0), Fin(1, 24), Fin(1, -10), Fin(1, 31), Fin(-1, 31),
       Fin(1, 32), Fin(8388607, -23)}
      \cup (IF Thorough THEN {Fin(1, -24), Fin(3, -2), Fin(7, -6), Fin(1, -7), Fin(1, 40), Fin(1, -40), Fin(16777215, 8),
                               Fin(16777215, 7), Fin(-16777215, 104), Fin(1, -126), Fin(1, 127), Fin(255, 0),
                               Fin(-255, 23), Fin(65535, -16), Fin(1, 30), Fin(2147483647 \div 128, 7)} ELSE {})
SF3 == {PZero, NZero, Fin(1, 0), Fin(-3, -1), PInf, NaN}
SFE == {PZero, NZero, Fin(1, 0), Fin(-1, 0), Fin(1, 1), Fin(-1, 1), Fin(3, 0), Fin(-3, 0), Fin(1, -1), Fin(1, 4), Fin(-1, 4),
        Fin(17, 0), Fin(1, 2), PInf, NaN}
\* strings
SS == {"", "a", "ab", "abc", "b", "B", "a.c", "aa", "abcabc", "bc", "0", "-5", "12"}
      \cup (IF Thorough THEN {"A", "Ab", "abd", "c", " ", "a b", "~", "ab*c", "10", "9"} ELSE {})
SS3 == {"", "a", "ab", "B", "abc"}
\* texts given to to_number / to_unsigned / to_float
SN == {"", "0", "7", "-7", "-0", "007", "12", "2147483647", "2147483648", "-2147483648", "-2147483649", "4294967295",
       "4294967296", "04294967295", "99999999999", "1.5", "-1.5", "0.25", "0.1", "-0.0", "0.0", "3.0", "100", "16777215",
       "16777217", "123456789", "0.000001", "0.015625", "12x", " 12", "+12", "abc", "-", ".", "1.", ".5", "1.2.3", "0x10"}
\* substr(s, i, l): indices around both ends
SSub == {"", "a", "abc", "abcdef"}
SIdx == {-1, 0, 1, 2, 3, 4, 6, 7, MaxI}
\* match(pattern, text): patterns inside and outside the specified fragment
SPat == {"", "a", "a*", ".*", "a.c", "ab*c", ".", "a*b*", "abc", "b*", "..", "a|b", "[ab]", "a+", "*a"}
SText == {"", "a", "b", "ab", "abc", "aa", "abbc", "ac", "a.c", "B", "aabb"}
\* range bounds and steps
SR == {-3, 0, 2, 5, MaxI - 1, MaxI, MinInt, MinInt + 2}
SRS == {0, 1, -1, 2, -2, 3, MaxI, MinInt}
SRU == {0, 2, 5, 40, MaxI, MinInt, -2, -1}
SRUS == {0, 1, 2, 3, MaxI, MinInt, -1}
SRF == {PZero, NZero, Fin(5, 0), Fin(15, -2), Fin(-3, 0), Fin(1, 1), Fin(1, 24), Fin(16777215, 0)}
SRFS == {PZero, Fin(1, 0), Fin(-1, 0), Fin(-1, -1), Fin(3, -2), Fin(1, -30), Fin(1, 1)}

\* ---- operators by signature ------------------------------------------------
\* A vector is <<op, args>>: the operator first, because TLC orders tuples element-wise and values of different
\* types must never be compared.  Families is a sequence (not a set) for the same reason.
\* Nothing of the size of the whole vector set is a constant definition: TLC evaluates those once per worker.
Fam(ops, doms) == [ops |-> ops, doms |-> doms]
Families == <<
    \* signed
    Fam({"NEG", "BNOT", "LNOT", "I2I", "I2U", "I2S", "I2F"}, <<SI>>),
    Fam({"ADD", "SUB", "MUL", "DIV", "MOD", "MAX", "MIN", "BAND", "BOR", "BXOR", "LAND", "LOR", "LXOR",
         "EQ", "NE", "LT", "LE", "GT", "GE"}, <<SI, SI>>),
    Fam({"BSHIFT_L", "BSHIFT_R", "BSHIFT_R_UNSIGNED"}, <<SI, SH>>),
    Fam({"EXP"}, <<SB, SE>>),
    Fam({"MAX", "MIN"}, <<SI3, SI3, SI3>>),
    \* unsigned
    Fam({"UBNOT", "ULNOT", "U2U", "U2I", "U2S", "U2F"}, <<SU>>),
    Fam({"UADD", "USUB", "UMUL", "UDIV", "UMOD", "UMAX", "UMIN", "UBAND", "UBOR", "UBXOR", "ULAND", "ULOR", "ULXOR",
         "UEQ", "UNE", "ULT", "ULE", "UGT", "UGE"}, <<SU, SU>>),
    Fam({"UBSHIFT_L", "UBSHIFT_R", "UBSHIFT_R_UNSIGNED"}, <<SU, SH>>),
    Fam({"UEXP"}, <<SBU, SE>>),
    Fam({"UMAX", "UMIN"}, <<SU3, SU3, SU3>>),
    \* float
    Fam({"FNEG", "F2F", "F2I", "F2U", "F2S"}, <<SF>>),
    Fam({"FADD", "FSUB", "FMUL", "FDIV", "FMAX", "FMIN", "FEQ", "FNE", "FLT", "FLE", "FGT", "FGE"}, <<SF, SF>>),
    Fam({"FEXP"}, <<SF, SFE>>),
    Fam({"FMAX", "FMIN"}, <<SF3, SF3, SF3>>),
    \* symbol
    Fam({"STRLEN", "S2S"}, <<SS>>),
    Fam({"S2I", "S2U", "S2F"}, <<SN>>),
    Fam({"CAT", "SSADD", "SMAX", "SMIN", "SEQ", "SNE", "SLT", "SLE", "SGT", "SGE", "CONTAINS", "NOT_CONTAINS"}, <<SS, SS>>),
    Fam({"CAT", "SMAX", "SMIN"}, <<SS3, SS3, SS3>>),
    Fam({"SUBSTR"}, <<SSub, SIdx, SIdx>>),
    Fam({"MATCH", "NOT_MATCH"}, <<SPat, SText>>),
    \* generators
    Fam({"RANGE"}, <<SR, SR>>), Fam({"RANGE"}, <<SR, SR, SRS>>),
    Fam({"URANGE"}, <<SRU, SRU>>), Fam({"URANGE"}, <<SRU, SRU, SRUS>>),
    Fam({"FRANGE"}, <<SRF, SRF>>), Fam({"FRANGE"}, <<SRF, SRF, SRFS>>) >>

Prod(o, d) == CASE Len(d) = 1 -> {<<o, <<x>>>> : x \in d[1]}
                [] Len(d) = 2 -> {<<o, <<x, y>>>> : x \in d[1], y \in d[2]}
                [] Len(d) = 3 -> {<<o, <<x, y, z>>>> : x \in d[1], y \in d[2], z \in d[3]}
\* RandVecs (FunctorData) is a function: operator name -> sequence of argument vectors
RandOf(o) == IF o \in DOMAIN RandVecs THEN {<<o, RandVecs[o][i]>> : i \in 1..Len(RandVecs[o])} ELSE {}
VecsOf(o) == UNION {Prod(o, Families[i].doms) : i \in {j \in 1..Len(Families) : o \in Families[j].ops}} \cup RandOf(o)
AllOps == UNION {Families[i].ops : i \in 1..Len(Families)} \cup DOMAIN RandVecs

\* ---- the specification applied --------------------------------------------
GenOps == {"RANGE", "URANGE", "FRANGE"}
\* EQ / NE exist once per representation (RamDomain compare); the type prefix here only names the operand type
CmpOps == {"EQ", "NE", "LT", "LE", "GT", "GE", "UEQ", "UNE", "ULT", "ULE", "UGT", "UGE",
           "SEQ", "SNE", "SLT", "SLE", "SGT", "SGE", "CONTAINS", "NOT_CONTAINS", "MATCH", "NOT_MATCH"} \cup FCmpOps
BaseCmp(o) == CASE o \in {"UEQ", "SEQ"} -> "EQ" [] o \in {"UNE", "SNE"} -> "NE" [] OTHER -> o

Kind(o) == IF o \in GenOps THEN "gen" ELSE IF o \in CmpOps THEN "cmp" ELSE "fn"
Result(o, a) ==
    IF o \in FCmpOps THEN FCmpX(o, a[1], a[2])
    ELSE IF o \in CmpOps THEN CmpX(BaseCmp(o), a[1], a[2])
    ELSE IF o \in FloatOps THEN FApply(o, a)
    ELSE ApplyX(o, a)
Alt(o, a) == CASE o = "U2S" -> <<ToString(a[1])>>
               [] o = "F2S" -> IF IsNaN(a[1]) THEN <<>> ELSE <<ToString(BitsOf(a[1]))>>
               [] OTHER -> <<>>
Line(o, a) ==
    LET res == Result(o, a) IN
    [op |-> o, a |-> a, k |-> Kind(o), def |-> res # <<>>,
     r |-> IF res = <<>> THEN <<>> ELSE IF Kind(o) = "gen" THEN res[1] ELSE res,
     alt |-> Alt(o, a)]

\* One initial state per operator; its successors are that operator's vectors (so that TLC's workers share the
\* evaluation: initial states are computed by a single thread).  A vector state has no successor but itself.
IsVec == v[1] # "operator"
Init == v \in {<<"operator", o>> : o \in AllOps}
Next == IF IsVec THEN UNCHANGED v ELSE v' \in VecsOf(v[2])
Spec == Init /\ [][Next]_v
Emit == IsVec => PrintT(ToJson(Line(v[1], v[2])))

\* ---- properties of the specification itself (checked on every vector) ------
\* a float result is one of the modelled values
IsFloatVal(x) == WellFormed(x)
FloatResultOps == {"FNEG", "FADD", "FSUB", "FMUL", "FDIV", "FEXP", "FMAX", "FMIN", "F2F", "I2F", "U2F", "S2F"}
ResultsWellFormed ==
    IsVec => LET res == Result(v[1], v[2]) IN
    (v[1] \in FloatResultOps /\ res # <<>>) => IsFloatVal(res[1])
\* algebraic cross-checks between independently written operators
CrossChecks ==
    IsVec => LET o == v[1]  a == v[2] IN
    /\ (o = "UDIV" /\ a[2] # 0) => AddW(MulW(UDiv(a[1], a[2]), a[2]), UMod(a[1], a[2])) = a[1]
    /\ (o = "DIV" /\ DivOK(a[1], a[2])) => TDiv(a[1], a[2]) * a[2] + TMod(a[1], a[2]) = a[1]
    /\ (o = "U2S") => ParseUnsigned(UDecimal(a[1])) = <<a[1]>>
    /\ (o = "I2S") => ParseSigned(ToString(a[1])) = <<a[1]>>
    /\ (o = "ADD" /\ AddOK(a[1], a[2])) => a[1] + a[2] = AddW(a[1], a[2])
    /\ (o = "MUL" /\ MulOK(a[1], a[2])) => a[1] * a[2] = MulW(a[1], a[2])
    /\ (o = "FSUB" /\ IsFin(a[1]) /\ IsFin(a[2]) /\ FSubV(a[1], a[2]) # <<>> /\ IsFin(FSubV(a[1], a[2])[1]))
           => FAddV(FSubV(a[1], a[2])[1], a[2]) \in {<<a[1]>>, <<>>}
    /\ (o = "FLT") => (FLt(a[1], a[2]) => ~FLt(a[2], a[1]))
    /\ (o = "I2F" /\ I2FV(a[1]) # <<>>) => F2IV(I2FV(a[1])[1]) = <<a[1]>>
    /\ (o = "F2S" /\ IsFin(a[1]) /\ F2SV(a[1]) # <<>>) => S2FV(F2SV(a[1])[1]) \in {<<a[1]>>, <<>>}
=============================================================================
