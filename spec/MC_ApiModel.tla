---------------------------- MODULE MC_ApiModel ----------------------------
(* C21, file-based run = API run: TLC computes the model of every generated program on every EDB of its bounded   *)
(* space with Datalog.tla's state machine (as MC_Datalog does, one JSON line per terminal state) and checks that   *)
(* the pure operator ModelOf, which Api.tla uses for run(), yields the same interpretation.                        *)
EXTENDS MC_Datalog

PureModelAgrees == Finished => LET m == ModelOf(P, edb) IN m.I = I /\ m.o = oob
=============================================================================
