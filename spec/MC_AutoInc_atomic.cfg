CONSTANTS Workers = {1, 2, 3} PerWorker = 3 Atomic = TRUE
SPECIFICATION Spec
INVARIANT Unique Dense
CHECK_DEADLOCK FALSE
