----------------------------- MODULE JudgeProof -----------------------------
(***************************************************************************)
(* C19 judge: TLC evaluates Provenance!QueryVerdict on every question that *)
(* was put to the real `souffle -t explain` (interpreter or compiled).     *)
(* Generated data: DatalogData!Programs (the programs) and                 *)
(* JudgeProofData!JudgeCases, a sequence of                                *)
(*   [p |-> index into Programs, edb |-> rel |-> seq of tuples,            *)
(*    full |-> the model MC_Datalog printed for this EDB (cross-check),    *)
(*    rules |-> cited rules (parsed), qs |-> <<[rel, args, ans]>>].        *)
(* One initial state per case; the invariant prints the verdicts.          *)
(***************************************************************************)
EXTENDS Provenance, JudgeProofData

JInit == /\ pi \in 1..Len(JudgeCases)
         /\ edb = <<>> /\ I = <<>> /\ si = 0 /\ iters = <<>> /\ k = 0 /\ oob = FALSE
JNext == UNCHANGED vars
JSpec == JInit /\ [][JNext]_vars

Emit == LET c  == JudgeCases[pi]
            Pg == Programs[c.p]
            e  == [r \in DOMAIN c.edb |-> SeqToSet(c.edb[r])]
            M  == ModelOf(Pg, e).I
        IN /\ PrintT(<<"MODEL", pi, M = [r \in DOMAIN M |-> SeqToSet(c.full[r])]>>)
           /\ PrintT(<<"RULES", pi, CitedSound(c.rules, M)>>)
           /\ \A j \in 1..Len(c.qs) :
                 PrintT(<<"VERDICT", pi, j, QueryVerdict(c.qs[j], Pg, e, M, c.rules),
                          IF c.qs[j].ans.k = "tree" THEN TreeSize(c.qs[j].ans.tree) ELSE 0>>)
=============================================================================
