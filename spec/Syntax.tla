------------------------------ MODULE Syntax ------------------------------
(***************************************************************************)
(* C15: the catalogue of construct kinds of the souffle language           *)
(* (parser/parser.yy, parser/scanner.ll) as TLA+ data, plus                *)
(*   - the surface operator alphabet with the parser's precedence and      *)
(*     associativity (parser.yy %left/%right/%precedence lines) and the    *)
(*     typed FunctorOp each surface operator stands for (FunctorOps.cpp),  *)
(*   - Val: the value of an expression (Functors.tla ApplyX is the oracle),*)
(*   - NeedsPar: where a source text needs parentheses,                    *)
(*   - Probes(p): one minimal program per construct kind and variant, all  *)
(*     names prefixed with p so that probes can be composed,               *)
(*   - the family of expression trees (module MC_Syntax grows them).       *)
(* Programs are abstract syntax (records); the glue (vf/syntaxgen.py)      *)
(* writes them as text mechanically: every token it writes is a field of   *)
(* the abstract syntax (sym, text, par, form).                              *)
(*                                                                         *)
(* item   : pragma | type | functor | decl | delta | dir | clause | subsume *)
(*          | comp | init | override | raw                                 *)
(* term   : var any num str nil rec adt fn as udf autoinc dollar iter agg  *)
(* literal: atom neg cmp not group true false                              *)
(***************************************************************************)
EXTENDS Integers, Sequences, FiniteSets, TLC, Functors

\* ---- terms ---------------------------------------------------------------
V(n) == [k |-> "var", n |-> n]
AnyT == [k |-> "any"]
\* a numeric literal in a given spelling; ty in {"i","u","f"}; v its value (unsigned: signed twin; float: not modelled, 0)
L(text, ty, v) == [k |-> "num", text |-> text, ty |-> ty, v |-> v]
N(v) == L(ToString(v), "i", v)
S(v) == [k |-> "str", v |-> v]
NilT == [k |-> "nil"]
Rec(a) == [k |-> "rec", a |-> a]
Adt(b, a) == [k |-> "adt", b |-> b, a |-> a]
As(a, to) == [k |-> "as", a |-> <<a>>, to |-> to]
Udf(f, a) == [k |-> "udf", f |-> f, a |-> a]
AutoInc == [k |-> "autoinc"]
Dollar == [k |-> "dollar"]
IterCnt == [k |-> "iter"]
Agg(op, tgt, body) == [k |-> "agg", op |-> op, tgt |-> tgt, body |-> body, braces |-> TRUE]
AggBare(op, tgt, atom) == [k |-> "agg", op |-> op, tgt |-> tgt, body |-> <<atom>>, braces |-> FALSE]

\* ---- the surface operator alphabet -----------------------------------------
\* form: "infix" | "prefix" | "call"; prec: parser.yy precedence level (higher binds tighter); assoc "L" | "R" | "-"
\* kind: the construct-kind id; ops: type |-> FunctorOp enumerator (Functors.tla names)
Op(sym, form, prec, assoc, kind, ops) == [sym |-> sym, form |-> form, prec |-> prec, assoc |-> assoc, kind |-> kind, ops |-> ops]
IU(o) == [i |-> o, u |-> "U" \o o]
IUF(o) == [i |-> o, u |-> "U" \o o, f |-> "F" \o o]
InfixOps == <<
    Op("lor",   "infix", 1, "L", "functor:lor",   IU("LOR")),
    Op("lxor",  "infix", 2, "L", "functor:lxor",  IU("LXOR")),
    Op("land",  "infix", 3, "L", "functor:land",  IU("LAND")),
    Op("bor",   "infix", 4, "L", "functor:bor",   IU("BOR")),
    Op("bxor",  "infix", 5, "L", "functor:bxor",  IU("BXOR")),
    Op("band",  "infix", 6, "L", "functor:band",  IU("BAND")),
    Op("bshl",  "infix", 7, "L", "functor:bshl",  IU("BSHIFT_L")),
    Op("bshr",  "infix", 7, "L", "functor:bshr",  IU("BSHIFT_R")),
    Op("bshru", "infix", 7, "L", "functor:bshru", IU("BSHIFT_R_UNSIGNED")),
    Op("+",     "infix", 8, "L", "functor:add",   IUF("ADD") @@ [s |-> "SSADD"]),
    Op("-",     "infix", 8, "L", "functor:sub",   IUF("SUB")),
    Op("*",     "infix", 9, "L", "functor:mul",   IUF("MUL")),
    Op("/",     "infix", 9, "L", "functor:div",   IUF("DIV")),
    Op("%",     "infix", 9, "L", "functor:mod",   IU("MOD")),
    Op("^",     "infix", 11, "R", "functor:exp",  IUF("EXP")) >>
PrefixPrec == 10
PrefixOps == <<
    Op("-",    "prefix", PrefixPrec, "-", "functor:neg",  [i |-> "NEG", f |-> "FNEG"]),
    Op("bnot", "prefix", PrefixPrec, "-", "functor:bnot", IU("BNOT")),
    Op("lnot", "prefix", PrefixPrec, "-", "functor:lnot", IU("LNOT")) >>
CallOps2 == <<     \* binary call-form operators usable inside integer expression trees
    Op("max", "call", 99, "-", "functor:max", IUF("MAX") @@ [s |-> "SMAX"]),
    Op("min", "call", 99, "-", "functor:min", IUF("MIN") @@ [s |-> "SMIN"]) >>
SeqRange(s) == {s[i] : i \in 1..Len(s)}

\* an application; par: the source text puts parentheses around it
Fn(o, ty, a, par) == [k |-> "fn", form |-> o.form, sym |-> o.sym, op |-> o.ops[ty], kind |-> o.kind, prec |-> o.prec,
                      assoc |-> o.assoc, a |-> a, par |-> par]
Call(sym, op, a) == [k |-> "fn", form |-> "call", sym |-> sym, op |-> op, kind |-> "functor:" \o sym, prec |-> 99,
                     assoc |-> "-", a |-> a, par |-> FALSE]

\* does child c need parentheses as the pos-th operand (1 left / only, 2 right) of an application of o?
NeedsPar(o, pos, c) ==
    IF c.k # "fn" \/ c.form = "call" \/ o.form = "call" THEN FALSE
    ELSE IF o.form = "prefix" THEN c.form = "infix" /\ c.prec < o.prec      \* -(a+b); -a^b is -(a^b) by itself
    ELSE IF c.form = "prefix" THEN pos = 1 /\ c.prec < o.prec               \* (-a)^b ; a ^ -b and -a + b need none
    ELSE \/ c.prec < o.prec
         \/ c.prec = o.prec /\ ((o.assoc = "L" /\ pos = 2) \/ (o.assoc = "R" /\ pos = 1))

RECURSIVE Paren(_, _)
\* the same expression with parentheses everywhere ("full") or only where the grammar needs them ("min")
Paren(t, mode) ==
    IF t.k # "fn" THEN t
    ELSE LET o == [form |-> t.form, prec |-> t.prec, assoc |-> t.assoc]
             sub(i) == LET c == Paren(t.a[i], mode) IN
                       IF c.k # "fn" \/ c.form = "call" THEN c
                       ELSE [c EXCEPT !.par = IF mode = "full" THEN TRUE ELSE NeedsPar(o, i, c)]
         IN [t EXCEPT !.a = [i \in 1..Len(t.a) |-> sub(i)], !.par = FALSE]

\* ---- value of an expression ------------------------------------------------
RECURSIVE Val(_, _)
Val(t, env) ==
    CASE t.k = "var" -> <<env[t.n]>>
      [] t.k \in {"num", "str"} -> <<t.v>>
      [] t.k = "as" -> Val(t.a[1], env)
      [] t.k = "fn" -> LET as == [i \in 1..Len(t.a) |-> Val(t.a[i], env)] IN
                       IF \E i \in 1..Len(t.a) : as[i] = <<>> THEN <<>>
                       ELSE ApplyX(t.op, [i \in 1..Len(t.a) |-> as[i][1]])
      [] OTHER -> <<>>
\* the text souffle writes for a value of type ty in an output file
Txt(v, ty) == CASE ty = "i" -> ToString(v) [] ty = "u" -> UDecimal(v) [] ty = "s" -> v
RECURSIVE OpsOf(_)
OpsOf(t) == IF t.k = "fn" THEN {t.kind} \cup UNION {OpsOf(t.a[i]) : i \in 1..Len(t.a)}
            ELSE IF t.k = "as" THEN OpsOf(t.a[1]) ELSE {}
RECURSIVE NOps(_)
NOps(t) == IF t.k = "fn" THEN 1 + (IF Len(t.a) = 1 THEN NOps(t.a[1]) ELSE NOps(t.a[1]) + NOps(t.a[2])) ELSE 0

\* ---- literals --------------------------------------------------------------
At(rel, args) == [k |-> "atom", rel |-> rel, args |-> args]
NegA(rel, args) == [k |-> "neg", rel |-> rel, args |-> args]
\* form "infix": l sym r ; form "call": sym(l, r)
C(sym, op, l, r) == [k |-> "cmp", form |-> "infix", sym |-> sym, op |-> op, l |-> l, r |-> r]
CC(sym, op, l, r) == [k |-> "cmp", form |-> "call", sym |-> sym, op |-> op, l |-> l, r |-> r]
NotL(l) == [k |-> "not", l |-> l]
Group(alts) == [k |-> "group", alts |-> alts]
TrueL == [k |-> "true"]
FalseL == [k |-> "false"]

\* ---- items -----------------------------------------------------------------
Pragma(key, val) == [k |-> "pragma", key |-> key, val |-> val]          \* val = <<>> or <<"v">>
TySub(n, base) == [k |-> "type", form |-> "subset", name |-> n, base |-> base]
TyUnion(n, of) == [k |-> "type", form |-> "union", name |-> n, of |-> of]
TyRec(n, fields) == [k |-> "type", form |-> "record", name |-> n, fields |-> fields]
TyAdt(n, br) == [k |-> "type", form |-> "adt", name |-> n, branches |-> br]
Br(n, fields) == [name |-> n, fields |-> fields]
FunctorD(n, params, ret, stateful) == [k |-> "functor", name |-> n, params |-> params, ret |-> ret, stateful |-> stateful]
DeclQ(names, attrs, quals, choice) == [k |-> "decl", names |-> names, attrs |-> attrs, quals |-> quals, choice |-> choice]
Decl(n, attrs) == DeclQ(<<n>>, attrs, <<>>, <<>>)
Delta(n, of) == [k |-> "delta", name |-> n, of |-> of]
Dir(d, rels, params) == [k |-> "dir", d |-> d, rels |-> rels, params |-> params]   \* params: <<key, value, style>>
Out(r) == Dir("output", <<r>>, <<>>)
ClauseP(heads, alts, plan) == [k |-> "clause", heads |-> heads, alts |-> alts, plan |-> plan]
Fact(rel, args) == ClauseP(<<At(rel, args)>>, <<>>, <<>>)
Rule(head, body) == ClauseP(<<head>>, <<body>>, <<>>)
Subsume(less, greater, alts, plan) == [k |-> "subsume", less |-> less, greater |-> greater, alts |-> alts, plan |-> plan]
CompT(n, params) == [name |-> n, params |-> params]
Comp(ty, bases, items) == [k |-> "comp", ty |-> ty, bases |-> bases, items |-> items]
InitC(n, ty) == [k |-> "init", name |-> n, ty |-> ty]
Override(r) == [k |-> "override", rel |-> r]
Raw(text) == [k |-> "raw", text |-> text]

A1(ty) == <<<<"v", ty>>>>
A3(ty) == <<<<"x", ty>>, <<"y", ty>>, <<"z", ty>>>>
TyName(ty) == CASE ty = "i" -> "number" [] ty = "u" -> "unsigned" [] ty = "f" -> "float" [] ty = "s" -> "symbol"

\* the argument assignment every expression probe is evaluated on
Env(ty) == CASE ty \in {"i", "u"} -> [x |-> 7, y |-> 3, z |-> 2, w |-> 5]
             [] ty = "s" -> [x |-> "ab", y |-> "b", z |-> "c", w |-> "abc"]
             [] ty = "f" -> [x |-> 0, y |-> 0, z |-> 0, w |-> 0]
EnvLit(ty, n) == CASE ty = "i" -> N(Env(ty)[n])
                   [] ty = "u" -> L(ToString(Env(ty)[n]) \o "u", "u", Env(ty)[n])
                   [] ty = "s" -> S(Env(ty)[n])
                   [] ty = "f" -> L(CASE n = "x" -> "7.5" [] n = "y" -> "3.0" [] n = "z" -> "2.0" [] n = "w" -> "5.25", "f", 0)

Probe(kind, variant, items, expect) == [kind |-> kind, variant |-> variant, items |-> items, expect |-> expect]
Rows(rel, rows) == <<[rel |-> rel, rows |-> rows]>>

\* o(E) :- a(x,y,z).  with a(7,3,2): the standard shape of an expression probe; ty operand type, rty result type
ExprItems(p, ty, rty, e) ==
    << Decl(p \o "a", A3(TyName(ty))), Fact(p \o "a", <<EnvLit(ty, "x"), EnvLit(ty, "y"), EnvLit(ty, "z")>>),
       Decl(p \o "o", A1(TyName(rty))), Out(p \o "o"),
       Rule(At(p \o "o", <<e>>), <<At(p \o "a", <<V("x"), V("y"), V("z")>>)>>) >>
ExprExpect(p, ty, rty, e) ==
    IF ty = "f" \/ rty = "f" THEN <<>>
    ELSE LET r == Val(e, Env(ty)) IN IF r = <<>> THEN <<>> ELSE Rows(p \o "o", << <<Txt(r[1], rty)>> >>)
ExprProbe(p, kind, variant, ty, rty, e) == Probe(kind, variant, ExprItems(p, ty, rty, e), ExprExpect(p, ty, rty, e))

\* o(1) :- a(x,y,z), <constraint>.
CmpItems(p, ty, lits) ==
    << Decl(p \o "a", A3(TyName(ty))), Fact(p \o "a", <<EnvLit(ty, "x"), EnvLit(ty, "y"), EnvLit(ty, "z")>>),
       Decl(p \o "o", A1("number")), Out(p \o "o"),
       Rule(At(p \o "o", <<N(1)>>), <<At(p \o "a", <<V("x"), V("y"), V("z")>>)>> \o lits) >>
CmpExpect(p, holds) == Rows(p \o "o", IF holds THEN << <<"1">> >> ELSE <<>>)
=============================================================================
