------------------------------ MODULE Syntax ------------------------------
(***************************************************************************)
(* C15: the catalogue of construct kinds of the souffle language           *)
(* (parser/parser.yy, parser/scanner.ll) as TLA+ data, plus                *)
(*   - the surface operator alphabet with the parser's precedence and      *)
(*     associativity (parser.yy %left/%right/%precedence lines) and the    *)
(*     typed FunctorOp each surface operator stands for (FunctorOps.cpp),  *)
(*   - Val: the value of an expression (Functors.tla ApplyX is the oracle),*)
(*   - NeedsPar: where a source text needs parentheses,                    *)
(*   - Probes(p): one minimal program per construct kind and variant, all  *)
(*     names prefixed with p so that probes can be composed,               *)
(*   - the family of expression trees (module MC_Syntax grows them).       *)
(* Programs are abstract syntax (records); the glue (vf/syntaxgen.py)      *)
(* writes them as text mechanically: every token it writes is a field of   *)
(* the abstract syntax (sym, text, par, form).                              *)
(*                                                                         *)
(* item   : pragma | type | functor | decl | delta | dir | clause | subsume *)
(*          | comp | init | override | raw                                 *)
(* term   : var any num str nil rec adt fn as udf autoinc dollar iter agg  *)
(* literal: atom neg cmp not group true false                              *)
(***************************************************************************)
EXTENDS Integers, Sequences, FiniteSets, TLC, Functors

\* ---- terms ---------------------------------------------------------------
V(n) == [k |-> "var", n |-> n]
AnyT == [k |-> "any"]
\* a numeric literal in a given spelling; ty in {"i","u","f"}; v its value (unsigned: signed twin; float: not modelled, 0)
L(text, ty, v) == [k |-> "num", text |-> text, ty |-> ty, v |-> v]
N(v) == L(ToString(v), "i", v)
S(v) == [k |-> "str", v |-> v]
NilT == [k |-> "nil"]
Rec(a) == [k |-> "rec", a |-> a]
Adt(b, a) == [k |-> "adt", b |-> b, a |-> a]
As(a, to) == [k |-> "as", a |-> <<a>>, to |-> to]
Udf(f, a) == [k |-> "udf", f |-> f, a |-> a]
AutoInc == [k |-> "autoinc"]
Dollar == [k |-> "dollar"]
IterCnt == [k |-> "iter"]
Agg(op, tgt, body) == [k |-> "agg", op |-> op, tgt |-> tgt, body |-> body, braces |-> TRUE]
AggBare(op, tgt, atom) == [k |-> "agg", op |-> op, tgt |-> tgt, body |-> <<atom>>, braces |-> FALSE]

\* ---- the surface operator alphabet -----------------------------------------
\* form: "infix" | "prefix" | "call"; prec: parser.yy precedence level (higher binds tighter); assoc "L" | "R" | "-"
\* kind: the construct-kind id; ops: type |-> FunctorOp enumerator (Functors.tla names)
Op(sym, form, prec, assoc, kind, ops) == [sym |-> sym, form |-> form, prec |-> prec, assoc |-> assoc, kind |-> kind, ops |-> ops]
IU(o) == [i |-> o, u |-> "U" \o o]
IUF(o) == [i |-> o, u |-> "U" \o o, f |-> "F" \o o]
InfixOps == <<
    Op("lor",   "infix", 1, "L", "functor:lor",   IU("LOR")),
    Op("lxor",  "infix", 2, "L", "functor:lxor",  IU("LXOR")),
    Op("land",  "infix", 3, "L", "functor:land",  IU("LAND")),
    Op("bor",   "infix", 4, "L", "functor:bor",   IU("BOR")),
    Op("bxor",  "infix", 5, "L", "functor:bxor",  IU("BXOR")),
    Op("band",  "infix", 6, "L", "functor:band",  IU("BAND")),
    Op("bshl",  "infix", 7, "L", "functor:bshl",  IU("BSHIFT_L")),
    Op("bshr",  "infix", 7, "L", "functor:bshr",  IU("BSHIFT_R")),
    Op("bshru", "infix", 7, "L", "functor:bshru", IU("BSHIFT_R_UNSIGNED")),
    Op("+",     "infix", 8, "L", "functor:add",   IUF("ADD") @@ [s |-> "SSADD"]),
    Op("-",     "infix", 8, "L", "functor:sub",   IUF("SUB")),
    Op("*",     "infix", 9, "L", "functor:mul",   IUF("MUL")),
    Op("/",     "infix", 9, "L", "functor:div",   IUF("DIV")),
    Op("%",     "infix", 9, "L", "functor:mod",   IU("MOD")),
    Op("^",     "infix", 11, "R", "functor:exp",  IUF("EXP")) >>
PrefixPrec == 10
PrefixOps == <<
    Op("-",    "prefix", PrefixPrec, "-", "functor:neg",  [i |-> "NEG", f |-> "FNEG"]),
    Op("bnot", "prefix", PrefixPrec, "-", "functor:bnot", IU("BNOT")),
    Op("lnot", "prefix", PrefixPrec, "-", "functor:lnot", IU("LNOT")) >>
CallOps2 == <<     \* binary call-form operators usable inside integer expression trees
    Op("max", "call", 99, "-", "functor:max", IUF("MAX") @@ [s |-> "SMAX"]),
    Op("min", "call", 99, "-", "functor:min", IUF("MIN") @@ [s |-> "SMIN"]) >>
SeqRange(s) == {s[i] : i \in 1..Len(s)}

\* an application; par: the source text puts parentheses around it
Fn(o, ty, a, par) == [k |-> "fn", form |-> o.form, sym |-> o.sym, op |-> o.ops[ty], kind |-> o.kind, prec |-> o.prec,
                      assoc |-> o.assoc, a |-> a, par |-> par]
Call(sym, op, a) == [k |-> "fn", form |-> "call", sym |-> sym, op |-> op, kind |-> "functor:" \o sym, prec |-> 99,
                     assoc |-> "-", a |-> a, par |-> FALSE]

\* does child c need parentheses as the pos-th operand (1 left / only, 2 right) of an application of o?
NeedsPar(o, pos, c) ==
    IF c.k # "fn" \/ c.form = "call" \/ o.form = "call" THEN FALSE
    ELSE IF o.form = "prefix" THEN c.form = "infix" /\ c.prec < o.prec      \* -(a+b); -a^b is -(a^b) by itself
    ELSE IF c.form = "prefix" THEN pos = 1 /\ c.prec < o.prec               \* (-a)^b ; a ^ -b and -a + b need none
    ELSE \/ c.prec < o.prec
         \/ c.prec = o.prec /\ ((o.assoc = "L" /\ pos = 2) \/ (o.assoc = "R" /\ pos = 1))

RECURSIVE Paren(_, _)
\* the same expression with parentheses everywhere ("full") or only where the grammar needs them ("min")
Paren(t, mode) ==
    IF t.k # "fn" THEN t
    ELSE LET o == [form |-> t.form, prec |-> t.prec, assoc |-> t.assoc]
             sub(i) == LET c == Paren(t.a[i], mode) IN
                       IF c.k # "fn" \/ c.form = "call" THEN c
                       ELSE [c EXCEPT !.par = IF mode = "full" THEN TRUE ELSE NeedsPar(o, i, c)]
         IN [t EXCEPT !.a = [i \in 1..Len(t.a) |-> sub(i)], !.par = FALSE]

\* ---- value of an expression ------------------------------------------------
RECURSIVE Val(_, _)
Val(t, env) ==
    CASE t.k = "var" -> <<env[t.n]>>
      [] t.k \in {"num", "str"} -> <<t.v>>
      [] t.k = "as" -> Val(t.a[1], env)
      [] t.k = "fn" -> LET as == [i \in 1..Len(t.a) |-> Val(t.a[i], env)] IN
                       IF \E i \in 1..Len(t.a) : as[i] = <<>> THEN <<>>
                       ELSE ApplyX(t.op, [i \in 1..Len(t.a) |-> as[i][1]])
      [] OTHER -> <<>>
\* the text souffle writes for a value of type ty in an output file
Txt(v, ty) == CASE ty = "i" -> ToString(v) [] ty = "u" -> UDecimal(v) [] ty = "s" -> v
\* a shape kind: a prefix operator application as the left operand of `^` (the one place where a prefix application
\* needs parentheses around itself: `^` binds tighter than the prefix operators)
PrefixUnderExp == "functor:prefix-operand-of-exp"
RECURSIVE OpsOf(_)
OpsOf(t) == IF t.k = "fn" THEN {t.kind} \cup UNION {OpsOf(t.a[i]) : i \in 1..Len(t.a)}
                               \cup (IF t.sym = "^" /\ t.a[1].k = "fn" /\ t.a[1].form = "prefix" THEN {PrefixUnderExp} ELSE {})
            ELSE IF t.k = "as" THEN OpsOf(t.a[1]) ELSE {}
RECURSIVE NOps(_)
NOps(t) == IF t.k = "fn" THEN 1 + (IF Len(t.a) = 1 THEN NOps(t.a[1]) ELSE NOps(t.a[1]) + NOps(t.a[2])) ELSE 0

\* ---- literals --------------------------------------------------------------
At(rel, args) == [k |-> "atom", rel |-> rel, args |-> args]
NegA(rel, args) == [k |-> "neg", rel |-> rel, args |-> args]
\* form "infix": l sym r ; form "call": sym(l, r)
C(sym, op, l, r) == [k |-> "cmp", form |-> "infix", sym |-> sym, op |-> op, l |-> l, r |-> r]
CC(sym, op, l, r) == [k |-> "cmp", form |-> "call", sym |-> sym, op |-> op, l |-> l, r |-> r]
NotL(l) == [k |-> "not", l |-> l]
Group(alts) == [k |-> "group", alts |-> alts]
TrueL == [k |-> "true"]
FalseL == [k |-> "false"]

\* ---- items -----------------------------------------------------------------
Pragma(key, val) == [k |-> "pragma", key |-> key, val |-> val]          \* val = <<>> or <<"v">>
TySub(n, base) == [k |-> "type", form |-> "subset", name |-> n, base |-> base]
TyUnion(n, of) == [k |-> "type", form |-> "union", name |-> n, of |-> of]
TyRec(n, fields) == [k |-> "type", form |-> "record", name |-> n, fields |-> fields]
TyAdt(n, br) == [k |-> "type", form |-> "adt", name |-> n, branches |-> br]
Br(n, fields) == [name |-> n, fields |-> fields]
FunctorD(n, params, ret, stateful) == [k |-> "functor", name |-> n, params |-> params, ret |-> ret, stateful |-> stateful]
DeclQ(names, attrs, quals, choice) == [k |-> "decl", names |-> names, attrs |-> attrs, quals |-> quals, choice |-> choice]
Decl(n, attrs) == DeclQ(<<n>>, attrs, <<>>, <<>>)
Delta(n, of) == [k |-> "delta", name |-> n, of |-> of]
Dir(d, rels, params) == [k |-> "dir", d |-> d, rels |-> rels, params |-> params]   \* params: <<key, value, style>>
Out(r) == Dir("output", <<r>>, <<>>)
ClauseP(heads, alts, plan) == [k |-> "clause", heads |-> heads, alts |-> alts, plan |-> plan]
Fact(rel, args) == ClauseP(<<At(rel, args)>>, <<>>, <<>>)
Rule(head, body) == ClauseP(<<head>>, <<body>>, <<>>)
Subsume(less, greater, alts, plan) == [k |-> "subsume", less |-> less, greater |-> greater, alts |-> alts, plan |-> plan]
CompT(n, params) == [name |-> n, params |-> params]
Comp(ty, bases, items) == [k |-> "comp", ty |-> ty, bases |-> bases, items |-> items]
InitC(n, ty) == [k |-> "init", name |-> n, ty |-> ty]
Override(r) == [k |-> "override", rel |-> r]
Raw(text) == [k |-> "raw", text |-> text]

A1(ty) == <<<<"v", ty>>>>
A3(ty) == <<<<"x", ty>>, <<"y", ty>>, <<"z", ty>>>>
TyName(ty) == CASE ty = "i" -> "number" [] ty = "u" -> "unsigned" [] ty = "f" -> "float" [] ty = "s" -> "symbol"

\* the argument assignment every expression probe is evaluated on
Env(ty) == CASE ty \in {"i", "u"} -> [x |-> 7, y |-> 3, z |-> 2, w |-> 5]
             [] ty = "s" -> [x |-> "ab", y |-> "b", z |-> "c", w |-> "abc"]
             [] ty = "f" -> [x |-> 0, y |-> 0, z |-> 0, w |-> 0]
EnvLit(ty, n) == CASE ty = "i" -> N(Env(ty)[n])
                   [] ty = "u" -> L(ToString(Env(ty)[n]) \o "u", "u", Env(ty)[n])
                   [] ty = "s" -> S(Env(ty)[n])
                   [] ty = "f" -> L(CASE n = "x" -> "7.5" [] n = "y" -> "3.0" [] n = "z" -> "2.0" [] n = "w" -> "5.25", "f", 0)

\* uses: further construct kinds (beyond the base kinds) the probe cannot avoid
ProbeU(kind, variant, items, expect, uses) == [kind |-> kind, variant |-> variant, items |-> items, expect |-> expect, uses |-> uses]
Probe(kind, variant, items, expect) == ProbeU(kind, variant, items, expect, {})
Rows(rel, rows) == <<[rel |-> rel, rows |-> rows]>>

\* o(E) :- a(x,y,z).  with a(7,3,2): the standard shape of an expression probe; ty operand type, rty result type
ExprItems(p, ty, rty, e) ==
    << Decl(p \o "a", A3(TyName(ty))), Fact(p \o "a", <<EnvLit(ty, "x"), EnvLit(ty, "y"), EnvLit(ty, "z")>>),
       Decl(p \o "o", A1(TyName(rty))), Out(p \o "o"),
       Rule(At(p \o "o", <<e>>), <<At(p \o "a", <<V("x"), V("y"), V("z")>>)>>) >>
ExprExpect(p, ty, rty, e) ==
    IF ty = "f" \/ rty = "f" THEN <<>>
    ELSE LET r == Val(e, Env(ty)) IN IF r = <<>> THEN <<>> ELSE Rows(p \o "o", << <<Txt(r[1], rty)>> >>)
ExprProbe(p, kind, variant, ty, rty, e) == Probe(kind, variant, ExprItems(p, ty, rty, e), ExprExpect(p, ty, rty, e))

\* o(1) :- a(x,y,z), <constraint>.
CmpItems(p, ty, lits) ==
    << Decl(p \o "a", A3(TyName(ty))), Fact(p \o "a", <<EnvLit(ty, "x"), EnvLit(ty, "y"), EnvLit(ty, "z")>>),
       Decl(p \o "o", A1("number")), Out(p \o "o"),
       Rule(At(p \o "o", <<N(1)>>), <<At(p \o "a", <<V("x"), V("y"), V("z")>>)>> \o lits) >>
CmpExpect(p, holds) == Rows(p \o "o", IF holds THEN << <<"1">> >> ELSE <<>>)

(***************************************************************************)
(* The catalogue.  Probes(p) lists one minimal program per construct kind  *)
(* and variant; p prefixes every name a probe declares.                    *)
(***************************************************************************)
TypesOf(o) == {ty \in {"i", "u", "f", "s"} : ty \in DOMAIN o.ops}
SetToSeq(s) == LET RECURSIVE f(_) f(r) == IF r = {} THEN <<>> ELSE LET x == CHOOSE y \in r : TRUE IN <<x>> \o f(r \ {x}) IN f(s)
TySeq(o) == SelectSeq(<<"i", "u", "f", "s">>, LAMBDA ty : ty \in DOMAIN o.ops)
Flat(ss) == LET RECURSIVE f(_) f(i) == IF i > Len(ss) THEN <<>> ELSE ss[i] \o f(i + 1) IN f(1)

\* ---- A. intrinsic functors ---------------------------------------------------
FunctorProbes(p) ==
    Flat([i \in 1..Len(InfixOps) |-> LET o == InfixOps[i] IN
          [j \in 1..Len(TySeq(o)) |-> LET ty == TySeq(o)[j] IN
             ExprProbe(p, o.kind, ty, ty, ty, Fn(o, ty, <<V("x"), V("y")>>, FALSE))]])
    \o Flat([i \in 1..Len(PrefixOps) |-> LET o == PrefixOps[i] IN
          [j \in 1..Len(TySeq(o)) |-> LET ty == TySeq(o)[j] IN
             ExprProbe(p, o.kind, ty, ty, ty, Fn(o, ty, <<V("x")>>, FALSE))]])
    \o Flat([i \in 1..Len(CallOps2) |-> LET o == CallOps2[i] IN
          [j \in 1..Len(TySeq(o)) |-> LET ty == TySeq(o)[j] IN
             ExprProbe(p, o.kind, ty, ty, ty, Fn(o, ty, <<V("x"), V("y")>>, FALSE))]])
    \o Flat([i \in 1..Len(CallOps2) |-> LET o == CallOps2[i] IN
          [j \in 1..Len(TySeq(o)) |-> LET ty == TySeq(o)[j] IN
             ExprProbe(p, o.kind, ty \o "3", ty, ty, Fn(o, ty, <<V("x"), V("y"), V("z")>>, FALSE))]])
    \o [i \in 1..Len(PrefixOps) |->
          LET e == Fn(InfixOps[15], "i", <<Fn(PrefixOps[i], "i", <<V("x")>>, TRUE), V("z")>>, FALSE) IN
          ProbeU(PrefixUnderExp, PrefixOps[i].sym, ExprItems(p, "i", "i", e), ExprExpect(p, "i", "i", e), OpsOf(e))]
    \o << ExprProbe(p, "functor:cat", "2", "s", "s", Call("cat", "CAT", <<V("x"), V("y")>>)),
          ExprProbe(p, "functor:cat", "3", "s", "s", Call("cat", "CAT", <<V("x"), V("y"), S("-")>>)),
          ExprProbe(p, "functor:strlen", "s", "s", "i", Call("strlen", "STRLEN", <<V("x")>>)),
          ExprProbe(p, "functor:substr", "s", "s", "s", Call("substr", "SUBSTR", <<V("x"), N(1), N(1)>>)),
          Probe("functor:ord", "s", ExprItems(p, "s", "i", Call("ord", "ORD", <<V("x")>>)), <<>>),
          ExprProbe(p, "functor:to_string", "i", "i", "s", Call("to_string", "I2S", <<V("x")>>)),
          ExprProbe(p, "functor:to_string", "u", "u", "s", Call("to_string", "U2S", <<V("x")>>)),
          ExprProbe(p, "functor:to_string", "f", "f", "s", Call("to_string", "F2S", <<V("x")>>)),
          ExprProbe(p, "functor:to_string", "s", "s", "s", Call("to_string", "S2S", <<V("x")>>)),
          ExprProbe(p, "functor:to_number", "s", "s", "i", Call("to_number", "S2I", <<S("12")>>)),
          ExprProbe(p, "functor:to_number", "u", "u", "i", Call("to_number", "U2I", <<V("x")>>)),
          ExprProbe(p, "functor:to_number", "f", "f", "i", Call("to_number", "F2I", <<V("x")>>)),
          ExprProbe(p, "functor:to_number", "i", "i", "i", Call("to_number", "I2I", <<V("x")>>)),
          ExprProbe(p, "functor:to_unsigned", "s", "s", "u", Call("to_unsigned", "S2U", <<S("12")>>)),
          ExprProbe(p, "functor:to_unsigned", "i", "i", "u", Call("to_unsigned", "I2U", <<V("x")>>)),
          ExprProbe(p, "functor:to_unsigned", "f", "f", "u", Call("to_unsigned", "F2U", <<V("x")>>)),
          ExprProbe(p, "functor:to_float", "s", "s", "f", Call("to_float", "S2F", <<S("1.5")>>)),
          ExprProbe(p, "functor:to_float", "i", "i", "f", Call("to_float", "I2F", <<V("x")>>)),
          ExprProbe(p, "functor:to_float", "u", "u", "f", Call("to_float", "U2F", <<V("x")>>)),
          \* generators: every element of the range is a row
          Probe("functor:range", "i2", ExprItems(p, "i", "i", Call("range", "RANGE", <<V("z"), V("x")>>)),
                Rows(p \o "o", LET r == ApplyX("RANGE", <<2, 7>>)[1] IN [i \in 1..Len(r) |-> <<ToString(r[i])>>])),
          Probe("functor:range", "i3", ExprItems(p, "i", "i", Call("range", "RANGE", <<V("x"), V("z"), N(-2)>>)),
                Rows(p \o "o", LET r == ApplyX("RANGE", <<7, 2, -2>>)[1] IN [i \in 1..Len(r) |-> <<ToString(r[i])>>])),
          Probe("functor:range", "u2", ExprItems(p, "u", "u", Call("range", "URANGE", <<V("z"), V("x")>>)),
                Rows(p \o "o", LET r == ApplyX("URANGE", <<2, 7>>)[1] IN [i \in 1..Len(r) |-> <<UDecimal(r[i])>>])),
          Probe("functor:range", "f2", ExprItems(p, "f", "f", Call("range", "FRANGE", <<V("z"), V("x")>>)), <<>>) >>

\* ---- B. constraints ----------------------------------------------------------
CmpSyms == << <<"=", "EQ">>, <<"!=", "NE">>, <<"<", "LT">>, <<"<=", "LE">>, <<">", "GT">>, <<">=", "GE">> >>
TypedCmp(base, ty) == IF base \in {"EQ", "NE"} \/ ty = "i" THEN base
                      ELSE (CASE ty = "u" -> "U" [] ty = "s" -> "S" [] ty = "f" -> "F") \o base
CmpKind(base) == "constraint:" \o (CASE base = "EQ" -> "eq" [] base = "NE" -> "ne" [] base = "LT" -> "lt"
                                     [] base = "LE" -> "le" [] base = "GT" -> "gt" [] base = "GE" -> "ge")
ConstraintProbes(p) ==
    Flat([i \in 1..Len(CmpSyms) |-> LET sy == CmpSyms[i][1]  base == CmpSyms[i][2] IN
          [j \in 1..4 |-> LET ty == <<"i", "u", "s", "f">>[j]  op == TypedCmp(base, ty) IN
             Probe(CmpKind(base), ty, CmpItems(p, ty, <<C(sy, op, V("y"), V("x"))>>),
                   IF ty = "f" THEN <<>> ELSE CmpExpect(p, CmpX(op, Env(ty).y, Env(ty).x)[1]))]])
    \o << Probe("constraint:match", "s", CmpItems(p, "s", <<CC("match", "MATCH", S("a.*"), V("x"))>>),
                CmpExpect(p, CmpX("MATCH", "a.*", "ab")[1])),
          Probe("constraint:contains", "s", CmpItems(p, "s", <<CC("contains", "CONTAINS", V("y"), V("x"))>>),
                CmpExpect(p, CmpX("CONTAINS", "b", "ab")[1])),
          Probe("constraint:not-match", "s", CmpItems(p, "s", <<NotL(CC("match", "MATCH", S("a.*"), V("y")))>>),
                CmpExpect(p, CmpX("NOT_MATCH", "a.*", "b")[1])),
          Probe("constraint:not-contains", "s", CmpItems(p, "s", <<NotL(CC("contains", "CONTAINS", V("x"), V("y")))>>),
                CmpExpect(p, CmpX("NOT_CONTAINS", "ab", "b")[1])),
          Probe("constraint:negated", "lt", CmpItems(p, "i", <<NotL(C("<", "LT", V("x"), V("y")))>>),
                CmpExpect(p, ~CmpX("LT", 7, 3)[1])),
          Probe("constraint:negated", "eq", CmpItems(p, "i", <<NotL(C("=", "EQ", V("x"), V("y")))>>),
                CmpExpect(p, ~CmpX("EQ", 7, 3)[1])),
          Probe("constraint:true", "-", CmpItems(p, "i", <<TrueL>>), CmpExpect(p, TRUE)),
          Probe("constraint:false", "-", CmpItems(p, "i", <<FalseL>>), CmpExpect(p, FALSE)) >>

X == <<V("x")>>
\* ---- C. terms and literal forms ------------------------------------------------
\* o(E).  a fact whose single argument is the term
FactProbe(p, kind, variant, ty, e, rows) ==
    Probe(kind, variant, << Decl(p \o "o", A1(ty)), Out(p \o "o"), Fact(p \o "o", <<e>>) >>,
          IF rows = <<>> THEN <<>> ELSE Rows(p \o "o", rows))
\* o(strlen(S)) / o(S): string constants
StrProbe(p, variant, s, direct) ==
    Probe("term:string", variant,
          << Decl(p \o "o", A1("number")), Out(p \o "o"), Fact(p \o "o", <<Call("strlen", "STRLEN", <<S(s)>>)>>) >>
          \o (IF direct THEN << Decl(p \o "q", A1("symbol")), Out(p \o "q"), Fact(p \o "q", <<S(s)>>) >> ELSE <<>>),
          Rows(p \o "o", << <<ToString(Len(s))>> >>) \o (IF direct THEN Rows(p \o "q", << <<s>> >>) ELSE <<>>))
PairT(p) == TyRec(p \o "Pr", <<<<"a", "number">>, <<"b", "symbol">>>>)
TreeT(p) == TyAdt(p \o "Tr", <<Br(p \o "Leaf", <<>>), Br(p \o "Node", <<<<"v", "number">>, <<"t", p \o "Tr">>>>)>>)
NumFacts(p, r) == << Decl(p \o r, A1("number")), Fact(p \o r, <<N(1)>>), Fact(p \o r, <<N(2)>>), Fact(p \o r, <<N(4)>>) >>
NumVals == <<1, 2, 4>>
SumSeq(s) == LET RECURSIVE f(_) f(i) == IF i > Len(s) THEN 0 ELSE s[i] + f(i + 1) IN f(1)
MinSeq(s) == CHOOSE m \in SeqRange(s) : \A y \in SeqRange(s) : m <= y
MaxSeq(s) == CHOOSE m \in SeqRange(s) : \A y \in SeqRange(s) : m >= y
AggProbe(p, variant, agg, rty, rows) ==
    Probe("term:aggregate-" \o agg.op, variant,
          NumFacts(p, "b") \o << Decl(p \o "o", A1(rty)), Out(p \o "o"),
                                 Rule(At(p \o "o", <<V("r")>>), <<C("=", "EQ", V("r"), agg)>>) >>,
          IF rows = <<>> THEN <<>> ELSE Rows(p \o "o", rows))
TermProbes(p) ==
    << FactProbe(p, "term:number", "decimal", "number", N(42), << <<"42">> >>),
       FactProbe(p, "term:number", "negative", "number", N(-42), << <<"-42">> >>),
       FactProbe(p, "term:number", "hex", "number", L("0x1F", "i", 31), << <<"31">> >>),
       FactProbe(p, "term:number", "binary", "number", L("0b101", "i", 5), << <<"5">> >>),
       FactProbe(p, "term:number", "ipv4", "number", L("1.2.3.4", "i", 16909060), << <<"16909060">> >>),
       FactProbe(p, "term:number", "max", "number", N(2147483647), << <<"2147483647">> >>),
       FactProbe(p, "term:unsigned", "suffix", "unsigned", L("42u", "u", 42), << <<"42">> >>),
       FactProbe(p, "term:unsigned", "hex-suffix", "unsigned", L("0x1Fu", "u", 31), << <<"31">> >>),
       FactProbe(p, "term:unsigned", "binary-suffix", "unsigned", L("0b101u", "u", 5), << <<"5">> >>),
       FactProbe(p, "term:unsigned", "no-suffix", "unsigned", L("42", "u", 42), << <<"42">> >>),
       FactProbe(p, "term:unsigned", "large", "unsigned", L("4294967295u", "u", -1), << <<UDecimal(-1)>> >>),
       \* the suffix is the only thing that makes the constant unsigned here
       FactProbe(p, "term:unsigned-suffix-decides-type", "to_string", "symbol",
                 Call("to_string", "U2S", <<L("4294967295u", "u", -1)>>), << <<UDecimal(-1)>> >>),
       FactProbe(p, "term:unsigned-suffix-decides-type", "ord", "number", Call("ord", "ORD", <<L("7u", "u", 7)>>), <<>>),
       FactProbe(p, "term:float", "plain", "float", L("1.5", "f", 0), <<>>),
       FactProbe(p, "term:float", "negative", "float", L("-2.25", "f", 0), <<>>),
       FactProbe(p, "term:float", "polymorphic-context", "symbol", Call("to_string", "F2S", <<L("2.0", "f", 0)>>), <<>>),
       StrProbe(p, "plain", "abc", TRUE), StrProbe(p, "empty", "", TRUE), StrProbe(p, "space-punct", "a b,c;d.e", TRUE),
       Probe("term:string-escape-quote", "-", StrProbe(p, "", "a\"b", TRUE).items, StrProbe(p, "", "a\"b", TRUE).expect),
       Probe("term:string-escape-backslash", "-", StrProbe(p, "", "a\\b", TRUE).items, StrProbe(p, "", "a\\b", TRUE).expect),
       Probe("term:string-escape-newline", "-", StrProbe(p, "", "a\nb", FALSE).items, StrProbe(p, "", "a\nb", FALSE).expect),
       Probe("term:string-escape-tab", "-", StrProbe(p, "", "a\tb", FALSE).items, StrProbe(p, "", "a\tb", FALSE).expect),
       Probe("term:string-escape-cr", "-", StrProbe(p, "", "a\rb", FALSE).items, StrProbe(p, "", "a\rb", FALSE).expect),
       \* records / nil / ADTs: constructed in a fact, taken apart again in a rule
       Probe("term:record", "cons-pattern",
             << PairT(p), Decl(p \o "r", A1(p \o "Pr")), Fact(p \o "r", <<Rec(<<N(1), S("a")>>)>>),
                Decl(p \o "o", <<<<"a", "number">>, <<"b", "symbol">>>>), Out(p \o "o"),
                Rule(At(p \o "o", <<V("a"), V("b")>>), <<At(p \o "r", <<Rec(<<V("a"), V("b")>>)>>)>>) >>,
             Rows(p \o "o", << <<"1", "a">> >>)),
       Probe("term:record", "empty",
             << TyRec(p \o "E", <<>>), Decl(p \o "r", A1(p \o "E")), Fact(p \o "r", <<Rec(<<>>)>>),
                Decl(p \o "o", A1("number")), Out(p \o "o"),
                Rule(At(p \o "o", <<N(1)>>), <<At(p \o "r", <<Rec(<<>>)>>)>>) >>, Rows(p \o "o", << <<"1">> >>)),
       Probe("term:record", "nested",
             << PairT(p), TyRec(p \o "Q", <<<<"h", p \o "Pr">>, <<"t", p \o "Q">>>>),
                Decl(p \o "r", A1(p \o "Q")), Fact(p \o "r", <<Rec(<<Rec(<<N(1), S("a")>>), NilT>>)>>),
                Decl(p \o "o", A1("number")), Out(p \o "o"),
                Rule(At(p \o "o", <<V("a")>>), <<At(p \o "r", <<Rec(<<Rec(<<V("a"), AnyT>>), NilT>>)>>)>>) >>,
             Rows(p \o "o", << <<"1">> >>)),
       Probe("term:nil", "-",
             << PairT(p), Decl(p \o "r", A1(p \o "Pr")), Fact(p \o "r", <<NilT>>), Fact(p \o "r", <<Rec(<<N(1), S("a")>>)>>),
                Decl(p \o "o", A1("number")), Out(p \o "o"),
                Rule(At(p \o "o", <<N(1)>>), <<At(p \o "r", <<V("v")>>), C("=", "EQ", V("v"), NilT)>>) >>,
             Rows(p \o "o", << <<"1">> >>)),
       Probe("term:adt", "enum-branch",
             << TyAdt(p \o "En", <<Br(p \o "Red", <<>>), Br(p \o "Green", <<>>)>>),
                Decl(p \o "r", A1(p \o "En")), Fact(p \o "r", <<Adt(p \o "Red", <<>>)>>),
                Decl(p \o "o", A1("number")), Out(p \o "o"),
                Rule(At(p \o "o", <<N(1)>>), <<At(p \o "r", <<Adt(p \o "Red", <<>>)>>)>>),
                Rule(At(p \o "o", <<N(2)>>), <<At(p \o "r", <<Adt(p \o "Green", <<>>)>>)>>) >>,
             Rows(p \o "o", << <<"1">> >>)),
       Probe("term:adt", "branch-args-recursive",
             << TreeT(p), Decl(p \o "r", A1(p \o "Tr")),
                Fact(p \o "r", <<Adt(p \o "Node", <<N(5), Adt(p \o "Leaf", <<>>)>>)>>),
                Decl(p \o "o", A1("number")), Out(p \o "o"),
                Rule(At(p \o "o", <<V("v")>>), <<At(p \o "r", <<Adt(p \o "Node", <<V("v"), Adt(p \o "Leaf", <<>>)>>)>>)>>) >>,
             Rows(p \o "o", << <<"5">> >>)),
       Probe("term:as", "subtype",
             << TySub(p \o "Sub", "number") >> \o ExprItems(p, "i", "i", Fn(InfixOps[10], "i", <<As(V("x"), p \o "Sub"), As(V("y"), "number")>>, FALSE)),
             Rows(p \o "o", << <<"10">> >>)),
       Probe("term:unnamed", "-", << Decl(p \o "a", A3("number")), Fact(p \o "a", <<N(7), N(3), N(2)>>),
                Decl(p \o "o", A1("number")), Out(p \o "o"),
                Rule(At(p \o "o", <<V("x")>>), <<At(p \o "a", <<V("x"), AnyT, AnyT>>)>>) >>, Rows(p \o "o", << <<"7">> >>)),
       Probe("term:autoinc", "-", << Decl(p \o "a", A1("number")), Fact(p \o "a", <<N(1)>>),
                Decl(p \o "o", <<<<"v", "number">>, <<"c", "number">>>>), Out(p \o "o"),
                Rule(At(p \o "o", <<V("x"), AutoInc>>), <<At(p \o "a", X)>>) >>, <<>>),
       Probe("term:dollar-counter", "-", << Decl(p \o "a", A1("number")), Fact(p \o "a", <<N(1)>>),
                Decl(p \o "o", <<<<"v", "number">>, <<"c", "number">>>>), Out(p \o "o"),
                Rule(At(p \o "o", <<V("x"), Dollar>>), <<At(p \o "a", X)>>) >>, <<>>),
       Probe("term:iteration-counter", "-",
             << Decl(p \o "o", <<<<"v", "number">>, <<"i", "number">>>>), Out(p \o "o"), Fact(p \o "o", <<N(0), N(0)>>),
                Rule(At(p \o "o", <<Fn(InfixOps[10], "i", <<V("v"), N(1)>>, FALSE), IterCnt>>),
                     <<At(p \o "o", <<V("v"), AnyT>>), C("<", "LT", V("v"), N(3))>>) >>, <<>>),
       Probe("term:user-functor", "call",
             << FunctorD(p \o "f", <<<<"x", "number">>>>, "number", FALSE), Decl(p \o "o", A1("number")), Out(p \o "o"),
                Fact(p \o "o", <<Udf(p \o "f", <<N(1)>>)>>) >>, <<>>),
       AggProbe(p, "braces", Agg("count", <<>>, <<At(p \o "b", <<AnyT>>)>>), "number", << <<ToString(Len(NumVals))>> >>),
       AggProbe(p, "bare-atom", AggBare("count", <<>>, At(p \o "b", <<AnyT>>)), "number", << <<ToString(Len(NumVals))>> >>),
       AggProbe(p, "braces", Agg("sum", <<V("v")>>, <<At(p \o "b", <<V("v")>>)>>), "number", << <<ToString(SumSeq(NumVals))>> >>),
       AggProbe(p, "target-expression", Agg("sum", <<Fn(InfixOps[12], "i", <<V("v"), N(2)>>, FALSE)>>, <<At(p \o "b", <<V("v")>>)>>),
                "number", << <<ToString(2 * SumSeq(NumVals))>> >>),
       AggProbe(p, "braces", Agg("min", <<V("v")>>, <<At(p \o "b", <<V("v")>>)>>), "number", << <<ToString(MinSeq(NumVals))>> >>),
       AggProbe(p, "body-constraint", Agg("max", <<V("v")>>, <<At(p \o "b", <<V("v")>>), C("<", "LT", V("v"), N(4))>>),
                "number", << <<ToString(MaxSeq(SelectSeq(NumVals, LAMBDA x : x < 4)))>> >>),
       Probe("term:aggregate-mean", "braces",
             << Decl(p \o "b", A1("float")), Fact(p \o "b", <<L("1.0", "f", 0)>>), Fact(p \o "b", <<L("2.0", "f", 0)>>),
                Decl(p \o "o", A1("float")), Out(p \o "o"),
                Rule(At(p \o "o", <<V("r")>>), <<C("=", "EQ", V("r"), Agg("mean", <<V("v")>>, <<At(p \o "b", <<V("v")>>)>>))>>) >>, <<>>),
       Probe("term:aggregate-nested", "-",
             NumFacts(p, "b") \o << Decl(p \o "o", A1("number")), Out(p \o "o"),
                Rule(At(p \o "o", <<V("r")>>),
                     <<C("=", "EQ", V("r"), Agg("count", <<>>, <<At(p \o "b", <<V("v")>>),
                                C("=", "EQ", V("v"), Agg("max", <<V("w")>>, <<At(p \o "b", <<V("w")>>)>>))>>))>>) >>,
             Rows(p \o "o", << <<"1">> >>)),
       Probe("term:aggregate-outer-variable", "-",
             NumFacts(p, "b") \o << Decl(p \o "o", <<<<"v", "number">>, <<"c", "number">>>>), Out(p \o "o"),
                Rule(At(p \o "o", <<V("v"), V("c")>>),
                     <<At(p \o "b", <<V("v")>>),
                       C("=", "EQ", V("c"), Agg("count", <<>>, <<At(p \o "b", <<V("w")>>), C("<", "LT", V("w"), V("v"))>>))>>) >>,
             Rows(p \o "o", [i \in 1..Len(NumVals) |->
                              <<ToString(NumVals[i]), ToString(Cardinality({j \in 1..Len(NumVals) : NumVals[j] < NumVals[i]}))>>])) >>

\* ---- D. clause and literal forms ----------------------------------------------
Two(p) == << Decl(p \o "a", A1("number")), Fact(p \o "a", <<N(1)>>), Fact(p \o "a", <<N(2)>>),
             Decl(p \o "b", A1("number")), Fact(p \o "b", <<N(2)>>), Fact(p \o "b", <<N(3)>>),
             Decl(p \o "o", A1("number")), Out(p \o "o") >>
\* transitive closure of e = {(1,2),(2,3)} with a plan on the recursive clause (dis: written as a disjunction of both orders)
TC(p, pl, dis) ==
    << Decl(p \o "e", <<<<"a", "number">>, <<"b", "number">>>>), Fact(p \o "e", <<N(1), N(2)>>), Fact(p \o "e", <<N(2), N(3)>>),
       Decl(p \o "o", <<<<"a", "number">>, <<"b", "number">>>>), Out(p \o "o"),
       Rule(At(p \o "o", <<V("x"), V("y")>>), <<At(p \o "e", <<V("x"), V("y")>>)>>),
       ClauseP(<<At(p \o "o", <<V("x"), V("z")>>)>>,
               <<<<At(p \o "o", <<V("x"), V("y")>>), At(p \o "e", <<V("y"), V("z")>>)>>>>
               \o (IF dis THEN <<<<At(p \o "e", <<V("y"), V("z")>>), At(p \o "o", <<V("x"), V("y")>>)>>>> ELSE <<>>), pl) >>
TCRows(p) == Rows(p \o "o", << <<"1", "2">>, <<"2", "3">>, <<"1", "3">> >>)
ClauseProbes(p) ==
    << Probe("literal:atom", "join", Two(p) \o <<Rule(At(p \o "o", X), <<At(p \o "a", X), At(p \o "b", X)>>)>>,
             Rows(p \o "o", << <<"2">> >>)),
       Probe("literal:negation", "-", Two(p) \o <<Rule(At(p \o "o", X), <<At(p \o "a", X), NegA(p \o "b", X)>>)>>,
             Rows(p \o "o", << <<"1">> >>)),
       Probe("literal:nullary-atom", "-",
             << DeclQ(<<p \o "n">>, <<>>, <<>>, <<>>), Fact(p \o "n", <<>>), Decl(p \o "o", A1("number")), Out(p \o "o"),
                Rule(At(p \o "o", <<N(1)>>), <<At(p \o "n", <<>>)>>) >>, Rows(p \o "o", << <<"1">> >>)),
       Probe("clause:disjunction", "top-level",
             Two(p) \o <<ClauseP(<<At(p \o "o", X)>>, <<<<At(p \o "a", X)>>, <<At(p \o "b", X)>>>>, <<>>)>>,
             Rows(p \o "o", << <<"1">>, <<"2">>, <<"3">> >>)),
       Probe("clause:disjunction", "grouped",
             Two(p) \o <<Rule(At(p \o "o", X), <<At(p \o "a", X), Group(<<<<At(p \o "b", X)>>, <<C("=", "EQ", V("x"), N(1))>>>>)>>)>>,
             Rows(p \o "o", << <<"1">>, <<"2">> >>)),
       Probe("clause:negated-group", "-",
             Two(p) \o <<Rule(At(p \o "o", X), <<At(p \o "a", X), NotL(Group(<<<<At(p \o "b", X), C("<", "LT", V("x"), N(5))>>>>))>>)>>,
             Rows(p \o "o", << <<"1">> >>)),
       Probe("clause:multiple-heads", "-",
             Two(p) \o << Decl(p \o "q", A1("number")), Out(p \o "q"),
                          ClauseP(<<At(p \o "o", X), At(p \o "q", X)>>, <<<<At(p \o "a", X)>>>>, <<>>) >>,
             Rows(p \o "o", << <<"1">>, <<"2">> >>) \o Rows(p \o "q", << <<"1">>, <<"2">> >>)),
       Probe("clause:fact", "multi-column",
             << Decl(p \o "o", <<<<"a", "number">>, <<"b", "symbol">>>>), Out(p \o "o"), Fact(p \o "o", <<N(1), S("x")>>) >>,
             Rows(p \o "o", << <<"1", "x">> >>)),
       Probe("clause:recursion", "-",
             << Decl(p \o "e", <<<<"a", "number">>, <<"b", "number">>>>), Fact(p \o "e", <<N(1), N(2)>>), Fact(p \o "e", <<N(2), N(3)>>),
                Decl(p \o "o", <<<<"a", "number">>, <<"b", "number">>>>), Out(p \o "o"),
                Rule(At(p \o "o", <<V("x"), V("y")>>), <<At(p \o "e", <<V("x"), V("y")>>)>>),
                Rule(At(p \o "o", <<V("x"), V("z")>>), <<At(p \o "o", <<V("x"), V("y")>>), At(p \o "e", <<V("y"), V("z")>>)>>) >>,
             Rows(p \o "o", << <<"1", "2">>, <<"2", "3">>, <<"1", "3">> >>)),
       Probe("clause:plan", "one-version", TC(p, << <<0, <<2, 1>>>> >>, FALSE), TCRows(p)),
       Probe("clause:plan", "two-versions",
             << Decl(p \o "e", <<<<"a", "number">>, <<"b", "number">>>>), Fact(p \o "e", <<N(1), N(2)>>), Fact(p \o "e", <<N(2), N(3)>>),
                Decl(p \o "o", <<<<"a", "number">>, <<"b", "number">>>>), Out(p \o "o"),
                Rule(At(p \o "o", <<V("x"), V("y")>>), <<At(p \o "e", <<V("x"), V("y")>>)>>),
                ClauseP(<<At(p \o "o", <<V("x"), V("z")>>)>>, <<<<At(p \o "o", <<V("x"), V("y")>>), At(p \o "o", <<V("y"), V("z")>>)>>>>,
                        << <<0, <<2, 1>>>>, <<1, <<2, 1>>>> >>) >>, TCRows(p)),   \* neither version is the textual order
       Probe("clause:plan", "on-disjunction", TC(p, << <<0, <<2, 1>>>> >>, TRUE), TCRows(p)),
       Probe("clause:subsumption", "named-variables",
             << DeclQ(<<p \o "o">>, A1("number"), <<"btree_delete">>, <<>>), Out(p \o "o"),
                Fact(p \o "o", <<N(1)>>), Fact(p \o "o", <<N(3)>>), Fact(p \o "o", <<N(2)>>),
                Subsume(At(p \o "o", <<V("x")>>), At(p \o "o", <<V("y")>>), <<<<C("<", "LT", V("x"), V("y"))>>>>, <<>>) >>,
             Rows(p \o "o", << <<"3">> >>)),
       Probe("clause:subsumption-unnamed-variables", "-",
             << DeclQ(<<p \o "o">>, <<<<"a", "number">>, <<"b", "number">>>>, <<"btree_delete">>, <<>>), Out(p \o "o"),
                Fact(p \o "o", <<N(1), N(5)>>), Fact(p \o "o", <<N(3), N(6)>>),
                Subsume(At(p \o "o", <<V("x"), AnyT>>), At(p \o "o", <<V("y"), AnyT>>), <<<<C("<", "LT", V("x"), V("y"))>>>>, <<>>) >>,
             Rows(p \o "o", << <<"3", "6">> >>)) >>

\* ---- E. declarations, types, directives, components ---------------------------
\* a relation with qualifier q that is copied to an output
QualProbe(p, q, variant, extra) ==
    Probe("decl:" \o q, variant,
          << Decl(p \o "a", A1("number")), Fact(p \o "a", <<N(1)>>), Fact(p \o "a", <<N(2)>>),
             DeclQ(<<p \o "r">>, A1("number"), <<q>>, <<>>), Rule(At(p \o "r", X), <<At(p \o "a", X)>>),
             Decl(p \o "o", A1("number")), Out(p \o "o"), Rule(At(p \o "o", X), <<At(p \o "r", X)>>) >> \o extra,
          Rows(p \o "o", << <<"1">>, <<"2">> >>))
PQ(k, v, style) == <<k, v, style>>
DeclProbes(p) ==
    << QualProbe(p, "inline", "-", <<>>), QualProbe(p, "no_inline", "-", <<>>), QualProbe(p, "magic", "-", <<>>),
       QualProbe(p, "no_magic", "-", <<>>), QualProbe(p, "brie", "-", <<>>), QualProbe(p, "btree", "-", <<>>),
       QualProbe(p, "btree_delete", "-", <<>>),
       Probe("decl:eqrel", "-",
             << DeclQ(<<p \o "o">>, <<<<"a", "number">>, <<"b", "number">>>>, <<"eqrel">>, <<>>), Out(p \o "o"),
                Fact(p \o "o", <<N(1), N(2)>>) >>,
             Rows(p \o "o", << <<"1", "1">>, <<"1", "2">>, <<"2", "1">>, <<"2", "2">> >>)),
       \* deprecated I/O qualifiers
       Probe("decl:qualifier-output", "-", << DeclQ(<<p \o "o">>, A1("number"), <<"output">>, <<>>), Fact(p \o "o", <<N(1)>>) >>,
             Rows(p \o "o", << <<"1">> >>)),
       Probe("decl:qualifier-input", "-", << DeclQ(<<p \o "i">>, A1("number"), <<"input">>, <<>>) >>, <<>>),
       Probe("decl:qualifier-printsize", "-", << DeclQ(<<p \o "s">>, A1("number"), <<"printsize">>, <<>>), Fact(p \o "s", <<N(1)>>) >>, <<>>),
       Probe("decl:multiple-names", "-",
             << DeclQ(<<p \o "o", p \o "q">>, A1("number"), <<>>, <<>>), Out(p \o "o"), Out(p \o "q"),
                Fact(p \o "o", <<N(1)>>), Fact(p \o "q", <<N(2)>>) >>,
             Rows(p \o "o", << <<"1">> >>) \o Rows(p \o "q", << <<"2">> >>)),
       Probe("decl:two-qualifiers", "-", QualProbe(p, "no_inline", "", <<>>).items
                \o << DeclQ(<<p \o "t">>, A1("number"), <<"no_magic", "brie">>, <<>>) >>, Rows(p \o "o", << <<"1">>, <<"2">> >>)),
       Probe("decl:choice-domain", "single",
             << DeclQ(<<p \o "o">>, <<<<"a", "number">>, <<"b", "number">>>>, <<>>, <<<<"a">>>>), Out(p \o "o"),
                Fact(p \o "o", <<N(1), N(2)>>) >>, Rows(p \o "o", << <<"1", "2">> >>)),
       Probe("decl:choice-domain", "tuple",
             << DeclQ(<<p \o "o">>, <<<<"a", "number">>, <<"b", "number">>, <<"c", "number">>>>, <<>>, <<<<"a", "b">>>>), Out(p \o "o"),
                Fact(p \o "o", <<N(1), N(2), N(3)>>) >>, Rows(p \o "o", << <<"1", "2", "3">> >>)),
       Probe("decl:choice-domain", "several",
             << DeclQ(<<p \o "o">>, <<<<"a", "number">>, <<"b", "number">>, <<"c", "number">>>>, <<>>, <<<<"a">>, <<"b", "c">>>>), Out(p \o "o"),
                Fact(p \o "o", <<N(1), N(2), N(3)>>) >>, Rows(p \o "o", << <<"1", "2", "3">> >>)),
       Probe("decl:debug_delta", "-",
             << Decl(p \o "a", A1("number")), Fact(p \o "a", <<N(1)>>),
                Rule(At(p \o "a", <<Fn(InfixOps[10], "i", <<V("x"), N(1)>>, FALSE)>>), <<At(p \o "a", X), C("<", "LT", V("x"), N(3))>>),
                \* (the base relation is an output: souffle loops for ever on a debug_delta of a relation that is not)
                Out(p \o "a"), Delta(p \o "d", p \o "a"), Decl(p \o "o", A1("number")), Out(p \o "o"),
                Rule(At(p \o "o", X), <<At(p \o "d", <<V("x"), AnyT>>)>>) >>, <<>>),
       \* types
       Probe("type:subset", "-", << TySub(p \o "T", "number"), Decl(p \o "o", A1(p \o "T")), Out(p \o "o"), Fact(p \o "o", <<N(1)>>) >>,
             Rows(p \o "o", << <<"1">> >>)),
       Probe("type:union", "-",
             << TySub(p \o "T", "symbol"), TySub(p \o "U", "symbol"), TyUnion(p \o "W", <<p \o "T", p \o "U">>),
                Decl(p \o "o", A1(p \o "W")), Out(p \o "o"), Fact(p \o "o", <<S("a")>>) >>, Rows(p \o "o", << <<"a">> >>)),
       Probe("type:alias", "-", << TyUnion(p \o "W", <<"number">>), Decl(p \o "o", A1(p \o "W")), Out(p \o "o"), Fact(p \o "o", <<N(1)>>) >>,
             Rows(p \o "o", << <<"1">> >>)),
       Probe("type:record", "-", << PairT(p), Decl(p \o "r", A1(p \o "Pr")) >>, <<>>),
       Probe("type:adt", "-", << TreeT(p), Decl(p \o "r", A1(p \o "Tr")) >>, <<>>),
       Probe("type:deprecated", "number_type", << Raw(".number_type " \o p \o "T"), Decl(p \o "o", A1(p \o "T")), Out(p \o "o"), Fact(p \o "o", <<N(1)>>) >>,
             Rows(p \o "o", << <<"1">> >>)),
       Probe("type:deprecated", "symbol_type", << Raw(".symbol_type " \o p \o "T"), Decl(p \o "o", A1(p \o "T")), Out(p \o "o"), Fact(p \o "o", <<S("a")>>) >>,
             Rows(p \o "o", << <<"a">> >>)),
       Probe("type:deprecated", "bare", << Raw(".type " \o p \o "T"), Decl(p \o "o", A1(p \o "T")), Out(p \o "o"), Fact(p \o "o", <<S("a")>>) >>,
             Rows(p \o "o", << <<"a">> >>)),
       \* user-defined functor declarations
       Probe("functor-decl:named-parameters", "-", << FunctorD(p \o "f", <<<<"x", "number">>, <<"y", "symbol">>>>, "number", FALSE) >>, <<>>),
       Probe("functor-decl:unnamed-parameters", "-", << FunctorD(p \o "f", <<<<"", "number">>, <<"", "symbol">>>>, "number", FALSE) >>, <<>>),
       Probe("functor-decl:no-parameters", "-", << FunctorD(p \o "f", <<>>, "symbol", FALSE) >>, <<>>),
       Probe("functor-decl:stateful", "-", << FunctorD(p \o "f", <<<<"x", "number">>>>, "number", TRUE) >>, <<>>),
       \* directives
       Probe("directive:input", "plain", << Decl(p \o "i", A1("number")), Dir("input", <<p \o "i">>, <<>>) >>, <<>>),
       Probe("directive:input", "parameters",
             << Decl(p \o "i", A1("number")),
                Dir("input", <<p \o "i">>, <<PQ("IO", "file", "id"), PQ("filename", "x.facts", "str"), PQ("delimiter", ",", "str")>>) >>, <<>>),
       Probe("directive:parameter-value", "number", << Decl(p \o "i", A1("number")), Dir("input", <<p \o "i">>, <<PQ("n", "3", "num")>>) >>, <<>>),
       Probe("directive:parameter-value", "boolean", << Decl(p \o "i", A1("number")), Dir("input", <<p \o "i">>, <<PQ("headers", "true", "bool")>>) >>, <<>>),
       Probe("directive:parameter-value", "tab", << Decl(p \o "i", A1("number")), Dir("input", <<p \o "i">>, <<PQ("delimiter", "\t", "str")>>) >>, <<>>),
       Probe("directive:parameter-value-escape-quote", "-",
             << Decl(p \o "i", A1("number")), Dir("input", <<p \o "i">>, <<PQ("filename", "a\"b", "str")>>) >>, <<>>),
       Probe("directive:parameter-value-escape-backslash", "-",
             << Decl(p \o "i", A1("number")), Dir("input", <<p \o "i">>, <<PQ("filename", "a\\b", "str")>>) >>, <<>>),
       Probe("directive:output", "parameters",
             << Decl(p \o "o", A1("number")), Fact(p \o "o", <<N(1)>>),
                Dir("output", <<p \o "o">>, <<PQ("IO", "file", "id"), PQ("delimiter", ",", "str")>>) >>, Rows(p \o "o", << <<"1">> >>)),
       Probe("directive:output", "several-relations",
             << Decl(p \o "o", A1("number")), Fact(p \o "o", <<N(1)>>), Decl(p \o "q", A1("number")), Fact(p \o "q", <<N(2)>>),
                Dir("output", <<p \o "o", p \o "q">>, <<>>) >>, Rows(p \o "o", << <<"1">> >>) \o Rows(p \o "q", << <<"2">> >>)),
       Probe("directive:output", "twice",
             << Decl(p \o "o", A1("number")), Fact(p \o "o", <<N(1)>>), Out(p \o "o"),
                Dir("output", <<p \o "o">>, <<PQ("filename", p \o "o2.csv", "str")>>) >>, Rows(p \o "o", << <<"1">> >>)),
       Probe("directive:printsize", "-", << Decl(p \o "s", A1("number")), Fact(p \o "s", <<N(1)>>), Dir("printsize", <<p \o "s">>, <<>>) >>, <<>>),
       Probe("directive:limitsize", "-",
             << Decl(p \o "o", A1("number")), Out(p \o "o"), Fact(p \o "o", <<N(0)>>),
                Rule(At(p \o "o", <<Fn(InfixOps[10], "i", <<V("x"), N(1)>>, FALSE)>>), <<At(p \o "o", X), C("<", "LT", V("x"), N(5))>>),
                Dir("limitsize", <<p \o "o">>, <<PQ("n", "3", "num")>>) >>, <<>>),
       \* components
       Probe("component:init", "-",
             << Comp(CompT(p \o "C", <<>>), <<>>, << Decl("r", A1("number")), Fact("r", <<N(1)>>) >>), InitC(p \o "c", CompT(p \o "C", <<>>)),
                Decl(p \o "o", A1("number")), Out(p \o "o"), Rule(At(p \o "o", X), <<At(p \o "c.r", X)>>) >>, Rows(p \o "o", << <<"1">> >>)),
       Probe("component:type-parameter", "-",
             << Comp(CompT(p \o "C", <<"T">>), <<>>, << Decl("r", A1("T")), Fact("r", <<N(1)>>) >>), InitC(p \o "c", CompT(p \o "C", <<"number">>)),
                Decl(p \o "o", A1("number")), Out(p \o "o"), Rule(At(p \o "o", X), <<At(p \o "c.r", X)>>) >>, Rows(p \o "o", << <<"1">> >>)),
       Probe("component:inheritance", "-",
             << Comp(CompT(p \o "B", <<>>), <<>>, << Decl("r", A1("number")), Fact("r", <<N(1)>>) >>),
                Comp(CompT(p \o "C", <<>>), <<CompT(p \o "B", <<>>)>>, << Fact("r", <<N(2)>>) >>), InitC(p \o "c", CompT(p \o "C", <<>>)),
                Decl(p \o "o", A1("number")), Out(p \o "o"), Rule(At(p \o "o", X), <<At(p \o "c.r", X)>>) >>, Rows(p \o "o", << <<"1">>, <<"2">> >>)),
       Probe("component:override", "-",
             << Comp(CompT(p \o "B", <<>>), <<>>, << DeclQ(<<"r">>, A1("number"), <<"overridable">>, <<>>), Fact("r", <<N(1)>>) >>),
                Comp(CompT(p \o "C", <<>>), <<CompT(p \o "B", <<>>)>>, << Override("r"), Fact("r", <<N(2)>>) >>), InitC(p \o "c", CompT(p \o "C", <<>>)),
                Decl(p \o "o", A1("number")), Out(p \o "o"), Rule(At(p \o "o", X), <<At(p \o "c.r", X)>>) >>, Rows(p \o "o", << <<"2">> >>)),
       Probe("component:nested", "-",
             << Comp(CompT(p \o "C", <<>>), <<>>,
                     << Comp(CompT("In", <<>>), <<>>, << Decl("r", A1("number")), Fact("r", <<N(1)>>) >>), InitC("i", CompT("In", <<>>)) >>),
                InitC(p \o "c", CompT(p \o "C", <<>>)),
                Decl(p \o "o", A1("number")), Out(p \o "o"), Rule(At(p \o "o", X), <<At(p \o "c.i.r", X)>>) >>, Rows(p \o "o", << <<"1">> >>)),
       Probe("component:with-type-and-directive", "-",
             << Comp(CompT(p \o "C", <<>>), <<>>, << TySub("T", "number"), Decl("r", A1("T")), Fact("r", <<N(1)>>), Out("r") >>),
                InitC(p \o "c", CompT(p \o "C", <<>>)) >>, Rows(p \o "c.r", << <<"1">> >>)),
       \* annotations (raw text: the token stream of an annotation is free-form)
       Probe("annotation:outer", "decl", << Raw("@[meta]\n.decl " \o p \o "o(v:number)"), Out(p \o "o"), Fact(p \o "o", <<N(1)>>) >>, Rows(p \o "o", << <<"1">> >>)),
       Probe("annotation:outer", "tokens", << Raw("@[meta = \"x\"]\n.decl " \o p \o "o(v:number)"), Out(p \o "o"), Fact(p \o "o", <<N(1)>>) >>, Rows(p \o "o", << <<"1">> >>)),
       Probe("annotation:doc-comment", "decl", << Raw("/// about o\n.decl " \o p \o "o(v:number)"), Out(p \o "o"), Fact(p \o "o", <<N(1)>>) >>, Rows(p \o "o", << <<"1">> >>)),
       Probe("annotation:inner", "clause",
             Two(p) \o << Raw(p \o "o(x) :- @![hint] " \o p \o "a(x).") >>, Rows(p \o "o", << <<"1">>, <<"2">> >>)) >>

\* pragmas are global: they take no prefix and are not composed
PragmaProbes ==
    << Probe("pragma:key", "-", << Pragma("c15-probe-key", <<>>), Decl("o", A1("number")), Out("o"), Fact("o", <<N(1)>>) >>, Rows("o", << <<"1">> >>)),
       Probe("pragma:key-value", "-", << Pragma("jobs", <<"1">>), Decl("o", A1("number")), Out("o"), Fact("o", <<N(1)>>) >>, Rows("o", << <<"1">> >>)) >>

Probes(p) == FunctorProbes(p) \o ConstraintProbes(p) \o TermProbes(p) \o ClauseProbes(p) \o DeclProbes(p)
\* probes that can be printed and translated but not executed here (no functor library, no fact file)
NoRunKinds == {"term:user-functor", "directive:input", "directive:parameter-value", "directive:parameter-value-escape-quote",
               "directive:parameter-value-escape-backslash", "decl:qualifier-input"}
\* every probe also uses these
BaseKinds == {"decl:plain", "clause:fact", "clause:rule", "directive:output", "term:var", "literal:atom", "term:number"}
KindsOfProbes(ps) == {ps[i].kind : i \in 1..Len(ps)}
=============================================================================
