"""C13 glue: asks TLC (spec/MC_Static.tla) to enumerate the program families and to compute each verdict, and injects
one defect into generator programs (the verdict of a mutated program is still computed by Static.tla).
Nothing here decides whether a program is well-formed."""
import copy, json, os, random
from . import tlc, gen
from .common import SPEC, write_data, NCPU

GEN_FEATURES = ["neg", "agg", "arith", "str", "rec", "adt", "range", "recursion", "mutual", "facts", "cmp", "bits"]
DEFECTS = ["none", "neg-self", "neg-any", "agg-self", "agg-any", "unground-head", "unground-neg", "unground-cmp",
           "type-const", "type-cmp", "type-column", "type-functor", "rec-arity"]

def V(n): return {"k": "var", "n": n}
ANY = {"k": "any"}

def _rules(P):
    return [c for c in P["clauses"] if c["body"]]

def _int_vars(P, c):
    """variables that occur as a direct argument of a positive body atom in a number column"""
    out = []
    for l in c["body"]:
        if l["k"] == "atom":
            rel = next(r for r in P["rels"] if r["name"] == l["rel"])
            for t, a in zip(rel["types"], l["args"]):
                if t == "i" and a["k"] == "var" and a["n"] not in out:
                    out.append(a["n"])
    return out

def _walk_terms(t, f):
    f(t)
    for x in t.get("a", []) if isinstance(t.get("a"), list) else []:
        _walk_terms(x, f)

def inject(P0, kind, rng):
    """Returns a copy of P0 with one defect of the given kind, or None when the program offers no site for it."""
    P = copy.deepcopy(P0)
    P.pop("src_clauses", None)        # render the clause list itself
    if kind == "none":
        return P
    rules = _rules(P)
    if not rules:
        return None
    idb = [r for r in P["rels"] if not r["input"]]
    c = rng.choice(rules)
    hrel = next(r for r in P["rels"] if r["name"] == c["head"]["rel"])
    def wild(rel):
        return [ANY] * rel["arity"]
    if kind in ("neg-self", "neg-any", "agg-self", "agg-any"):
        q = hrel if kind.endswith("self") else rng.choice(idb)
        if kind.startswith("neg"):
            c["body"].append({"k": "neg", "rel": q["name"], "args": wild(q)})
        else:
            if q["arity"] == 0:
                return None
            c["body"].append({"k": "agg", "op": "count", "res": V("cdef"), "tgt": {"k": "nil"},
                              "body": [{"k": "atom", "rel": q["name"], "args": wild(q)}], "outer": []})
        return P
    if kind == "unground-head":
        pos = [i for i, a in enumerate(c["head"]["args"]) if a["k"] == "var"]
        if not pos:
            return None
        c["head"]["args"][rng.choice(pos)] = V("udef")
        return P
    if kind == "unground-neg":
        cands = [r for r in P["rels"] if r["input"] and r["arity"] > 0]
        if not cands:
            return None
        q = rng.choice(cands)
        args = wild(q); args[rng.randrange(q["arity"])] = V("udef")
        c["body"].append({"k": "neg", "rel": q["name"], "args": args})
        return P
    if kind == "unground-cmp":
        c["body"].append({"k": "cmp", "op": rng.choice(["LT", "NE", "GE"]), "l": V("udef"), "r": {"k": "num", "v": 3}})
        return P
    if kind == "type-const":
        sites = []
        for cl in P["clauses"]:
            for atom in [cl["head"]] + [l for l in cl["body"] if l["k"] in ("atom", "neg")]:
                for i, a in enumerate(atom["args"]):
                    if a["k"] == "num":
                        sites.append((atom, i))
        if not sites:
            return None
        atom, i = rng.choice(sites)
        atom["args"][i] = {"k": "str", "v": "q"}
        return P
    iv = _int_vars(P, c)
    if kind == "type-cmp":
        if not iv:
            return None
        c["body"].append({"k": "cmp", "op": rng.choice(["NE", "LT", "EQ"]), "l": V(rng.choice(iv)), "r": {"k": "str", "v": "a"}})
        return P
    if kind == "type-column":
        cands = [r for r in P["rels"] if "s" in r["types"]]
        if not iv or not cands:
            return None
        q = rng.choice(cands)
        args = wild(q); args[rng.choice([i for i, t in enumerate(q["types"]) if t == "s"])] = V(rng.choice(iv))
        c["body"].append({"k": "atom", "rel": q["name"], "args": args})
        return P
    if kind == "type-functor":
        if not iv:
            return None
        c["body"].append({"k": "cmp", "op": "EQ", "l": V("tdef"), "r": {"k": "fn", "op": "STRLEN", "a": [V(rng.choice(iv))]}})
        return P
    if kind == "rec-arity":
        sites = []
        for cl in P["clauses"]:
            for atom in [cl["head"]] + [l for l in cl["body"] if l["k"] in ("atom", "neg")]:
                for i, a in enumerate(atom["args"]):
                    if a["k"] == "rec" and len(a["a"]) >= 2:
                        sites.append(a)
        if not sites:
            return None
        rng.choice(sites)["a"].pop()
        return P
    raise ValueError(kind)

def for_tlc(P):
    return {"types": P.get("types", []),
            "rels": [{k: r.get(k, False) for k in ("name", "arity", "types", "input", "output")} for r in P["rels"]],
            "clauses": P["clauses"]}

def gen_variants(seed, n, rng):
    """generator programs x defects -> list of (label, kind, P)"""
    out = []
    Ps = gen.programs(seed, n, features=GEN_FEATURES, n_idb=(2, 4), max_edbs=1, edb_sample=2)
    for P in Ps:
        for kind in DEFECTS:
            Q = inject(P, kind, rng)
            if Q is not None:
                out.append(("%s/%s" % (P["id"], kind), kind, Q))
    return out

def run_static(wd, name, res, g2=False, g3_range=(0, -1), g3_list=(), g3_both=False, g3_canon=False, shapes=False, gen_programs=(), timeout=1800,
               workers=None):
    """One TLC run of MC_Static; returns the printed PROG records."""
    d = os.path.join(wd, name)
    write_data(d, "StaticData", {"G2": g2, "G3Range": list(g3_range), "G3List": list(g3_list), "G3Both": g3_both, "G3Canon": g3_canon,
                                 "Shapes": shapes, "GenPrograms": [for_tlc(P) for P in gen_programs]})
    cfg = os.path.join(d, "S.cfg")
    with open(cfg, "w") as f:
        f.write("SPECIFICATION Spec\nINVARIANT Emit\nCHECK_DEADLOCK FALSE\n")
    r = tlc.run_tlc(os.path.join(SPEC, "MC_Static.tla"), cfg, d, lib=d, timeout=timeout, workers=workers)
    if not r["ok"]:
        res.infra_errors.append("MC_Static (%s): %s" % (name, r["violated"] or r["error"]))
        return []
    res.add_tlc(r)
    return [j for j in r["json"] if j.get("tag") == "PROG"]
