"""known_findings.json: genuine, unrepaired defects of /repo keyed by (property, finding id).  Never written at run time.
Format: {"findings": [{"property": "C08", "id": "...", "what": "..."}], "fixed": ["fixed: property=C18 <commit> <what>"]}"""
import json, os
from .common import VERIF

def load():
    with open(os.path.join(VERIF, "known_findings.json")) as f:
        return json.load(f)

def is_listed(kf, pid, fid):
    return any(x["property"] == pid and x["id"] == fid for x in kf.get("findings", []))

def describe(kf, pid, fid):
    x = next(x for x in kf["findings"] if x["property"] == pid and x["id"] == fid)
    return "%s: %s" % (fid, x["what"])
