"""Runs the guarded souffle build on a rendered program; classifies the outcome."""
import os, shutil, signal
from .common import run, canon
from . import render, build

class Outcome:
    def __init__(self):
        self.rc = None; self.kind = None; self.stderr = ""; self.stdout = ""
        self.outputs = None   # rel -> sorted list of canonical tuple strings
        self.dups = {}        # rel -> duplicated tuples
    def crashed(self):
        return self.kind in ("signal", "timeout", "assert")

def classify(rc, err):
    if rc == -999:
        return "timeout"
    if rc < 0 or rc >= 128:
        return "signal"
    if "Assertion" in err and "failed" in err or "fatal" in err.lower() and "internal" in err.lower():
        return "assert"
    if rc == 0:
        return "ok"
    return "error"

def run_dl(dl_path, facts_dir, out_dir, args=(), env=None, timeout=60, souffle=None):
    os.makedirs(out_dir, exist_ok=True)
    cmd = [souffle or build.SOUFFLE, "-F", facts_dir, "-D", out_dir] + list(args) + [dl_path]
    rc, out, err = run(cmd, timeout=timeout, env=env)
    if rc == -999:      # believed only if it repeats with ten times the limit (a loaded machine must not raise an alarm)
        rc, out, err = run(cmd, timeout=10 * timeout, env=env)
    o = Outcome(); o.rc = rc; o.stdout = out; o.stderr = err; o.kind = classify(rc, err)
    return o

def collect(P, out_dir, o):
    o.outputs = {}
    for r in P["rels"]:
        if not r.get("output"):
            continue
        path = os.path.join(out_dir, r["name"] + ".csv")
        if not os.path.exists(path):
            o.outputs[r["name"]] = None
            continue
        rows = [canon(t) for t in render.read_output(P, r["name"], path)]
        s = sorted(set(rows))
        if len(s) != len(rows):
            o.dups[r["name"]] = sorted({x for x in rows if rows.count(x) > 1})
        o.outputs[r["name"]] = s
    return o

def model_outputs(model):
    """TLC's model (rel -> list of tuples) in the same canonical form."""
    return {r: sorted(set(canon(t) for t in ts)) for r, ts in model.items()}
