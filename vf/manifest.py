"""Generates /verif/MANIFEST.json from one table, so that it is valid at all times:  python3 -m vf.manifest"""
import json, os
from .common import VERIF

GUARD = "SOUFFLE_VERIF"
from .manifest_table import CHECKS, NOT_BUILT

def main():
    props = [json.loads(l) for l in open(os.path.join(VERIF, "properties.jsonl"))]
    checks = []; na = []
    for p in props:
        pid = p["id"]
        if pid in CHECKS:
            c = CHECKS[pid]
            checks.append({
                "property_id": pid,
                "quick_cmd": "bin/check %s --tier quick" % pid,
                "thorough_cmd": "bin/check %s --tier thorough" % pid,
                "evidence_file": "/verif/evidence/%s.json" % pid,
                "replay_cmd_template": "bin/check %s --replay {path}" % pid,
                "engine": "vf",
                "level_claimed": {"category": c["category"], "text": c["text"], "design_ref": c["ref"]},
                "level_note": c["note"],
                "technique": c["technique"]})
        else:
            na.append({"property_id": pid, "reason": NOT_BUILT.get(pid, "check not built yet in this round; see DESIGN.md section 9 for the planned TLA+ module")})
    hooks_commits = []
    hf = os.path.join(VERIF, "hooks_commits.txt")
    if os.path.exists(hf):
        hooks_commits = [l.split()[0] for l in open(hf) if l.strip() and not l.startswith("#")]
    m = {"version": 1,
         "setup_cmd": "bin/setup",
         "hooks": {"guard": GUARD,
                   "enable": "cmake -S /repo -B /verif/build/souffle -DCMAKE_CXX_FLAGS=-D%s (done by bin/setup and, incrementally, by every bin/check); C++ harnesses compile /repo headers with -D%s" % (GUARD, GUARD),
                   "baseline_off_cmd": "cmake --build /repo/_build -j16 && ctest --test-dir /repo/_build -j8 --timeout 900",
                   "source_commits": hooks_commits, "add_only": True},
         "engines": [{"name": "vf", "path": "/verif/vf", "serves_properties": sorted(CHECKS),
                      "kind_free_text": "TLA+ specifications in /verif/spec checked by TLC; python glue renders inputs/traces; C++ harnesses in /verif/harness drive the real containers under a cooperative scheduler"}],
         "checks": checks,
         "not_applicable": na,
         "notes": "Every check: TLA+ spec + TLC decides; conformance binds spec to /repo (see DESIGN.md). known_findings.json lists genuine unrepaired defects."}
    with open(os.path.join(VERIF, "MANIFEST.json"), "w") as f:
        json.dump(m, f, indent=1)
    print("MANIFEST.json: %d checks, %d not_applicable" % (len(checks), len(na)))

if __name__ == "__main__":
    main()
