"""Shared paths and small helpers for the /verif framework (glue only: no expected results are computed here)."""
import json, os, shutil, subprocess, sys, time, fcntl, hashlib, contextlib, threading

VERIF = os.path.dirname(os.path.dirname(os.path.abspath(__file__)))
REPO = os.environ.get("VERIF_REPO", "/repo")
SPEC = os.path.join(VERIF, "spec")
# VERIF_REPO / VERIF_BUILD / VERIF_WORK / VERIF_EVID let a developer point the machinery at a scratch copy of the
# repository (mutation experiments) without touching /repo or the registered evidence; MANIFEST commands never set them.
WORK = os.environ.get("VERIF_WORK", os.path.join(VERIF, "work"))
BUILD = os.environ.get("VERIF_BUILD", os.path.join(VERIF, "build"))
EVID = os.environ.get("VERIF_EVID", os.path.join(VERIF, "evidence"))
HARNESS = os.path.join(VERIF, "harness")
NCPU = os.cpu_count() or 4

def seed():
    try:
        return int(os.environ.get("VERIF_SEED", "1"))
    except ValueError:
        return 1

def workdir(name, clean=True):
    d = os.path.join(WORK, name)
    if clean and os.path.isdir(d):
        shutil.rmtree(d, ignore_errors=True)
    os.makedirs(d, exist_ok=True)
    return d

@contextlib.contextmanager
def flock(path):
    os.makedirs(os.path.dirname(path), exist_ok=True)
    with open(path, "w") as f:
        fcntl.flock(f, fcntl.LOCK_EX)
        try:
            yield
        finally:
            fcntl.flock(f, fcntl.LOCK_UN)

def run(cmd, timeout=None, env=None, cwd=None, stdin=subprocess.DEVNULL, capture=True):
    """Run a command; returns (rc, stdout, stderr); rc=-9 with 'TIMEOUT' on timeout; negative rc = signal."""
    e = dict(os.environ)
    if env:
        e.update(env)
    try:
        p = subprocess.run(cmd, timeout=timeout, env=e, cwd=cwd, stdin=stdin,
                           stdout=subprocess.PIPE if capture else None,
                           stderr=subprocess.PIPE if capture else None)
        return p.returncode, (p.stdout or b"").decode("utf-8", "replace"), (p.stderr or b"").decode("utf-8", "replace")
    except subprocess.TimeoutExpired as ex:
        return -999, (ex.stdout or b"").decode("utf-8", "replace") if ex.stdout else "", "TIMEOUT"

def to_tla(o):
    """Python/JSON value -> TLA+ expression text (dicts become functions with string keys, lists become tuples).
    TLC re-evaluates JsonDeserialize(IOEnv.X) on every reference (measured: 15x slower), so data is inlined."""
    if isinstance(o, bool):
        return "TRUE" if o else "FALSE"
    if isinstance(o, int):
        return str(o) if o > -2147483648 else "(-2147483647-1)"   # the TLA+ parser rejects the literal 2147483648
    if isinstance(o, str):
        return json.dumps(o)
    if isinstance(o, (list, tuple)):
        return "<<" + ",".join(to_tla(x) for x in o) + ">>"
    if isinstance(o, dict):
        if not o:
            return "<<>>"
        return "(" + " @@ ".join("%s :> %s" % (str(k) if isinstance(k, int) and not isinstance(k, bool) else json.dumps(str(k)), to_tla(v))
                                 for k, v in o.items()) + ")"
    if o is None:
        return '"null"'
    raise ValueError("to_tla: %r" % (o,))

def write_mc(wd, name, extends, defs, cfg):
    """Write a generated model module <name>.tla (+ .cfg) into wd; returns (module path, cfg path)."""
    with open(os.path.join(wd, name + ".tla"), "w") as f:
        f.write("---- MODULE %s ----\nEXTENDS %s\n%s\n====\n" % (name, extends, defs))
    with open(os.path.join(wd, name + ".cfg"), "w") as f:
        f.write(cfg)
    return os.path.join(wd, name + ".tla"), os.path.join(wd, name + ".cfg")

def write_data(wd, module, defs):
    """Write a generated data module (plain definitions, evaluated once by TLC) into wd; wd must be on the TLA-Library path.
    defs: dict name -> python value."""
    os.makedirs(wd, exist_ok=True)
    with open(os.path.join(wd, module + ".tla"), "w") as f:
        f.write("---- MODULE %s ----\nEXTENDS TLC, Integers\n%s\n====\n" % (module, "\n".join("%s == %s" % (k, to_tla(v)) for k, v in defs.items())))

def canon(v):
    return json.dumps(v, sort_keys=True, separators=(",", ":"))

def log(*a):
    print(*a, file=sys.stderr, flush=True)

class Result:
    """Outcome of a check run: violations, known findings, coverage data for the evidence file."""
    def __init__(self, pid, tier):
        self.pid = pid; self.tier = tier; self.t0 = time.time()
        self.violations = []      # (description, replay_path)
        self.known = []           # descriptions of known findings met
        self.cov = {"states": 0, "transitions": 0, "traces_validated_against_impl": 0, "samples": []}
        self.assumptions = []
        self.infra_errors = []
        self._lock = threading.Lock()
    def add_tlc(self, st):
        self.cov["states"] += st.get("distinct", 0)
        self.cov["transitions"] += st.get("generated", 0)
    def sample(self, s, limit=6):
        if len(self.cov["samples"]) < limit:
            self.cov["samples"].append(s)
    def count(self, key, n=1):
        with self._lock:
            self.cov[key] = self.cov.get(key, 0) + n
