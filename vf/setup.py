import sys
from . import build
def main():
    build.ensure_souffle()
    print("setup: guarded souffle build ready at", build.SOUFFLE)
    try:
        from . import harness
        harness.build_all()
    except ImportError:
        pass
if __name__ == "__main__":
    main()
