"""Directions A and T at RAM level (DESIGN 5.1/5.2):
  A: the REAL RAM program souffle produced for a generated program (hook H3 dump) is executed by spec/Ram.tla on every
     EDB case; its outputs must equal the model computed by spec/Datalog.tla and the machine invariants must hold;
  T: the REAL interpreter's statement trace (hook H5) on sampled EDBs is validated step by step against spec/Ram.tla
     (spec/RamTrace.tla): same statement ids, same relation sizes after every statement.
Records and ADTs: EDB facts and expected models are handed to the spec in the value form of spec/Datalog.tla
(["nil"], ["rec", v..], ["adt", branch, v..] -> TLA+ tuples) exactly as TLC printed them; spec/Ram.tla packs them into its
record table when an input IO executes and decodes the output relations through the table, using the type table
RamProg.types that vf/ramjson.py copies from the real IO statements' `types` directive (so every writer of RamData gets it
with RamProg)."""
import json, os, shutil, concurrent.futures as cf
from . import render, build, tlc, ramjson
from .common import SPEC, run, write_data, NCPU

def dump_ram(P, pdir, args=(), env=None, tag="ram"):
    """Run the real front-end on P; returns (path of RAM JSON after optimisation, path before, error text or None)."""
    os.makedirs(pdir, exist_ok=True)
    dl = os.path.join(pdir, tag + ".dl")
    with open(dl, "w") as f:
        f.write(render.program(P))
    fin = os.path.join(pdir, tag + "_final.json"); ini = os.path.join(pdir, tag + "_initial.json")
    e = dict(env or {}); e.update({"SOUFFLE_VERIF_RAM_FINAL": fin, "SOUFFLE_VERIF_RAM_INITIAL": ini})
    rc, out, err = run([build.SOUFFLE] + list(args) + ["--show=transformed-ram", dl], env=e, timeout=120)
    if rc != 0 or not os.path.exists(fin):
        return None, None, "souffle --show=transformed-ram failed rc=%s: %s" % (rc, err[-500:])
    return fin, ini, None

def record_trace(P, dl, case, rundir, args=(), env=None, exe=None):
    facts = os.path.join(rundir, "facts"); out = os.path.join(rundir, "out")
    render.write_facts(P, case["edb"], facts); os.makedirs(out, exist_ok=True)
    tf = os.path.join(rundir, "trace.ndjson")
    if os.path.exists(tf):
        os.remove(tf)
    e = dict(env or {}); e["SOUFFLE_VERIF_TRACE"] = tf
    if exe:
        rc, so, se = run([exe, "-F", facts, "-D", out] + list(args), env=e, timeout=120)
    else:
        rc, so, se = run([build.SOUFFLE, "-F", facts, "-D", out] + list(args) + [dl], env=e, timeout=120)
    if rc != 0 or not os.path.exists(tf):
        return None, "traced run failed rc=%s: %s%s" % (rc, "(Segmentation violation signal reported) " if "Segmentation violation signal" in se else "", se[-400:])
    evs = []
    started = exe is not None      # generated code has no driver phases: every line is a statement event
    for line in open(tf):
        ev = json.loads(line)
        if ev.get("e") == "Phase":
            started = started or ev.get("p") == "Execute"
            continue
        if not started or "sid" not in ev:
            continue
        evs.append({"e": ev["e"], "sid": ev["sid"], "taken": bool(ev.get("taken", False)), "att": ev.get("att", 0), "sz": ev["sz"]})
    return evs, None

def _tupleid_skip_crash(res, pid, env, err):
    """known finding C06 skip-TupleId-crashes-after-HoistAggregate reached through a traced run"""
    from . import known
    if not (env and "TupleIdTransformer" in env.get("SOUFFLE_VERIF_SKIP_RAM", "")):
        return False
    if "Segmentation violation signal" not in err and "rc=-11" not in err:
        return False
    kf = known.load(); fid = "skip-TupleId-crashes-after-HoistAggregate"
    if not known.is_listed(kf, pid, fid):
        return False
    msg = known.describe(kf, pid, fid)
    with res._lock:
        if msg not in res.known:
            res.known.append(msg)
    res.count("known_finding_hits")
    return True

def edb_value(case):
    return {r: ts for r, ts in case["edb"].items()}

def check(P, cases, wd, label, res, pid, args=("-j1",), env=None, which="final", n_traces=4, rng=None,
          invariants=("FinalIsModel", "LoopHead", "TempsCleared", "RecordsOK"), workers=2, tag="ram", sn=None, return_ram=False, orders=([],)):
    """Returns dict(status=..., states=...).  Violations are appended to res.
    sn: optional function (case, RamProg) -> RamSN record (C09 expectations)"""
    pdir = os.path.join(wd, label)
    fin, ini, err = dump_ram(P, pdir, args=args, env=env, tag=tag)
    if err:
        from . import evalcore
        if not evalcore.known_crash(res, pid, err):      # recorded compiler crashes are not this check's business
            res.violations.append(("[%s] %s program=%s" % (tag, err, P["id"]), os.path.join(pdir, tag + ".dl")))
        return {"status": "dump-failed"}
    try:
        RP = ramjson.convert(fin if which == "final" else ini)
    except ramjson.Unsupported as e:
        res.count("ram_programs_outside_Ram_tla")
        return {"status": "unsupported", "why": str(e)}
    usable = [c for c in cases if not c["oob"]]
    if not usable:
        return {"status": "no-cases"}
    d = os.path.join(pdir, tag + "_A")
    write_data(d, "RamData", {"RamProg": RP, "RamEDBs": [edb_value(c) for c in usable],
                              "RamExpect": [{"have": True, "m": c["model"]} for c in usable], "RamTraces": [], "RamOrders": list(orders), "RamClearPolicy": "interp", "RamStored": ramjson.stored_relations(RP),
                              "RamSN": [sn(c, RP) if sn else {"have": False, "loops": {}, "att": {}} for c in usable]})
    cfg = os.path.join(d, "A.cfg")
    with open(cfg, "w") as f:
        f.write("SPECIFICATION Spec\nINVARIANT %s\nVIEW View\nCHECK_DEADLOCK FALSE\n" % " ".join(invariants))
    r = tlc.run_tlc(os.path.join(SPEC, "Ram.tla"), cfg, d, lib=d, workers=workers, timeout=1800)
    st = {"status": "ok", "states": r["distinct"]}
    if r["violated"]:
        path = os.path.join(d, "tlc.out"); open(path, "w").write(r["out"])
        res.violations.append(("[%s] the real RAM program of %s violates %s of spec/Ram.tla on some EDB (TLC counterexample in replay file); "
                               "dl=%s" % (tag, P["id"], r["violated"], os.path.join(pdir, tag + ".dl")), path))
        st["status"] = "violated"
    elif not r["ok"] and "which is not in its domain" in (r.get("out") or "") + (r["error"] or "") and \
            _tupleid_skip_crash(res, pid, env, "rc=-11 (spec/Ram.tla: the unrenumbered RAM reads a tuple id no operation binds)"):
        # the model meets the known finding the same way the engine does: with TupleId skipped the RAM is ill-formed
        st["status"] = "known"
    elif not r["ok"]:
        res.infra_errors.append("Ram.tla on %s: %s" % (P["id"], (r["error"] or "")[-600:]))
        st["status"] = "infra"
    else:
        res.add_tlc(r); res.count("ram_programs_model_checked"); res.count("ram_edb_cases_checked", len(usable))
    # ---- T ----
    if n_traces and st["status"] == "ok" and which == "final":
        sample = usable if len(usable) <= n_traces else (rng.sample(usable, n_traces) if rng else usable[:n_traces])
        traces = []; kept = []
        for k, c in enumerate(sample):
            evs, e2 = record_trace(P, os.path.join(pdir, tag + ".dl"), c, os.path.join(pdir, "%s_t%d" % (tag, k)), args=args, env=env)
            if e2:
                if _tupleid_skip_crash(res, pid, env, e2):
                    continue
                res.violations.append(("[%s trace] %s program=%s" % (tag, e2, P["id"]), os.path.join(pdir, "%s_t%d" % (tag, k))))
                continue
            traces.append(evs); kept.append(c)
        if traces:
            dt = os.path.join(pdir, tag + "_T")
            write_data(dt, "RamData", {"RamProg": RP, "RamEDBs": [edb_value(c) for c in kept],
                                       "RamExpect": [{"have": True, "m": c["model"]} for c in kept], "RamTraces": traces, "RamOrders": [[]], "RamClearPolicy": "interp", "RamStored": ramjson.stored_relations(RP),
                                       "RamSN": [{"have": False, "loops": {}, "att": {}} for c in kept]})
            cfg = os.path.join(dt, "T.cfg")
            with open(cfg, "w") as f:
                f.write("SPECIFICATION TSpec\nINVARIANT TraceInvariants\nCHECK_DEADLOCK FALSE\n")
            r = tlc.run_tlc(os.path.join(SPEC, "RamTrace.tla"), cfg, dt, lib=dt, workers=1, timeout=1800)
            acc = set()
            for line in r["out"].splitlines():
                if line.startswith('<<"ACCEPT"'):
                    acc.add(int(line.split(",")[1].strip(" >")))
            if r["violated"]:
                path = os.path.join(dt, "tlc.out"); open(path, "w").write(r["out"])
                res.violations.append(("[%s trace] a real interpreter run of %s violates %s (evaluated by spec/RamTrace.tla on the recorded trace)"
                                       % (tag, P["id"], r["violated"]), path))
            elif not r["ok"]:
                res.infra_errors.append("RamTrace.tla on %s: %s" % (P["id"], (r["error"] or "")[-600:]))
            else:
                res.add_tlc(r)
                for k in range(len(traces)):
                    if (k + 1) in acc:
                        res.cov["traces_validated_against_impl"] += 1
                    else:
                        path = os.path.join(dt, "rejected_%d.json" % k)
                        json.dump({"program": P["id"], "dl": os.path.join(pdir, tag + ".dl"), "edb": kept[k]["edb"], "trace": traces[k]},
                                  open(path, "w"), indent=1)
                        res.violations.append(("[%s trace] the interpreter's statement trace of %s on EDB %s is not a behaviour of spec/Ram.tla "
                                               "(statement order, EXIT decisions or relation sizes differ)" % (tag, P["id"], kept[k]["edb"]), path))
    return st


def check_compiled(P, cases, wd, label, res, pid, n_traces=4, rng=None, tag="compiled"):
    """T for the second back-end (hook H6): the generated C++ writes the same statement events; the trace of the compiled
    executable (-j1) is validated against spec/Ram.tla executing the same RAM program, with the generated code's CLEAR
    policy (stored relations are not cleared)."""
    pdir = os.path.join(wd, label); os.makedirs(pdir, exist_ok=True)
    dl = os.path.join(pdir, tag + ".dl")
    with open(dl, "w") as f:
        f.write(render.program(P))
    fin = os.path.join(pdir, tag + "_final.json"); exe = os.path.join(pdir, tag + ".exe")
    rc, out, err = run([build.SOUFFLE, "-j1", "-o", exe, dl], env={"SOUFFLE_VERIF_RAM_FINAL": fin}, timeout=900)
    if rc != 0 or not os.path.exists(exe) or not os.path.exists(fin):
        from . import evalcore
        if not evalcore.known_crash(res, pid, err):
            res.violations.append(("[%s] compiling %s failed rc=%s: %s" % (tag, P["id"], rc, err[-500:]), dl))
        return {"status": "compile-failed"}
    try:
        RP = ramjson.convert(fin)
    except ramjson.Unsupported as e:
        res.count("ram_programs_outside_Ram_tla")
        return {"status": "unsupported", "why": str(e)}
    usable = [c for c in cases if not c["oob"]]
    sample = usable if len(usable) <= n_traces else (rng.sample(usable, n_traces) if rng else usable[:n_traces])
    traces = []; kept = []
    for k, c in enumerate(sample):
        evs, e2 = record_trace(P, dl, c, os.path.join(pdir, "%s_t%d" % (tag, k)), args=("-j1",), exe=exe)
        if e2:
            res.violations.append(("[%s trace] %s program=%s" % (tag, e2, P["id"]), os.path.join(pdir, "%s_t%d" % (tag, k)))); continue
        traces.append(evs); kept.append(c)
    if not traces:
        return {"status": "no-traces"}
    dt = os.path.join(pdir, tag + "_T")
    write_data(dt, "RamData", {"RamProg": RP, "RamEDBs": [edb_value(c) for c in kept],
                               "RamExpect": [{"have": True, "m": c["model"]} for c in kept], "RamTraces": traces, "RamOrders": [[]],
                               "RamClearPolicy": "compiled", "RamStored": ramjson.stored_relations(RP),
                               "RamSN": [{"have": False, "loops": {}, "att": {}} for c in kept]})
    cfg = os.path.join(dt, "T.cfg")
    with open(cfg, "w") as f:
        f.write("SPECIFICATION TSpec\nINVARIANT TraceInvariants\nCHECK_DEADLOCK FALSE\n")
    r = tlc.run_tlc(os.path.join(SPEC, "RamTrace.tla"), cfg, dt, lib=dt, workers=1, timeout=1800)
    acc = set()
    for line in r["out"].splitlines():
        if line.startswith('<<"ACCEPT"'):
            acc.add(int(line.split(",")[1].strip(" >")))
    if r["violated"]:
        path = os.path.join(dt, "tlc.out"); open(path, "w").write(r["out"])
        res.violations.append(("[%s trace] a run of the compiled executable of %s violates %s (spec/RamTrace.tla on the recorded trace)"
                               % (tag, P["id"], r["violated"]), path))
        return {"status": "violated"}
    if not r["ok"]:
        res.infra_errors.append("RamTrace.tla (compiled) on %s: %s" % (P["id"], (r["error"] or "")[-600:]))
        return {"status": "infra"}
    res.add_tlc(r)
    for k in range(len(traces)):
        if (k + 1) in acc:
            res.cov["traces_validated_against_impl"] += 1; res.count("compiled_traces_validated")
        else:
            path = os.path.join(dt, "rejected_%d.json" % k)
            json.dump({"program": P["id"], "dl": dl, "edb": kept[k]["edb"], "trace": traces[k]}, open(path, "w"), indent=1)
            res.violations.append(("[%s trace] the statement trace of the compiled executable of %s on EDB %s is not a behaviour of spec/Ram.tla"
                                   % (tag, P["id"], kept[k]["edb"]), path))
    return {"status": "ok"}
