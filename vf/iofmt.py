"""Glue shared by C17 and C18: decoding of the vectors printed by TLC (spec/MC_CsvIO, spec/MC_NumParse), rendering of
values as souffle program text, IO directives for a format, running and classifying a souffle process.
No expected result is computed here: values, file texts, representability and accept/reject classes all come from TLC."""
import gzip, json, os, re
from fractions import Fraction
from . import build
from .common import run

TYPE_DECLS = """.type R = [s:symbol, n:number]
.type RR = [r:R, u:unsigned]
.type A = N{} | C{n:number, s:symbol} | S{s:symbol} | W{r:R}
.type RA = [a:A, n:number]
.type E = Red{} | Green{}
"""
TYNAME = {"i": "number", "u": "unsigned", "f": "float", "s": "symbol", "R": "R", "RR": "RR", "A": "A", "RA": "RA", "E": "E"}
REC_FIELDS = {"R": ["s", "i"], "RR": ["R", "u"], "RA": ["A", "i"]}
ADT_BRANCH = {"A": {"N": [], "C": ["i", "s"], "S": ["s"], "W": ["R"]}, "E": {"Red": [], "Green": []}}

def seq(x):
    """TLC's ToJson prints an empty sequence as {} or []; normalise."""
    return [] if x in ({}, None) else x

def text(codes):
    return bytes(seq(codes)).decode("latin-1")

def dl_string(s):
    out = []
    for ch in s:
        out.append({"\\": "\\\\", '"': '\\"', "\n": "\\n", "\t": "\\t", "\r": "\\r", "\f": "\\f"}.get(ch, ch))
    return '"' + "".join(out) + '"'

def float_fraction(v):
    """Exact rational of a decimal float value [neg, m, x] (m = digits d1d2..dk, value d1.d2..dk * 10^x)."""
    m = text(v["m"])
    return (-1 if v["neg"] else 1) * Fraction(int(m)) * Fraction(10) ** (v["x"] - (len(m) - 1))

def is_binary32(fr):
    """Input validity check for the float domain of MC_CsvIO: the decimal must be a binary32 value (so that the
    program-text constant denotes exactly the specification's value)."""
    if fr == 0:
        return True
    a = abs(fr)
    den = a.denominator
    if den & (den - 1):
        return False
    num = a.numerator
    while num % 2 == 0:
        num //= 2
    return num < (1 << 24)

SPECIAL_FLOAT = {"inf": "1.0/0.0", "-inf": "-1.0/0.0", "nan": "0.0/0.0",
                 "dmin": "0.00000000000000000001*0.0000000000000000000000001"}

def float_term(v):
    if v["k"] == "fs":
        return SPECIAL_FLOAT[v["s"]]
    m = text(v["m"]); x = v["x"]
    if x >= 0:
        digits = m + "0" * max(0, x + 1 - len(m))
        ip, fp = digits[:x + 1], digits[x + 1:]
    else:
        ip, fp = "0", "0" * (-x - 1) + m
    return ("-" if v["neg"] else "") + ip + "." + (fp or "0")

def term(ty, v):
    """A value as a souffle program-text term."""
    k = v["k"]
    if k == "s":
        return dl_string(text(v["c"]))
    if k in ("i", "u"):
        return text(v["d"])
    if k in ("fv", "fs"):
        return float_term(v)
    if k == "nil":
        return "nil"
    if k == "rec":
        return "[" + ", ".join(term(t, a) for t, a in zip(REC_FIELDS[ty], seq(v["a"]))) + "]"
    if k == "adt":
        fs = ADT_BRANCH[ty][v["b"]]
        return "$" + v["b"] + "(" + ", ".join(term(t, a) for t, a in zip(fs, seq(v["a"]))) + ")"
    raise ValueError(v)

def show(ty, v):
    """Human-readable value for samples / messages."""
    return term(ty, v)

def symbols(ty, v, nested=False):
    """(text, nested?) of every symbol inside a value."""
    k = v["k"]
    if k == "s":
        return [(text(v["c"]), nested)]
    if k == "rec":
        return [x for t, a in zip(REC_FIELDS[ty], seq(v["a"])) for x in symbols(t, a, True)]
    if k == "adt":
        return [x for t, a in zip(ADT_BRANCH[ty][v["b"]], seq(v["a"])) for x in symbols(t, a, True)]
    return []

def decl(name, types):
    return ".decl %s(%s)" % (name, ", ".join("%s:%s" % ("xyzuvw"[i], TYNAME[t]) for i, t in enumerate(types)))

def fact(name, types, tup):
    return "%s(%s)." % (name, ", ".join(term(t, v) for t, v in zip(types, tup)))

def io_opts(fmt, filename):
    """Directive parameters of a format (dict printed by MC_CsvIO: kind, name, rfc, delim, explicit, headers)."""
    n = fmt["name"]
    if n in ("json-list", "json-object"):
        o = ['IO=jsonfile', 'filename=%s' % dl_string(filename)]
        if n == "json-object":
            o.append('format=object')
        return o
    if n == "sqlite":
        return ['IO=sqlite', 'dbname=%s' % dl_string(filename)]
    o = ['IO=file', 'filename=%s' % dl_string(filename)]
    if n == "gzip-tsv":
        return o + ['compress=true']
    if n == "gzip-rfc4180":
        return o + ['compress=true', 'rfc4180=true']
    if fmt["rfc"]:
        o.append('rfc4180=true')
    if fmt["explicit"]:
        o.append('delimiter=%s' % dl_string(text(fmt["delim"])))
    if fmt["headers"]:
        o.append('headers=true')
    return o

def file_ext(fmt):
    return {"json-list": ".json", "json-object": ".json", "sqlite": ".sqlite", "gzip-tsv": ".csv.gz",
            "gzip-rfc4180": ".csv.gz"}.get(fmt["name"], ".csv")

def read_bytes(path, gz=False):
    try:
        with open(path, "rb") as f:
            b = f.read()
        return gzip.decompress(b) if gz else b
    except Exception:
        return None

class Proc:
    """Outcome of one souffle process: kind in ok | error (exit 1 with a message) | crash (signal, assertion, abort,
    souffle's own SIGSEGV handler) | timeout."""
    def __init__(self, rc, out, err):
        self.rc = rc; self.out = out; self.err = err
        if rc == -999:
            self.kind = "timeout"
        elif rc < 0 or rc >= 128 or "Assertion" in err or "signal" in err.lower() or "terminate called" in err \
                or "core dumped" in err.lower():
            self.kind = "crash"
        elif rc == 0:
            self.kind = "ok"
        else:
            self.kind = "error"
    def brief(self):
        return "%s rc=%s %s" % (self.kind, self.rc, self.err.strip()[-300:])

def souffle(dl, facts=None, out=None, timeout=60, args=()):
    cmd = [build.SOUFFLE]
    if facts:
        cmd += ["-F", facts]
    if out:
        cmd += ["-D", out]
    rc, so, se = run(cmd + list(args) + [dl], timeout=timeout)
    return Proc(rc, so, se)

def stdout_relation(out, name):
    """Rows of a relation printed with IO=stdout (only used where the writer is not under test)."""
    m = re.search(r"-{15}\n%s\n={15}\n(.*?)={15}\n" % re.escape(name), out, re.S)
    if not m:
        return None
    body = m.group(1)
    return body.split("\n")[:-1] if body else []

def nearest_binary32(fr, got):
    """Rounding relation between the specification's exact rational and a stored binary32 (TLC has no floats):
    true iff `got` (a python float holding a binary32 value) is a nearest binary32 to fr."""
    import struct, math
    if math.isnan(got) or math.isinf(got):
        return False
    g = Fraction(got)
    bits = struct.unpack("<I", struct.pack("<f", got))[0]
    def nb(b):
        try:
            return Fraction(struct.unpack("<f", struct.pack("<I", b))[0])
        except Exception:
            return None
    cands = []
    for d in (-1, 1):
        b = bits + d
        if bits & 0x7fffffff == 0 and d == -1:
            b = (bits ^ 0x80000000) + 1          # neighbour of zero on the other side
        if 0 <= b <= 0xffffffff and (b & 0x7f800000) != 0x7f800000:
            cands.append(nb(b))
    err = abs(g - fr)
    return all(c is None or err <= abs(c - fr) for c in cands)
