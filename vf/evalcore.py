"""EVAL: the shared pipeline of the evaluation properties.
  (1) TLC runs spec/MC_Datalog on the generated programs: every EDB of the bounded space is an initial state,
      the model is computed by the spec, and each terminal state is printed as JSON;
  (2) the real souffle (guarded build of /repo) is run on the same programs/EDBs in the configurations a property
      quantifies over; (3) outputs are compared, as sets of typed tuples, with the spec's model."""
import json, os, shutil, concurrent.futures as cf
from . import render, souffle as sf, tlc, gen, build
from .common import SPEC, NCPU, canon, log, to_tla, write_mc, write_data

def tlc_models(Ps, wd, res, workers=None, timeout=1500, chunk=None):
    """Returns cases[p] = list of {edb, model, full, oob, iters}; accumulates TLC counts into res."""
    cases = [[] for _ in Ps]
    chunk = chunk or len(Ps)
    for base in range(0, len(Ps), chunk):
        part = Ps[base:base + chunk]
        d = os.path.join(wd, "tlc_%d" % base)
        write_data(d, "DatalogData", {"Programs": [gen.strip_for_tlc(P) for P in part]})
        r = tlc.run_tlc(os.path.join(SPEC, "MC_Datalog.tla"), os.path.join(SPEC, "MC_Datalog.cfg"), d, workers=workers,
                        timeout=timeout, lib=d)
        if not r["ok"]:
            if r["violated"]:
                res.infra_errors.append("spec-level property %s of Datalog.tla violated (spec bug, not souffle): %s"
                                        % (r["violated"], r["out"][-1500:]))
            else:
                res.infra_errors.append(r["error"] or "tlc failed")
            continue
        res.add_tlc(r)
        for j in r["json"]:
            if j.get("tag") == "MODEL":
                cases[base + j["p"] - 1].append(j)
    return cases

def _exec_case(job):
    (P, text_path, case, cfg, rundir, exe) = job
    facts = os.path.join(rundir, "facts"); out = os.path.join(rundir, "out")
    render.write_facts(P, case["edb"], facts)
    os.makedirs(out, exist_ok=True)
    if exe:
        from .common import run
        rc, so, se = run([exe, "-F", facts, "-D", out] + list(cfg.get("exe_args", [])), timeout=cfg.get("timeout", 60),
                         env=cfg.get("env"))
        o = sf.Outcome(); o.rc = rc; o.stdout = so; o.stderr = se; o.kind = sf.classify(rc, se)
    else:
        args = list(cfg.get("args", []))
        if cfg.get("autoschedule"):     # profile the same program/EDB first, then schedule from that profile
            prof = os.path.join(rundir, "prof.json")
            o0 = sf.run_dl(text_path, facts, os.path.join(rundir, "out_prof"), args=args + ["-p", prof, "--emit-statistics"],
                           env=cfg.get("env"), timeout=cfg.get("timeout", 60))
            if o0.kind != "ok":
                o0.stderr = "[profiling run] " + o0.stderr
                return o0
            args = args + ["-a", prof]
        if cfg.get("profile"):
            args = args + ["-p", os.path.join(rundir, "prof.json")]
        o = sf.run_dl(text_path, facts, out, args=args, env=cfg.get("env"), timeout=cfg.get("timeout", 60))
    if o.kind == "timeout" and not cfg.get("_retried"):
        # a time-out is only believed if it repeats with ten times the limit (a loaded machine must not raise an alarm)
        cfg2 = dict(cfg); cfg2["_retried"] = True; cfg2["timeout"] = 10 * cfg.get("timeout", 60)
        return _exec_case((P, text_path, case, cfg2, rundir, exe))
    if o.kind == "ok":
        try:
            sf.collect(P, out, o)
        except render.ParseError as e:
            o.kind = "unparsable-output"; o.stderr += "\n" + str(e)
    return o

def compare(P, case, o):
    """None if the real outputs equal the spec's model; else a description."""
    if o.kind != "ok":
        return "souffle %s (rc=%s): %s" % (o.kind, o.rc, o.stderr[-600:])
    exp = sf.model_outputs(case["model"])
    for rel, want in exp.items():
        got = o.outputs.get(rel)
        if got is None:
            return "output file of %s missing" % rel
        if rel in o.dups:
            return "relation %s lists tuples twice: %s" % (rel, o.dups[rel][:5])
        if got != want:
            missing = [x for x in want if x not in got][:6]; extra = [x for x in got if x not in want][:6]
            return "relation %s differs from the model: missing %s, unexpected %s" % (rel, missing, extra)
    return None

def run_configs(P, cases, configs, wd, res, pid, label, max_cases=None, rng=None, pool=None, on_violation=None):
    """Run the real souffle on (a sample of) the cases in every configuration; compare with the model.
    configs: list of dicts {name, args, env, transform(P)->P or None, compile: bool, exe_args}.
    Returns number of runs compared."""
    usable = [c for c in cases if not c["oob"]]
    res.count("cases_outside_value_domain", len(cases) - len(usable))
    if max_cases and len(usable) > max_cases:
        # keep the first (empty) and last, sample the rest
        idx = sorted(rng.sample(range(len(usable)), max_cases))
        usable = [usable[i] for i in idx]
    runs = 0
    jobs = []
    pdir = os.path.join(wd, label)
    os.makedirs(pdir, exist_ok=True)
    for ci, cfg in enumerate(configs):
        PV = cfg["transform"](P) if cfg.get("transform") else P
        if PV is None:
            continue
        text = render.program(PV, extra_directives=cfg.get("directives", ()))
        tp = os.path.join(pdir, "c%d.dl" % ci)
        with open(tp, "w") as f:
            f.write(text)
        exe = None
        if cfg.get("compile"):
            exe = os.path.join(pdir, "c%d.exe" % ci)
            from .common import run
            cenv = dict(cfg.get("compile_env") or {})
            if cfg.get("compile_mode") == "-C":      # multi-file generation, then the same compile script souffle uses
                gdir = os.path.join(pdir, "c%d_gen" % ci)
                shutil.rmtree(gdir, ignore_errors=True)
                rc, so, se = run([build.SOUFFLE] + list(cfg.get("args", [])) + ["-G", gdir, tp], timeout=300, env=cenv)
                if rc == 0:
                    srcs = sorted(os.path.join(gdir, f) for f in os.listdir(gdir) if f.endswith(".cpp"))
                    rc, so, se = run(["python3", os.path.join(os.path.dirname(build.SOUFFLE), "souffle-compile.py")] + srcs +
                                     ["-o", exe], timeout=900, env=cenv)
            else:
                rc, so, se = run([build.SOUFFLE] + list(cfg.get("args", [])) + ["-o", exe, tp], timeout=900, env=cenv)
            if rc != 0 or not os.path.exists(exe):
                if cfg.get("reject_ok") and rc == 1 and "Error" in se and "rror: " in se:
                    res.count("variants_rejected_by_checker")
                    continue
                desc = "[%s] compiling %s failed rc=%s: %s" % (cfg["name"], tp, rc, se[-800:])
                _report(res, pid, desc, pdir, P, None, cfg, tp, on_violation)
                continue
        for k, case in enumerate(usable):
            jobs.append((PV, tp, case, cfg, os.path.join(pdir, "c%d_e%d" % (ci, k)), exe))
    own = pool is None
    pool = pool or cf.ThreadPoolExecutor(NCPU)
    try:
        outs = list(pool.map(_exec_case, jobs))
    finally:
        if own:
            pool.shutdown()
    rejected = set()
    for job, o in zip(jobs, outs):
        (PV, tp, case, cfg, rundir, exe) = job
        if cfg.get("reject_ok") and o.kind == "error" and o.rc == 1 and "Error" in o.stderr:
            if tp not in rejected:
                rejected.add(tp); res.count("variants_rejected_by_checker")
            shutil.rmtree(rundir, ignore_errors=True)
            continue
        runs += 1
        d = compare(PV, case, o)
        if d is not None:
            _report(res, pid, "[%s] %s" % (cfg["name"], d), rundir, P, case, cfg, tp, on_violation, o)
        else:
            shutil.rmtree(rundir, ignore_errors=True)
    return runs

# crashes of the compiler that are genuine, recorded defects of /repo (known_findings.json).  For the properties that
# list them they are reported as KNOWN-FINDING; for the other evaluation properties such a program simply cannot be
# evaluated in any configuration and is left out (counted).
KNOWN_CRASHES = {"Unable to ground parameter in materialisation-requiring aggregate body": "aggregate-param-grounding-assert",
                 "has no member named 'lowerUpperRange_0": "compiled-eqrel-all-undef-existence-check",
                 # generator programs are grounded by construction: this diagnostic on one of them is the recorded defect
                 "Error: Ungrounded variable": "grounded-clause-rejected-aggregate-injected-variable"}

def known_crash(res, pid, text):
    from . import known
    for needle, fid in KNOWN_CRASHES.items():
        if needle in (text or ""):
            kf = known.load()
            if known.is_listed(kf, pid, fid):
                msg = known.describe(kf, pid, fid)
                if msg not in res.known:
                    res.known.append(msg)
                res.count("known_finding_hits")
            else:
                res.count("runs_left_out_known_compiler_crash")
            return True
    return False

def _report(res, pid, desc, rundir, P, case, cfg, tp, on_violation, o=None):
    if known_crash(res, pid, desc + (o.stderr if o is not None else "")):
        return
    os.makedirs(rundir, exist_ok=True)
    with open(os.path.join(rundir, "replay.json"), "w") as f:
        json.dump({"property": pid, "program": P.get("id"), "dl": tp, "config": cfg["name"], "args": cfg.get("args", []),
                   "env": cfg.get("env"), "edb": case and case["edb"], "expected": case and case["model"],
                   "got": o and o.outputs, "desc": desc}, f, indent=1, default=str)
    if on_violation and on_violation(desc, P, case, cfg, o):
        return
    res.violations.append((desc + "  program=" + str(P.get("id")), os.path.join(rundir, "replay.json")))

def nontrivial(cases):
    """A program/EDB case is non-trivial when some output relation of the model is non-empty."""
    return sum(1 for c in cases if any(len(v) > 0 for v in c["model"].values()))
