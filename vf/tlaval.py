"""Parser for TLC's printed values (state labels of -dump dot, error traces): ints, strings, TRUE/FALSE, <<tuples>>,
{sets}, [records |-> ..], (functions :> .. @@ ..).  Returns python ints/str/bool/list/dict (sets become sorted lists)."""
import re

_tok = re.compile(r'\s*(<<|>>|\|->|:>|@@|[\[\]{}(),]|-?\d+|"(?:[^"\\]|\\.)*"|[A-Za-z_][A-Za-z0-9_]*)')

def tokens(s):
    pos = 0; out = []
    while pos < len(s):
        m = _tok.match(s, pos)
        if not m:
            if s[pos:].strip() == "":
                break
            raise ValueError("bad TLA value at %r" % s[pos:pos + 30])
        out.append(m.group(1)); pos = m.end()
    return out

def parse(s):
    t = tokens(s)
    v, i = _val(t, 0)
    if i != len(t):
        raise ValueError("trailing tokens %r" % t[i:i + 5])
    return v

def _val(t, i):
    x = t[i]
    if x == "<<":
        i += 1; out = []
        while t[i] != ">>":
            v, i = _val(t, i); out.append(v)
            if t[i] == ",":
                i += 1
        return out, i + 1
    if x == "{":
        i += 1; out = []
        while t[i] != "}":
            v, i = _val(t, i); out.append(v)
            if t[i] == ",":
                i += 1
        return sorted(out, key=repr), i + 1
    if x == "[":
        i += 1; out = {}
        while t[i] != "]":
            k = t[i]; assert t[i + 1] == "|->", t[i:i + 3]
            v, i = _val(t, i + 2); out[k] = v
            if t[i] == ",":
                i += 1
        return out, i + 1
    if x == "(":
        i += 1; out = {}
        while t[i] != ")":
            k, i = _val(t, i); assert t[i] == ":>"
            v, i = _val(t, i + 1); out[k if isinstance(k, (str, int)) else repr(k)] = v
            if t[i] == "@@":
                i += 1
        return out, i + 1
    if x.startswith('"'):
        return bytes(x[1:-1], "utf-8").decode("unicode_escape"), i + 1
    if x == "TRUE":
        return True, i + 1
    if x == "FALSE":
        return False, i + 1
    if re.fullmatch(r"-?\d+", x):
        return int(x), i + 1
    return x, i + 1      # model value / identifier

def parse_state(label):
    """'/\\ a = 1\n/\\ b = <<..>>' -> {a: 1, b: [...]}"""
    out = {}
    parts = re.split(r"(?:^|\n)/\\ ", label)
    for p in parts:
        p = p.strip()
        if not p:
            continue
        name, val = p.split(" = ", 1)
        out[name.strip()] = parse(val)
    return out
