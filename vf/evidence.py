"""Writes /verif/evidence/<id>.json and prints the verdict lines required by the interface."""
import json, os, time
from .common import EVID, seed

def finish(res, level, assumptions=(), extra_cov=None):
    os.makedirs(EVID, exist_ok=True)
    cov = dict(res.cov)
    if extra_cov:
        cov.update(extra_cov)
    if not cov.get("samples"):
        cov["samples"] = ["(no case was explored)"]
    cov.setdefault("known_findings_met", len(res.known))
    ev = {"property_id": res.pid, "tier": res.tier, "seed": seed(), "level": level, "coverage": cov,
          "assumptions": list(assumptions) + list(res.assumptions), "wall_s": round(time.time() - res.t0, 2),
          "violations": len(res.violations)}
    with open(os.path.join(EVID, res.pid + ".json"), "w") as f:
        json.dump(ev, f, indent=1, sort_keys=True, default=str)
    for k in res.known:
        print("KNOWN-FINDING: property=%s %s" % (res.pid, k), flush=True)
    for desc, replay in res.violations:
        print("VIOLATION property=%s replay=%s" % (res.pid, replay), flush=True)
        print("  " + desc[:2000], flush=True)
    if res.infra_errors:
        for e in res.infra_errors:
            print("INFRA-ERROR: " + e[:2000], flush=True)
        return 2 if not res.violations else 1
    return 1 if res.violations else 0
