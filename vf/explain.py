"""Glue for C19 (syntax only): drives `souffle -t explain` through stdin, reads the JSON answers, and turns
  * the text of the cited rules (souffle's AST printer) into the clause format of spec/Datalog.tla,
  * the proof trees into the tree values of spec/Provenance.tla.
Nothing here decides whether a proof is valid: that is Provenance!ValidTree, evaluated by TLC."""
import json, os, re, subprocess
from .common import run

class Unsupported(Exception):
    """The cited rule uses syntax outside the provenance fragment of the check (aggregates, generators, records ...)."""

# ---- clause text -> clause JSON ---------------------------------------------------------------------------------
INFIX = {"+": "ADD", "-": "SUB", "*": "MUL", "/": "DIV", "%": "MOD", "&": "BAND", "|": "BOR", "^": "BXOR",
         "<<": "BSHIFT_L", ">>": "BSHIFT_R", ">>>": "BSHIFT_R_UNSIGNED", "&&": "LAND", "||": "LOR", "^^": "LXOR"}
INFIX_TOK = sorted(INFIX, key=len, reverse=True)
PREFIX = {"-": "NEG", "~": "BNOT", "!": "LNOT"}
CALLS = {"max": ("MAX", "SMAX"), "min": ("MIN", "SMIN"), "cat": ("CAT", "CAT"), "strlen": ("STRLEN", "STRLEN"),
         "substr": ("SUBSTR", "SUBSTR"), "to_string": ("I2S", "I2S"), "to_number": ("S2I", "S2I")}
STR_RESULT = {"CAT", "SUBSTR", "I2S", "SMAX", "SMIN"}
CMPS = {"=": ("EQ", "EQ"), "!=": ("NE", "NE"), "<": ("LT", "SLT"), "<=": ("LE", "SLE"), ">": ("GT", "SGT"), ">=": ("GE", "SGE")}
CMP_TOK = ["!=", "<=", ">=", "=", "<", ">"]
NAME = re.compile(r"[+]?[A-Za-z_?@][\w?@]*(?:\.[A-Za-z_?@][\w?@]*)*")

class _P:
    def __init__(self, s):
        self.s = s; self.i = 0
    def ws(self):
        while self.i < len(self.s) and self.s[self.i].isspace():
            self.i += 1
    def peek(self, t):
        self.ws(); return self.s.startswith(t, self.i)
    def eat(self, t):
        self.ws()
        if not self.s.startswith(t, self.i):
            raise Unsupported("expected %r at %d in %r" % (t, self.i, self.s))
        self.i += len(t)
    def name(self):
        self.ws(); m = NAME.match(self.s, self.i)
        if not m:
            raise Unsupported("name expected at %d in %r" % (self.i, self.s))
        self.i = m.end(); return m.group(0)
    def args(self, close):
        out = []
        if self.peek(close):
            self.eat(close); return out
        while True:
            out.append(self.expr())
            if self.peek(","):
                self.eat(","); continue
            self.eat(close); return out
    def expr(self):
        self.ws(); s = self.s; c = s[self.i] if self.i < len(s) else ""
        if c == '"':
            j = s.index('"', self.i + 1); v = s[self.i + 1:j]; self.i = j + 1
            return {"k": "str", "v": v}
        if c.isdigit() or (c == "-" and s[self.i + 1:self.i + 2].isdigit()):
            m = re.compile(r"-?\d+").match(s, self.i); self.i = m.end()
            if re.compile(r"\.\d|[A-Za-z_]").match(s, self.i):
                raise Unsupported("non-signed numeric constant in %r" % s)
            return {"k": "num", "v": int(m.group(0))}
        if c in PREFIX and s[self.i + 1:self.i + 2] == "(":
            self.i += 2; a = self.expr(); self.eat(")")
            return {"k": "fn", "op": PREFIX[c], "a": [a]}
        if c == "(":
            self.i += 1; a = self.expr(); self.ws()
            for t in INFIX_TOK:
                if s.startswith(t, self.i):
                    self.i += len(t); b = self.expr(); self.eat(")")
                    return {"k": "fn", "op": INFIX[t], "a": [a, b]}
            self.eat(")"); return a
        if c == "_" and not re.compile(r"[\w?@.]").match(s, self.i + 1):
            self.i += 1; return {"k": "any"}
        if c in "[$" or s.startswith("nil", self.i) or s.startswith("as(", self.i):
            raise Unsupported("record/ADT/cast term in %r" % s)
        n = self.name()
        if self.peek("("):
            self.eat("(")
            return {"k": "call", "name": n, "a": self.args(")")}
        if self.peek(":") or self.peek("{"):
            raise Unsupported("aggregate in %r" % s)
        return {"k": "var", "n": n}

def _resolve(t, ty_of):
    """call nodes -> functor nodes (overload by operand type); returns (term, type)"""
    k = t["k"]
    if k == "var":
        return t, ty_of(t["n"])
    if k == "num":
        return t, "i"
    if k == "str":
        return t, "s"
    if k == "any":
        return t, "i"
    if k == "fn":
        a = [_resolve(x, ty_of)[0] for x in t["a"]]
        return {"k": "fn", "op": t["op"], "a": a}, "i"
    if k == "call":
        if t["name"] not in CALLS:
            raise Unsupported("functor %s" % t["name"])
        rs = [_resolve(x, ty_of) for x in t["a"]]
        sym = bool(rs) and rs[0][1] == "s"
        op = CALLS[t["name"]][1 if sym else 0]
        term = {"k": "fn", "op": op, "a": [r[0] for r in rs]}
        if op in ("MAX", "MIN", "SMAX", "SMIN", "CAT") and len(rs) > 2:      # variadic: fold to binary
            acc = rs[0][0]
            for r in rs[1:]:
                acc = {"k": "fn", "op": op, "a": [acc, r[0]]}
            term = acc
        return term, ("s" if op in STR_RESULT else "i")
    raise Unsupported("term %r" % (t,))

def _vars(t, out):
    if t["k"] == "var":
        out.add(t["n"])
    for x in t.get("a", []):
        _vars(x, out)

def parse_clause(text, reltypes):
    """text as printed by souffle (ast::Clause::print) -> {"head": atom, "body": [literal]}.
    reltypes: relation name -> list of column types ("i"/"s"); auxiliary relations introduced by souffle's
    transformations (+disconnectedN, ...) are admitted when nullary."""
    p = _P(text.strip())
    def atom_of(t):
        if t["k"] != "call":
            raise Unsupported("atom expected in %r" % text)
        return {"rel": t["name"], "args": t["a"]}
    head = atom_of(p.expr())
    raw = []
    if p.peek(":-"):
        p.eat(":-")
        while True:
            p.ws()
            if p.s[p.i] == "!" and p.s[p.i + 1:p.i + 2] != "(":
                p.i += 1
                raw.append(("neg", atom_of(p.expr())))
            else:
                l = p.expr(); p.ws()
                for t in CMP_TOK:
                    if p.s.startswith(t, p.i):
                        p.i += len(t); r = p.expr()
                        raw.append(("cmp", t, l, r)); break
                else:
                    raw.append(("atom", atom_of(l)))
            if p.peek(","):
                p.eat(","); continue
            break
    p.eat(".")
    p.ws()
    if p.i != len(p.s):
        raise Unsupported("trailing text (plan?) in %r" % text)
    # variable types from atom columns
    vt = {}
    def note(a):
        tys = reltypes.get(a["rel"])
        if tys is None:
            if a["args"]:
                raise Unsupported("auxiliary relation %s with arguments" % a["rel"])
            tys = []
        if len(tys) != len(a["args"]):
            raise Unsupported("arity of %s in %r" % (a["rel"], text))
        for t, ty in zip(a["args"], tys):
            if t["k"] == "var":
                vt.setdefault(t["n"], ty)
    note(head)
    for l in raw:
        if l[0] in ("atom", "neg"):
            note(l[1])
    ty_of = lambda v: vt.get(v, "i")
    def res_atom(a):
        return {"rel": a["rel"], "args": [_resolve(x, ty_of)[0] for x in a["args"]]}
    # a variable bound only through `v = <string expression>` is a symbol
    for _ in range(3):
        for l in raw:
            if l[0] == "cmp" and l[1] == "=":
                for a, b in ((l[2], l[3]), (l[3], l[2])):
                    if a["k"] == "var" and a["n"] not in vt:
                        try:
                            if _resolve(b, ty_of)[1] == "s":
                                vt[a["n"]] = "s"
                        except Unsupported:
                            pass
    body = []
    for l in raw:
        if l[0] == "atom":
            body.append(dict(k="atom", **res_atom(l[1])))
        elif l[0] == "neg":
            if l[1]["rel"] not in reltypes:
                raise Unsupported("negated auxiliary relation %s" % l[1]["rel"])
            body.append(dict(k="neg", **res_atom(l[1])))
        else:
            (lt, lty), (rt, rty) = _resolve(l[2], ty_of), _resolve(l[3], ty_of)
            sym = lty == "s" or rty == "s"
            body.append({"k": "cmp", "op": CMPS[l[1]][1 if sym else 0], "l": lt, "r": rt, "sym": l[1],
                         "ty": "s" if sym else "i"})
    return {"head": res_atom(head), "body": body}

def parse_rules(rules_json, reltypes):
    """[{"rule-number": "(R2)", "rule": text}] -> [{"rel", "n", "c", "text"}]"""
    out = []
    for r in rules_json:
        n = int(re.match(r"\(R(\d+)\)", r["rule-number"]).group(1))
        c = parse_clause(r["rule"], reltypes)
        out.append({"rel": c["head"]["rel"], "n": n, "c": c, "text": r["rule"]})
    return out

# ---- proof tree JSON -> tree values ---------------------------------------------------------------------------------
def split_values(s):
    """'1, "a, b", -3' -> [1, 'a, b', -3]; None when the text is not a list of numbers / quoted symbols."""
    out = []; i = 0; s = s.strip()
    if s == "":
        return out
    while True:
        if s.startswith('"', i):
            j = i + 1
            while True:
                j = s.find('"', j)
                if j < 0:
                    return None
                if j + 1 == len(s) or s.startswith(", ", j + 1):
                    break
                j += 1
            out.append(s[i + 1:j]); i = j + 1
        else:
            m = re.compile(r"-?\d+").match(s, i)
            if not m:
                return None
            out.append(int(m.group(0))); i = m.end()
        if i == len(s):
            return out
        if not s.startswith(", ", i):
            return None
        i += 2

ATOM_TXT = re.compile(r"^(!?)([+]?[A-Za-z_?@][\w?@]*(?:\.[A-Za-z_?@][\w?@]*)*)\((.*)\)$", re.S)
CMP_TXT = re.compile(r"^(-?\d+) (=|!=|<|<=|>|>=) (-?\d+)$")

def _conforms(rel, args, reltypes):
    tys = reltypes.get(rel)
    if tys is None:
        return args == []
    return len(tys) == len(args) and all(isinstance(v, int) == (t == "i") for v, t in zip(args, tys))

def parse_label(txt, reltypes):
    """leaf / premise label -> ('atom'|'neg', rel, args) | ('cmp', op, l, r) | ('other', txt)"""
    m = CMP_TXT.match(txt)
    if m:
        return ("cmp", m.group(2), int(m.group(1)), int(m.group(3)))
    m = ATOM_TXT.match(txt)
    if m and not txt.startswith("subproof "):
        args = split_values(m.group(3))
        if args is not None and _conforms(m.group(2), args, reltypes):
            return ("neg" if m.group(1) else "atom", m.group(2), args)
    return ("other", txt)

def tree_value(node, reltypes):
    if "axiom" in node:
        l = parse_label(node["axiom"], reltypes)
        if l[0] == "atom":
            return {"k": "leaf", "rel": l[1], "args": l[2]}
        if l[0] == "neg":
            return {"k": "neg", "rel": l[1], "args": l[2]}
        if l[0] == "cmp":
            return {"k": "cmp", "op": l[1], "l": l[2], "r": l[3]}
        return {"k": "other", "text": l[1]}
    l = parse_label(node.get("premises", ""), reltypes)
    m = re.match(r"^\(R(\d+)\)$", node.get("rule-number", ""))
    if l[0] != "atom" or not m:
        return {"k": "other", "text": json.dumps(node)[:200]}
    return {"k": "node", "rel": l[1], "args": l[2], "rule": int(m.group(1)),
            "kids": [tree_value(x, reltypes) for x in node.get("children", [])]}

def answer_value(proof, reltypes):
    if "axiom" in proof:
        if proof["axiom"] == "Tuple not found":
            return {"k": "notfound"}
        if proof["axiom"] == "Relation not found":
            return {"k": "relnotfound"}
    t = tree_value(proof, reltypes)
    if t["k"] in ("node", "leaf"):
        return {"k": "tree", "tree": t}
    return {"k": "other", "text": json.dumps(proof)[:300]}

# ---- driving the explain session ------------------------------------------------------------------------------------
def query_text(rel, args):
    return "%s(%s)" % (rel, ", ".join(str(v) if isinstance(v, int) else '"%s"' % v for v in args))

def session(cmd, queries, timeout=120, depth=1000000):
    """Runs cmd (souffle -t explain ... / compiled executable) feeding one `explain` per query.
    Returns (answers: list of decoded JSON objects, rc, stderr, script).  Fewer answers than queries = the session died."""
    script = "format json\nsetdepth %d\n" % depth + "".join("explain %s\n" % query_text(r, a) for r, a in queries) + "quit\n"
    try:
        p = subprocess.run(cmd, input=script.encode(), stdout=subprocess.PIPE, stderr=subprocess.PIPE, timeout=timeout)
        rc, out, err = p.returncode, p.stdout.decode("utf-8", "replace"), p.stderr.decode("utf-8", "replace")
    except subprocess.TimeoutExpired as ex:
        rc, out, err = -999, (ex.stdout or b"").decode("utf-8", "replace"), "TIMEOUT"
    answers = []; dec = json.JSONDecoder(); i = 0
    while True:
        while i < len(out) and out[i].isspace():
            i += 1
        if i >= len(out):
            break
        try:
            o, i = dec.raw_decode(out, i)
        except ValueError:
            err += "\n[unparsable explain output at offset %d: %r]" % (i, out[i:i + 200])
            break
        answers.append(o)
    return answers, rc, err, script
