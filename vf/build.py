"""Builds /repo's current working tree with the SOUFFLE_VERIF guard on, into /verif/build/souffle (incremental)."""
import os, subprocess, sys
from .common import BUILD, REPO, NCPU, flock, run, log

SOUFFLE_DIR = os.path.join(BUILD, "souffle")
SOUFFLE = os.path.join(SOUFFLE_DIR, "src", "souffle")
SOUFFLEPROF = os.path.join(SOUFFLE_DIR, "src", "souffleprof")
CCACHE_DIR = os.path.join(os.path.dirname(os.path.dirname(os.path.abspath(__file__))), "build", "ccache")
GUARD = "SOUFFLE_VERIF"
CXXFLAGS = "-D%s -Wno-error" % GUARD

def env():
    return {"CCACHE_DIR": CCACHE_DIR, "CCACHE_MAXSIZE": "4G"}

def ensure_souffle(quiet=True):
    """(Re)build souffle+souffleprof from /repo's working tree. Returns path of the souffle binary."""
    with flock(os.path.join(BUILD, "souffle.lock")):
        if not os.path.exists(os.path.join(SOUFFLE_DIR, "build.ninja")):
            rc, out, err = run(["cmake", "-G", "Ninja", "-S", REPO, "-B", SOUFFLE_DIR,
                                "-DCMAKE_BUILD_TYPE=Release", "-DCMAKE_CXX_FLAGS_RELEASE=-O1",
                                "-DCMAKE_CXX_FLAGS=" + CXXFLAGS, "-DSOUFFLE_ENABLE_TESTING=OFF",
                                "-DCMAKE_CXX_COMPILER_LAUNCHER=ccache"], env=env(), timeout=600)
            if rc != 0:
                log(out[-3000:], err[-3000:])
                raise SystemExit("INFRA: cmake configure of guarded build failed")
        rc, out, err = run(["cmake", "--build", SOUFFLE_DIR, "--target", "souffle", "souffleprof", "-j%d" % NCPU],
                           env=env(), timeout=3000)
        if rc != 0:
            log(out[-6000:], err[-3000:])
            raise SystemExit("INFRA: guarded build of /repo failed (does the working tree compile?)")
    return SOUFFLE

def harness_cxx(src, out, extra=(), openmp=True, opt="-O1"):
    """Compile a C++ harness against /repo's headers (current working tree) through ccache."""
    os.makedirs(os.path.dirname(out), exist_ok=True)
    cmd = ["ccache", "g++", "-std=c++17", opt, "-D" + GUARD, "-fno-access-control", "-Wno-deprecated-declarations",
           "-I", os.path.join(REPO, "src", "include"), "-I", os.path.join(REPO, "src"),
           "-I", os.path.join(os.path.dirname(os.path.dirname(os.path.abspath(__file__))), "harness")]
    if openmp:
        cmd.append("-fopenmp")
    cmd += list(extra) + [src, "-o", out, "-lpthread"]
    rc, o, e = run(cmd, env=env(), timeout=1200)
    if rc != 0:
        log(e[-6000:])
        raise SystemExit("INFRA: harness %s failed to compile against /repo headers" % src)
    return out
