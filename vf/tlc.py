"""Runs TLC under a timeout with a private metadir, and parses its report."""
import json, os, re, shutil
from .common import SPEC, run, NCPU, log

JAVA_CP = "/opt/veriftools/tla/tla2tools.jar:/opt/veriftools/tla/CommunityModules-deps.jar"

def run_tlc(module, cfg, wd, env=None, workers=None, timeout=900, extra=(), heap="8g", dfs_queue=False, simulate=None, lib=None):
    """Returns dict: ok (no error found), rc, generated, distinct, depth, json (decoded PrintT JSON lines),
    out (raw text), violated (name of violated invariant/property or None), error (text for infra errors)."""
    meta = os.path.join(wd, "meta_" + os.path.splitext(os.path.basename(cfg))[0])
    shutil.rmtree(meta, ignore_errors=True)
    os.makedirs(meta, exist_ok=True)
    jopts = ["-XX:+UseParallelGC", "-Xmx" + heap, "-DTLA-Library=" + SPEC + (os.pathsep + lib if lib else "")]
    if dfs_queue:
        jopts.append("-Dtlc2.tool.queue.IStateQueue=StateDeque")
    if not workers:
        # all cores when the machine is idle (the way the registered checks are run); fewer when many checks share it
        try:
            workers = NCPU if os.getloadavg()[0] < NCPU else 4
        except OSError:
            workers = NCPU
    cmd = ["java"] + jopts + ["-cp", JAVA_CP, "tlc2.TLC", "-workers", str(workers), "-metadir", meta,
                              "-config", cfg, "-noGenerateSpecTE"] + list(extra)
    if simulate:
        cmd += ["-simulate", simulate]
    cmd.append(module)
    rc, out, err = run(cmd, timeout=timeout, env=env, cwd=os.path.dirname(module) if os.path.isabs(module) else SPEC)
    shutil.rmtree(meta, ignore_errors=True)
    res = {"rc": rc, "out": out, "err": err, "json": [], "violated": None, "error": None,
           "generated": 0, "distinct": 0, "depth": 0, "ok": False}
    for line in out.splitlines():
        if line.startswith('"{') or line.startswith('"['):
            try:
                res["json"].append(json.loads(json.loads(line)))
            except Exception:
                pass
    m = re.search(r"(\d[\d,]*) states generated, (\d[\d,]*) distinct states found", out)
    if m:
        res["generated"] = int(m.group(1).replace(",", "")); res["distinct"] = int(m.group(2).replace(",", ""))
    m = re.search(r"depth of the complete state graph search is (\d+)", out)
    if m:
        res["depth"] = int(m.group(1))
    if rc == -999:
        res["error"] = "TLC timeout"
    elif "Model checking completed. No error has been found." in out or (simulate and rc == 0):
        res["ok"] = True
    else:
        m = re.search(r"Invariant (\S+) is violated", out) or re.search(r"Temporal properties were violated", out) \
            or re.search(r"Action property (\S+) is violated", out) or re.search(r"Deadlock reached", out)
        if m:
            res["violated"] = m.group(1) if m.groups() else m.group(0)
        elif re.search(r"Postcondition \S+ .* is false", out) or "The postcondition" in out and "violated" in out:
            res["violated"] = "POSTCONDITION"
        else:
            res["error"] = "TLC failed: " + (out[-1500:] + err[-500:])
    return res

def coverage_counts(out):
    """Parse '-coverage' action counts:  <Action line ...>: taken:generated"""
    acts = {}
    for m in re.finditer(r"<(\w+) line \d+, col \d+ to line \d+, col \d+ of module (\w+)>: (\d+):(\d+)", out):
        acts[m.group(1)] = (int(m.group(3)), int(m.group(4)))
    return acts
