"""Reads TLC's state graph (-dump dot,actionlabels) and produces walks from initial states covering every edge."""
import re, collections
from . import tlaval

class Graph:
    def __init__(self, path):
        dot = open(path).read()
        self.labels = {}; self.inits = []; self.edges = []
        for m in re.finditer(r'^(-?\d+) \[label="((?:[^"\\]|\\.)*)"(,style = filled)?', dot, re.M):
            self.labels[m.group(1)] = m.group(2)
            if m.group(3):
                self.inits.append(m.group(1))
        for m in re.finditer(r'^(-?\d+) -> (-?\d+) \[label="([A-Za-z_0-9]+)(?:\(([^)]*)\))?"', dot, re.M):
            self.edges.append((m.group(1), m.group(2), m.group(3), m.group(4)))
        self.adj = collections.defaultdict(list)
        for i, e in enumerate(self.edges):
            self.adj[e[0]].append(i)
        self._state = {}

    def state(self, nid):
        if nid not in self._state:
            lab = self.labels[nid].replace("\\n", "\n").replace('\\"', '"').replace("\\\\", "\\")
            self._state[nid] = tlaval.parse_state(lab)
        return self._state[nid]

    def covering_walks(self, skip_self_loops=False, max_len=200):
        """greedy: BFS tree from the initial states; each walk = tree path to an uncovered edge, then extended
        greedily along uncovered edges.  Returns list of (init, [edge index...])."""
        par = {}
        q = collections.deque()
        for s in self.inits:
            par[s] = None; q.append(s)
        while q:
            u = q.popleft()
            for i in self.adj[u]:
                v = self.edges[i][1]
                if v not in par:
                    par[v] = i; q.append(v)
        def path(u):
            p = []
            while par[u] is not None:
                p.append(par[u]); u = self.edges[par[u]][0]
            return u, p[::-1]
        unc = set(i for i, e in enumerate(self.edges) if e[0] in par and not (skip_self_loops and e[0] == e[1]))
        walks = []
        order = sorted(unc)
        for i in order:
            if i not in unc:
                continue
            init, w = path(self.edges[i][0])
            w = w + [i]
            for x in w:
                unc.discard(x)
            cur = self.edges[i][1]
            while len(w) < max_len:
                nxt = [x for x in self.adj[cur] if x in unc]
                if not nxt:
                    break
                x = nxt[0]; w.append(x); unc.discard(x); cur = self.edges[x][1]
            walks.append((init, w))
        return walks
