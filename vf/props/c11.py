"""C11 - subsumption leaves exactly the non-dominated derivable tuples.
TLC computes M = the model of the program WITHOUT its subsumptive clauses (spec/Datalog.tla) for every EDB, and judges
the final database of every real run with SubsumeOK (spec/Subsume.tla): no dominated tuple present, only tuples of M,
for monotone-cost families exactly Minimal(M), strata above recomputed.  Interpreter and compiled, -j1..8."""
import os, json, random, copy, re, shutil, itertools
import concurrent.futures as cf
from .. import gen, build, tlc, render, evalcore
from ..common import workdir, seed, Result, SPEC, NCPU, write_data, run as runcmd
from ..evidence import finish

V = lambda n: {"k": "var", "n": n}
N = lambda v: {"k": "num", "v": v}
F = lambda op, *a: {"k": "fn", "op": op, "a": list(a)}
ANY = {"k": "any"}
def atom(rel, *args): return {"k": "atom", "rel": rel, "args": list(args)}
def cmp(op, l, r): return {"k": "cmp", "op": op, "l": l, "r": r}
def rel(name, types, inp=False, quals=None):
    return {"name": name, "arity": len(types), "types": types, "input": inp, "output": True, "eqrel": False, "quals": quals or []}

def family(rng, idx):
    """returns (P, monotone?)"""
    kind = rng.choice(["shortest", "mutual", "maxkey", "pareto", "lexmin", "nonmono", "downstream"])
    if idx < 2:
        kind = "mutual"          # always present, once with the helper sorting after and once before the subsumptive relation
    dom = {"i": [0, 1, 2], "s": ["a", "b"]}
    if kind == "mutual":
        # the subsumptive relation shares its recursive stratum with a helper relation (mutual recursion through it);
        # helper names sorting before AND after the subsumptive relation (the translator orders relations by name)
        helper = "z_hop" if idx % 2 == 0 else "a_hop"
        bound = rng.choice([3, 4])
        rels = [rel("e", ["i", "i"], True), rel("x", ["i", "i"], True), rel("d", ["i", "i"], quals=["btree_delete"]), rel(helper, ["i", "i"])]
        clauses = [{"head": {"rel": "d", "args": [V("x"), N(0)]}, "body": [atom("e", V("x"), ANY), cmp("EQ", V("x"), N(0))]},
                   {"head": {"rel": "d", "args": [V("y"), V("c2")]},
                    "body": [atom("d", V("x"), V("c")), atom("e", V("x"), V("y")), cmp("LT", V("c"), N(bound)), cmp("EQ", V("c2"), F("ADD", V("c"), N(2)))]},
                   {"head": {"rel": helper, "args": [V("y"), V("c2")]},
                    "body": [atom("d", V("x"), V("c")), atom("x", V("x"), V("y")), cmp("LT", V("c"), N(bound)), cmp("EQ", V("c2"), F("ADD", V("c"), N(1)))]},
                   {"head": {"rel": "d", "args": [V("x"), V("c")]}, "body": [atom(helper, V("x"), V("c"))]}]
        sub = [{"rel": "d", "a1": [V("x"), V("c1")], "a2": [V("x"), V("c2")], "body": [cmp("LT", V("c2"), V("c1"))]}]
        P = {"rels": rels, "clauses": clauses, "strata": [["e"], ["x"], ["d", helper]], "subsume": sub}
        mono = True
    elif kind in ("shortest", "nonmono", "downstream"):
        bound = rng.choice([2, 3, 4])
        rels = [rel("e", ["i", "i"], True), rel("d", ["i", "i", "i"], quals=["btree_delete"])]
        step = F("ADD", V("c"), N(1)) if kind != "nonmono" else F("MOD", F("ADD", F("MUL", V("c"), N(2)), N(1)), N(5))
        clauses = [{"head": {"rel": "d", "args": [V("x"), V("y"), N(rng.choice([0, 1]))]}, "body": [atom("e", V("x"), V("y"))]},
                   {"head": {"rel": "d", "args": [V("x"), V("z"), V("c2")]},
                    "body": [atom("d", V("x"), V("y"), V("c")), atom("e", V("y"), V("z")), cmp("LT", V("c"), N(bound)), cmp("EQ", V("c2"), step)]}]
        if rng.random() < 0.4:      # a second recursive rule (left-linear + right-linear)
            clauses.append({"head": {"rel": "d", "args": [V("x"), V("z"), V("c3")]},
                            "body": [atom("e", V("x"), V("y")), atom("d", V("y"), V("z"), V("c")), cmp("LT", V("c"), N(bound)),
                                     cmp("EQ", V("c3"), F("ADD", V("c"), N(1)))]})
        op = rng.choice(["LT", "LE"]) if False else "LT"
        sub = [{"rel": "d", "a1": [V("x"), V("y"), V("c1")], "a2": [V("x"), V("y"), V("c2")], "body": [cmp("LT", V("c2"), V("c1"))]}]
        strata = [["e"], ["d"]]
        if kind == "downstream":
            rels.append(rel("far", ["i"])); rels.append(rel("cnt", ["i", "i"]))
            clauses.append({"head": {"rel": "far", "args": [V("x")]}, "body": [atom("d", V("x"), ANY, V("c")), cmp("GE", V("c"), N(2)),
                                                                               {"k": "neg", "rel": "d", "args": [V("x"), V("x"), ANY]}]})
            clauses.append({"head": {"rel": "cnt", "args": [V("x"), V("n")]},
                            "body": [atom("e", V("x"), ANY), {"k": "agg", "op": "count", "res": V("n"), "tgt": {"k": "nil"},
                                                              "body": [atom("d", V("x"), V("yy"), V("cc"))], "outer": ["x"]}]})
            strata += [["far"], ["cnt"]]
        P = {"rels": rels, "clauses": clauses, "strata": strata, "subsume": sub}
        mono = kind != "nonmono"
    elif kind == "maxkey":
        rels = [rel("in0", ["i", "i"], True), rel("best", ["i", "i"], quals=["btree_delete"])]
        clauses = [{"head": {"rel": "best", "args": [V("k1"), V("v")]}, "body": [atom("in0", V("k1"), V("v"))]},
                   {"head": {"rel": "best", "args": [V("k1"), F("ADD", V("v"), N(1))]}, "body": [atom("in0", V("v"), V("k1")), cmp("LT", V("v"), N(2))]}]
        op = rng.choice(["LT", "GT"])
        sub = [{"rel": "best", "a1": [V("k1"), V("v1")], "a2": [V("k1"), V("v2")], "body": [cmp(op, V("v1"), V("v2"))]}]
        P = {"rels": rels, "clauses": clauses, "strata": [["in0"], ["best"]], "subsume": sub}; mono = True
    elif kind == "pareto":
        rels = [rel("in0", ["i", "i"], True), rel("p", ["i", "i"], quals=["btree_delete"])]
        clauses = [{"head": {"rel": "p", "args": [V("a"), V("b")]}, "body": [atom("in0", V("a"), V("b"))]}]
        sub = [{"rel": "p", "a1": [V("a"), V("b")], "a2": [V("a2"), V("b2")], "body": [cmp("LT", V("a2"), V("a")), cmp("LE", V("b2"), V("b"))]},
               {"rel": "p", "a1": [V("a"), V("b")], "a2": [V("a2"), V("b2")], "body": [cmp("LE", V("a2"), V("a")), cmp("LT", V("b2"), V("b"))]}]
        P = {"rels": rels, "clauses": clauses, "strata": [["in0"], ["p"]], "subsume": sub}; mono = True
    else:   # lexmin on pairs with a key
        rels = [rel("in0", ["i", "i"], True), rel("in1", ["i"], True), rel("m", ["i", "i", "i"], quals=["btree_delete"])]
        clauses = [{"head": {"rel": "m", "args": [V("k1"), V("a"), V("b")]}, "body": [atom("in1", V("k1")), atom("in0", V("a"), V("b"))]}]
        sub = [{"rel": "m", "a1": [V("k1"), V("a"), V("b")], "a2": [V("k1"), V("a2"), V("b2")], "body": [cmp("LT", V("a2"), V("a"))]},
               {"rel": "m", "a1": [V("k1"), V("a"), V("b")], "a2": [V("k1"), V("a"), V("b2")], "body": [cmp("LT", V("b2"), V("b"))]}]
        P = {"rels": rels, "clauses": clauses, "strata": [["in0"], ["in1"], ["m"]], "subsume": sub}; mono = True
    P.update({"id": "sub_%d_%s" % (idx, kind), "types": [], "dom": dom, "family": kind})
    g = gen.Gen(rng, max_edbs=64, edb_sample=12); g.types = []; g.dom = dom
    g.edb_space(P)
    return P, mono

def for_tlc(P):
    d = gen.strip_for_tlc(P)
    for r in d["rels"]:
        r["choice"] = []
    d["subsume"] = P["subsume"]
    return d

def run(tier, replay=None):
    res = Result("C11", tier)
    build.ensure_souffle()
    wd = workdir("C11")
    rng = random.Random(seed() * 211 + 11)
    nprog = 8 if tier == "quick" else 80
    fam = [family(rng, i) for i in range(nprog)]
    Ps = [f[0] for f in fam]
    # M: the model without subsumptive clauses (Datalog.tla ignores the `subsume` field)
    cases = evalcore.tlc_models(Ps, wd, res)
    jobs = []
    for i, P in enumerate(Ps):
        pdir = os.path.join(wd, "p%d" % i); os.makedirs(pdir, exist_ok=True)
        dl = os.path.join(pdir, "p.dl"); open(dl, "w").write(render.program(P))
        exe = None
        if i < (1 if tier == "quick" else 8):
            exe = os.path.join(pdir, "p.exe")
            rc, so, se = runcmd([build.SOUFFLE, "-j4", "-o", exe, dl], timeout=900)
            if rc != 0:
                res.violations.append(("compiling subsumption program failed: " + se[-400:], dl)); exe = None
        usable = [c for c in cases[i] if not c["oob"]]
        sample = usable if len(usable) <= (10 if tier == "quick" else 40) else rng.sample(usable, 10 if tier == "quick" else 40)
        for k, c in enumerate(sample):
            for j in ([1, 4] if tier == "quick" else [1, 2, 4, 8]):
                jobs.append((i, k, c, j, None))
                if exe:
                    jobs.append((i, k, c, j, exe))
    def one(job):
        i, k, c, j, exe = job
        P = Ps[i]
        d = os.path.join(wd, "p%d" % i, "e%d_j%d_%s" % (k, j, "c" if exe else "i"))
        render.write_facts(P, c["edb"], os.path.join(d, "facts")); os.makedirs(os.path.join(d, "out"), exist_ok=True)
        env = {"SOUFFLE_VERIF_PERTURB": "%d:%d" % (seed() * 100 + j + k, 100)}
        cmd = ([exe] if exe else [build.SOUFFLE]) + ["-j%d" % j, "-F", os.path.join(d, "facts"), "-D", os.path.join(d, "out")] + \
              ([] if exe else [os.path.join(wd, "p%d" % i, "p.dl")])
        rc, so, se = runcmd(cmd, timeout=120, env=env)
        if rc != 0:
            return job, d, None, "rc=%s %s" % (rc, se[-400:])
        return job, d, {r["name"]: render.read_output(P, r["name"], os.path.join(d, "out", r["name"] + ".csv")) for r in P["rels"]}, None
    with cf.ThreadPoolExecutor(NCPU) as ex:
        outs = list(ex.map(one, jobs))
    jc = []; meta = []; seen_spo = set()
    for job, d, final, err in outs:
        i, k, c, j, exe = job
        if err:
            res.violations.append(("subsumption program run failed (%s, -j%d): %s" % ("compiled" if exe else "interpreter", j, err), d)); continue
        key = (i, json.dumps(c["edb"], sort_keys=True))
        jc.append({"p": i + 1, "edb": c["edb"], "final": final, "m": c["full"], "mono": fam[i][1], "chk": key not in seen_spo})
        seen_spo.add(key); meta.append((job, d))
    dd = os.path.join(wd, "judge")
    write_data(dd, "DatalogData", {"Programs": [for_tlc(P) for P in Ps], "SubsumeCases": jc})
    r = tlc.run_tlc(os.path.join(SPEC, "MC_Subsume.tla"), os.path.join(SPEC, "MC_Subsume.cfg"), dd, lib=dd, timeout=1500)
    verd = {}
    for m in re.finditer(r'<<"VERDICT", (\d+), (TRUE|FALSE), (.*?)>>\n', r["out"] + "\n"):
        verd[int(m.group(1))] = (m.group(2) == "TRUE", m.group(3))
    if not r["ok"] or len(verd) != len(jc):
        res.infra_errors.append("MC_Subsume failed: " + str(r["error"] or r["violated"])[-800:])
    else:
        res.add_tlc(r)
    cut = 0
    for idx, (c, (job, d)) in enumerate(zip(jc, meta)):
        v = verd.get(idx + 1)
        if v is None:
            continue
        i, k, cs, j, exe = job
        srel = Ps[i]["subsume"][0]["rel"]
        if len(c["final"][srel]) < len(c["m"][srel]):
            cut += 1
        if "not-a-strict-partial-order" in v[1]:
            res.count("cases_outside_property_domain_not_spo")
        if not v[0]:
            path = os.path.join(d, "replay.json")
            json.dump({"program": Ps[i]["id"], "dl": os.path.join(wd, "p%d" % i, "p.dl"), "edb": cs["edb"], "jobs": j, "compiled": bool(exe),
                       "final": c["final"], "unsubsumed_model": c["m"], "failed": v[1]}, open(path, "w"), indent=1)
            res.violations.append(("final database violates SubsumeOK (%s) - program %s (%s), -j%d, %s"
                                   % (v[1], Ps[i]["id"], Ps[i]["family"], j, "compiled" if exe else "interpreter"), path))
        else:
            res.cov["traces_validated_against_impl"] += 1
            shutil.rmtree(d, ignore_errors=True)
    res.cov.update({"programs": len(Ps), "final_databases_judged": len(jc), "runs_where_subsumption_removed_tuples": cut,
                    "families": sorted(set(P["family"] for P in Ps))})
    if jc:
        res.sample({"program": render.program(Ps[jc[0]["p"] - 1]), "edb": jc[0]["edb"], "final": jc[0]["final"]})
    return finish(res, "model_checking", assumptions=["programs come from hand-written families (shortest path, max per key, pareto, lexicographic minimum, non-monotone cost, downstream negation/aggregate) with seeded parameters",
                                                      "one subsumptive relation per program; dominance conditions are pure constraints"])
