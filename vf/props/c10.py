"""C10 - choice-domain results are functional, sound and maximal.
The contract is a set of admissible outcomes: TLC judges the FINAL database of every real run (all relations written
out) with the result predicate ChoiceOK of spec/Choice.tla (functional on every key, sound and maximal w.r.t. the
clauses evaluated over that database by spec/Datalog.tla's immediate-consequence operator; strata without choice
relations recomputed exactly).  Runs: interpreter and compiled, -j1..16 with seeded perturbation."""
import os, json, random, copy, re, shutil
import concurrent.futures as cf
from .. import gen, build, tlc, render, evalcore, souffle as sf
from ..common import workdir, seed, Result, SPEC, NCPU, write_data, run as runcmd
from ..evidence import finish

def add_choice(P, rng):
    """mark 1-2 IDB relations of arity>=2 with choice-domain keys; make every relation an output"""
    Q = copy.deepcopy(P)
    cands = [r for r in Q["rels"] if not r["input"] and r["arity"] >= 2 and not r.get("eqrel")]
    if not cands:
        return None
    for r in rng.sample(cands, min(len(cands), rng.choice([1, 1, 2]))):
        cols = list(range(r["arity"]))
        nkeys = rng.choice([1, 1, 2])
        keys = []
        for _ in range(nkeys):
            k = sorted(rng.sample(cols, rng.choice([1, 1, 2]) if r["arity"] > 2 else 1))
            if k not in keys and len(k) < r["arity"]:
                keys.append(k)
        if keys:
            r["choice"] = keys
    if not any(r.get("choice") for r in Q["rels"]):
        return None
    for r in Q["rels"]:
        r["output"] = True
    Q["id"] = P["id"] + "_choice"
    return Q

def for_tlc(P):
    d = gen.strip_for_tlc(P)
    for r, src in zip(d["rels"], P["rels"]):
        r["choice"] = [[c + 1 for c in k] for k in src.get("choice", [])]
    return d

def all_edbs(P, rng, n):
    if P["edbs"]["mode"] == "list":
        lst = P["edbs"]["list"]
    else:
        g = gen.Gen(rng); g.types = P.get("types", []); g.dom = P["dom"]
        ins = [x for x in P["rels"] if x["input"]]
        lst = [{x["name"]: [] for x in ins}, {x["name"]: g.tuples(x["types"]) for x in ins}]
        for _ in range(n):
            dens = rng.choice([0.3, 0.5, 0.8])
            lst.append({x["name"]: [t for t in g.tuples(x["types"]) if rng.random() < dens] for x in ins})
    return lst[:n + 2]

def run(tier, replay=None):
    res = Result("C10", tier)
    build.ensure_souffle()
    wd = workdir("C10")
    rng = random.Random(seed() * 101 + 10)
    nprog = 10 if tier == "quick" else 120
    base = gen.programs(seed() * 1000 + 10, nprog * 3, features=["neg", "agg", "cmp", "recursion", "mutual", "facts", "str", "arith", "range"])
    Ps = [q for q in (add_choice(P, rng) for P in base) if q][:nprog - nprog // 2]
    # integer-only programs: these also go through spec/Ram.tla under several scan orders
    base_i = gen.programs(seed() * 1000 + 11, nprog * 3, features=["neg", "agg", "cmp", "recursion", "mutual", "facts", "arith", "range"],
                          dom={"i": [0, 1, 2], "s": ["a"]})
    base_i = [P for P in base_i if all(t == "i" for r in P["rels"] for t in r["types"])]
    Ps += [q for q in (add_choice(P, rng) for P in base_i) if q][:nprog // 2]
    jobs = []
    for i, P in enumerate(Ps):
        pdir = os.path.join(wd, "p%d" % i); os.makedirs(pdir, exist_ok=True)
        dl = os.path.join(pdir, "p.dl"); open(dl, "w").write(render.program(P))
        exe = None
        if i < (1 if tier == "quick" else 10):
            exe = os.path.join(pdir, "p.exe")
            rc, so, se = runcmd([build.SOUFFLE, "-j4", "-o", exe, dl], timeout=900)
            if rc != 0:
                if not evalcore.known_crash(res, "C10", se):
                    res.violations.append(("compiling choice program failed: " + se[-400:], dl))
                exe = None
        for k, edb in enumerate(all_edbs(P, rng, 4 if tier == "quick" else 10)):
            for j in ([1, 4, 16] if tier == "quick" else [1, 2, 3, 4, 8, 16]):
                jobs.append((i, k, edb, j, None))
                if exe and j in (1, 4):
                    jobs.append((i, k, edb, j, exe))
    def one(job):
        i, k, edb, j, exe = job
        P = Ps[i]
        d = os.path.join(wd, "p%d" % i, "e%d_j%d_%s" % (k, j, "c" if exe else "i"))
        render.write_facts(P, edb, os.path.join(d, "facts")); os.makedirs(os.path.join(d, "out"), exist_ok=True)
        env = {"SOUFFLE_VERIF_PERTURB": "%d:%d" % (seed() * 100 + j + k, 100)}
        cmd = ([exe] if exe else [build.SOUFFLE]) + ["-j%d" % j, "-F", os.path.join(d, "facts"), "-D", os.path.join(d, "out")] + \
              ([] if exe else [os.path.join(wd, "p%d" % i, "p.dl")])
        rc, so, se = runcmd(cmd, timeout=120, env=env)
        if rc != 0:
            return job, d, None, "rc=%s %s" % (rc, se[-400:])
        final = {}
        for r in P["rels"]:
            rows = render.read_output(P, r["name"], os.path.join(d, "out", r["name"] + ".csv"))
            final[r["name"]] = rows
        return job, d, final, None
    with cf.ThreadPoolExecutor(NCPU) as ex:
        outs = list(ex.map(one, jobs))
    cases = []; meta = []
    for job, d, final, err in outs:
        i, k, edb, j, exe = job
        if err:
            if not evalcore.known_crash(res, "C10", err):
                res.violations.append(("choice program run failed (%s, -j%d): %s" % ("compiled" if exe else "interpreter", j, err), d))
            continue
        cases.append({"p": i + 1, "edb": edb, "final": final}); meta.append((job, d))
    # S/A: the REAL RAM program of each choice program executed by spec/Ram.tla under several scan orders (every
    # order must give an admissible result): its final databases are judged by the same predicate
    import itertools
    from .. import ramcheck, ramjson
    nspec = 0
    for i, P in enumerate(Ps):
        if P.get("types") or any(t != "i" for r in P["rels"] for t in r["types"]):
            continue
        pdir = os.path.join(wd, "p%d" % i)
        fin, ini, err = ramcheck.dump_ram(P, pdir, args=("-j1",), tag="ram")
        if err:
            continue
        try:
            RP = ramjson.convert(fin)
        except ramjson.Unsupported:
            res.count("ram_programs_outside_Ram_tla"); continue
        edbs = all_edbs(P, rng, 3 if tier == "quick" else 10)
        orders = [[]] + [list(p) for p in itertools.permutations([0, 1, 2])]
        dr = os.path.join(pdir, "ram_orders")
        write_data(dr, "RamData", {"RamProg": RP, "RamEDBs": edbs, "RamExpect": [{"have": False, "m": {}} for _ in edbs], "RamTraces": [],
                                   "RamSN": [{"have": False, "loops": {}, "att": {}} for _ in edbs], "RamOrders": orders, "RamClearPolicy": "interp", "RamStored": ramjson.stored_relations(RP)})
        cfgp = os.path.join(dr, "A.cfg")
        open(cfgp, "w").write("SPECIFICATION Spec\nINVARIANT LoopHead TempsCleared EmitFinal\nVIEW View\nCHECK_DEADLOCK FALSE\n")
        rr = tlc.run_tlc(os.path.join(SPEC, "Ram.tla"), cfgp, dr, lib=dr, workers=4, timeout=600)
        if rr["violated"]:
            path = os.path.join(dr, "tlc.out"); open(path, "w").write(rr["out"])
            res.violations.append(("the real RAM program of %s violates %s of spec/Ram.tla under some scan order" % (P["id"], rr["violated"]), path))
            continue
        if not rr["ok"]:
            res.infra_errors.append("Ram.tla (scan orders) on %s: %s" % (P["id"], (rr["error"] or "")[-400:])); continue
        res.add_tlc(rr)
        for jf in rr["json"]:
            if jf.get("tag") == "RAMFINAL" and not jf["oob"]:
                final = {r["name"]: jf["outs"].get(r["name"], []) for r in P["rels"]}
                cases.append({"p": i + 1, "edb": edbs[jf["ei"] - 1], "final": final})
                meta.append(((i, -1, edbs[jf["ei"] - 1], 0, "spec/Ram.tla on the real RAM, scan order %d" % jf["ord"]), None))
                nspec += 1
    res.cov["final_databases_from_Ram_tla_scan_orders"] = nspec
    # TLC judges every final database
    dd = os.path.join(wd, "judge")
    write_data(dd, "DatalogData", {"Programs": [for_tlc(P) for P in Ps], "ChoiceCases": cases})
    r = tlc.run_tlc(os.path.join(SPEC, "MC_Choice.tla"), os.path.join(SPEC, "MC_Choice.cfg"), dd, lib=dd, timeout=1500)
    verd = {}
    for m in re.finditer(r'<<"VERDICT", (\d+), (TRUE|FALSE), (.*?)>>\n', r["out"] + "\n"):
        verd[int(m.group(1))] = (m.group(2) == "TRUE", m.group(3))
    if not r["ok"] or len(verd) != len(cases):
        res.infra_errors.append("MC_Choice failed: " + str(r["error"] or r["violated"])[-800:])
    else:
        res.add_tlc(r)
    nontriv = 0
    for idx, (c, (job, d)) in enumerate(zip(cases, meta)):
        v = verd.get(idx + 1)
        if v is None:
            continue
        i, k, edb, j, exe = job
        if any(len(c["final"][r["name"]]) > 0 for r in Ps[i]["rels"] if r.get("choice")):
            nontriv += 1
        if not v[0] and d is None:
            path = os.path.join(wd, "p%d" % i, "ram_orders", "rejected_%d.json" % idx)
            json.dump({"program": Ps[i]["id"], "origin": exe, "edb": edb, "final": c["final"], "failed": v[1]}, open(path, "w"), indent=1)
            res.violations.append(("a final database computed by spec/Ram.tla from the REAL RAM program of %s (%s) violates ChoiceOK (%s): "
                                   "the translator's guarded-insert scheme admits an inadmissible outcome" % (Ps[i]["id"], exe, v[1]), path))
        elif not v[0]:
            path = os.path.join(d, "replay.json")
            json.dump({"program": Ps[i]["id"], "dl": os.path.join(wd, "p%d" % i, "p.dl"), "edb": edb, "jobs": j, "compiled": bool(exe),
                       "final": c["final"], "failed": v[1]}, open(path, "w"), indent=1)
            res.violations.append(("final database of a real run violates ChoiceOK (%s) - program %s, -j%d, %s"
                                   % (v[1], Ps[i]["id"], j, "compiled" if exe else "interpreter"), path))
        elif d is not None:
            res.cov["traces_validated_against_impl"] += 1
            shutil.rmtree(d, ignore_errors=True)
    res.cov.update({"programs": len(Ps), "final_databases_judged": len(cases), "with_nonempty_choice_relation": nontriv})
    if cases:
        res.sample({"program": render.program(Ps[cases[0]["p"] - 1])[:900], "edb": cases[0]["edb"], "final": cases[0]["final"]})
    return finish(res, "model_checking", assumptions=["spec/Datalog.tla's immediate-consequence operator is the meaning of 'derivable'",
                                                      "thread schedules are perturbed, not enumerated"])
