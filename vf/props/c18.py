"""C18 - fact input accepts exactly the complete, valid, in-range literals; everything else fails with an error naming
file and line and exit status 1; no input crashes, hangs or silently stores a different value.  The same range rule holds
for numeric constants in program text.

TLC (spec/MC_NumParse over spec/NumParse.tla + spec/CsvIO.tla) enumerates fact files (all short strings over an
adversarial alphabet and boundary templates with one-character mutations, per column type and text format) and
classifies each: accept with the stored tuples / reject (with the offending line) / either (forms the property text is
silent about: if accepted, the value is fixed).  Here every file is given to the real loader; the loaded relation is
compared inside Datalog with program-text constants built from the specification's values (floats: the printed value
must be a nearest binary32 of the specification's exact rational)."""
import concurrent.futures as cf, threading, json, math, os, random, re, shutil, time
from .. import build, iofmt as io, known, tlc
from ..common import SPEC, NCPU, Result, workdir, seed, log
from ..evidence import finish

PID = "C18"
ARGS = ["--no-preprocessor"]
NPROC = [0]
_plock = threading.Lock()

def opts(v, path):
    o = ["IO=file", "filename=%s" % io.dl_string(path)]
    if v["rfc"]:
        o.append("rfc4180=true")
    if v["explicit"]:
        o.append("delimiter=%s" % io.dl_string(io.text(v["delim"])))
    return ", ".join(o)

def is_float_fam(v):
    return v["types"][0] == "f"

def file_program(vs, d):
    lines = [io.TYPE_DECLS, ".decl res(k:number, missing:number, unexpected:number, wrapped:number)"]
    for v in vs:
        k = v["id"]; p = "p%d" % k; e = "e%d" % k
        with open(os.path.join(d, p + ".facts"), "wb") as f:
            f.write(bytes(io.seq(v["file"])))
        lines.append(io.decl(p, v["types"]))
        lines.append(".input %s(%s)" % (p, opts(v, os.path.join(d, p + ".facts"))))
        if is_float_fam(v) or v["cls"] == "reject":
            lines.append(".output %s(IO=stdout)" % p)
        if v["cls"] == "reject":
            w = io.text(v["wrap"])
            lines.append("res(%d, 0, n, w) :- n = count : { %s(_, _) }, w = %s." % (k, p, ("count : { %s(%s, 7) }" % (p, w)) if w else "0"))
        elif not is_float_fam(v):
            lines.append(io.decl(e, v["types"]))
            for t in v["tuples"]:
                lines.append(io.fact(e, v["types"], t))
            lines.append("res(%d, m, u, 0) :- m = count : { %s(x, y), !%s(x, y) }, u = count : { %s(x, y), !%s(x, y) }." % (k, e, p, p, e))
    lines.append(".output res(IO=stdout)")
    return "\n".join(lines) + "\n"

def const_program(vs):
    lines = [".decl res(k:number, same:number, other:number, wrapped:number)"]
    for v in vs:
        k = v["id"]; p = "c%d" % k
        ty = io.TYNAME[v["ty"]]
        lines.append(".decl %s(x:%s)" % (p, ty))
        lines.append("%s(%s)." % (p, io.text(v["vec"])))
        if v["ty"] == "f":
            lines.append(".output %s(IO=stdout)" % p)
        elif v["cls"] == "reject":
            w = io.text(v["wrap"])
            lines.append("res(%d, 0, n, w) :- n = count : { %s(_) }, w = %s." % (k, p, ("count : { %s(%s) }" % (p, w)) if w else "0"))
        else:
            val = io.term(v["ty"], v["v"])
            lines.append("res(%d, s, o, 0) :- s = count : { %s(%s) }, o = count : { %s(x), x != %s }." % (k, p, val, p, val))
    lines.append(".output res(IO=stdout)")
    return "\n".join(lines) + "\n"

_tag = [0]
def run_set(vs, d, outs, kind):
    """Load the vectors with as few processes as possible: one program; a failure naming a relation is recorded for
    that vector and the rest re-run; an unattributable failure halves the set."""
    if not vs:
        return
    _tag[0] += 1
    with _plock:
        NPROC[0] += 1
    path = os.path.join(d, "%s_%d.dl" % (kind, _tag[0]))
    with open(path, "w") as f:
        f.write(file_program(vs, d) if kind == "load" else const_program(vs))
    pr = io.souffle(path, facts=d, out=d, args=ARGS, timeout=90)
    rows = io.stdout_relation(pr.out, "res") if pr.kind == "ok" else None
    if pr.kind == "ok" and rows is not None:
        res = {}
        for r in rows:
            a = r.split("\t"); res[int(a[0])] = tuple(int(x) for x in a[1:])
        for v in vs:
            o = outs[v["id"]]
            o.update({"kind": "ok", "res": res.get(v["id"]), "prog": path,
                      "dump": io.stdout_relation(pr.out, ("p%d" if kind == "load" else "c%d") % v["id"])})
        return
    m = re.search(r"Error loading p(\d+) data", pr.err) if kind == "load" else None
    bad = [v for v in vs if m and v["id"] == int(m.group(1))]
    if pr.kind == "error" and bad:
        outs[bad[0]["id"]].update({"kind": "error", "err": pr.err.strip()[-400:], "rc": pr.rc, "prog": path})
        run_set([v for v in vs if v is not bad[0]], d, outs, kind)
    elif len(vs) == 1:
        outs[vs[0]["id"]].update({"kind": pr.kind if pr.kind != "ok" else "error", "err": (pr.err.strip() or pr.out)[-400:], "rc": pr.rc, "prog": path})
    else:
        h = len(vs) // 2
        run_set(vs[:h], d, outs, kind); run_set(vs[h:], d, outs, kind)

# ---------------------------------------------------------------------------------------------------------------
def float_ok(v, printed):
    """Does the printed binary32 (%.9g) conform to the specification's value?  (rounding relation, exact rationals)"""
    k = v["k"]
    if k == "fs":
        return printed.lstrip("-") == v["s"].lstrip("-") and (printed.startswith("-") == v["s"].startswith("-") or v["s"] == "nan")
    try:
        got = float(printed)
    except ValueError:
        return False
    import struct
    got32 = struct.unpack("<f", struct.pack("<f", got))[0]
    if k == "fv":
        fr = io.float_fraction(v)
    else:
        from fractions import Fraction
        fr = (-1 if v["neg"] else 1) * Fraction(int(io.text(v["m"]))) * Fraction(10) ** v["e10"] * Fraction(2) ** v["e2"]
    return io.nearest_binary32(fr, got32)

def stored_ok(v, o):
    """Accepted: is exactly the specified value stored?  -> None or a description."""
    if v.get("tag") == "C":
        if v["ty"] == "f":
            d = o.get("dump")
            if d is None or len(d) != 1 or not float_ok(v["v"], d[0]):
                return "stored %s, specification value %s" % (d, io.show("f", v["v"]) if v["v"]["k"] in ("fv", "fs") else v["v"])
            return None
        if o.get("res") is None or o["res"][:2] != (1, 0):
            return "stored value differs from the specification's %s (same=%s other=%s)" % ((io.show(v["ty"], v["v"]),) + tuple((o.get("res") or ("?", "?"))[:2]))
        return None
    if is_float_fam(v):
        d = o.get("dump")
        want = v["tuples"]
        if d is None or len(d) != len(want):
            return "loaded rows %s, specification %d tuple(s)" % (d, len(want))
        rows = [r.split("\t") for r in d]
        for t in want:
            y = io.text(t[1]["d"])
            hit = [r for r in rows if len(r) == 2 and r[1] == y and float_ok(t[0], r[0])]
            if not hit:
                return "no loaded row conforms to %s (loaded %s)" % ((io.show("f", t[0]) if t[0]["k"] in ("fv", "fs") else t[0], y), d)
        return None
    if o.get("res") is None or o["res"][:2] != (0, 0):
        return "loaded relation differs from the specification: %s missing, %s unexpected (specification: %s)" % (
            (o.get("res") or ("?", "?"))[0], (o.get("res") or ("?", "?"))[1],
            "; ".join("(" + ", ".join(io.show(ty, x) for ty, x in zip(v["types"], t)) + ")" for t in v["tuples"]))
    return None

def names_file_and_line(v, o):
    if v.get("tag") == "C":
        return True
    e = o.get("err", "")
    if ("p%d.facts" % v["id"]) not in e:
        return False
    if v["line"] > 0:
        return re.search(r"\bline %d\b" % v["line"], e) is not None
    return re.search(r"\bline \d+", e) is not None

def signature(v, o):
    vec = io.text(v["vec"])
    if v.get("tag") == "C":
        if v["ty"] == "u" and v["cls"] == "reject" and v["why"] == "range" and o["kind"] == "ok" and o.get("res") and o["res"][2] == 1 \
                and not vec.startswith("-"):
            return "unsigned-overflow-wraps"
        return None
    ty = v["types"][0]
    if v["cls"] == "reject" and o["kind"] == "ok":
        if ty == "u" and v["why"] == "range" and o.get("res") and o["res"][2] == 1:
            return "unsigned-overflow-wraps"              # the low 32 bits of the out-of-range value were stored
        if ty == "RR" and v["why"] == "range-nested-unsigned":
            return "unsigned-overflow-wraps"
    if ty == "u" and vec == "" and o["kind"] == "crash" and "readRamUnsigned" in o.get("err", ""):
        return "unsigned-empty-field-assert"
    if not v["rfc"] and "," in io.text(v["delim"]) and v["cls"] == "reject" and vec.count("[") > vec.count("]") \
            and (o["kind"] == "crash" or (o["kind"] == "error" and ("p%d.facts" % v["id"]) in o.get("err", "") and "line" not in o.get("err", ""))):
        return "comma-delimiter-unbalanced-bracket"
    if v["rfc"] and v["cls"] == "reject" and o["kind"] == "error" and o.get("rc") == 1 and ("p%d.facts" % v["id"]) in o.get("err", "") \
            and "basic_string::substr" in o.get("err", "") and not re.search(r"line \d", o.get("err", "")):
        return "rfc4180-short-line-no-line-number"
    return None

def judge(res, kf, v, o, d):
    what = None
    cls = v["cls"]
    if o["kind"] in ("crash", "timeout"):
        what = "loader %s: %s" % (o["kind"], o.get("err", "")[-300:])
    elif cls == "accept":
        what = ("rejected a valid literal: " + o.get("err", "")[-200:]) if o["kind"] != "ok" else stored_ok(v, o)
    elif cls == "either":
        if o["kind"] == "ok":
            what = stored_ok(v, o)
        elif o.get("rc") != 1 or not names_file_and_line(v, o):
            what = "failed without exit status 1 / without naming file and line: rc=%s %s" % (o.get("rc"), o.get("err", "")[-200:])
    else:
        if o["kind"] == "ok":
            what = "accepted (specification: reject, %s); stored rows: %s, counts %s" % (v["why"], o.get("dump"), o.get("res"))
        elif o.get("rc") != 1 or not names_file_and_line(v, o):
            what = "failed without exit status 1 / without naming file and line%s: rc=%s %s" % (
                " %d" % v["line"] if v.get("line") else "", o.get("rc"), o.get("err", "")[-200:])
    res.count("traces_validated_against_impl")
    res.count("outcome_%s_%s" % (cls, o["kind"]))
    if what is None:
        return
    src = "program-text constant of type %s" % io.TYNAME[v["ty"]] if v.get("tag") == "C" else \
          "fact file for (%s) [%s%s]" % (",".join(v["types"]), "rfc4180" if v["rfc"] else "delimiter=%r" % io.text(v["delim"]), "")
    desc = "%s, text %r: %s" % (src, io.text(v["vec"]), what)
    rp = os.path.join(d, "replay_%d.json" % v["id"])
    with open(rp, "w") as f:
        json.dump({"property": PID, "vector": v, "outcome": o, "desc": desc}, f, indent=1, default=str)
    sig = signature(v, o)
    if sig and known.is_listed(kf, PID, sig):
        msg = known.describe(kf, PID, sig)
        with res._lock:
            if msg not in res.known:
                res.known.append(msg)
        res.count("known_finding_hits"); res.count("known_" + sig)
        return
    with res._lock:
        res.violations.append((desc, rp))

def chunks(xs, n):
    return [xs[i:i + n] for i in range(0, len(xs), n)]

def run(tier, replay=None):
    res = Result(PID, tier)
    build.ensure_souffle()
    kf = known.load()
    if replay:
        return run_replay(replay, kf)
    wd = workdir(PID)
    cfg = "MC_NumParse1.cfg" if tier == "quick" else "MC_NumParse2.cfg"
    r = tlc.run_tlc(os.path.join(SPEC, "MC_NumParse.tla"), os.path.join(SPEC, cfg), wd, timeout=2400)
    if not r["ok"]:
        res.infra_errors.append(("specification invariant %s of MC_NumParse violated (spec bug): " % r["violated"] if r["violated"] else "") +
                                (r["error"] or r["out"][-1500:]))
        return finish(res, "model_checking")
    res.add_tlc(r)
    log("C18: TLC done after %.0fs" % (time.time() - res.t0))
    vecs = [j for j in r["json"] if j.get("tag") in ("V", "C")]
    r = None
    rng = random.Random(seed())
    for i, v in enumerate(vecs):
        v["id"] = i
        if v["tag"] == "V":
            v["types"] = io.seq(v["types"]); v["tuples"] = [io.seq(t) for t in io.seq(v["tuples"])]
    res.cov["vectors_classified"] = len(vecs)
    res.cov["classes"] = {c: sum(1 for v in vecs if v["cls"] == c) for c in ("accept", "either", "reject", "skip")}
    vecs = [v for v in vecs if v["cls"] != "skip"]
    # quick tier: every accept / either vector, every out-of-range reject, a seeded sample of the other rejects per family
    if tier == "quick":
        keep = []
        byfam = {}
        for v in vecs:
            fam = v.get("fam", "const-" + v.get("ty", ""))
            if v["cls"] != "reject" or v["why"].startswith("range") or len(io.seq(v["vec"])) <= 1:
                keep.append(v)
            else:
                byfam.setdefault(fam, []).append(v)
        for fam in sorted(byfam):
            xs = byfam[fam]
            keep += rng.sample(xs, 90) if len(xs) > 90 else xs
        vecs = keep
    res.cov["vectors_run"] = len(vecs)
    outs = {v["id"]: {"kind": None} for v in vecs}
    jobs = []
    groups = {}
    for v in vecs:
        groups.setdefault((v["tag"], v.get("fam", v.get("ty")), v["cls"]), []).append(v)
    for (tag, fam, cls), g in sorted(groups.items()):
        size = {"accept": 60, "either": 6, "reject": 1}[cls]
        for ci, ch in enumerate(chunks(g, size)):
            jobs.append((ch, os.path.join(wd, "%s_%s_%s" % (tag, fam, cls), "c%d" % ci), "load" if tag == "V" else "const"))
    def job(j):
        ch, d, kind = j
        os.makedirs(d, exist_ok=True)
        run_set(ch, d, outs, kind)
    pool = cf.ThreadPoolExecutor(NCPU)
    try:
        list(pool.map(job, jobs))
    finally:
        pool.shutdown()
    seen = set()
    rng.shuffle(jobs)
    for ch, d, kind in jobs:
        nviol = len(res.violations); nk = res.cov.get("known_finding_hits", 0)
        for v in ch:
            judge(res, kf, v, outs[v["id"]], d)
            key = (v.get("fam", "const-" + v.get("ty", "")), v["cls"])
            if key not in seen and (v["cls"] != "reject" or v["why"].startswith("range") or rng.random() < 0.05) and len(io.seq(v["vec"])) > 1:
                seen.add(key)
                res.sample({"source": "constant of type " + v["ty"] if v["tag"] == "C" else "fact file (%s)%s" % (",".join(v["types"]), " rfc4180" if v["rfc"] else ""),
                            "text": io.text(v["vec"]), "specification": v["cls"] + (" " + v["why"] if v["why"] else ""),
                            "real": "%s %s" % (outs[v["id"]]["kind"], (outs[v["id"]].get("err") or str(outs[v["id"]].get("res")))[-120:])}, limit=14)
        if len(res.violations) == nviol and res.cov.get("known_finding_hits", 0) == nk:
            shutil.rmtree(d, ignore_errors=True)
    res.cov["souffle_processes"] = NPROC[0]
    return finish(res, "model_checking", assumptions=[
        "classes come from spec/NumParse.tla + spec/CsvIO.tla: leading blanks, leading '+', 0x/0b forms, '5.' '.5', hexadecimal floats, subnormal magnitudes, blanks around record punctuation and surplus fields are don't-care (may be rejected; if accepted the value is fixed)",
        "float values: the stored binary32 must be a nearest binary32 of the specification's exact rational (checked with exact rational arithmetic; TLC has no floating point); the stdout writer is trusted for printing floats only",
        "integer, symbol, record and ADT values are compared inside Datalog against program-text constants written from the specification's canonical value",
        "alphabet {+,-,0,1,9,x,b,a,.,e,blank} for scalar columns (strings up to length 3 quick / 4 thorough) plus boundary templates with one-character mutations; interpreter loader only"])

def run_replay(path, kf):
    with open(path) as f:
        rp = json.load(f)
    v = rp["vector"]
    d = workdir(PID + "_replay")
    outs = {v["id"]: {"kind": None}}
    run_set([v], d, outs, "load" if v["tag"] == "V" else "const")
    res = Result(PID, "replay")
    judge(res, {"findings": []}, v, outs[v["id"]], d)
    print(json.dumps({"text": io.text(v["vec"]), "specification": {"cls": v["cls"], "why": v["why"]}, "outcome": outs[v["id"]]}, indent=1, default=str))
    for desc, r in res.violations:
        print("VIOLATION property=%s replay=%s\n  %s" % (PID, path, desc))
    return 1 if res.violations else 0
