"""C25 - B-tree sets behave as sorted sets under concurrent insertion.
A  spec/SortedSetAbs.tla is the property-level spec (set of keys; overlapping inserts = Call/Lin/Ret; queries); TLC checks
   on a small model (SortedSetAbsMC) that it states the property: success at most / exactly once per distinct key, the
   final set = the union of the inserted keys.
S  spec/BTreeConc.tla, an implementation-shaped model of btree::insert's optimistic locking protocol with 3 keys per
   node, is model-checked over all interleavings and its walks are replayed as schedules on the real tree, comparing
   shape, lock state and yield points after every step (vf/props/c25conc.py; deviation = MODEL-DRIFT).
T  The real souffle::btree_set (3 keys per node and the default block size) is driven by harness/btreedrv.cpp:
   (a) under the cooperative scheduler (yield points = the optimistic lock primitives): depth-first enumeration of all
       schedules with a bounded number of preemptions for 2 threads on trees pre-filled to force root creation, root
       growth, leaf split, left-rebalance, inner split and inner rebalance, with and without operation hints; seeded
       random and PCT schedules for 2-4 threads; the replayed BTreeConc walks;
   (b) with real OpenMP threads (2-8), sorted/reverse/random/duplicate/blocked key orders and a seeded perturbation
       handler at the yield points.
   Every execution's call/return events, followed by a query phase (size, iteration, contains/find/lower_bound/
   upper_bound with and without hints, getChunks), are validated by TLC against SortedSetAbs (SortedSetAbsTrace.tla).
   A rejected history, a crash (incl. an assertion of the real code), a livelock under a fair schedule or a broken
   search-tree structure at quiescence is the VIOLATION."""
import os, subprocess, json, random, collections
from .. import build, tlc, tracecheck
from ..common import workdir, seed, Result, SPEC, HARNESS, BUILD, NCPU
from ..evidence import finish

PID = "C25"
THREADS = "CONSTANT Threads = {1, 2, 3, 4, 5, 6, 7, 8}"

# ---------------------------------------------------------------------------------------------------------------------
# driver plumbing (shared with C26)
class Job:
    __slots__ = ("header", "events", "shapes", "steps", "xs", "ws", "errs", "livelock", "complete")
    def __init__(self, header):
        self.header = header; self.events = []; self.shapes = []; self.steps = []; self.xs = []; self.ws = []
        self.errs = []; self.livelock = False; self.complete = False

def run_driver(drv, jobs_in, timeout=1500, nproc=1):
    """Feeds job lines to btreedrv (nproc processes); returns (list of Job, crashes, dfs statistics);
    crashes = [(rc, stderr tail, job line or header during which the process died)]."""
    from concurrent.futures import ThreadPoolExecutor
    nproc = max(1, min(nproc, len(jobs_in)))
    slices = [jobs_in[i::nproc] for i in range(nproc)]          # round-robin keeps the slices balanced
    with ThreadPoolExecutor(nproc) as ex:
        parts = list(ex.map(lambda sl: _run_driver(drv, sl, timeout), slices))
    jobs = []; dfs_by = {}; crashes = []
    for pi, (js, r, e, d, begun) in enumerate(parts):
        jobs.extend(js)
        if r not in (0, 3):
            crashes.append((r, e, begun or slices[pi][0]))
        for k, x in enumerate(d):
            dfs_by[pi + k * nproc] = x
    return jobs, crashes, [dfs_by[i] for i in sorted(dfs_by)]

def _run_driver(drv, jobs, timeout=1500):
    try:
        p = subprocess.run([drv], input="\n".join(jobs) + "\n", capture_output=True, text=True, timeout=timeout)
        rc, out, err = p.returncode, p.stdout, p.stderr
    except subprocess.TimeoutExpired as ex:
        rc, out, err = -999, (ex.stdout or b"").decode("utf-8", "replace") if isinstance(ex.stdout, bytes) else (ex.stdout or ""), "TIMEOUT"
    res = []; cur = None; dfs = []; begun = None
    for line in out.split("\n"):
        if not line:
            continue
        c = line[0]
        if c == "B" and line[1] == " ":
            begun = line[2:]; cur = None
        elif c == "J" and line[1] == " ":
            cur = Job(line.split(" ", 2)[2]); res.append(cur)
        elif c == "D" and line[1] == " ":
            f = line.split(" "); dfs.append((int(f[1]), f[2] == "1"))
        elif cur is None:
            continue
        elif c == "V":
            try:
                cur.events.append(json.loads(line[2:]))
            except ValueError:
                cur.errs.append("unparsable event " + line[:80])       # truncated by a crash
        elif c == "T":
            cur.shapes.append(line[2:])
        elif c == "S":
            cur.steps.append(line[2:])
        elif c == "X":
            cur.xs.append(line[2:])
        elif c == "W":
            cur.ws.append(line[2:])
        elif line.startswith("ERR"):
            cur.errs.append(line)
        elif line.startswith("LIVELOCK"):
            cur.livelock = True
        elif c == "E" and len(line) == 1:
            cur.complete = True
    return res, rc, err[-1500:], dfs, begun

def save(wd, name, lines):
    path = os.path.join(wd, name + ".txt")
    with open(path, "w") as f:
        f.write("\n".join(lines) + "\n")
    return path

def judge(res, wd, tag, jobs, crashes, pid, cap=4):
    """Crashes, livelocks and broken structure at quiescence are violations by themselves (at most `cap` reports per kind)."""
    nl = ns = 0
    for i, j in enumerate(jobs):
        if j.livelock:
            nl += 1
            if nl <= cap:
                res.violations.append(("the real B-tree livelocked: threads still spinning after 200000 fairly scheduled steps: " + j.header[:1500],
                                       save(wd, "%s_livelock_%d" % (tag, i), [j.header])))
        if j.xs:
            ns += 1
            if ns <= cap:
                res.violations.append(("real B-tree: %s (job %r)" % (j.xs[0][:1200], j.header[:600]), save(wd, "%s_struct_%d" % (tag, i), [j.header])))
        for e in j.errs[:1]:
            res.infra_errors.append("%s: %s (job %r)" % (tag, e, j.header[:300]))
        if j.ws:
            res.count("transient_structure_warnings", len(j.ws))
            if res.cov.get("transient_structure_warnings", 0) <= 3:
                print("STRUCT-WARN property=%s %s (job %r)" % (pid, j.ws[0], j.header[:300]), flush=True)
    if nl or ns:
        res.count("executions_livelocked", nl); res.count("executions_with_broken_structure", ns)
    for k, (rc, err, where) in enumerate(crashes):
        what = "timed out (a step of the real code did not return)" if rc == -999 else "died rc=%d" % rc
        res.violations.append(("B-tree driver %s while running %r: %s" % (what, where[:600], err[-500:]), save(wd, "%s_crash_%d" % (tag, k), [where])))

def fold_ops(events, cap=48):
    """Re-encodes runs of sequential "ins"/"erase" events as one "ops" event (a smaller data module; same content)."""
    out = []; run = []
    def flush():
        if len(run) == 1:
            out.append(run[0])
        elif run:
            out.append({"e": "ops", "ks": [e["k"] for e in run], "ins": [e["e"] == "ins" for e in run],
                        "rs": [e["ok"] if e["e"] == "ins" else e["n"] == 1 for e in run]})
        del run[:]
    for e in events:
        if e["e"] in ("ins", "erase") and (e["e"] == "ins" or e["n"] in (0, 1)):
            run.append(e)
            if len(run) >= cap:
                flush()
        else:
            flush(); out.append(e)
    flush()
    return out

def _validate_shard(wd, name, jobs, uniq, mult, max_rejections=3):
    """returns (events accepted, executions validated, tlc results, violations, infra errors)"""
    nev = 0; nexec = 0; tl = []; viol = []; infra = []
    rnd = 0
    while uniq and rnd <= max_rejections:
        events = []; ev_job = []
        for i in uniq:
            events.append({"e": "reset"}); ev_job.append(i)
            for e in fold_ops(jobs[i].events):
                events.append(e); ev_job.append(i)
        acc, consumed, r = tracecheck.validate("SortedSetAbsTrace", events, wd, "%s_%d" % (name, rnd), constants=THREADS, timeout=2400,
                                               heap="4g")
        rnd += 1
        if acc is None:
            infra.append("trace validation (%s) failed to run: %s" % (name, str(r["error"])[-800:])); break
        if acc:
            nev += len(events); nexec += sum(mult[i] for i in uniq); tl.append(r); break
        at = min(consumed, len(events) - 1)
        ji = ev_job[at]
        ev = events[at]
        short = {k: (v if not isinstance(v, list) or len(v) <= 24 else v[:24] + ["..."]) for k, v in ev.items()}
        start = at
        while start > 0 and events[start]["e"] != "reset":
            start -= 1
        pre = [e for e in events[start + 1:at] if e["e"] in ("call", "ret", "ins", "erase", "fill", "ops")][-12:]
        nev += at; nexec += sum(mult[i] for i in uniq if i < ji)
        viol.append(("history of the real B-tree rejected by spec/SortedSetAbs.tla at event %s (preceding events of this history: %s); "
                     "job %r (%d executions produced this history)" % (short, pre, jobs[ji].header, mult[ji]),
                     save(wd, "%s_rejected_%d" % (name, ji), [jobs[ji].header])))
        uniq = [i for i in uniq if i > ji]
    return nev, nexec, tl, viol, infra

def validate(res, wd, name, jobs, pid, shards=8):
    """TLC validates the event histories against SortedSetAbs (SortedSetAbsTrace.tla); identical histories are validated
    once; the histories are dealt to `shards` TLC processes.  After a rejection the rest of the shard is validated again."""
    seen = {}; uniq = []; keys = {}
    for i, j in enumerate(jobs):
        if not j.complete:
            continue
        key = json.dumps(j.events, separators=(",", ":"))
        keys[i] = key
        if key not in seen:
            seen[key] = i; uniq.append(i)
    mult = collections.Counter(seen[k] for k in keys.values())
    res.count("distinct_histories", len(uniq))
    if not uniq:
        return
    # contiguous shards balanced by size
    total = sum(len(keys[i]) for i in uniq)
    shards = max(1, min(shards, total // 150000 + 1))
    parts = [[] for _ in range(shards)]; acc = 0
    for i in uniq:
        parts[min(shards - 1, acc * shards // total)].append(i); acc += len(keys[i])
    from concurrent.futures import ThreadPoolExecutor
    with ThreadPoolExecutor(shards) as ex:
        outs = list(ex.map(lambda a: _validate_shard(wd, "%s_s%d" % (name, a[0]), jobs, a[1], mult), enumerate(parts)))
    for nev, nexec, tl, viol, infra in outs:
        res.count("trace_events", nev)
        res.cov["traces_validated_against_impl"] += nexec
        for r in tl:
            res.add_tlc(r)
        res.violations.extend(viol); res.infra_errors.extend(infra)

# ---------------------------------------------------------------------------------------------------------------------
def asc(n, step=10):
    return ",".join(str(step * i) for i in range(1, n + 1))

# (name, prefill, thread programs): shapes with 3 keys per node
def cases(tree):
    A = asc(3)       # [10 20 30]                                     full root leaf: root growth
    B = asc(5)       # [[10] 20 [30 40 50]]                            full leaf with room in the left sibling
    C = asc(15)      # root inner full, all four leaves full           leaf split -> inner split -> root growth
    D = asc(20)      # depth 3; right inner full, left inner has room  inner node rebalances into its left sibling
    E = asc(7)       # [[10 20 30] 40 [50 60 70]]                      both leaves full
    return [
        ("empty",          "-", "n:5;n:7"),
        ("empty-dup",      "-", "n:5;n:5"),
        ("root-growth",    A, "n:40;n:5"),
        ("root-dup",       A, "n:25;n:25"),
        ("root-dup-exist", A, "n:20,25;n:25,20"),
        ("left-rebalance", B, "n:60;n:15"),
        ("left-rebal-dup", B, "n:45;n:45"),
        ("rebal-hints",    B, "h:60,70;h:15,45"),
        ("two-full",       E, "n:45;n:35"),
        ("two-full-hints", E, "h:45,46;h:80,35"),
        ("inner-split",    C, "n:160;n:55"),
        ("inner-split-b",  C, "n:5;n:95,96"),
        ("inner-rebal",    D, "n:135;n:45"),
        ("inner-rebal-h",  D, "h:135,136;h:45,75"),
    ]

def coop_systematic(res, wd, drv, tier, tree="s3", pid=PID, nproc=4):
    bound = 2 if tier == "quick" else 3
    cap = 2500 if tier == "quick" else 60000
    cs = cases(tree)
    jobs_in = ["coop %s %s %s D%d:%d inv" % (tree, fill, progs, bound, cap) for _, fill, progs in cs]
    jobs, crashes, dfs = run_driver(drv, jobs_in, timeout=2400, nproc=nproc)
    judge(res, wd, "dfs_" + tree, jobs, crashes, pid)
    res.count("dfs_executions", len(jobs))
    res.cov.setdefault("dfs_cases", []).extend(
        {"tree": tree, "case": c[0], "progs": c[2], "preemption_bound": bound, "executions": d[0], "exhausted": d[1]}
        for c, d in zip(cs, dfs))
    if jobs:
        j = jobs[len(jobs) // 2]
        res.sample({"schedule": j.header, "events": [e for e in j.events if e["e"] in ("fill", "call", "ret")], "final shape": j.shapes[-1:]})
    return jobs

def coop_random(res, wd, drv, tier, trees=("s3", "s256"), pid=PID, nrandom=None, nproc=2):
    rng = random.Random(seed() * 101 + 13)
    n = nrandom or (1200 if tier == "quick" else 8000)
    jobs_in = []
    for i in range(n):
        tree = trees[0] if i % 4 else trees[1]
        small = tree.endswith("3")
        nt = rng.choice([2, 2, 3, 3, 4])
        span = rng.choice([8, 12, 30]) if small else rng.choice([80, 300, 2000])
        nfill = rng.choice([0, 3, 5, 7, 12, 15, 20, 24]) if small else rng.choice([0, 55, 56, 57, 112, 170])
        order = rng.choice(["asc", "desc", "rnd"])
        fill = rng.sample(range(-span, span * 3), min(nfill, span * 4))
        if order == "asc":
            fill.sort()
        elif order == "desc":
            fill.sort(reverse=True)
        progs = []
        for t in range(nt):
            cnt = rng.randint(1, 4) if small else rng.randint(2, 12)
            style = rng.choice(["rnd", "asc", "dup"])
            if style == "dup" and progs:
                ks = list(progs[0][1]); rng.shuffle(ks)
            else:
                ks = [rng.randrange(-span, span * 3) for _ in range(cnt)]
                if style == "asc":
                    ks.sort()
            progs.append((rng.choice("hn"), ks))
        ps = ";".join("%s:%s" % (h, ",".join(map(str, ks))) for h, ks in progs)
        sched = "R%d" % rng.randrange(1 << 30) if i % 3 else "P%d:%d" % (rng.randrange(1 << 30), rng.randint(1, 4))
        jobs_in.append("coop %s %s %s %s%s" % (tree, ",".join(map(str, fill)) or "-", ps, sched, " inv" if i % 2 else ""))
    jobs, crashes, _ = run_driver(drv, jobs_in, timeout=2400, nproc=nproc)
    judge(res, wd, "rnd", jobs, crashes, pid)
    res.count("random_schedules", len(jobs))
    if jobs:
        j = jobs[-1]
        res.sample({"random schedule job": jobs_in[-1], "executed": j.header[:300], "events": [e for e in j.events if e["e"] in ("call", "ret")][:12]})
    return jobs

def stress(res, wd, drv, tier, trees=("s256", "s3"), pid=PID, runs=None):
    rng = random.Random(seed() * 977 + 5)
    runs = runs or (10 if tier == "quick" else 40)
    jobs_in = []
    orders = ["sorted", "reverse", "random", "dup", "block"]
    for i in range(runs):
        tree = trees[0] if i % 4 != 3 else trees[1]
        nt = [2, 3, 4, 8, 6, 5, 7, 8][i % 8]
        order = orders[i % len(orders)]
        total = rng.choice([800, 1500, 2500]) if tier == "quick" else rng.choice([2000, 4000, 8000])
        count = total // nt if order != "dup" else total // 4
        rng_range = rng.choice([0, 0, 5000, 100000])
        if order == "dup" and rng_range:
            rng_range = max(rng_range, 4 * count)
        jobs_in.append("stress %s %d %s %d %d %d %d %d" % (tree, nt, order, count, rng.randrange(1 << 30), i % 2,
                                                           rng.choice([0, 20, 100, 300]), rng_range))
    jobs, crashes, _ = run_driver(drv, jobs_in, timeout=2400, nproc=2)
    judge(res, wd, "stress", jobs, crashes, pid)
    res.count("stress_runs", len(jobs))
    if jobs:
        j = jobs[0]
        res.sample({"stress run": j.header, "events": len(j.events), "first": j.events[:6]})
    return jobs

def replay(res, wd, drv, path, pid):
    """Re-runs the job line(s) of a replay file on the real tree, prints the execution and judges it again."""
    jobs_in = [l for l in open(path).read().splitlines() if l.strip()]
    jobs, crashes, _ = run_driver(drv, jobs_in, timeout=600)
    for j in jobs:
        print("JOB " + j.header)
        for e in j.events:
            print("  event " + json.dumps(e)[:400])
        for x in j.shapes[-1:]:
            print("  final shape " + x)
        for x in j.xs + j.ws + j.errs:
            print("  " + x)
    judge(res, wd, "replay", jobs, crashes, pid)
    validate(res, wd, "MCT_replay", jobs, pid, shards=1)
    for desc, rp in res.violations:                 # (the registered evidence file is not touched by a replay)
        print("VIOLATION property=%s replay=%s\n  %s" % (pid, path, desc[:2000]), flush=True)
    for e in res.infra_errors:
        print("INFRA-ERROR: " + e[:1000], flush=True)
    if not res.violations and not res.infra_errors:
        print("replay accepted: the history is a behaviour of spec/SortedSetAbs.tla and the tree is well-formed")
    return 1 if res.violations else (2 if res.infra_errors else 0)

def abstract_model(res, wd):
    r = tlc.run_tlc(os.path.join(SPEC, "SortedSetAbsMC.tla"), os.path.join(SPEC, "SortedSetAbsMC.cfg"), wd, timeout=600, workers=2)
    if r["violated"]:
        res.infra_errors.append("spec/SortedSetAbs.tla does not state the property: %s violated" % r["violated"])
    elif not r["ok"]:
        res.infra_errors.append(r["error"] or "tlc failed")
    else:
        res.add_tlc(r); res.cov["abstract_model_states"] = r["distinct"]

ASSUMPTIONS = [
    "cooperative runs interleave threads at the lock primitives of OptimisticReadWriteLock only: plain field accesses between two "
    "lock operations are executed atomically; C++ memory-model effects are exercised only by the real-thread stress runs",
    "systematic enumeration is bounded by the number of preemptions (2 quick / 3 thorough) for 2 threads",
    "real-thread histories are ordered by tickets that enclose the real call interval (the check can only be more lenient)",
    "queries never overlap insertions (the containers promise nothing for that)"]

def run(tier, replay_path=None):
    res = Result(PID, tier)
    wd = workdir(PID)
    drv = build.harness_cxx(os.path.join(HARNESS, "btreedrv.cpp"), os.path.join(BUILD, "harness", "btreedrv"))
    if replay_path:
        return replay(res, wd, drv, replay_path, PID)
    from concurrent.futures import ThreadPoolExecutor
    import time
    from ..common import log
    try:
        from . import c25conc
    except ImportError:
        c25conc = None
    only = set(filter(None, os.environ.get("VERIF_C25_ONLY", "").split(",")))      # developer aid: dfs,rnd,stress,abs,conc
    on = lambda ph: not only or ph in only
    t0 = time.time()
    with ThreadPoolExecutor(4) as ex:
        fa = ex.submit(abstract_model, res, wd) if on("abs") else None
        fc = ex.submit(c25conc.run, res, wd, drv, tier) if c25conc and on("conc") else None
        f1 = ex.submit(coop_systematic, res, wd, drv, tier) if on("dfs") else None
        f2 = ex.submit(coop_random, res, wd, drv, tier) if on("rnd") else None
        jobs = (f1.result() if f1 else []) + (f2.result() if f2 else [])
        log("C25: cooperative runs %.0fs" % (time.time() - t0))
        jobs += fc.result() if fc else []
        if fa:
            fa.result()
    log("C25: cooperative runs and BTreeConc %.0fs" % (time.time() - t0)); t0 = time.time()
    if on("stress"):
        jobs += stress(res, wd, drv, tier)          # real threads: not while the cooperative runs occupy the cores
    log("C25: stress runs %.0fs" % (time.time() - t0)); t0 = time.time()
    validate(res, wd, "MCT_C25", jobs, PID)
    log("C25: trace validation %.0fs" % (time.time() - t0))
    return finish(res, "model_checking", assumptions=ASSUMPTIONS)
