"""C01 - evaluation computes the stratified least model (interpreter)."""
import random
from .. import gen, evalcore, build
from ..common import workdir, seed, Result
from ..evidence import finish

def run(tier, replay=None):
    res = Result("C01", tier)
    build.ensure_souffle()
    wd = workdir("C01")
    rng = random.Random(seed() * 7919 + 1)
    n = 24 if tier == "quick" else 400
    Ps = gen.programs(seed() * 1000 + 1, n)
    cases = evalcore.tlc_models(Ps, wd, res, chunk=40)
    configs = [{"name": "interpreter -j1", "args": ["-j1"]}]
    runs = 0; nontriv = 0; total = 0
    for i, P in enumerate(Ps):
        runs += evalcore.run_configs(P, cases[i], configs, wd, res, "C01", "p%d" % i,
                                     max_cases=(64 if tier == "quick" else 512), rng=rng)
        nontriv += evalcore.nontrivial(cases[i]); total += len(cases[i])
        if cases[i]:
            c = cases[i][len(cases[i]) // 2]
            res.sample({"program": P["id"], "features": P["features"], "edb": c["edb"], "model": c["model"]})
    # directions A and T at RAM level: the real RAM program under spec/Ram.tla, and the real interpreter's trace
    import concurrent.futures as cf
    from .. import ramcheck
    with cf.ThreadPoolExecutor(8) as ex:
        sts = list(ex.map(lambda i: ramcheck.check(Ps[i], cases[i], wd, "p%d" % i, res, "C01", rng=random.Random(seed() + i))
                          if cases[i] else {"status": "no-cases"}, range(len(Ps))))
    res.cov["ram_status"] = {k: sum(1 for s in sts if s["status"] == k) for k in set(s["status"] for s in sts)}
    res.cov.update({"programs": len(Ps), "edb_cases_modelled": total, "edb_cases_nontrivial": nontriv,
                    "real_runs_compared": runs})
    return finish(res, "model_checking", assumptions=[
        "spec/Datalog.tla is the meaning of the generated fragment",
        "programs come from a seeded grammar-based generator, not from all programs"])
