"""C03 - results do not depend on thread count or schedule (interpreter and compiled), with seeded perturbation."""
from .. import gen, evalprop
from ..common import seed

def configs(P, rng):
    cs = []
    for j in (2, 3, 4, 8, 16):
        for k in range(2):
            cs.append({"name": "interpreter -j%d perturb %d" % (j, k), "args": ["-j%d" % j],
                       "env": {"SOUFFLE_VERIF_PERTURB": "%d:%d" % (seed() * 100 + j * 10 + k, 150)}})
    cs.append({"name": "interpreter -j1", "args": ["-j1"]})
    if rng.random() < 0.25:
        cs.append({"name": "compiled -j4", "args": ["-j4"], "compile": True, "exe_args": ["-j4"],
                   "env": {"SOUFFLE_VERIF_PERTURB": "%d:%d" % (seed(), 100)}})
        cs.append({"name": "compiled -j1", "args": ["-j4"], "compile": True, "exe_args": ["-j1"]})
    return cs

def run(tier, replay=None):
    return evalprop.run_eval("C03", tier, lambda s, n: gen.programs(s, n), configs,
                             ["OpenMP schedules are perturbed (seeded yields/sleeps at lock primitives), not enumerated; "
                              "exhaustive interleavings are explored at container level (C25-C31)"],
                             n=(10, 120), max_cases=(10, 48))
