"""C03 - results do not depend on thread count or schedule (interpreter and compiled), with seeded perturbation."""
from .. import gen, evalprop
from ..common import seed

def configs(P, rng):
    cs = []
    for j in (2, 3, 4, 8, 16):
        for k in range(2):
            cs.append({"name": "interpreter -j%d perturb %d" % (j, k), "args": ["-j%d" % j],
                       "env": {"SOUFFLE_VERIF_PERTURB": "%d:%d" % (seed() * 100 + j * 10 + k, 150)}})
    cs.append({"name": "interpreter -j1", "args": ["-j1"]})
    if rng.random() < 0.25:
        cs.append({"name": "compiled -j4", "args": ["-j4"], "compile": True, "exe_args": ["-j4"],
                   "env": {"SOUFFLE_VERIF_PERTURB": "%d:%d" % (seed(), 100)}})
        cs.append({"name": "compiled -j1", "args": ["-j4"], "compile": True, "exe_args": ["-j1"]})
    return cs

INT_FEATURES = ["neg", "agg", "arith", "range", "recursion", "mutual", "disj", "multihead", "facts", "nullary", "cmp", "bits"]

def programs(s, n):
    return gen.programs(s, n - n // 2) + gen.programs(s + 1, n // 2, features=INT_FEATURES)

def post(res, Ps, cases, wd):
    """S/A: order independence at RAM level.  The REAL RAM program built for -j4 (ParallelTransformer has run) is executed
    by spec/Ram.tla under every permutation of the value order as scan order: all orders must give the model."""
    import random, itertools, concurrent.futures as cf
    from .. import ramcheck
    orders = [[]] + [list(p) for p in itertools.permutations([0, 1, 2])]
    sel = [i for i, P in enumerate(Ps) if cases[i] and all(t == "i" for r in P["rels"] for t in r["types"])][: (4 if res.tier == "quick" else 30)]
    def one(i):
        usable = cases[i] if len(cases[i]) <= 16 else random.Random(seed() + i).sample(cases[i], 16)
        return ramcheck.check(Ps[i], usable, wd, "ram_p%d" % i, res, "C03", args=("-j4",), n_traces=2, rng=random.Random(seed() * 5 + i),
                              orders=orders, tag="orders")
    with cf.ThreadPoolExecutor(4) as ex:
        sts = list(ex.map(one, sel))
    res.cov["ram_programs_checked_under_all_scan_orders"] = sum(1 for s in sts if s["status"] == "ok")
    res.cov["scan_orders_per_program"] = len(orders)

def run(tier, replay=None):
    return evalprop.run_eval("C03", tier, programs, configs,
                             ["OpenMP schedules are perturbed (seeded yields/sleeps at lock primitives), not enumerated; "
                              "exhaustive interleavings are explored at container level (C25-C31)",
                              "order independence of the RAM program is checked by spec/Ram.tla under 7 scan orders for integer-only programs"],
                             n=(10, 120), max_cases=(10, 48), post=post)
