"""C23 - a size limit truncates recursion soundly.
TLC computes the unlimited model (Datalog.tla); the real souffle runs the same program with `.limitsize R(n=k)` for k from 0
to beyond |Model[R]|; TLC judges each real output with Judge!LimitOK (subset; equal when the model is smaller than
the limit; at least k tuples otherwise).  The relations downstream of a limited relation are not judged."""
import copy, os, random, json
from .. import gen, evalcore, build, render, judge, souffle as sf
from ..common import workdir, seed, Result, NCPU, run
from ..evidence import finish
import concurrent.futures as cf

def recursive_rels(P):
    rec = set()
    for st in P["strata"]:
        if len(st) > 1:
            rec.update(st)
    for c in P["clauses"]:
        if any(l["k"] == "atom" and l["rel"] == c["head"]["rel"] for l in c["body"]):
            rec.add(c["head"]["rel"])
    return [r for r in P["rels"] if r["name"] in rec and not r["input"] and not r.get("eqrel")]

def run(tier, replay=None):
    res = Result("C23", tier)
    build.ensure_souffle()
    wd = workdir("C23")
    rng = random.Random(seed() * 31337 + 23)
    n = 16 if tier == "quick" else 200
    Ps = [P for P in gen.programs(seed() * 1000 + 23, n * 3, features=["neg", "agg", "arith", "str", "range", "recursion", "mutual",
                                                                         "disj", "facts", "cmp", "bits"], n_idb=(1, 3))
          if recursive_rels(P)][:n]
    cases = evalcore.tlc_models(Ps, wd, res)
    jobs = []
    for i, P in enumerate(Ps):
        usable = [c for c in cases[i] if not c["oob"]]
        if not usable:
            continue
        for R in recursive_rels(P)[:2]:
            for c in (usable if len(usable) <= 6 else rng.sample(usable, 6)):
                full = c["full"][R["name"]]
                for k in sorted(set([0, 1, 2, max(0, len(full) - 1), len(full), len(full) + 1])):
                    jobs.append((i, R["name"], c, k))
    def one(job):
        i, rel, c, k = job
        P = copy.deepcopy(Ps[i])
        for r in P["rels"]:
            if r["name"] == rel:
                r["limitsize"] = k; r["output"] = True
        d = os.path.join(wd, "p%d_%s_k%d_%d" % (i, rel, k, abs(hash(json.dumps(c["edb"], sort_keys=True))) % 100000))
        os.makedirs(d, exist_ok=True)
        dl = os.path.join(d, "p.dl"); open(dl, "w").write(render.program(P))
        render.write_facts(P, c["edb"], os.path.join(d, "facts"))
        o = sf.run_dl(dl, os.path.join(d, "facts"), os.path.join(d, "out"), args=["-j1"])
        if o.kind != "ok":
            return (job, d, None, "souffle %s rc=%s: %s" % (o.kind, o.rc, o.stderr[-400:]))
        rows = render.read_output(P, rel, os.path.join(d, "out", rel + ".csv"))
        return (job, d, rows, None)
    with cf.ThreadPoolExecutor(NCPU) as ex:
        outs = list(ex.map(one, jobs))
    jc = []; keep = []
    for job, d, rows, err in outs:
        i, rel, c, k = job
        if err:
            if evalcore.known_crash(res, "C23", err):
                continue
            res.violations.append(("limitsize run failed: %s (program %s, relation %s, k=%d)" % (err, Ps[i]["id"], rel, k), d)); continue
        if len(rows) != len(set(map(json.dumps, rows))):
            res.violations.append(("output of %s lists a tuple twice (k=%d)" % (rel, k), d)); continue
        jc.append({"kind": "limit", "model": c["full"][rel], "out": rows, "k": k}); keep.append((job, d))
    verdicts = judge.judge(jc, wd, "judge", res)
    nontriv = 0
    for (job, d), v, c in zip(keep, verdicts, jc):
        i, rel, cs, k = job
        if len(c["model"]) >= k and len(c["out"]) < len(c["model"]):
            nontriv += 1      # the limit actually cut the relation
        if v is False:
            json.dump({"program": Ps[i]["id"], "rel": rel, "k": k, "edb": cs["edb"], "model": c["model"], "out": c["out"]},
                      open(os.path.join(d, "replay.json"), "w"), indent=1)
            res.violations.append(("limitsize(n=%d) on %s of %s: output %s violates LimitOK against the unlimited model %s"
                                   % (k, rel, Ps[i]["id"], c["out"][:8], c["model"][:8]), os.path.join(d, "replay.json")))
        else:
            import shutil; shutil.rmtree(d, ignore_errors=True)
    res.cov["traces_validated_against_impl"] = sum(1 for v in verdicts if v)
    res.cov.update({"programs": len(Ps), "limit_runs_judged": len(jc), "runs_where_limit_truncated": nontriv})
    if jc:
        res.sample({"program": render.program(Ps[keep[0][0][0]])[:800], "case": jc[len(jc) // 2]})
    return finish(res, "model_checking", assumptions=["spec/Datalog.tla is the meaning of the unlimited program",
                                                      "only the limited relation itself is judged, not relations computed from it"])
