"""C15 - the printed form of a parsed program parses again, printing is a fixpoint, and the printed program means the same.

(S) spec/Syntax.tla is the catalogue of construct kinds of the language (every intrinsic functor / constraint operator
    with the parser's precedence table, every declaration / directive / literal / term form) with one minimal probe
    program per kind and variant; spec/MC_Syntax.tla lets TLC enumerate (a) the probes, (b) every expression tree with
    <= 2 operators over the full operator alphabet (thorough: <= 3 over a reduced alphabet), each written fully
    parenthesised and with only the parentheses the grammar needs, with its VALUE computed by spec/Functors.tla,
    (c) seeded compositions of probes.  (d) The seeded generator stream (vf/gen.py, plus random qualifiers and .plan)
    has its model computed by spec/Datalog.tla (vf/evalcore.py).
(R) For every program P:  P1 = `souffle --show=initial-ast P` must be accepted by `souffle --show=initial-ast`,
    printing P1 must give P1 again, the RAM program souffle builds for P1 (hook H3 dump, RAM_initial) must equal the one
    it builds for P modulo source locations, and the interpreter's outputs for P1 must be the values TLC computed.
Findings are keyed by construct kind: a probe of kind K that fails is `KNOWN-FINDING kind=K` iff known_findings.json lists
{"property":"C15","id":"kind:K"}; otherwise it is a VIOLATION.  Programs that use a listed kind are taken through the
pipeline after the listed spelling has been put back (vf/syntaxgen.py repairs) so that any *other* defect in them is still
a VIOLATION; kinds without a repair mask the programs using them (counted).
Python is glue: it writes abstract syntax as text, runs souffle and compares texts / JSON / rows."""
import json, os, re, random, hashlib, shutil, concurrent.futures as cf
from .. import build, tlc, known, gen, render, evalcore, syntaxgen as sg, souffle as sf
from ..common import SPEC, workdir, seed, Result, NCPU, canon
from ..common import run as _run
import time

def sh(cmd, **kw):
    """common.run, retried when the shared souffle binary is being relinked by a concurrent ensure_souffle()"""
    for attempt in range(30):
        try:
            return _run(cmd, **kw)
        except OSError:
            time.sleep(2)
    return _run(cmd, **kw)
from ..evidence import finish

PID = "C15"
DEEP_SYMS = ["+", "-", "*", "/", "%", "^", "band", "bshl", "lor", "bnot", "max"]
_LOC = re.compile(r"\s*in file .*\[\d+:\d+-\d+:\d+\]\s*$", re.S)

def kid(k):
    return "kind:" + k

# ---------------------------------------------------------------------------------------------- TLC
def to_tla_set(xs):
    return "{" + ",".join(json.dumps(x) for x in xs) + "}"

def spec_programs(wd, tier, res):
    d = os.path.join(wd, "tlc"); os.makedirs(d, exist_ok=True)
    deep = 0 if tier == "quick" else 3
    with open(os.path.join(d, "SyntaxData.tla"), "w") as f:
        f.write("---- MODULE SyntaxData ----\nMaxOps == 2\nMaxOpsDeep == %d\nDeepSyms == %s\nSeed == %d\nNCompose == %d\n====\n"
                % (deep, to_tla_set(DEEP_SYMS), seed() % 100000, 40 if tier == "quick" else 200))
    # developer knob (mutation experiments only, never set by MANIFEST commands): reuse TLC's output of an identical
    # specification + data module instead of running TLC again
    cache = os.environ.get("VERIF_C15_TLC_CACHE")
    key = None
    if cache:
        h = hashlib.sha256()
        for fn in ("Syntax.tla", "MC_Syntax.tla", "MC_Syntax.cfg", "Functors.tla", "Word32.tla"):
            h.update(open(os.path.join(SPEC, fn), "rb").read())
        h.update(open(os.path.join(d, "SyntaxData.tla"), "rb").read())
        key = os.path.join(cache, h.hexdigest() + ".json")
        if os.path.exists(key):
            c = json.load(open(key))
            res.add_tlc(c["counts"]); res.cov["tlc_output_reused_from_cache"] = True
            return c["progs"], set(c["kinds"])
    # JDK_JAVA_OPTIONS (not JAVA_TOOL_OPTIONS): the catalogue is evaluated once at start-up on the main thread, whose
    # stack size the launcher only takes from the command line / JDK_JAVA_OPTIONS; Word32's recursions are deep.
    r = tlc.run_tlc(os.path.join(SPEC, "MC_Syntax.tla"), os.path.join(SPEC, "MC_Syntax.cfg"), d, lib=d, timeout=2400,
                    env={"JDK_JAVA_OPTIONS": "-Xss64m"})
    if not r["ok"]:
        res.infra_errors.append("MC_Syntax: " + (r["error"] or "violated %s: %s" % (r["violated"], r["out"][-1500:])))
        return [], set()
    res.add_tlc(r)
    progs = [j for j in r["json"] if isinstance(j, dict) and j.get("tag") == "PROG"]
    kinds = set()
    for j in r["json"]:
        if isinstance(j, dict) and j.get("tag") == "KINDS":
            kinds = set(j["kinds"])
    if key:
        os.makedirs(cache, exist_ok=True)
        json.dump({"progs": progs, "kinds": sorted(kinds), "counts": {"distinct": r["distinct"], "generated": r["generated"]}}, open(key, "w"))
    return progs, kinds

# ---------------------------------------------------------------------------------------------- pipeline
_RAM_MARK = "\nPROGRAM\n DECLARATION\n"

def front_end(path, tag):
    """one run of the real front end: `--show=initial-ast --show=initial-ram` prints the parsed program, then (if the
    semantic phases accept it) the RAM text, and hook H3 dumps RAM_initial as JSON.
    Returns (printed program or None if the parser rejects, RAM JSON or None, stderr)."""
    ini = path + "." + tag + "_ram_initial.json"
    if os.path.exists(ini):
        os.remove(ini)
    rc, out, err = sh([build.SOUFFLE, "--show=initial-ast", "--show=initial-ram", path], timeout=120,
                      env={"SOUFFLE_VERIF_RAM_INITIAL": ini})
    if rc == -999:
        return None, None, "TIMEOUT"
    k = out.rfind(_RAM_MARK)
    printed = out[:k + 1] if k >= 0 else out
    if printed == "":
        return None, None, err
    ram = None
    if rc == 0 and os.path.exists(ini):
        try:
            ram = norm_ram(json.load(open(ini)))
        except Exception as e:
            err += "\nunreadable RAM dump: %r" % (e,)
    return printed, ram, "rc=%s %s" % (rc, err)

def norm_ram(x):
    """the RAM program without source locations (debug text keeps the clause text, drops file name and position)"""
    if isinstance(x, dict):
        return {k: (_LOC.sub("", v) if k == "msg" and isinstance(v, str) else norm_ram(v)) for k, v in x.items()}
    if isinstance(x, list):
        return [norm_ram(v) for v in x]
    return x

def first_diff(a, b, path="$"):
    if type(a) != type(b):
        return "%s: %s vs %s" % (path, canon(a)[:120], canon(b)[:120])
    if isinstance(a, dict):
        for k in sorted(set(a) | set(b)):
            if k not in a or k not in b:
                return "%s.%s present on one side only" % (path, k)
            d = first_diff(a[k], b[k], path + "." + k)
            if d:
                return d
        return None
    if isinstance(a, list):
        if len(a) != len(b):
            return "%s: %d vs %d elements" % (path, len(a), len(b))
        for i, (x, y) in enumerate(zip(a, b)):
            d = first_diff(x, y, "%s[%d]" % (path, i))
            if d:
                return d
        return None
    return None if a == b else "%s: %r vs %r" % (path, a, b)

def run_dl(dl, facts, out):
    for attempt in range(30):
        try:
            return sf.run_dl(dl, facts, out, args=["-j1"])
        except OSError:
            time.sleep(2)
    return sf.run_dl(dl, facts, out, args=["-j1"])

def read_rows(path):
    if not os.path.exists(path):
        return None
    with open(path, encoding="utf-8", errors="surrogateescape") as f:
        txt = f.read()
    lines = txt.split("\n")
    if lines and lines[-1] == "":
        lines.pop()
    return sorted(tuple(l.split("\t")) for l in lines)

def run_rows(dl, outdir, expect):
    """interpreter run; returns (None, rows per relation) or (error text, None)"""
    shutil.rmtree(outdir, ignore_errors=True); os.makedirs(outdir)
    rc, out, err = sh([build.SOUFFLE, "-j1", "-D", outdir, "-F", outdir, dl], timeout=120)
    if rc != 0:
        return "interpreter rc=%s: %s" % (rc, err[-500:]), None
    return None, {e["rel"]: read_rows(os.path.join(outdir, e["rel"] + ".csv")) for e in expect}

def rows_mismatch(got, expect):
    for e in expect:
        want = sorted(tuple(r) for r in e["rows"])
        if got.get(e["rel"]) != want:
            return "relation %s: rows %s, the specification's value is %s" % (e["rel"], got.get(e["rel"]), want)
    return None

def pipeline(d, text, repair_kinds, expect=(), cases=None, P=None):
    """One program through print -> parse -> print -> RAM -> outputs.  Returns dict(status, stage, detail).
    status: ok | fail | rejected (the source itself is not accepted: the property's premise does not hold) | drift."""
    os.makedirs(d, exist_ok=True)
    src = os.path.join(d, "P.dl")
    with open(src, "w") as f:
        f.write(text)
    p1, r0, err = front_end(src, "P")
    if p1 is None:
        return {"status": "rejected", "stage": "source", "detail": err[-600:]}
    with open(os.path.join(d, "P1.printed.dl"), "w") as f:
        f.write(p1)
    q = sg.repair(p1, repair_kinds) if repair_kinds else p1
    qp = os.path.join(d, "P1.dl")
    with open(qp, "w") as f:
        f.write(q)
    p2, r1, err1 = front_end(qp, "P1")
    if p2 is None:
        return {"status": "fail", "stage": "reparse", "detail": "the printed form is rejected: " + err1[-600:]}
    if p2 != p1:
        with open(os.path.join(d, "P2.printed.dl"), "w") as f:
            f.write(p2)
        a = p1.split("\n"); b = p2.split("\n")
        i = next((i for i in range(min(len(a), len(b))) if a[i] != b[i]), min(len(a), len(b)))
        return {"status": "fail", "stage": "fixpoint", "detail": "printing the printed form changes it at line %d: %r -> %r"
                % (i + 1, a[i] if i < len(a) else None, b[i] if i < len(b) else None)}
    if r0 is None:
        # accepted by the parser but not by the later phases (e.g. a semantic error): there is no meaning to preserve
        return {"status": "rejected", "stage": "source-semantic", "detail": err[-600:]}
    if r1 is None:
        return {"status": "fail", "stage": "ram-dump", "detail": "the printed form parses but is rejected later: " + err1[-600:]}
    dd = first_diff(r0, r1)
    if dd:
        return {"status": "fail", "stage": "ram", "detail": "RAM_initial of the printed form differs from the original's: " + dd}
    if expect:
        e, got = run_rows(qp, os.path.join(d, "out1"), expect)
        bad = e or rows_mismatch(got, expect)
        if bad:
            e0, got0 = run_rows(src, os.path.join(d, "out0"), expect)
            bad0 = e0 or rows_mismatch(got0, expect)
            if bad0:     # the ORIGINAL does not have the specified value either: not a matter of printing
                return {"status": "drift", "stage": "value", "detail": "original program: " + bad0}
            return {"status": "fail", "stage": "value", "detail": "outputs of the printed form: " + bad}
    if cases:
        for k, case in enumerate(cases):
            rd = os.path.join(d, "e%d" % k)
            facts = os.path.join(rd, "facts"); out = os.path.join(rd, "out")
            render.write_facts(P, case["edb"], facts)
            o = run_dl(qp, facts, out)
            if o.kind == "ok":
                try:
                    sf.collect(P, out, o)
                except render.ParseError as ex:
                    o.kind = "unparsable-output"; o.stderr += str(ex)
            bad = evalcore.compare(P, case, o)
            if bad:
                o0 = run_dl(src, facts, os.path.join(rd, "out0"))
                if o0.kind == "ok":
                    sf.collect(P, os.path.join(rd, "out0"), o0)
                if evalcore.compare(P, case, o0):
                    return {"status": "drift", "stage": "value", "detail": "original program on EDB %s: %s" % (case["edb"], evalcore.compare(P, case, o0))}
                return {"status": "fail", "stage": "value", "detail": "printed form on EDB %s: %s" % (case["edb"], bad)}
            shutil.rmtree(rd, ignore_errors=True)
    return {"status": "ok", "stage": None, "detail": ""}

# ---------------------------------------------------------------------------------------------- driver
class Ctx:
    def __init__(self, res, wd, listed):
        self.res = res; self.wd = wd; self.listed = listed
        self.texts = set(); self.nontrivial = set(); self.evals = 0
        self.viol_count = {}
    def violation(self, family, stage, desc, d, meta):
        key = (family, stage)
        self.viol_count[key] = self.viol_count.get(key, 0) + 1
        self.res.count("violations_total")
        with open(os.path.join(d, "replay.json"), "w") as f:
            json.dump(meta, f, indent=1, default=list)
        if self.viol_count[key] <= 5:
            self.res.violations.append((desc, os.path.join(d, "replay.json")))
    def known(self, k):
        kf = self.kf
        msg = "kind=%s %s" % (k, known.describe(kf, PID, kid(k)).split(": ", 1)[1])
        if msg not in self.res.known:
            self.res.known.append(msg)
        self.res.count("known_finding_hits")

def meta_of(j, text):
    return {"property": PID, "family": j.get("family"), "kind": j.get("kind"), "variant": j.get("variant"),
            "kinds": sorted(j.get("kinds", [])), "expect": j.get("expect"), "text": text}

def do_probe(ctx, j, idx):
    """raw pipeline decides whether kind K passes; a listed kind is then also checked with its listed spelling repaired."""
    K = j["kind"]; text = sg.program(j["items"])
    d = os.path.join(ctx.wd, "probe", re.sub(r"[^\w.-]", "_", "%s@%s" % (K, j["variant"])))
    r = pipeline(os.path.join(d, "raw"), text, set(), j["expect"])
    out = {"kind": K, "variant": j["variant"], "raw": r, "text": text, "dir": d, "repaired": None, "expect": j["expect"], "kinds": sorted(j["kinds"])}
    used = set(j["kinds"]) & ctx.listed
    if r["status"] == "fail" and K in ctx.listed and used <= sg.REPAIRABLE:
        out["repaired"] = pipeline(os.path.join(d, "repaired"), text, used, j["expect"])
    return out

def do_prog(ctx, j, name, text, kinds, expect=(), cases=None, P=None):
    listed_used = set(kinds) & ctx.listed
    masked = listed_used - sg.REPAIRABLE
    d = os.path.join(ctx.wd, j["family"], name)
    if masked:
        return {"status": "masked", "masked": sorted(masked), "dir": d, "text": text}
    r = pipeline(d, text, listed_used, expect, cases, P)
    r["dir"] = d; r["text"] = text; r["repaired_kinds"] = sorted(listed_used)
    return r

def run(tier, replay=None):
    res = Result(PID, tier)
    build.ensure_souffle()
    kf = known.load()
    listed = {x["id"][5:] for x in kf.get("findings", []) if x["property"] == PID and x["id"].startswith("kind:")}
    if replay:
        return do_replay(res, replay, listed)
    wd = workdir(PID)
    ctx = Ctx(res, wd, listed); ctx.kf = kf
    t0 = time.time()
    progs, catalogue = spec_programs(wd, tier, res)
    res.cov["seconds_tlc_syntax"] = round(time.time() - t0, 1); t0 = time.time()
    fams = set((os.environ.get("VERIF_C15_FAMILIES") or "probe,tree,compose,gen").split(","))    # developer knob
    pf = os.environ.get("VERIF_C15_PROBE_FILTER")                                                  # developer knob
    if pf:
        progs = [j for j in progs if j["family"] != "probe" or re.search(pf, j["kind"])]
    if tier == "quick":
        # both spellings of a tree parse to the same AST, hence print the same; quick keeps the one that also exercises
        # the parser's precedence rules (the specification's NeedsPar against the real grammar)
        progs = [j for j in progs if j["family"] != "tree" or j["mode"] == "min"]
    probes = [j for j in progs if j["family"] == "probe" and "probe" in fams]
    others = [j for j in progs if j["family"] != "probe" and j["family"] in fams]
    rng = random.Random(seed() * 7919 + 15)
    pool = cf.ThreadPoolExecutor(NCPU)
    # ---- (a) probes -------------------------------------------------------------------------------
    kind_status = {}
    outs = list(pool.map(lambda a: do_probe(ctx, a[1], a[0]), enumerate(probes)))
    for o in outs:
        K = o["kind"]; r = o["raw"]; res.count("probes")
        ctx.evals += 1; ctx.texts.add(o["text"])
        st = kind_status.setdefault(K, {"pass": 0, "fail": [], "rejected": 0})
        meta = {"property": PID, "family": "probe", "kind": K, "variant": o["variant"], "text": o["text"], "result": r, "dir": o["dir"],
                "expect": o["expect"], "kinds": o["kinds"]}
        if r["status"] == "ok":
            st["pass"] += 1; ctx.nontrivial.add(o["text"]); res.cov["traces_validated_against_impl"] += 1
            shutil.rmtree(o["dir"], ignore_errors=True)
        elif r["status"] == "rejected":
            st["rejected"] += 1
            res.infra_errors.append("MODEL-DRIFT: the probe of kind %s (%s) is not accepted by souffle itself (%s): %s\n%s"
                                    % (K, o["variant"], r["stage"], r["detail"][-300:], o["text"]))
        elif r["status"] == "drift":
            res.infra_errors.append("MODEL-DRIFT: the ORIGINAL probe of kind %s (%s) does not have the value the specification computes: %s\n%s"
                                    % (K, o["variant"], r["detail"], o["text"]))
        else:
            st["fail"].append((o["variant"], r["stage"])); ctx.nontrivial.add(o["text"])
            if K in listed:
                ctx.known(K)
                rp = o["repaired"]
                if rp is not None and rp["status"] not in ("ok",):
                    ctx.violation("probe", "beyond-listed", "kind %s (%s): with the listed spelling put back the probe still fails at stage %s: %s"
                                  % (K, o["variant"], rp["stage"], rp["detail"]), o["dir"], meta)
                elif rp is not None:
                    res.count("listed_probes_passing_after_repair")
            else:
                ctx.violation("probe", r["stage"], "construct kind %s (variant %s) is not print/reparse-lossless [%s]: %s\n--- program\n%s"
                              % (K, o["variant"], r["stage"], r["detail"], o["text"]), o["dir"], meta)
        res.sample({"family": "probe", "kind": K, "variant": o["variant"], "program": o["text"], "result": r["status"], "stage": r["stage"]}, limit=3)
    res.cov["seconds_probes"] = round(time.time() - t0, 1); t0 = time.time()
    failing = sorted(k for k, s in kind_status.items() if s["fail"])
    stale = sorted(k for k in listed if k in kind_status and not kind_status[k]["fail"] and not kind_status[k]["rejected"] and kind_status[k]["pass"])
    for k in stale:
        print("NOTE: property=C15 kind=%s is listed in known_findings.json but its probes pass now" % k, flush=True)
    # ---- (b) trees, (c) compositions ------------------------------------------------------------------
    jobs = []; seen = set()
    deep = [j for j in others if j["family"] == "tree" and j["nops"] > 2]
    if len(deep) > 3000:
        keep = set(map(id, rng.sample(deep, 3000)))
        others = [j for j in others if not (j["family"] == "tree" and j["nops"] > 2 and id(j) not in keep)]
    for n, j in enumerate(others):
        text = sg.program(j["items"])
        if text in seen:
            res.count("duplicate_texts_skipped"); continue
        seen.add(text)
        jobs.append((j, "%s%d" % (j["family"][0], n), text))
    outs = list(pool.map(lambda a: do_prog(ctx, a[0], a[1], a[2], a[0]["kinds"], a[0]["expect"]), jobs))
    for (j, name, text), r in zip(jobs, outs):
        fam = j["family"]; res.count("programs_" + fam); ctx.evals += 1; ctx.texts.add(text)
        account(ctx, res, fam, j.get("kinds", []), r, meta_of(j, text), failing)
        if fam == "tree" and r["status"] == "ok" and j["mode"] == "min":
            res.sample({"family": "tree", "program": text, "value": j["expect"], "result": "ok"}, limit=5)
        if fam == "compose" and r["status"] == "ok":
            res.sample({"family": "compose", "parts": j["parts"], "program": text, "expect": j["expect"], "result": "ok"}, limit=6)
    # ---- (d) generator stream ------------------------------------------------------------------------
    res.cov["seconds_trees_compositions"] = round(time.time() - t0, 1); t0 = time.time()
    if "gen" in fams:
        gen_stream(ctx, res, tier, wd, pool, rng, failing)
    res.cov["seconds_generator_stream"] = round(time.time() - t0, 1)
    pool.shutdown()
    res.cov.update({"evaluations": ctx.evals, "distinct_nontrivial": len(ctx.nontrivial),
                    "rule": "a case is one program text taken through print -> parse -> print -> RAM_initial equality -> outputs; "
                            "cases come from TLC (probe per construct kind and variant; all expression trees with <= 2 operators written "
                            "with the parentheses the grammar needs - thorough: also fully parenthesised, and <= 3 operators over a "
                            "reduced alphabet; seeded compositions of 3 probes) and from the seeded generator; a case "
                            "counts as distinct and non-trivial when its source text is new, souffle accepts it (the property's "
                            "premise) and the pipeline reached a verdict (ok or a failing stage)",
                    "construct_kinds": len(catalogue), "kinds_failing": failing, "kinds_listed": sorted(listed),
                    "kinds_passing": len([k for k, s in kind_status.items() if not s["fail"] and s["pass"]])})
    return finish(res, "exploration", assumptions=[
        "spec/Syntax.tla is the catalogue of construct kinds (lattices, user-defined aggregates, .include/.once and the C preprocessor are outside it)",
        "equal RAM_initial (hook H3 dump, source locations removed) is taken as equal meaning on every input",
        "programs using a listed kind are checked after the listed spelling has been put back by vf/syntaxgen.py; "
        "kinds without such a repair mask the programs that use them (coverage key programs_masked)",
        "spec/Functors.tla is the value of the intrinsic functors; spec/Datalog.tla is the meaning of generator programs"])

def account(ctx, res, fam, kinds, r, meta, failing):
    st = r["status"]
    if st == "ok":
        ctx.nontrivial.add(r["text"]); res.cov["traces_validated_against_impl"] += 1
        res.count("programs_ok"); shutil.rmtree(r["dir"], ignore_errors=True)
    elif st == "masked":
        res.count("programs_masked")
    elif st == "rejected":
        res.count("programs_rejected_by_souffle_" + fam)
        if fam != "gen":
            res.infra_errors.append("MODEL-DRIFT: a %s program is not accepted by souffle itself (%s): %s\n%s" % (fam, r["stage"], r["detail"][-300:], r["text"]))
    elif st == "drift":
        res.infra_errors.append("MODEL-DRIFT: the ORIGINAL %s program does not have the value the specification computes: %s\n%s" % (fam, r["detail"], r["text"]))
    else:
        ctx.nontrivial.add(r["text"])
        unl = sorted(set(kinds) & set(failing) - ctx.listed)
        meta["result"] = {k: v for k, v in r.items() if k != "text"}
        ctx.violation(fam, r["stage"], "a %s program is not print/reparse-lossless [%s]%s: %s\n--- program\n%s"
                      % (fam, r["stage"], (" (uses failing unlisted kinds %s)" % unl) if unl else
                         " although every kind it uses passes or was repaired (%s)" % r.get("repaired_kinds"), r["detail"], r["text"][:1500]),
                      r["dir"], meta)

# ---------------------------------------------------------------------------------------------- generator stream
SAFE_QUALS = ["brie", "btree", "no_inline", "magic", "no_magic", "inline"]

def decorate(P, rng):
    """qualifiers and plans that leave the meaning alone (the checker may reject a combination: counted)"""
    for r in P["rels"]:
        if rng.random() < 0.35 and not r.get("eqrel"):
            q = rng.choice(SAFE_QUALS)
            if q == "inline" and (r["input"] or r["output"]):
                q = "no_inline"
            r["quals"] = list(r.get("quals", [])) + [q]
    scc = {r: i for i, st in enumerate(P.get("strata", [])) for r in st}
    for c in P.get("src_clauses") or P["clauses"]:
        if c.get("disj") or c.get("heads"):
            continue
        n = sum(1 for l in c["body"] if l["k"] == "atom")
        # souffle accepts a plan on recursive clauses only
        rec = any(l["k"] == "atom" and scc.get(l["rel"]) == scc.get(c["head"]["rel"]) for l in c["body"])
        if rec and n >= 2 and rng.random() < 0.7:
            perm = list(range(1, n + 1)); rng.shuffle(perm)
            c["plan"] = [(0, perm)]
    return P

def gen_stream(ctx, res, tier, wd, pool, rng, failing):
    n = 14 if tier == "quick" else 100
    Ps = gen.programs(seed() * 1000 + 15, n)
    cases = evalcore.tlc_models(Ps, os.path.join(wd, "gen"), res, chunk=50)
    jobs = []
    for i, P in enumerate(Ps):
        usable = [c for c in cases[i] if not c["oob"]]
        if not usable:
            res.count("gen_programs_without_model"); continue
        k = 4 if tier == "quick" else 6
        nonempty = [c for c in usable if any(len(v) for v in c["model"].values())]
        pick = (rng.sample(nonempty, min(k - 1, len(nonempty))) if nonempty else []) + [usable[0]]
        PV = decorate(json.loads(json.dumps(P)), random.Random(seed() * 31 + i))
        for variant, Q in (("plain", P), ("decorated", PV)):
            text = render.program(Q)
            kinds = sg.gen_kinds(Q) | {"feature:" + f for f in P.get("features", [])}
            jobs.append(({"family": "gen", "kinds": sorted(kinds), "id": P["id"] + "/" + variant}, "g%d_%s" % (i, variant), text, Q, pick))
    outs = list(pool.map(lambda a: do_prog(ctx, a[0], a[1], a[2], a[0]["kinds"], (), a[4], a[3]), jobs))
    for (j, name, text, Q, pick), r in zip(jobs, outs):
        res.count("programs_gen"); ctx.evals += 1; ctx.texts.add(text)
        res.count("gen_edb_cases_compared", len(pick) if r["status"] == "ok" else 0)
        account(ctx, res, "gen", j["kinds"], r, {"property": PID, "family": "gen", "id": j["id"], "kinds": j["kinds"], "text": text,
                                                  "cases": pick, "P": Q}, failing)
        if r["status"] == "ok":
            res.sample({"family": "gen", "id": j["id"], "kinds": j["kinds"], "program": text[:1200], "edb": pick[0]["edb"], "model": pick[0]["model"]}, limit=8)

# ---------------------------------------------------------------------------------------------- replay
def do_replay(res, path, listed):
    m = json.load(open(path))
    d = os.path.join(workdir(PID + "_replay"), "r")
    kinds = set(m.get("kinds") or ([m["kind"]] if m.get("kind") else []))
    rep = set() if m.get("family") == "probe" else (kinds & listed & sg.REPAIRABLE)
    r = pipeline(d, m["text"], rep, m.get("expect") or (), m.get("cases"), m.get("P"))
    print(json.dumps(r, indent=1))
    K = m.get("kind")
    if r["status"] == "fail" and not (m.get("family") == "probe" and K in listed):
        print("VIOLATION property=%s replay=%s\n  [%s] %s" % (PID, path, r["stage"], r["detail"]), flush=True)
        return 1
    if r["status"] == "fail":
        print("KNOWN-FINDING: property=%s kind=%s (replay)" % (PID, K), flush=True)
    return 0
