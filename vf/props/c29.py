"""C29 - the lock-free union-find (DisjointSet) is linearizable.
S: TLC checks spec/UnionFindImpl.tla (one action per DisjointSet::get = one cooperative-scheduler step) over all
   interleavings of systematic families `canonical set-ups of <= 2 unions x operation mixes` (spec/MC_UnionFind.tla), in
   BOTH variants of the link step: "written" (updateRoot(x,xrank,y,yrank)) and "textbook" (updateRoot(x,xrank,y,xrank)):
   acyclicity, no lost / no spurious union, final partition = closure, sameSet/find answers, termination under fairness.
   spec/UnionFindAbs.tla (the property-level spec) is model-checked on its own (FinalIsClosure, Monotone).
R: TLC's state graphs of both variants are dumped; walks covering every transition are replayed on the real DisjointSet
   under the cooperative scheduler; parent and rank arrays, yield point, operation index and results are compared with
   the spec state after every step.  The variant whose walks the real object follows step for step is the one /repo
   implements (decided here, at run time); a deviation from both is MODEL-DRIFT (not a violation).
T: the verdict.  Every real execution (replayed walks, TLC counterexamples of either variant, the reproduction in
   findings/C29-lost-union, seeded random schedules, bounded-DFS schedules enumerated by the driver) yields a history of
   call/return events plus the observed parent/rank arrays; TLC validates it against UnionFindAbs (UnionFindAbsTrace):
   every answer correct at an instant of its call, arrays acyclic after every step, final partition = closure of the
   requested unions.  A rejected history is a VIOLATION, except the exact signature of the known finding
   lost-union-rank-overwrite (cycle closed through a node whose rank field was overwritten when it was linked) when
   known_findings.json lists it."""
import os, re, json, subprocess, random, itertools, concurrent.futures as cf
from .. import build, tlc, graphwalk, tracecheck, tlaval, known
from ..common import workdir, seed, Result, SPEC, HARNESS, BUILD, NCPU, VERIF, log
from ..evidence import finish

PID = "C29"
FID = "lost-union-rank-overwrite"
VARIANTS = (("written", "w"), ("textbook", "t"))
ACTIONS = ("Begin", "F1", "F2", "F3", "F4", "S2", "U2", "U3", "U4", "U5", "U6", "U7")
FINDING_DIR = os.path.join(VERIF, "findings", "C29-lost-union")
TRACE_CONST = "CONSTANTS N = 4  Clients = {0, 1, 2, 3}"
import time
_T0 = time.time()
def tick(msg):
    log("[C29 %6.1fs] %s" % (time.time() - _T0, msg))

# ------------------------------------------------------------------------------------------------ jobs
def op_txt(o):
    return "f:%d" % o[1] if o[0] == "f" else "%s:%d:%d" % (o[0], o[1], o[2])

def prog_txt(p):
    return ",".join(op_txt(o) for o in p) or "-"

def job_line(setup, progs, sched, verbose=False, n=4):
    return "%d %s %s %s%s" % (n, prog_txt(setup), ";".join(prog_txt(p) for p in progs), sched, " v" if verbose else "")

def conf_job(conf, sched, verbose=False):
    return job_line(conf["setup"], conf["prog"], sched, verbose)

def canonical_setups(n=4):
    """one set-up per distinct forest <= 2 sequential unions can build (mirrors CSetups of spec/MC_UnionFind.tla)"""
    out = [[]]
    pairs = [(a, b) for a in range(n) for b in range(n) if a < b]
    out += [[("u", a, b)] for a, b in pairs]
    for a, b in pairs:
        for c, d in pairs:
            if (b in (c, d) and a not in (c, d)) or (len({a, b, c, d}) == 4 and a < c):
                out.append([("u", a, b), ("u", c, d)])
    return out

def ops_lt(n=4):
    return [("u", a, b) for a in range(n) for b in range(a + 1, n)] + [("s", a, b) for a in range(n) for b in range(a + 1, n)] + \
           [("f", a, a) for a in range(n)]

RSET = [[], [("u", 0, 2)], [("u", 0, 1), ("u", 2, 3)], [("u", 0, 2), ("u", 1, 2)]]
ROPS = [("u", 2, 3), ("u", 3, 2), ("u", 0, 3), ("u", 1, 3), ("s", 2, 3), ("s", 0, 3), ("f", 0, 0), ("f", 3, 3)]

CORE = [(("u", 2, 3), ("u", 2, 3)), (("u", 2, 3), ("u", 3, 2)), (("u", 0, 3), ("u", 2, 3)), (("u", 2, 3), ("s", 2, 3)), (("u", 2, 3), ("f", 3, 3))]

def dfs_jobs(tier):
    """bounded DFS by the driver itself (independent of UnionFindImpl): D<preemption bound>:<max executions>.
    quick:    4 set-ups x all unordered pairs of 8 selected ops, <= 2 preemptions; 4 set-ups x 5 core pairs exhaustively (cap 40000)
    thorough: 22 canonical set-ups x all unordered pairs of the 16 ops (a<b), <= 2 preemptions; 4 set-ups x 36 pairs exhaustively
              (cap 20000); 4 set-ups x multisets of 3 of the 8 selected ops on 3 threads, <= 1 preemption; two-operation programs"""
    jobs = []
    if tier == "quick":
        for s in RSET:
            for o1, o2 in itertools.combinations_with_replacement(ROPS, 2):
                jobs.append(job_line(s, [[o1], [o2]], "D2:3000"))
            for o1, o2 in CORE:
                jobs.append(job_line(s, [[o1], [o2]], "D99:25000"))
    else:
        for s in canonical_setups():
            for o1, o2 in itertools.combinations_with_replacement(ops_lt(), 2):
                jobs.append(job_line(s, [[o1], [o2]], "D2:1000"))
        for s in RSET:
            for o1, o2 in itertools.combinations_with_replacement(ROPS, 2):
                jobs.append(job_line(s, [[o1], [o2]], "D99:20000"))
            for o in itertools.combinations_with_replacement(ROPS, 3):
                jobs.append(job_line(s, [[x] for x in o], "D1:1000"))
            for o1, o2 in CORE:
                for obs in ([("f", 2, 2)], [("s", 2, 3)], [("f", 3, 3)]):
                    jobs.append(job_line(s, [[o1] + obs, [o2] + obs], "D2:5000"))
    return jobs

def random_jobs(rng, count):
    jobs = []
    for _ in range(count):
        nt = rng.choice([2, 2, 3])
        hot = rng.sample(range(4), 2)
        def node():
            return rng.choice(hot) if rng.random() < 0.6 else rng.randrange(4)
        def op():
            k = rng.choice("uuusf")
            a = node(); b = node()
            while k != "f" and b == a and rng.random() < 0.9:
                b = rng.randrange(4)
            return (k, a, a if k == "f" else b)
        setup = []
        for _ in range(rng.choice([0, 1, 1, 2, 2, 3])):
            a = rng.randrange(4); b = rng.choice([x for x in range(4) if x != a])
            setup.append(("u", a, b))
        progs = [[op() for _ in range(rng.randint(1, 3 if nt == 2 else 2))] for _ in range(nt)]
        jobs.append(job_line(setup, progs, "R%d:%d:%d" % (rng.randrange(1 << 30), rng.randint(8, 90), rng.choice([1000, 500, 250, 120]))))
    return jobs

# ------------------------------------------------------------------------------------------------ driver
def _clamp(x):
    x = int(x)
    return x if -1 <= x <= 1000 else -1      # a wild value stays "not a node"; TLC integers are 32-bit

def _ints(s):
    return [_clamp(x) for x in s.split(",")]

def parse_event(line):
    f = line.split(" ")
    if f[1] == "call":
        return ["call", int(f[2]), f[3], _clamp(f[4]), _clamp(f[5])]
    if f[1] == "ret":
        return ["ret", int(f[2]), _clamp(f[3])]
    if f[1] == "st":
        return ["st", _ints(f[2]), _ints(f[3])]
    return ["final", _ints(f[2])]

def _run_slice(drv, jobs, base):
    """runs a slice of jobs in one driver process (restarting after a livelock / crash); returns executions"""
    execs = []
    start = 0
    while start < len(jobs):
        p = subprocess.run([drv], input="\n".join(jobs[start:]) + "\n", capture_output=True, text=True, timeout=6000)
        cur = None; last = start - 1
        for line in p.stdout.split("\n"):
            if line.startswith("J "):
                last = start + int(line[2:])
                cur = {"job": base + last, "line": jobs[last], "S": [], "V": [], "X": None, "err": None, "livelock": False, "crash": None}
                execs.append(cur)
            elif line.startswith("D "):
                f = line.split(" ")
                execs.append({"job": base + start + int(f[1]), "dfs_total": int(f[2]), "dfs_distinct": int(f[3])})
            elif cur is None or not line:
                continue
            elif line.startswith("S "):
                cur["S"].append(line)
            elif line.startswith("V "):
                cur["V"].append(line)
            elif line.startswith("X "):
                cur["X"] = line[2:]
            elif line.startswith("ERR"):
                cur["err"] = line
            elif line.startswith("LIVELOCK"):
                cur["livelock"] = True
        if p.returncode == 0:
            break
        if p.returncode != 3:      # the driver died inside job `last` (or before its first job)
            if cur is None or cur["X"] is not None:
                last += 1
                cur = {"job": base + last, "line": jobs[min(last, len(jobs) - 1)], "S": [], "V": [], "X": None, "err": None,
                       "livelock": False, "crash": None}
                execs.append(cur)
            cur["crash"] = "driver died rc=%d %s" % (p.returncode, p.stderr[-300:])
        start = last + 1
    return execs

def run_driver(drv, jobs, procs=None):
    procs = procs or max(2, min(8, NCPU // 2))
    if not jobs:
        return []
    size = max(1, (len(jobs) + procs - 1) // procs)
    slices = [(jobs[i:i + size], i) for i in range(0, len(jobs), size)]
    with cf.ThreadPoolExecutor(max_workers=procs) as ex:
        parts = list(ex.map(lambda s: _run_slice(drv, s[0], s[1]), slices))
    out = [e for p in parts for e in p]
    run_driver.dfs_total += sum(e["dfs_total"] for e in out if "dfs_total" in e)
    return [e for e in out if "dfs_total" not in e]
run_driver.dfs_total = 0

def explicit(e):
    """the execution as a deterministic replay job (explicit schedule)"""
    f = e["line"].split(" ")
    return "%s %s %s %s" % (f[0], f[1], f[2], e["X"] if e["X"] and e["X"] != "-" else "-")

def tlc_workers(share):
    """workers for one of `share` concurrent TLC runs: a share of the cores when the machine is idle, few when it is crowded"""
    try:
        busy = os.getloadavg()[0] >= NCPU
    except OSError:
        busy = False
    return 3 if busy else max(2, NCPU // share)

# ------------------------------------------------------------------------------------------------ S: model checking
def parse_cex(out):
    """TLC error trace -> (conf, schedule, parsed states)"""
    parts = re.split(r"^State (\d+): <([^>]*)>[ \t]*$", out, flags=re.M)
    states = []; sched = []
    for i in range(1, len(parts) - 2, 3):
        label = parts[i + 1]; body = parts[i + 2].strip("\n").split("\n\n")[0]
        try:
            st = tlaval.parse_state(body)
        except Exception:
            break
        m = re.match(r"(\w+)\((\d+)\)", label)
        if m:
            sched.append(int(m.group(2)))
        elif states:
            break
        states.append(st)
    return (states[0]["conf"] if states else None), sched, states

def model_check(wd, fam, sfx, heap, workers, coverage, timeout):
    extra = ["-coverage", "1"] if coverage else []
    r = tlc.run_tlc(os.path.join(SPEC, "MC_UnionFind_%s.tla" % fam), os.path.join(SPEC, "MC_UnionFind_%s_%s.cfg" % (fam, sfx)),
                    wd, timeout=timeout, workers=workers, heap=heap, extra=extra)
    return r

def run_S(res, wd, tier):
    """returns {variant: {"ok": [...], "violated": [(fam, what, conf, sched, states)]}}"""
    fams = [("knownobs", False, True), ("dupq4", True, False), ("pairslt3", True, False)]
    if os.environ.get("VERIF_C29_SKIP_S"):      # developer switch for mutation experiments: S does not depend on /repo
        fams = []
    if tier == "thorough" and fams:
        fams += [("known", False, False), ("twotwo3", False, False), ("pairslt4", False, False), ("dup4", False, False), ("pairs4", False, False),
                 ("twoone3", False, False), ("three3", False, False), ("threer4", False, False)]
    out = {v: {"ok": [], "violated": [], "states": 0} for v, _ in VARIANTS}
    tasks = [(fam, v, sfx, cov) for fam, cov, live in fams for v, sfx in VARIANTS]
    par = 2 if tier == "quick" else 2
    def one(t):
        fam, v, sfx, cov = t
        d = os.path.join(wd, "S_%s_%s" % (fam, sfx)); os.makedirs(d, exist_ok=True)
        return t, model_check(d, fam, sfx, "12g", tlc_workers(par + 1), cov, 2600 if tier == "thorough" else 900)
    with cf.ThreadPoolExecutor(max_workers=par) as ex:
        results = list(ex.map(one, tasks))
    taken = {v: {} for v, _ in VARIANTS}
    for (fam, v, sfx, cov), r in results:
        tick("S %s/%s: %s distinct=%d" % (fam, v, "ok" if r["ok"] else r["violated"] or "error", r["distinct"]))
        if r["violated"]:
            conf, sched, states = parse_cex(r["out"])
            path = os.path.join(wd, "tlc_%s_%s.out" % (fam, sfx)); open(path, "w").write(r["out"])
            out[v]["violated"].append((fam, r["violated"], conf, sched, states, path))
        elif r["ok"]:
            out[v]["ok"].append((fam, r["distinct"], r["generated"]))
            res.add_tlc(r)
            out[v]["states"] += r["distinct"]
            if cov:
                c = tlc.coverage_counts(r["out"])
                for a in ACTIONS:
                    taken[v][a] = taken[v].get(a, 0) + c.get(a, (0, 0))[0]
        else:
            res.infra_errors.append("TLC failed on %s/%s: %s" % (fam, v, (r["error"] or "")[-600:]))
    for v, _ in VARIANTS:
        never = [a for a in ACTIONS if taken[v] and taken[v].get(a, 0) == 0]
        if never and not out[v]["violated"]:
            res.infra_errors.append("vacuity: actions of UnionFindImpl never taken (Variant=%s): %s" % (v, never))
    out["taken"] = taken
    return out

def run_abs(res, wd):
    r = tlc.run_tlc(os.path.join(SPEC, "MC_UnionFindAbs.tla"), os.path.join(SPEC, "MC_UnionFindAbs.cfg"), wd, timeout=600, workers=4)
    if r["ok"]:
        res.add_tlc(r); res.cov["abs_spec_states"] = r["distinct"]
    else:
        res.infra_errors.append("UnionFindAbs does not satisfy its own theorems: %s" % (r["violated"] or r["error"]))

# ------------------------------------------------------------------------------------------------ R: replay
NEEDED = ("block", "pc", "ip", "res")
def light_state(g, nid, conf=False, cache={}):
    """parse only the variables the comparison needs from a state label of the dumped graph"""
    key = (id(g), nid, conf)
    if key not in cache:
        lab = g.labels[nid].replace("\\n", "\n").replace('\\"', '"').replace("\\\\", "\\")
        out = {}
        for part in re.split(r"(?:^|\n)/\\ ", lab):
            name, _, val = part.strip().partition(" = ")
            if name in NEEDED or (conf and name == "conf"):
                out[name] = tlaval.parse(val)
        cache[key] = out
    return cache[key]

def same_state(st, line, nspec):
    """spec state vs driver line  S k t par rk pts ips res"""
    f = line.split(" ")
    par = f[3].split(","); rk = f[4].split(","); pts = f[5].split(","); ips = f[6].split(","); rs = f[7].split(",")
    bl = st["block"]
    for n in range(nspec):
        if int(par[n]) != bl[n]["p"] or int(rk[n]) != bl[n]["r"]:
            return False
    for t in range(len(pts)):
        if (pts[t] == "op") != (st["pc"][t] == "next") or pts[t] == "done":
            return False
        if int(ips[t]) != st["ip"][t] or rs[t] != st["res"][t]:
            return False
    return True

def dump_graph(wd, cfgfam, sfx):
    d = os.path.join(wd, "R_%s_%s" % (cfgfam, sfx)); os.makedirs(d, exist_ok=True)
    dot = os.path.join(d, "graph.dot")
    cache = os.environ.get("VERIF_C29_GRAPH_CACHE")     # developer switch (mutation experiments): the graphs depend on the spec only
    if cache and os.path.exists(os.path.join(cache, "%s_%s.dot" % (cfgfam, sfx))):
        return graphwalk.Graph(os.path.join(cache, "%s_%s.dot" % (cfgfam, sfx))), {"ok": True}
    r = tlc.run_tlc(os.path.join(SPEC, "MC_UnionFind_%s.tla" % cfgfam), os.path.join(SPEC, "MC_UnionFind_%s_%s.cfg" % (cfgfam, sfx)),
                    d, timeout=1500, workers=tlc_workers(4), heap="12g", extra=["-dump", "dot,actionlabels", dot])
    if not r["ok"]:
        return None, r
    return graphwalk.Graph(dot), r

def replay_variant(res, wd, drv, fam, v, sfx, max_walks, dumped):
    """returns (executions, drift count, walks, steps compared, first drift descriptions)"""
    g, r = dumped.result()
    tick("R %s: graph dumped" % v)
    if g is None:
        res.infra_errors.append("graph dump failed for %s/%s: %s" % (fam, v, r["violated"] or r["error"]))
        return [], None, 0, 0, []
    walks = g.covering_walks()
    if max_walks and len(walks) > max_walks:
        walks = random.Random(seed() * 7 + len(v)).sample(walks, max_walks)
    jobs = [conf_job(light_state(g, init, True)["conf"], ",".join(g.edges[i][3] for i in w), verbose=True) for init, w in walks]
    tick("R %s: %d walks" % (v, len(jobs)))
    execs = run_driver(drv, jobs)
    tick("R %s: driver done" % v)
    drift = 0; steps = 0; first = []
    nspec = len(light_state(g, walks[0][0])["block"]) if walks else 0
    for e in execs:
        init, w = walks[e["job"]]
        states = [init] + [g.edges[i][1] for i in w]
        bad = None
        if e["crash"] or e["livelock"]:
            bad = e["crash"] or "livelock"
        for k, sid in enumerate(states):
            if bad:
                break
            if k >= len(e["S"]):
                bad = "step %d: %s" % (k, e["err"] or "no such step on the real object"); break
            steps += 1
            if not same_state(light_state(g, sid), e["S"][k], nspec):
                s = light_state(g, sid)
                bad = "step %d: real object `%s` vs spec block=%s pc=%s ip=%s res=%s" % (k, e["S"][k], s["block"], s["pc"], s["ip"], s["res"])
        if bad:
            drift += 1
            if len(first) < 2:
                first.append("%s: %s" % (jobs[e["job"]], bad))
    res.cov["graph_states_" + v] = len(g.labels); res.cov["graph_edges_" + v] = len(g.edges)
    return execs, drift, len(walks), steps, first

# ------------------------------------------------------------------------------------------------ T: trace validation
def validate_histories(res, wd, execs, batch_events=25000, cap=None):
    """TLC judges every distinct history; returns {exec index: rejection record}"""
    uniq = {}
    for i, e in enumerate(execs):
        if e["V"] and not e["crash"]:
            uniq.setdefault("\n".join(e["V"]), []).append(i)
    hists = list(uniq.items())
    if cap and len(hists) > cap:
        # keep every history of a counterexample / reproduction / replayed walk, then the systematic (DFS) ones, then sample the random ones
        def prio(h):
            src = {execs[i].get("src", "") for i in h[1]}
            return 0 if any(not x.startswith(("random", "dfs")) for x in src) else 1 if "dfs" in src else 2
        rnd = random.Random(seed() * 13 + 5)
        order = sorted(hists, key=lambda h: (prio(h), rnd.random()))
        hists = order[:cap]
        res.cov["distinct_histories_not_validated"] = len(uniq) - len(hists)
    batches = []; cur = []; cur_ids = []
    for uid, (txt, idx) in enumerate(hists):
        cur.append(["reset", uid])
        cur += [parse_event(l) for l in txt.split("\n")]
        cur_ids.append(uid)
        if len(cur) >= batch_events:
            batches.append((cur + [["end"]], cur_ids)); cur = []; cur_ids = []
    if cur:
        batches.append((cur + [["end"]], cur_ids))
    def one(b):
        k, (events, ids) = b
        return tracecheck.validate("UnionFindAbsTrace", events, wd, "MCT_UF_%d" % k, constants=TRACE_CONST, heap="3g", timeout=1500)
    tick("T: %d distinct histories of %d executions, %d batches" % (len(hists), len(execs), len(batches)))
    with cf.ThreadPoolExecutor(max_workers=max(2, min(6, NCPU // 2))) as ex:
        outs = list(ex.map(one, enumerate(batches)))
    rejected = {}
    nev = 0
    res.count("executions_validated", sum(len(h[1]) for h in hists))
    for (events, ids), (acc, consumed, r) in zip(batches, outs):
        nev += len(events)
        recs = list({(j["job"], j["at"]): j for j in r["json"] if isinstance(j, dict) and "job" in j}.values())
        done = [j for j in r["json"] if isinstance(j, dict) and "done" in j]
        if not acc or not done or done[0]["done"] != len(recs):
            res.infra_errors.append("trace validation did not run to the end: %s" % ((r["error"] or str(r["violated"]))[-600:]))
            continue
        res.add_tlc(r)
        for x in recs:
            for i in uniq[hists[x["job"]][0]]:
                rejected[i] = x
        # position of the rejected event inside its history
        pos = {}
        for k, ev in enumerate(events):
            if ev[0] == "reset":
                pos[ev[1]] = k
        for x in recs:
            x["index"] = x["at"] - 1 - pos[x["job"]] - 1      # 0-based index into the history's V lines
    res.count("trace_events", nev); res.count("distinct_histories", len(hists))
    return rejected

def describe(e, rec):
    k = rec.get("index", 0)
    ev = e["V"][k] if 0 <= k < len(e["V"]) else "?"
    return "history of the real DisjointSet rejected by spec/UnionFindAbs.tla at event %d `%s` (%s); job `%s`; preceding events %s" % (
        k + 1, ev, rec["why"], explicit(e), e["V"][max(0, k - 8):k])

def _save(wd, name, lines):
    path = os.path.join(wd, name + ".txt")
    with open(path, "w") as f:
        f.write("\n".join(lines) + "\n")
    return path

def judge(res, wd, drv, execs, kf, label, cap=None):
    """validate the executions' histories; classify rejections; returns (known-finding hits, violations, rejections)"""
    rejected = validate_histories(res, wd, execs, cap=cap)
    nk = 0; nv = 0
    for i, e in enumerate(execs):
        bad = None
        if e["crash"]:
            bad = "the real DisjointSet crashed the driver: %s; job `%s`" % (e["crash"], e["line"])
        elif e["livelock"] and i not in rejected:
            bad = "an operation of the real DisjointSet never returned (100000 scheduler rounds, every thread scheduled); job `%s`" % e["line"]
        elif i in rejected:
            rec = rejected[i]
            if rec["why"] == "cycle" and rec["sig"] and known.is_listed(kf, PID, FID):
                nk += 1
                if nk == 1:
                    res.known.append(known.describe(kf, PID, FID))
                    res.sample({"known finding reproduced on the real object (%s)" % label: explicit(e),
                                "rejected at": e["V"][rec["index"]] if 0 <= rec["index"] < len(e["V"]) else "?"})
                continue
            bad = describe(e, rec) + (" [signature of %s, which known_findings.json does not list]" % FID if rec["why"] == "cycle" and rec["sig"] else "")
        if bad:
            nv += 1
            if nv <= 5:
                path = _save(wd, "rejected_%s_%d" % (label, i), [explicit(e) if e["X"] and e["X"] != "-" else e["line"]])
                # re-run once from the replay file: only a repeated failure is reported
                again = run_driver(drv, [l.strip() for l in open(path) if l.strip()], procs=1)
                if e["crash"] or e["livelock"] or (again and any(a["V"] == e["V"] for a in again)):
                    res.violations.append((bad, path))
                else:
                    res.infra_errors.append("rejected history not reproduced from its replay file %s" % path)
    res.cov["traces_validated_against_impl"] += res.cov.get("executions_validated", 0)
    res.count("known_finding_hits", nk)
    return nk, nv, rejected

# ------------------------------------------------------------------------------------------------ entry
def replay_file(drv, path, wd):
    jobs = [l.strip() for l in open(path) if l.strip() and not l.startswith("#")]
    execs = run_driver(drv, [j if j.endswith(" v") else j + " v" for j in jobs], procs=1)
    res = Result(PID, "replay")
    rejected = validate_histories(res, wd, execs)
    for i, e in enumerate(execs):
        print("\n".join(["JOB " + e["line"]] + e["S"] + e["V"] + ["X " + str(e["X"])]))
        if e["crash"] or e["livelock"]:
            print("REJECTED: " + (e["crash"] or "livelock"))
        elif i in rejected:
            print("REJECTED by spec/UnionFindAbs.tla: " + describe(e, rejected[i]) + ("  [signature %s]" % FID if rejected[i]["sig"] else ""))
        else:
            print("ACCEPTED by spec/UnionFindAbs.tla")
    for x in res.infra_errors:
        print("INFRA-ERROR: " + x)
    return 1 if (rejected or any(e["crash"] or e["livelock"] for e in execs)) else 0

def run(tier, replay_path=None):
    res = Result(PID, tier)
    wd = workdir(PID)
    drv = build.harness_cxx(os.path.join(HARNESS, "ufdrv.cpp"), os.path.join(BUILD, "harness", "ufdrv"))
    if replay_path:
        return replay_file(drv, replay_path, wd)
    kf = known.load()
    quick = tier == "quick"
    # S and R/T are independent: model-check in the background while the real object is exercised
    pool = cf.ThreadPoolExecutor(max_workers=6)
    fam = "replayq" if quick else "replayt"
    dumps = {v: pool.submit(dump_graph, wd, fam, sfx) for v, sfx in VARIANTS}
    fut_S = pool.submit(run_S, res, wd, tier)
    fut_abs = pool.submit(run_abs, res, wd)
    # real executions that need no spec: reproduction of the finding, seeded random, bounded DFS
    extra = []
    rep = os.path.join(FINDING_DIR, "job.txt")
    if os.path.exists(rep):
        extra += [(l.strip(), "finding") for l in open(rep) if l.strip() and not l.startswith("#")]
    rng = random.Random(seed() * 1000003 + 29)
    extra += [(j, "random") for j in random_jobs(rng, 4000 if quick else 60000)]
    extra += [(j, "dfs") for j in dfs_jobs(tier)]
    random.Random(seed() + 17).shuffle(extra)       # spread the expensive (exhaustive DFS) jobs over the driver processes
    fut_extra = pool.submit(run_driver, drv, [j for j, _ in extra])
    # R: which variant does the real object follow?
    all_execs = []; conform = {}; labels = []
    for v, sfx in VARIANTS:
        execs, drift, nwalks, steps, first = replay_variant(res, wd, drv, fam, v, sfx, None if quick else 60000, dumps[v])
        tick("R %s: %d walks, %d drift, %d steps" % (v, nwalks, drift or 0, steps))
        conform[v] = drift == 0 and nwalks > 0
        res.count("walks_replayed_" + v, nwalks); res.count("steps_compared_" + v, steps); res.count("drift_walks_" + v, drift or 0)
        for e in execs:
            e["src"] = "walk/" + v
        all_execs += execs
        labels.append((v, drift, nwalks, first))
    follows = [v for v, _ in VARIANTS if conform[v]]
    res.cov["repo_follows_variant"] = follows
    if len(follows) == 1:
        print("CONFORMANCE property=C29 the real DisjointSet follows spec/UnionFindImpl.tla Variant=\"%s\" step for step (%d walks); "
              "it deviates from the other variant on %d of %d walks" % (follows[0], [l[2] for l in labels if l[0] == follows[0]][0],
              [l[1] for l in labels if l[0] != follows[0]][0], [l[2] for l in labels if l[0] != follows[0]][0]), flush=True)
    elif not follows:
        for v, drift, nwalks, first in labels:
            for d in first[:1]:
                print("MODEL-DRIFT property=C29 real DisjointSet deviates from spec/UnionFindImpl.tla (Variant=%s) on %d of %d walks, e.g. %s"
                      % (v, drift, nwalks, d), flush=True)
    else:
        res.infra_errors.append("the replay space does not discriminate the two variants of UnionFindImpl")
    ex2 = fut_extra.result()
    tick("driver done: %d random executions + distinct histories of %d DFS schedules" % (len(ex2), run_driver.dfs_total))
    for e in ex2:
        e["src"] = extra[e["job"]][1]
    all_execs += ex2
    res.count("random_schedules", sum(1 for e in ex2 if e["src"] == "random"))
    res.count("dfs_schedules_explored", run_driver.dfs_total)
    res.count("dfs_distinct_histories", sum(1 for e in ex2 if e["src"] == "dfs"))
    # S results; counterexamples of either variant become schedules for the real object
    S = fut_S.result(); fut_abs.result(); pool.shutdown()
    tick("S done")
    cex_jobs = []
    for v, _ in VARIANTS:
        for fam_, what, conf, sched, states, path in S[v]["violated"]:
            print("SPEC property=C29 TLC: %s violated by spec/UnionFindImpl.tla Variant=\"%s\" in family %s (%d steps: set-up %s, programs %s) - "
                  "replayed on the real object%s" % (what, v, fam_, len(sched), prog_txt(conf["setup"]) if conf else "?",
                  ";".join(prog_txt(p) for p in conf["prog"]) if conf else "?", "" if v in follows else " (not the variant /repo follows)"), flush=True)
            if conf:
                cex_jobs.append((conf_job(conf, ",".join(str(t) for t in sched)), v, fam_, what, path))
    ex3 = run_driver(drv, [c[0] for c in cex_jobs], procs=1)
    for e in ex3:
        e["src"] = "cex/" + cex_jobs[e["job"]][1]
    all_execs += ex3
    res.cov["spec_results"] = {v: {"families_clean": [f[0] for f in S[v]["ok"]], "violated": [(f[0], f[1]) for f in S[v]["violated"]],
                                   "distinct_states": S[v]["states"]} for v, _ in VARIANTS}
    # T: the verdict
    nk, nv, rejected = judge(res, wd, drv, all_execs, kf, "t", cap=4000 if quick else 100000)
    tick("T done: %d executions, %d known-finding hits, %d violations" % (len(all_execs), nk, nv))
    # a counterexample of the variant the code follows must be reproduced by the code (else the spec misrepresents it)
    base = len(all_execs) - len(ex3)
    for k, e in enumerate(ex3):
        c = cex_jobs[e["job"]]
        if c[1] in follows and not e["err"]:
            res.sample({"TLC counterexample of the variant /repo follows": c[0], "spec invariant": c[3], "tlc trace": c[4],
                        "real object": "history rejected" if base + k in rejected else "history accepted"})
            if base + k not in rejected and c[3] in ("Acyclic", "FinalPartition"):
                res.infra_errors.append("spec-only failure: TLC finds %s violated by the variant the real object follows, but the real object's "
                                        "history under that schedule is accepted (job `%s`)" % (c[3], c[0]))
    if all_execs:
        ok = [e for e in all_execs if e["src"] == "random" and e["V"]]
        if ok:
            res.sample({"random schedule": ok[len(ok) // 2]["line"], "executed": ok[len(ok) // 2]["X"], "history": ok[len(ok) // 2]["V"]})
        wk = [e for e in all_execs if e["src"].startswith("walk") and e["S"]]
        if wk:
            e = wk[len(wk) // 2]
            res.sample({"replayed walk": e["line"], "steps (k t parents ranks yield-points ip results)": e["S"][:40]})
        df = [e for e in all_execs if e["src"] == "dfs"]
        if df:
            res.sample({"bounded-DFS job": df[len(df) // 2]["line"], "one enumerated schedule": df[len(df) // 2]["X"]})
    level_assumptions = [
        "the cooperative scheduler serialises threads at DisjointSet::get (every atomic access): sequentially consistent interleavings "
        "of the atomic accesses are explored, weaker C++ memory-model effects are not",
        "bounds: <= 4 nodes, 2-3 threads, <= 3 operations per thread, sequential set-ups of <= 2 (random: <= 3) unions",
        "find(a) is required to return a member of a's class (the property text only constrains union and sameSet)"]
    return finish(res, "model_checking", assumptions=level_assumptions)
