"""C06 - RAM-level optimisations preserve results: each RAM transformer skipped singly and in random subsets (hook H4)."""
from .. import gen, evalprop

PASSES = ["ExpandFilterTransformer", "HoistConditionsTransformer", "MakeIndexTransformer", "IfConversionTransformer",
          "IfExistsConversionTransformer", "CollapseFiltersTransformer", "TupleIdTransformer", "HoistAggregateTransformer",
          "EliminateDuplicatesTransformer", "ReorderConditionsTransformer", "ReorderFilterBreak", "ParallelTransformer"]

def configs(P, rng):
    cs = [{"name": "all RAM passes", "args": ["-j4"]}]
    for p in PASSES:
        cs.append({"name": "skip " + p, "args": ["-j4"], "env": {"SOUFFLE_VERIF_SKIP_RAM": p}, "skipped": [p]})
    for _ in range(3):
        sub = sorted(rng.sample(PASSES, rng.randint(2, 6)))
        cs.append({"name": "skip " + ",".join(sub), "args": ["-j4"], "env": {"SOUFFLE_VERIF_SKIP_RAM": ",".join(sub)}, "skipped": sub})
    if rng.random() < 0.2:
        p = rng.choice(PASSES)
        cs.append({"name": "compiled, skip " + p, "args": ["-j4"], "compile": True, "compile_env": {"SOUFFLE_VERIF_SKIP_RAM": p}, "skipped": [p]})
    return cs

def known_sig(desc, P, case, cfg, o):
    if "TupleIdTransformer" in cfg.get("skipped", []) and o is not None and (
            o.kind in ("signal", "assert") or "Segmentation violation signal" in (o.stderr or "") + (o.stdout or "")):
        return "skip-TupleId-crashes-after-HoistAggregate"
    return None

def post(res, Ps, cases, wd):
    """A: the optimised RAM produced with each single pass skipped is executed by spec/Ram.tla on every EDB case
    (translation validation of each pass in isolation); T: the interpreter's traces on those RAM programs."""
    import random, concurrent.futures as cf
    from .. import ramcheck
    from ..common import seed
    sup = [i for i, P in enumerate(Ps) if cases[i] and not P.get("types")][: (3 if res.tier == "quick" else 20)]
    jobs = [(i, p) for i in sup for p in [None] + PASSES]
    def one(job):
        i, p = job
        env = {"SOUFFLE_VERIF_SKIP_RAM": p} if p else None
        usable = cases[i] if len(cases[i]) <= 32 else random.Random(seed() + i).sample(cases[i], 32)
        return ramcheck.check(Ps[i], usable, wd, "ram_p%d" % i, res, "C06", args=("-j4",), env=env, n_traces=2,
                              rng=random.Random(seed() * 5 + i), tag="skip_" + (p or "none"))
    with cf.ThreadPoolExecutor(6) as ex:
        sts = list(ex.map(one, jobs))
    res.cov["ram_variants_model_checked"] = sum(1 for s in sts if s["status"] == "ok")
    res.cov["ram_variant_status"] = {k: sum(1 for s in sts if s["status"] == k) for k in set(s["status"] for s in sts)}

def run(tier, replay=None):
    return evalprop.run_eval("C06", tier, lambda s, n: gen.programs(s, n), configs,
                             ["each pass skipped singly plus 3 seeded subsets per program; compiled mode sampled",
                              "RAM-level validation (spec/Ram.tla) covers the programs without record/ADT types"],
                             n=(10, 120), max_cases=(8, 32), known_sig=known_sig, post=post)
