"""C06 - RAM-level optimisations preserve results: each RAM transformer skipped singly and in random subsets (hook H4)."""
from .. import gen, evalprop

PASSES = ["ExpandFilterTransformer", "HoistConditionsTransformer", "MakeIndexTransformer", "IfConversionTransformer",
          "IfExistsConversionTransformer", "CollapseFiltersTransformer", "TupleIdTransformer", "HoistAggregateTransformer",
          "EliminateDuplicatesTransformer", "ReorderConditionsTransformer", "ReorderFilterBreak", "ParallelTransformer"]

def configs(P, rng):
    cs = [{"name": "all RAM passes", "args": ["-j4"]}]
    for p in PASSES:
        cs.append({"name": "skip " + p, "args": ["-j4"], "env": {"SOUFFLE_VERIF_SKIP_RAM": p}, "skipped": [p]})
    for _ in range(3):
        sub = sorted(rng.sample(PASSES, rng.randint(2, 6)))
        cs.append({"name": "skip " + ",".join(sub), "args": ["-j4"], "env": {"SOUFFLE_VERIF_SKIP_RAM": ",".join(sub)}, "skipped": sub})
    if rng.random() < 0.2:
        p = rng.choice(PASSES)
        cs.append({"name": "compiled, skip " + p, "args": ["-j4"], "compile": True, "compile_env": {"SOUFFLE_VERIF_SKIP_RAM": p}, "skipped": [p]})
    return cs

def known_sig(desc, P, case, cfg, o):
    if "TupleIdTransformer" in cfg.get("skipped", []) and o is not None and o.kind in ("signal", "assert"):
        return "skip-TupleId-crashes-after-HoistAggregate"
    return None

def run(tier, replay=None):
    return evalprop.run_eval("C06", tier, lambda s, n: gen.programs(s, n), configs,
                             ["each pass skipped singly plus 3 seeded subsets per program; compiled mode sampled"],
                             n=(10, 120), max_cases=(8, 32), known_sig=known_sig)
