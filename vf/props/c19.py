"""C19 - provenance: `-t explain` leaves the output relations unchanged, every output tuple is explained by a valid
proof tree, an absent tuple is reported not found.  Interpreter and (for a sample of programs) compiled.

  EVAL    TLC computes Model(P, EDB) (spec/Datalog.tla, MC_Datalog); the real souffle is run without provenance and
          with `-t explain` (interpreter; compiled for a sample): outputs must equal the model.
  PROOFS  for a few EDBs per program an explain session is scripted through stdin (`format json`, a huge `setdepth`,
          one `explain r(v..)` per output tuple and per sampled absent tuple).  The answers, the cited rules (parsed
          from the text souffle prints with every answer - vf/explain.py, syntax only) and the program go into a
          generated data module; TLC evaluates Provenance!QueryVerdict (spec/Provenance.tla via spec/JudgeProof.tla)
          on every question: VALID / SYMORD / INVALID / UNEXPLAINED for a tuple of the model, ABSENT-OK /
          ABSENT-EXPLAINED for a tuple outside it; plus CitedSound (every cited rule is satisfied by the model).

Fragment (decided by experiment on this version): positive and negated atoms, binary constraints, intrinsic functors on
number and symbol, facts, recursion, mutual recursion, disjunction, multiple heads, eqrel, nullary relations.
Left out: aggregates (their result is shown as an unexplained leaf `__agg_single(v)`), `range` generators (shown as the
constraint `v = v`), records and ADTs (`explain` cannot read or print them: "record #n" / fatal)."""
import copy, json, os, random, shutil, concurrent.futures as cf
from .. import gen, evalcore, build, render, known, tlc, explain as ex, souffle as sf
from ..common import workdir, seed, Result, NCPU, SPEC, write_data, log
from ..common import run as sh
import time
from ..evidence import finish

FEATURES = ["neg", "arith", "str", "recursion", "mutual", "disj", "multihead", "facts", "nullary", "cmp", "bits"]
EXTRA = {"i": [3], "s": ["ab"]}          # values outside the EDB domain used for absent tuples

def witness_programs(rng, k, tag):
    """Programs in which the choice of the witnesses matters: several body instantiations derive the same head tuple and
    the constraints / negations (over existential variables) rule some of them out - an explanation built from a
    wrong witness is an invalid tree.  Same JSON format as vf/gen.py; the EDBs are a seeded list of dense inputs."""
    V, N, S = gen.V, gen.N, gen.S
    out = []
    for n in range(k):
        c = lambda: N(rng.choice([0, 1, 2]))
        op = lambda: rng.choice(["NE", "GE", "LE", "LT", "GT", "NE"])
        atom = lambda r, *a: {"k": "atom", "rel": r, "args": list(a)}
        cmp_ = lambda o, l, r: {"k": "cmp", "op": o, "l": l, "r": r}
        rels = [{"name": "in0", "arity": 2, "types": ["i", "i"], "input": True, "output": False, "eqrel": False},
                {"name": "in1", "arity": 1, "types": ["s"], "input": True, "output": False, "eqrel": False},
                {"name": "r0", "arity": 1, "types": ["i"], "input": False, "output": True, "eqrel": False},
                {"name": "r1", "arity": 2, "types": ["i", "i"], "input": False, "output": True, "eqrel": False},
                {"name": "r2", "arity": 2, "types": ["s", "s"], "input": False, "output": True, "eqrel": False}]
        x, y, z, u = V("x"), V("y"), V("z"), V("u")
        clauses = [
            {"head": {"rel": "r0", "args": [x]}, "body": [atom("in0", x, y), cmp_(op(), y, c()), cmp_(op(), y, x)]},
            {"head": {"rel": "r0", "args": [gen.F("ADD", x, N(1))]},
             "body": [atom("in0", x, y), atom("in0", y, z), cmp_("NE", z, x), cmp_(op(), gen.F("ADD", y, z), c())]},
            {"head": {"rel": "r1", "args": [x, z]},
             "body": [atom("r0", x), atom("in0", y, z), cmp_(op(), y, x), {"k": "neg", "rel": "in0", "args": [z, y]},
                      cmp_(op(), gen.F("MUL", y, N(2)), z)]},
            {"head": {"rel": "r1", "args": [x, z]},
             "body": [atom("r1", x, y), atom("in0", u, z), atom("r1", u, y), cmp_("NE", z, x), cmp_(op(), u, y)]},
            {"head": {"rel": "r2", "args": [V("s"), V("t")]},
             "body": [atom("in1", V("s")), atom("in1", V("t")), cmp_(rng.choice(["SLT", "NE", "SGE"]), V("s"), V("t"))]}]
        dom = copy.deepcopy(gen.DOM)
        tup = [[a, b] for a in dom["i"] for b in dom["i"]]
        edbs = [{"in0": tup, "in1": [[v] for v in dom["s"]]}]
        for _ in range(7):
            dens = rng.choice([0.5, 0.7, 0.85])
            edbs.append({"in0": [t for t in tup if rng.random() < dens], "in1": [[v] for v in dom["s"] if rng.random() < 0.8]})
        P = {"id": "%s_w%d" % (tag, n), "types": [], "rels": rels, "clauses": clauses, "dom": dom,
             "strata": [["in0"], ["in1"], ["r0"], ["r1"], ["r2"]], "edbs": {"mode": "list", "list": edbs},
             "hidden": [], "features": ["witness", "recursion", "neg", "cmp-i", "cmp-s"]}
        P["src_clauses"] = P["clauses"]
        out.append(P)
    return out

def reltypes(P):
    return {r["name"]: list(r["types"]) for r in P["rels"]}

def pick_cases(cs, k, rng):
    """the EDB with the largest model plus a seeded sample of the other non-trivial ones"""
    usable = [c for c in cs if not c["oob"]]
    size = lambda c: sum(len(v) for v in c["model"].values())
    nontriv = sorted([c for c in usable if size(c) > 0], key=size, reverse=True)
    if not nontriv:
        return usable[:1]
    rest = nontriv[1:]
    return [nontriv[0]] + (rng.sample(rest, min(k - 1, len(rest))) if rest else [])

def make_queries(P, case, cap_present, n_absent, rng):
    out = [r for r in P["rels"] if r.get("output")]
    present = [(r["name"], t) for r in out for t in case["model"][r["name"]]]
    if len(present) > cap_present:
        present = rng.sample(present, cap_present)
    absent = []
    for r in out:
        cols = [list(P["dom"][t]) + EXTRA.get(t, []) for t in r["types"]]
        have = set(json.dumps(t) for t in case["full"][r["name"]])
        for _ in range(n_absent * 4):
            if len([a for a in absent if a[0] == r["name"]]) >= n_absent:
                break
            t = [rng.choice(c) for c in cols]
            if json.dumps(t) not in have and (r["name"], t) not in absent:
                absent.append((r["name"], t))
    return present + absent

def known_sig(q, verdict):
    """signature of the recorded findings (known_findings.json); None = not one of them"""
    rel, args, ans = q["rel"], q["args"], q["ans"]
    if verdict == "SYMORD":
        return "symbol-constraint-shown-as-ordinals"
    if verdict == "UNEXPLAINED" and ans["k"] == "relnotfound":
        if not args:
            return "nullary-tuple-not-explainable"
        if any(isinstance(v, int) and v < 0 for v in args):
            return "negative-number-not-accepted-by-explain"
    return None

def run(tier, replay=None):
    res = Result("C19", tier)
    build.ensure_souffle()
    wd = workdir("C19")
    quick = tier == "quick"
    rng = random.Random(seed() * 7919 + 19)
    n = 14 if quick else 60
    n_compiled = int(os.environ.get("VERIF_C19_COMPILED", 2 if quick else 8))     # scratch experiments may set 0
    edb_per_prog = 3 if quick else 8
    cap_present = 30 if quick else 150
    # the EDB space is enumerated exhaustively only when small: this property is about the proofs, C01 is about all EDBs
    Ps = gen.programs(seed() * 1000 + 19, n, features=FEATURES, eqrel=True, n_idb=(2, 4),
                      max_edbs=(32 if quick else 512), edb_sample=(12 if quick else 24))
    Ps += witness_programs(random.Random(seed() * 4409 + 19), 3 if quick else 12, "s%d" % (seed() * 1000 + 19))
    cases = evalcore.tlc_models(Ps, wd, res)
    log("C19: models %.0fs" % (time.time() - res.t0))
    kf = known.load()
    pool = cf.ThreadPoolExecutor(NCPU)

    # ---- compile a sample with provenance (slow: ~90 s each, started first, in parallel) -----------------------
    texts = {}
    for i, P in enumerate(Ps):
        d = os.path.join(wd, "p%d" % i); os.makedirs(d, exist_ok=True)
        texts[i] = os.path.join(d, "p.dl")
        with open(texts[i], "w") as f:
            f.write(render.program(P))
    recursive = [i for i, P in enumerate(Ps) if cases[i] and "recursion" in P.get("features", [])]
    others = [i for i in range(len(Ps)) if cases[i] and i not in recursive]
    comp_idx = (recursive + others)[:n_compiled]
    def compile_one(i):
        exe = os.path.join(wd, "p%d" % i, "explain.exe")
        rc, so, se = sh([build.SOUFFLE, "-t", "explain", "-o", exe, texts[i]], timeout=1200)
        return i, (exe if rc == 0 and os.path.exists(exe) else None), rc, se
    comp_futs = [pool.submit(compile_one, i) for i in comp_idx]

    # ---- EVAL: outputs without provenance and with -t explain equal the model (interpreter) -------------------
    configs = [{"name": "interpreter, no provenance", "args": ["-j1"], "timeout": 300},
               {"name": "interpreter -t explain", "args": ["-t", "explain"], "timeout": 300}]
    runs = 0
    def eval_one(i):
        if not cases[i]:
            return 0
        return evalcore.run_configs(Ps[i], cases[i], configs, wd, res, "C19", "p%d" % i,
                                    max_cases=(10 if quick else 48), rng=random.Random(seed() * 1299709 + i), pool=pool)
    with cf.ThreadPoolExecutor(4) as outer:
        runs = sum(outer.map(eval_one, range(len(Ps))))

    log("C19: eval %.0fs" % (time.time() - res.t0))
    # ---- PROOFS: explain sessions ------------------------------------------------------------------------------------
    jobs = []      # (program index, case, queries, mode)
    for i, P in enumerate(Ps):
        if not cases[i]:
            continue
        r2 = random.Random(seed() * 31337 + i)
        chosen = pick_cases(cases[i], edb_per_prog, r2)
        per_case = max(4, cap_present // max(1, len(chosen)))
        for ci, c in enumerate(chosen):
            qs = make_queries(P, c, per_case, 2 if quick else 4, r2)
            if qs:
                jobs.append({"i": i, "ci": ci, "case": c, "qs": qs, "mode": "interpreter"})
    exes = {}
    for f in comp_futs:
        i, exe, rc, se = f.result()
        if exe is None:
            if not evalcore.known_crash(res, "C19", se):
                res.violations.append(("compiling %s with -t explain failed rc=%s: %s" % (Ps[i]["id"], rc, se[-600:]), texts[i]))
            continue
        exes[i] = exe
    for j in list(jobs):
        if j["i"] in exes:
            jobs.append(dict(j, mode="compiled"))

    def session_one(j):
        i = j["i"]; P = Ps[i]
        d = os.path.join(wd, "p%d" % i, "x%d_%s" % (j["ci"], j["mode"]))
        facts = os.path.join(d, "facts"); out = os.path.join(d, "out")
        render.write_facts(P, j["case"]["edb"], facts); os.makedirs(out, exist_ok=True)
        cmd = ([build.SOUFFLE, "-t", "explain", "-F", facts, "-D", out, texts[i]] if j["mode"] == "interpreter"
               else [exes[i], "-F", facts, "-D", out])
        answers, rc, err, script = ex.session(cmd, j["qs"], timeout=300)
        if rc == -999:       # a loaded machine is not a hang: one more, much longer, attempt
            answers, rc, err, script = ex.session(cmd, j["qs"], timeout=1200)
        with open(os.path.join(d, "script.txt"), "w") as f:
            f.write(script)
        with open(os.path.join(d, "answers.json"), "w") as f:
            json.dump(answers, f, indent=1)
        o = sf.Outcome(); o.rc = rc; o.stderr = err; o.kind = sf.classify(rc, err)
        if o.kind == "ok":
            try:
                sf.collect(P, out, o)
            except render.ParseError as e:
                o.kind = "unparsable-output"; o.stderr += "\n" + str(e)
        return d, cmd, answers, o
    outs = list(pool.map(session_one, jobs))
    log("C19: sessions %.0fs" % (time.time() - res.t0))
    pool.shutdown()

    jcases = []; jmeta = []; used = {}; left_out = {}
    def replay_file(d, j, cmd, extra):
        p = os.path.join(d, "replay.json")
        json.dump(dict({"property": "C19", "program": Ps[j["i"]]["id"], "dl": texts[j["i"]], "mode": j["mode"], "cmd": cmd,
                        "stdin": os.path.join(d, "script.txt"), "edb": j["case"]["edb"]}, **extra), open(p, "w"), indent=1, default=str)
        return p
    for j, (d, cmd, answers, o) in zip(jobs, outs):
        i = j["i"]; P = Ps[i]; rt = reltypes(P)
        if evalcore.known_crash(res, "C19", o.stderr):
            continue
        if o.kind != "ok":
            res.violations.append(("[%s] the explain session did not end normally (%s, rc=%s) after answering %d of %d questions "
                                   "(a crash / hang here is what a circular justification looks like): %s  program=%s"
                                   % (j["mode"], o.kind, o.rc, len(answers), len(j["qs"]), o.stderr[-300:], P["id"]),
                                   replay_file(d, j, cmd, {"desc": "session " + o.kind, "answers": len(answers)})))
            continue
        diff = evalcore.compare(P, j["case"], o)
        runs += 1
        if diff is not None:
            res.violations.append(("[%s -t explain] %s  program=%s" % (j["mode"], diff, P["id"]),
                                   replay_file(d, j, cmd, {"desc": diff, "expected": j["case"]["model"], "got": o.outputs})))
            continue
        if len(answers) != len(j["qs"]):
            res.violations.append(("[%s] explain session answered %d of %d questions (rc=%s): %s  program=%s"
                                   % (j["mode"], len(answers), len(j["qs"]), o.rc, o.stderr[-300:], P["id"]),
                                   replay_file(d, j, cmd, {"desc": "session died", "answers": len(answers)})))
            continue
        try:
            rules = ex.parse_rules(answers[0].get("rules", []), rt)
        except ex.Unsupported as e:
            left_out[P["id"]] = str(e)[:200]
            continue
        qs = [{"rel": r, "args": a, "ans": ex.answer_value(ans.get("proof", {}), rt)} for (r, a), ans in zip(j["qs"], answers)]
        if i not in used:
            used[i] = len(used) + 1
        jcases.append({"p": used[i], "edb": j["case"]["edb"], "full": j["case"]["full"],
                       "rules": [{"rel": r["rel"], "n": r["n"], "c": r["c"]} for r in rules], "qs": qs})
        jmeta.append((j, d, cmd, answers, rules))
    if left_out:
        res.cov["programs_left_out_cited_rule_outside_fragment"] = left_out

    # ---- TLC judges every answer -----------------------------------------------------------------------------------
    verdicts = judge_proofs(jcases, [Ps[i] for i, _ in sorted(used.items(), key=lambda kv: kv[1])], wd, res)
    log("C19: judged %.0fs" % (time.time() - res.t0))
    stats = {}
    sample_done = 0
    for ci, ((j, d, cmd, answers, rules), jc) in enumerate(zip(jmeta, jcases)):
        v = verdicts.get(ci + 1)
        P = Ps[j["i"]]
        if v is None:
            continue
        if v["model"] is False:
            res.infra_errors.append("Provenance!ModelOf differs from the MC_Datalog model for %s" % P["id"])
        if v["rules"] is False:
            res.violations.append(("[%s] a cited rule is not satisfied by the program's model: %s  program=%s"
                                   % (j["mode"], [r["text"] for r in rules], P["id"]),
                                   replay_file(d, j, cmd, {"desc": "cited rule unsound", "rules": [r["text"] for r in rules]})))
        bad = False
        for qi, q in enumerate(jc["qs"]):
            verdict, size = v["q"].get(qi + 1, ("?", 0))
            stats[verdict] = stats.get(verdict, 0) + 1
            if verdict == "?":
                res.infra_errors.append("JudgeProof printed no verdict for question %d of case %d" % (qi + 1, ci + 1)); continue
            if verdict == "VALID":
                res.cov["traces_validated_against_impl"] += 1
                res.count("proof_nodes_judged", size)
                if j["mode"] == "compiled":
                    res.count("proofs_valid_compiled")
                if sample_done < 3 and size >= 6:
                    sample_done += 1
                    res.sample({"program": render.program(P)[:1500], "mode": j["mode"], "edb": j["case"]["edb"],
                                "query": ex.query_text(q["rel"], q["args"]), "proof": answers[qi]["proof"],
                                "cited_rules": [(r["rel"], r["n"], r["text"]) for r in rules], "verdict": verdict})
                continue
            if verdict == "ABSENT-OK":
                res.count("absent_tuples_reported_not_found")
                continue
            fid = known_sig(q, verdict)
            if fid and known.is_listed(kf, "C19", fid):
                msg = known.describe(kf, "C19", fid)
                if msg not in res.known:
                    res.known.append(msg)
                res.count("known_finding_hits")
                if verdict == "SYMORD":       # valid apart from the display of the symbol constraint
                    res.count("proofs_valid_modulo_symbol_display")
                continue
            bad = True
            desc = {"INVALID": "the explanation is not a valid proof tree (Provenance!ValidTree is false)",
                    "SYMORD": "constraint over symbols displayed as symbol-table ordinals",
                    "UNEXPLAINED": "a tuple of the result is not explained (answer: %s)" % q["ans"].get("k"),
                    "ABSENT-EXPLAINED": "a tuple that is not in the result is not reported as not found"}.get(verdict, verdict)
            res.violations.append(("[%s] explain %s: %s; answer %s  program=%s"
                                   % (j["mode"], ex.query_text(q["rel"], q["args"]), desc, json.dumps(answers[qi].get("proof"))[:700], P["id"]),
                                   replay_file(d, j, cmd, {"desc": desc, "query": ex.query_text(q["rel"], q["args"]),
                                                           "answer": answers[qi].get("proof"), "verdict": verdict,
                                                           "rules": [(r["rel"], r["n"], r["text"]) for r in rules]})))
        if not bad and v["rules"] is not False:
            shutil.rmtree(d, ignore_errors=True)
    if not res.cov["samples"] and jmeta:
        (j, d, cmd, answers, rules) = jmeta[0]
        res.sample({"program": render.program(Ps[j["i"]])[:1500], "query": ex.query_text(*j["qs"][0]), "answer": answers[0].get("proof")})
    res.cov.update({"programs": len(Ps), "programs_compiled_with_provenance": len(exes), "explain_sessions": len(jmeta),
                    "edb_cases_modelled": sum(len(c) for c in cases), "real_runs_compared": runs, "verdicts": stats,
                    "fragment_left_out": "aggregates, range generators, records, ADTs (see module docstring)"})
    return finish(res, "model_checking", assumptions=[
        "spec/Datalog.tla is the meaning of the generated fragment; spec/Provenance.tla is what a valid explanation is",
        "programs come from a seeded grammar-based generator restricted to the provenance fragment, not from all programs",
        "the cited rule is the text souffle prints with the answer (the program after souffle's own AST transformations); "
        "TLC also checks that every such rule is satisfied by the model of the source program",
        "proof heights: the tree is finite, minimal height is not demanded; depth-limit leaves / hangs are reported",
        "the C++ compiler is trusted"])

def judge_proofs(jcases, progs, wd, res, chunk=8):
    """Runs spec/JudgeProof.tla over the cases (several TLC runs in parallel); returns case number -> verdicts."""
    import re
    if not jcases:
        return {}
    parts = [(b, jcases[b:b + chunk]) for b in range(0, len(jcases), chunk)]
    def one(part):
        base, cs = part
        d = os.path.join(wd, "judge_%d" % base)
        write_data(d, "DatalogData", {"Programs": [gen.strip_for_tlc(P) for P in progs]})
        write_data(d, "JudgeProofData", {"JudgeCases": cs})
        cfg = os.path.join(d, "J.cfg")
        with open(cfg, "w") as f:
            f.write("SPECIFICATION JSpec\nINVARIANT Emit\nCHECK_DEADLOCK FALSE\n")
        r = tlc.run_tlc(os.path.join(SPEC, "JudgeProof.tla"), cfg, d, lib=d, timeout=1500, workers=2, heap="3g")
        return base, len(cs), r
    out = {}
    with cf.ThreadPoolExecutor(max(1, NCPU // 2)) as ex2:
        for base, n, r in ex2.map(one, parts):
            if not r["ok"]:
                res.infra_errors.append("JudgeProof (cases %d..) failed: %s" % (base, (r["error"] or r["violated"] or "?")[-1200:]))
                continue
            res.add_tlc(r)
            for k in range(1, n + 1):
                out[base + k] = {"model": None, "rules": None, "q": {}}
            for m in re.finditer(r'<<"(MODEL|RULES)", (\d+), (TRUE|FALSE)>>', r["out"]):
                out[base + int(m.group(2))][m.group(1).lower()] = m.group(3) == "TRUE"
            for m in re.finditer(r'<<"VERDICT", (\d+), (\d+), "([A-Z-]+)", (\d+)>>', r["out"]):
                out[base + int(m.group(1))]["q"][int(m.group(2))] = (m.group(3), int(m.group(4)))
    return out
