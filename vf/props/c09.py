"""C09 - semi-naive evaluation is complete and non-redundant.
S: spec/SemiNaive.tla - the delta-version scheme (version i reads delta at i, anything before, not-delta after)
   handles every combination with a new tuple by exactly one version, for all N<=4 and all taggings; the schemes
   without the filter / with old-only are required to fail (vacuity witnesses).
A: spec/SemiNaiveOracle.tla derives from the DECLARATIVE semantics, for every recursive stratum and EDB, the number K of
   fixpoint iterations and, per recursive clause and iteration, the number of INSERT executions a complete and
   non-redundant evaluation performs.  spec/Ram.tla executes the REAL initial RAM program (translator output, hook H3)
   and the invariant SemiNaiveOK demands exactly those numbers, together with FinalIsModel / LoopHead.
T: the real interpreter's traces (optimised RAM) are validated against spec/Ram.tla including INSERT counts."""
import os, json, random, copy
import concurrent.futures as cf
from .. import gen, build, tlc, render, evalcore, ramcheck
from ..common import workdir, seed, Result, SPEC, NCPU, write_data
from ..evidence import finish

V = lambda n: {"k": "var", "n": n}
def atom(rel, *args): return {"k": "atom", "rel": rel, "args": list(args)}
def rel(name, ar, inp=False): return {"name": name, "arity": ar, "types": ["i"] * ar, "input": inp, "output": True, "eqrel": False}

def program(rng, idx):
    """recursive strata with 1-3 mutually recursive relations and 1-3 recursive atoms per rule; all arguments variables"""
    rels = [rel("e", 2, True), rel("n", 1, True)]
    clauses = []; strata = [["e"], ["n"]]
    ngroups = rng.choice([1, 1, 2])
    k = 0
    lower = ["e", "n"]
    for g in range(ngroups):
        size = rng.choice([1, 1, 2, 3])
        group = []
        for _ in range(size):
            group.append(rel("r%d" % k, rng.choice([1, 2, 2])))
            k += 1
        names = [r["name"] for r in group]
        ar = {r["name"]: r["arity"] for r in rels + group}
        for r in group:
            # base rule from lower relations
            vs = ["x", "y"]
            src = rng.choice(lower)
            body = [atom(src, *[V(vs[i]) for i in range(ar[src])])]
            if ar[src] < r["arity"]:
                body.append(atom("n", V("y")))
            clauses.append({"head": {"rel": r["name"], "args": [V(vs[i]) for i in range(r["arity"])]}, "body": body})
            # recursive rules
            for _ in range(rng.choice([1, 1, 2])):
                nrec = rng.choice([1, 1, 2, 2, 3])
                chain = ["a", "b", "c", "d", "f"]
                body = []; pos = 0
                lits = [rng.choice(names) for _ in range(nrec)] + ([rng.choice(["e", "n"])] if rng.random() < 0.6 else [])
                rng.shuffle(lits)
                for ln in lits:
                    if ar[ln] == 2:
                        body.append(atom(ln, V(chain[pos]), V(chain[pos + 1]))); pos += 1
                    else:
                        body.append(atom(ln, V(chain[pos])))
                used = sorted({a["n"] for l in body for a in l["args"]})
                if rng.random() < 0.25 and len(used) >= 2:
                    body.append({"k": "cmp", "op": rng.choice(["NE", "LT", "LE"]), "l": V(used[0]), "r": V(used[-1])})
                if rng.random() < 0.2:
                    body.append({"k": "neg", "rel": "n", "args": [V(rng.choice(used))]})
                hv = [used[0], used[-1]] if r["arity"] == 2 else [rng.choice([used[0], used[-1]])]
                head = {"rel": r["name"], "args": [V(v) for v in hv]}
                if any(l["k"] == "atom" and l["rel"] == head["rel"] and l["args"] == head["args"] for l in body):
                    continue        # souffle drops a clause whose head occurs in its body (nothing to evaluate)
                clauses.append({"head": head, "body": body})
        rels += group; strata.append(names); lower = lower + names
    P = {"id": "sn_%d" % idx, "types": [], "rels": rels, "clauses": clauses, "strata": strata, "dom": {"i": [0, 1, 2], "s": ["a"]},
         "features": ["recursion"]}
    g = gen.Gen(rng, max_edbs=4096, edb_sample=24); g.types = []; g.dom = P["dom"]
    g.edb_space(P)      # e: 2^9 x n: 2^3 = 4096 EDBs
    return P

def deep_program(rng, idx, quick=True):
    """rules with 3-4 recursive atoms over ONE or two relations on longer chains/cycles (8 nodes): iterations in which a
    combination (new, old, new) exists - the case in which the negated-delta filters of the later atoms matter"""
    rels = [rel("e", 2, True), rel("n", 1, True), rel("p", 2)]
    cl = [{"head": {"rel": "p", "args": [V("x"), V("y")]}, "body": [atom("e", V("x"), V("y"))]}]
    shape = "ppp" if quick else rng.choice(["ppp", "ppp", "pqp", "ppe p"])
    strata = [["e"], ["n"], ["p"]]
    if shape == "ppp":
        cl.append({"head": {"rel": "p", "args": [V("a"), V("d")]},
                   "body": [atom("p", V("a"), V("b")), atom("p", V("b"), V("c")), atom("p", V("c"), V("d"))]})
    elif shape == "pppp":
        cl.append({"head": {"rel": "p", "args": [V("a"), V("f")]},
                   "body": [atom("p", V("a"), V("b")), atom("p", V("b"), V("c")), atom("p", V("c"), V("d")), atom("p", V("d"), V("f"))]})
    elif shape == "ppe p":
        cl.append({"head": {"rel": "p", "args": [V("a"), V("f")]},
                   "body": [atom("p", V("a"), V("b")), atom("p", V("b"), V("c")), atom("e", V("c"), V("d")), atom("p", V("d"), V("f"))]})
    else:
        rels.append(rel("q", 2)); strata[-1] = ["p", "q"]
        cl.append({"head": {"rel": "q", "args": [V("x"), V("y")]}, "body": [atom("p", V("x"), V("y")), atom("n", V("x"))]})
        cl.append({"head": {"rel": "p", "args": [V("a"), V("d")]},
                   "body": [atom("q", V("a"), V("b")), atom("p", V("b"), V("c")), atom("p", V("c"), V("d"))]})
        cl.append({"head": {"rel": "q", "args": [V("a"), V("d")]},
                   "body": [atom("p", V("a"), V("b")), atom("q", V("b"), V("c")), atom("q", V("c"), V("d"))]})
    N = 8
    def chain(k, off=0): return [[off + i, off + i + 1] for i in range(k)]
    graphs = [chain(7), chain(5) + [[5, 0]], chain(4) + [[0, 2]], chain(3) + chain(3, 4), chain(7) + [[2, 5]],
              [[i, (i + 1) % 6] for i in range(6)],
              [[a, b] for a in range(N) for b in range(N) if a != b and rng.random() < 0.15]]
    if quick:
        graphs = [chain(7), chain(4) + [[0, 2]]]
    edbs = [{"e": g, "n": [[v] for v in range(N) if rng.random() < 0.8]} for g in graphs]
    edbs.append({"e": [], "n": []})
    return {"id": "sn_deep_%d_%s" % (idx, shape.replace(" ", "")), "types": [], "rels": rels, "clauses": cl, "strata": strata,
            "dom": {"i": list(range(N)), "s": ["a"]}, "features": ["recursion", "deep"], "edbs": {"mode": "list", "list": edbs},
            "edb_space": len(edbs)}

def clause_lines(P):
    """line number (1-based) of each clause in the rendered text - the same order render.program uses"""
    text = render.program(P)
    lines = text.split("\n")
    out = {}
    ci = 0
    for ln, t in enumerate(lines, 1):
        if ":-" in t or (t.endswith(".") and not t.startswith(".")):
            out[ci] = ln; ci += 1
    assert ci == len(P["clauses"]), (ci, len(P["clauses"]))
    return out

def loop_of_stratum(RP, names):
    """sid of the LOOP whose body inserts into @new_<relation of the stratum>"""
    found = []
    def walk(s):
        if s["k"] == "Seq":
            for c in s["stmts"]:
                walk(c)
        elif s["k"] == "Loop":
            txt = json.dumps(s["body"])
            if any(('"@new_%s"' % n) in txt for n in names):
                found.append(s["sid"])
            walk(s["body"])
    walk(RP["main"])
    for b in RP["subroutines"].values():
        walk(b)
    return found[0] if found else None

def run(tier, replay=None):
    res = Result("C09", tier)
    build.ensure_souffle()
    wd = workdir("C09")
    # ---- S ----
    for scheme, expect_ok in (("souffle", True), ("nofilter", False), ("oldonly", False)):
        r = tlc.run_tlc(os.path.join(SPEC, "SemiNaive.tla"), os.path.join(SPEC, "MC_SemiNaive_%s.cfg" % scheme), wd, timeout=300, workers=2)
        if expect_ok:
            if r["violated"]:
                res.violations.append(("spec/SemiNaive.tla: the delta-version scheme violates " + r["violated"], os.path.join(SPEC, "SemiNaive.tla")))
            elif r["ok"]:
                res.add_tlc(r)
            else:
                res.infra_errors.append(r["error"] or "tlc")
        elif not r["violated"]:
            res.infra_errors.append("vacuity witness lost: scheme %s no longer violates Complete/NonRedundant" % scheme)
    # ---- A ----
    rng = random.Random(seed() * 409 + 9)
    nprog = 8 if tier == "quick" else 80
    ndeep = 1 if tier == "quick" else 12
    Ps = [program(rng, i) for i in range(nprog - ndeep)] + [deep_program(rng, i, tier == "quick") for i in range(ndeep)]
    cases = evalcore.tlc_models(Ps, wd, res)
    # oracle: expected iteration counts and INSERT executions
    d = os.path.join(wd, "oracle")
    write_data(d, "DatalogData", {"Programs": [gen.strip_for_tlc(P) for P in Ps]})
    r = tlc.run_tlc(os.path.join(SPEC, "SemiNaiveOracle.tla"), os.path.join(SPEC, "MC_SemiNaiveOracle.cfg"), d, lib=d, timeout=1500)
    if not r["ok"]:
        res.infra_errors.append("SemiNaiveOracle failed: " + str(r["error"] or r["violated"])[-800:])
        return finish(res, "model_checking")
    res.add_tlc(r)
    oracle = {}
    for j in r["json"]:
        if j.get("tag") == "SEMINAIVE":
            oracle[(j["p"] - 1, json.dumps(j["edb"], sort_keys=True))] = j["strata"]
    stats = {"iterations_checked": 0, "att_entries_checked": 0, "max_K": 0}
    def one(i):
        P = Ps[i]
        if not cases[i]:
            return {"status": "no-cases"}
        lines = clause_lines(P)
        def sn(case, RP):
            rep = oracle.get((i, json.dumps({k: sorted(v) for k, v in case["edb"].items()}, sort_keys=True)))
            if rep is None:
                rep = oracle.get((i, json.dumps(case["edb"], sort_keys=True)))
            if rep is None:
                return {"have": False, "loops": {}, "att": {}}
            loops = {}; att = {}
            for st in rep:
                if not st["recursive"]:
                    continue
                sid = loop_of_stratum(RP, P["strata"][st["stratum"] - 1])
                if sid is None:
                    continue
                loops[sid] = st["K"]
                stats["iterations_checked"] += max(st["K"], 1); stats["max_K"] = max(stats["max_K"], st["K"])
                for ci, seq in (st["att"].items() if isinstance(st["att"], dict) else []):
                    att[lines[int(ci) - 1]] = seq
                    stats["att_entries_checked"] += len(seq)
            if loops:
                stats["cases_with_loop_expectations"] = stats.get("cases_with_loop_expectations", 0) + 1
            return {"have": True, "loops": loops, "att": att}
        usable = cases[i] if len(cases[i]) <= 48 else random.Random(seed() + i).sample(cases[i], 48)
        return ramcheck.check(P, usable, wd, "p%d" % i, res, "C09", which="initial", n_traces=0, sn=sn,
                              invariants=("FinalIsModel", "LoopHead", "TempsCleared", "SemiNaiveOK"), tag="initial")
    with cf.ThreadPoolExecutor(6) as ex:
        sts = list(ex.map(one, range(len(Ps))))
    # ---- T: the interpreter on the optimised RAM ----
    def two(i):
        if not cases[i]:
            return {"status": "no-cases"}
        usable = cases[i] if len(cases[i]) <= 12 else random.Random(seed() * 3 + i).sample(cases[i], 12)
        return ramcheck.check(Ps[i], usable, wd, "p%d" % i, res, "C09", which="final", n_traces=6, rng=random.Random(seed() + i), tag="final")
    with cf.ThreadPoolExecutor(6) as ex:
        sts2 = list(ex.map(two, range(len(Ps))))
    res.cov.update(stats)
    res.cov["initial_ram_status"] = {k: sum(1 for s in sts if s["status"] == k) for k in set(s["status"] for s in sts)}
    res.cov["programs"] = len(Ps)
    res.sample({"program": render.program(Ps[0]), "oracle for one EDB": next(iter(oracle.values()))})
    return finish(res, "model_checking", assumptions=[
        "recursive rule shapes: 1-3 mutually recursive relations, 1-3 recursive atoms per rule, variable-only arguments, optional comparison / stratified negation",
        "INSERT executions are compared on the translator's output (initial RAM), where every atom is a scan; EDBs exhaustive over a 3-value domain when <= 4096, sampled to 48 per program for the RAM run"])
