"""C30 - the optimistic read-write lock protocol is safe.
S: TLC checks spec/OptLockImpl.tla (one action per atomic access) for all interleavings of 2 clients x <=2 ops and
   3 clients x 1 op (quick) / 3 clients x <=2 ops (thorough): mutual exclusion, validation soundness, abort restores,
   termination under weak fairness.
R: TLC's state graph is dumped; walks covering every transition are replayed on the real OptimisticReadWriteLock under
   the cooperative scheduler (yield points = hook H2) and version, yield point (= spec pc), operation index and
   results are compared with the spec state after every step.  The real lock must also never livelock in the drain."""
import os, subprocess, json
from .. import build, tlc, graphwalk, tracecheck
from ..common import workdir, seed, Result, SPEC, HARNESS, BUILD, NCPU
from ..evidence import finish

PT2PC = {"op": {"next"}, "done": {"next"}, "start": {"next"}, "orw.sr.load": {"sr_load"}, "orw.validate": {"reading"},
         "orw.up.for": {"reading"}, "orw.sw.for": {"sw_for"}, "orw.tsw.for": {"tsw_for"}, "orw.end": {"writing"},
         "orw.abort": {"writing", "up_abort"}}

def model_check(res, wd, cfg, heap="8g", timeout=1500):
    r = tlc.run_tlc(os.path.join(SPEC, "MC_OptLock.tla"), os.path.join(SPEC, cfg), wd, timeout=timeout, extra=["-coverage", "1"], heap=heap)
    if r["violated"]:
        return r, "TLC: %s violated by spec/OptLockImpl.tla under %s" % (r["violated"], cfg)
    if not r["ok"]:
        res.infra_errors.append(r["error"] or "tlc failed"); return r, None
    res.add_tlc(r)
    cov = tlc.coverage_counts(r["out"])
    never = [a for a in ("Begin", "SrLoad", "Validate", "UpgradeFor", "UpAbort", "SwFor", "TswFor", "EndWrite", "AbortWrite")
             if a in cov and cov[a][0] == 0]
    if never:
        res.infra_errors.append("vacuity: actions never taken under %s: %s" % (cfg, never))
    return r, None

def replay(res, wd, cfg, drv, max_walks=None, nrandom=2000):
    dot = os.path.join(wd, "graph.dot")
    r = tlc.run_tlc(os.path.join(SPEC, "MC_OptLock.tla"), os.path.join(SPEC, cfg), wd, timeout=900, workers=8,
                    extra=["-dump", "dot,actionlabels", dot])
    if not r["ok"]:
        res.infra_errors.append("dump failed: " + str(r["violated"] or r["error"])); return
    g = graphwalk.Graph(dot)
    walks = g.covering_walks()
    if max_walks and len(walks) > max_walks:
        import random
        walks = random.Random(seed()).sample(walks, max_walks)
    jobs = []
    for init, w in walks:
        st = g.state(init)
        progs = ";".join(",".join(p) if p else "-" for p in st["prog"])
        sched = ",".join(g.edges[i][3] for i in w)
        jobs.append("%s %s" % (progs, sched))
    nspec = len(jobs)
    # seeded random schedules, independent of the implementation-shaped spec (3 clients, up to 3 operations)
    import random
    rng = random.Random(seed() * 31 + 7)
    OPS = ["read", "rw", "rabort", "write", "wabort", "trywrite"]
    for k in range(nrandom):
        n = rng.choice([2, 3, 3])
        progs = ";".join(",".join(rng.choice(OPS) for _ in range(rng.randint(1, 3))) for _ in range(n))
        jobs.append("%s R%d:%d" % (progs, rng.randrange(1 << 30), rng.randint(5, 60)))
    p = subprocess.run([drv], input="\n".join(jobs) + "\n", capture_output=True, text=True, timeout=1200)
    if p.returncode != 0:
        res.violations.append(("lock driver died rc=%d: %s" % (p.returncode, p.stderr[-500:]), _save(wd, "driver_crash", jobs))); return
    out = p.stdout.split("\n")
    pos = 0; steps = 0; drift = 0
    events = []; ev_job = []
    for wi in range(len(jobs)):
        assert out[pos].startswith("J "), out[pos]
        pos += 1
        if wi < nspec:
            init, w = walks[wi]
            states = [init] + [g.edges[i][1] for i in w]
        k = 0; mismatch = None
        events.append({"e": "reset", "c": 0, "ok": True, "v": 0}); ev_job.append(wi)
        while out[pos] != "E":
            line = out[pos]; pos += 1
            if line.startswith("V "):
                f = line.split(" ")
                events.append({"e": f[1], "c": int(f[2]), "ok": f[3] == "1", "v": int(f[4])}); ev_job.append(wi)
                continue
            if line.startswith("LIVELOCK"):
                res.violations.append(("real lock livelocked (100000 scheduler rounds) although every thread kept being scheduled: " + jobs[wi],
                                       _save(wd, "livelock_%d" % wi, [jobs[wi]])))
                continue
            if line.startswith("ERR"):
                mismatch = mismatch or ("schedule not executable on the real lock: " + line); continue
            f = line.split(" ")
            if f[0] == "-1" or mismatch or wi >= nspec:
                continue
            s = g.state(states[k]); k += 1; steps += 1
            pts = f[3].split(","); ips = [int(x) for x in f[4].split(",")]; rs = f[5].split(",")
            ok = int(f[2]) == s["version"] and ips == s["ip"] and rs == s["res"] and \
                all(s["pc"][i] in PT2PC.get(pts[i], ()) for i in range(len(pts))) and \
                (int(f[6]) == 1) == (s["version"] % 2 == 1)
            if not ok:
                mismatch = "step %s: real lock %s vs spec %s" % (f[0], line, {x: s[x] for x in ("version", "pc", "ip", "res")})
        pos += 1
        if mismatch:
            drift += 1
            if drift <= 3:
                print("MODEL-DRIFT property=C30 real lock deviates from spec/OptLockImpl.tla step structure on %r: %s" % (jobs[wi], mismatch), flush=True)
    res.count("walks_replayed", nspec); res.count("random_schedules", len(jobs) - nspec); res.count("steps_compared", steps)
    res.count("model_drift_walks", drift)
    res.cov["graph_states"] = len(g.labels); res.cov["graph_edges"] = len(g.edges)
    # T: every real execution (replayed or random) must be a behaviour of the property-level spec OptLockAbs
    acc, consumed, r = tracecheck.validate("OptLockAbsTrace", events, wd, "MCT_OptLock", constants="CONSTANT Clients = {1, 2, 3}")
    res.count("trace_events", len(events))
    if acc is None:
        res.infra_errors.append("trace validation failed to run: " + str(r["error"]))
    elif acc:
        res.cov["traces_validated_against_impl"] += len(jobs)
        res.add_tlc(r)
    else:
        wi = ev_job[min(consumed, len(events) - 1)]
        lo = max(0, consumed - 6)
        res.cov["traces_validated_against_impl"] += wi
        res.violations.append(("history of the real OptimisticReadWriteLock rejected by spec/OptLockAbs.tla at event %d %s (job %r; preceding events %s)"
                               % (consumed + 1, events[min(consumed, len(events) - 1)], jobs[wi], events[lo:consumed]),
                               _save(wd, "rejected_%d" % wi, [jobs[wi]])))
    if jobs:
        res.sample({"replayed schedule (progs, thread per step)": jobs[nspec // 2], "random": jobs[-1],
                    "events": [e for e, j in zip(events, ev_job) if j == nspec // 2]})

def _save(wd, name, jobs):
    path = os.path.join(wd, name + ".txt")
    with open(path, "w") as f:
        f.write("\n".join(jobs) + "\n")
    return path

def run(tier, replay_path=None):
    res = Result("C30", tier)
    wd = workdir("C30")
    drv = build.harness_cxx(os.path.join(HARNESS, "lockdrv.cpp"), os.path.join(BUILD, "harness", "lockdrv"))
    if replay_path:
        p = subprocess.run([drv], input=open(replay_path).read(), capture_output=True, text=True)
        print(p.stdout); return 0
    cfgs = ["MC_OptLock2.cfg", "MC_OptLock3q.cfg"] + (["MC_OptLock3.cfg"] if tier == "thorough" else [])
    for cfg in cfgs:
        r, viol = model_check(res, wd, cfg, heap="24g" if cfg == "MC_OptLock3.cfg" else "8g", timeout=3000)
        if viol:
            # a property fails on the spec as transcribed from the code: genuine only if the real lock reproduces it;
            # the replay below compares the real lock with the same spec, so report with the TLC trace as replay
            path = os.path.join(wd, "tlc_%s.out" % cfg); open(path, "w").write(r["out"])
            res.violations.append((viol, path))
    replay(res, wd, "MC_OptLock2r.cfg" if tier == "quick" else "MC_OptLock2.cfg", drv, nrandom=2000 if tier == "quick" else 40000)
    res.sample({"spec": "OptLockImpl.tla", "configs": cfgs})
    return finish(res, "model_checking", assumptions=[
        "the cooperative scheduler serialises threads at the hook points: C++ memory-model effects (relaxed orderings) are not explored",
        "write phases that are aborted are allowed to overlap a successful validation (the property's third clause)"])
