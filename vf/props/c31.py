"""C31 - symbol and record interning is a bijection under concurrency.
S: TLC checks spec/FlyweightImpl.tla (one action per SOUFFLE_VERIF scheduling point of ConcurrentFlyweight::findOrInsert/
   tryGrow, ConcurrentInsertOnlyHashMap::get/tryGrow and the MutexConcurrentLanes protocol) for all interleavings of
   2-3 threads on distinct and shared lanes with growth of slots and buckets at once: result-level invariants (same value
   <=> same index, decode(encode v) = v, one "inserted" per value, nil never returned, quiescent iteration lists each value
   once), structural invariants, deadlock freedom, termination under weak fairness, and refinement of the property-level
   spec spec/InternAbs.tla (itself checked against the clauses of C31 in MC_InternAbs).
R: TLC's state graph is dumped; walks covering every transition are replayed on the real ConcurrentFlyweight under the
   cooperative scheduler and NextSlot, SlotCount, Slots, Handles, bucket lists, Size, lock states, scheduling points and
   results are compared with the spec state after every step (deviation = MODEL-DRIFT, not a violation).
T: the API events of every real execution - replayed walks, seeded random schedules on larger configurations, and
   real-thread OpenMP stress on SymbolTableImpl / SpecializedRecordTable - are validated by TLC against InternAbs
   (spec/InternAbsTrace.tla); a rejected history is the VIOLATION."""
import os, re, subprocess, random, threading, time
from .. import build, tlc, graphwalk, tracecheck
from ..common import workdir, seed, Result, SPEC, HARNESS, BUILD, NCPU
from ..evidence import finish

ACTIONS = ("Begin FGuard FInc FLoad FBlaTry FDUnlock FDBla FDRelock FGrowCheck FLockAll FNgUnbla FGUnbla FPublish MLock MLoad "
           "MCas MInc MBlaTry MDUnlock MDBla MDRelock MGrowCheck MLockAll MNgUnbla MGUnbla MUnlock").split()
# real scheduling point -> spec pcs it may stand for
PT2PC = {"op": {"next"}, "done": {"next"}, "start": {"next"},
         "F:lanes.guard": {"f_guard"}, "fly.nextslot.inc": {"f_inc"}, "fly.slotcount.load": {"f_load"},
         "F:lanes.bla.try": {"f_blatry"}, "F:lanes.unlock": {"f_d_unlock"}, "F:lanes.bla.lock": {"f_d_bla"},
         "F:lanes.lock": {"f_d_relock"}, "fly.grow.check": {"f_growcheck"}, "F:lanes.lockall": {"f_lockall"},
         "F:lanes.bla.unlock": {"f_ng_unbla", "f_g_unbla"}, "fly.slot.publish": {"f_publish"},
         "M:lanes.lock": {"m_lock", "m_d_relock"}, "map.head.load": {"m_load"}, "map.head.cas": {"m_cas"},
         "map.size.inc": {"m_inc"}, "M:lanes.bla.try": {"m_blatry"}, "M:lanes.unlock": {"m_d_unlock", "m_unlock"},
         "M:lanes.bla.lock": {"m_d_bla"}, "map.grow.check": {"m_growcheck"}, "M:lanes.lockall": {"m_lockall"},
         "M:lanes.bla.unlock": {"m_ng_unbla", "m_g_unbla"}}
MC = os.path.join(SPEC, "MC_Flyweight.tla")

def cfg_constants(cfg):
    c = {}
    for m in re.finditer(r"^CONSTANT (\w+) = (.+)$", open(os.path.join(SPEC, cfg)).read(), re.M):
        c[m.group(1)] = m.group(2).strip()
    return c

def model_check(res, wd, cfg, lock, heap="6g", timeout=2400, workers=None, coverage=True):
    t0 = time.time()
    r = tlc.run_tlc(MC, os.path.join(SPEC, cfg), os.path.join(wd, "mc_" + cfg), timeout=timeout, heap=heap, workers=workers,
                    extra=["-coverage", "1"] if coverage else [])
    with lock:
        if r["violated"]:
            # a property fails on the spec as transcribed from the code; the TLC trace is the replay
            path = os.path.join(wd, "tlc_%s.out" % cfg); open(path, "w").write(r["out"])
            res.violations.append(("TLC: %s violated by spec/FlyweightImpl.tla under %s" % (r["violated"], cfg), path))
            return
        if not r["ok"]:
            res.infra_errors.append("%s: %s" % (cfg, r["error"] or "tlc failed")); return
        res.add_tlc(r)
        res.cov.setdefault("model_checks", []).append({"cfg": cfg, "distinct": r["distinct"], "generated": r["generated"],
                                                       "depth": r["depth"], "seconds": round(time.time() - t0, 1)})
        if coverage:
            cov = tlc.coverage_counts(r["out"])
            res.cov.setdefault("_taken", set()).update(a for a in ACTIONS if a in cov and cov[a][0] > 0)

# ------------------------------------------------------------------------------------------------------------------
# driver output
# ------------------------------------------------------------------------------------------------------------------
def parse_event(line):
    """'V ...' line of flydrv -> event record of spec/InternAbsTrace.tla (positions are still job-relative)."""
    f = line.split(" ")
    k = f[1]
    if k == "reset":
        return {"e": "reset", "b": f[2] == "1"}
    if k == "call":
        return {"e": "call", "t": int(f[2]), "v": f[4], "r": int(f[5])}
    if k == "ret":
        return {"e": "ret", "t": int(f[2]), "v": f[4], "i": [int(f[3]), int(f[5])], "b": f[6]}
    if k == "fetch":
        return {"e": "fetch", "t": int(f[2]), "i": [int(f[3]), int(f[4])], "v": f[5]}
    if k == "ibegin":
        return {"e": "ibegin", "id": int(f[2])}
    if k == "iend":
        xs = []
        for it in f[4:]:
            if it:
                v, m, i = it.rsplit("|", 2)
                xs.append([v, [int(m), int(i)]])
        return {"e": "iend", "id": int(f[2]), "xs": xs, "xm": [] if f[3] == "-" else [int(x) for x in f[3].split(",")]}
    raise ValueError(line)

def spec_line(s, consts):
    """projection of a spec state onto the fields the driver prints"""
    sc = s["slotCount"]; bc = s["bucketCount"]; nl = int(consts["NLanes"])
    def chain(h):
        out = []
        while h != -1 and len(out) < 100:
            out.append("%d:%d" % (s["nkey"][h], h)); h = s["nnext"][h]
        return ">".join(out) if out else "_"
    return {"ns": s["nextSlot"], "sc": sc, "slots": ",".join(str(s["slots"][i]) for i in range(sc)),
            "hs": ",".join(str(s["hslot"][l]) for l in range(nl)), "bc": bc, "ms": s["maxSize"], "sz": s["size"],
            "buckets": ";".join(chain(s["buckets"][b]) for b in range(bc)),
            "locks": "%s|%d|%s|%d" % ("".join("1" if s["flk"][l] else "0" for l in range(nl)), 1 if s["fbla"] else 0,
                                      "".join("1" if s["mlk"][l] else "0" for l in range(nl)), 1 if s["mbla"] else 0),
            "ips": ",".join(str(x) for x in s["ip"]),
            "rets": ",".join("/".join("%d:%d" % (r[0], 1 if r[1] else 0) for r in rs) if rs else "_" for rs in s["rets"])}

def real_line(line):
    f = line.split(" ")
    return {"k": int(f[1]), "t": int(f[2]), "ns": int(f[3]), "sc": int(f[4]), "slots": f[5], "hs": f[6], "bc": int(f[7]),
            "ms": int(f[8]), "sz": int(f[9]), "buckets": f[10], "locks": f[11], "pts": f[12].split(","), "ips": f[13],
            "rets": f[14]}

def run_driver(drv, jobs, wd, res, tag):
    """runs flydrv coop on the jobs; returns per job the list of output lines (None when the driver died there)."""
    out = [None] * len(jobs); pos = 0; failures = 0
    while pos < len(jobs):
        if failures >= 6:
            res.cov.setdefault("notes", []).append("%s: driver stopped after %d failing jobs; %d jobs not run" % (tag, failures, len(jobs) - pos))
            break
        try:
            p = subprocess.run([drv, "coop"], input="\n".join(jobs[pos:]) + "\n", capture_output=True, text=True, timeout=3000)
        except subprocess.TimeoutExpired:
            res.violations.append(("flydrv coop did not finish within 3000 s (%s, %d jobs from %r)" % (tag, len(jobs) - pos, jobs[pos]),
                                   _save(wd, "%s_hang_%d" % (tag, pos), jobs[pos:])))
            break
        cur = None; n = 0
        for line in p.stdout.split("\n"):
            if line.startswith("J "):
                cur = []; continue
            if cur is None:
                continue
            if line == "E":
                out[pos + n] = cur; n += 1; cur = None
            else:
                cur.append(line)
        if p.returncode == 0 and n == len(jobs) - pos:
            break
        bad = pos + n
        if bad >= len(jobs):
            break
        failures += 1
        if p.returncode == 3 and n >= 1:      # DEADLOCK: the driver printed the job (with "E") and exited
            bad = pos + n - 1
            res.violations.append(("the real ConcurrentFlyweight deadlocked (every unfinished thread waits for a mutex): %s | job %r"
                                   % ([x for x in out[bad] if x.startswith("DEADLOCK")], jobs[bad]), _save(wd, "%s_deadlock_%d" % (tag, bad), [jobs[bad]])))
            out[bad] = None
        else:
            res.violations.append(("flydrv died (rc=%d) on job %r: %s" % (p.returncode, jobs[bad], p.stderr[-600:]),
                                   _save(wd, "%s_crash_%d" % (tag, bad), [jobs[bad]])))
        pos = bad + 1
    return out

def job_events(lines):
    return [parse_event(x) for x in lines if x.startswith("V ")]

# ------------------------------------------------------------------------------------------------------------------
# R: replay of covering walks of the spec's state graph
# ------------------------------------------------------------------------------------------------------------------
def replay(res, wd, cfg, drv, max_walks, histories):
    d = os.path.join(wd, "dump_" + cfg); os.makedirs(d, exist_ok=True)
    dot = os.path.join(d, "graph.dot")
    r = tlc.run_tlc(MC, os.path.join(SPEC, cfg), d, timeout=1800, workers=4, extra=["-dump", "dot,actionlabels", dot])
    if not r["ok"]:
        res.infra_errors.append("dump failed (%s): %s" % (cfg, r["violated"] or r["error"])); return
    consts = cfg_constants(cfg)
    g = graphwalk.Graph(dot)
    walks = g.covering_walks(skip_self_loops=True)
    total_walks = len(walks)
    if max_walks and len(walks) > max_walks:
        walks = random.Random(seed() * 17 + len(cfg)).sample(walks, max_walks)
    jobs = []
    for init, w in walks:
        st = g.state(init)
        jobs.append("%s %s %d %s %s %s %s %s %s" % (
            consts["NLanes"], consts["InitCap"], 1 if consts["Reserve"] == "TRUE" else 0, consts["InitBuckets"],
            consts["InitMaxSize"], consts["HashMul"], ",".join(str(x) for x in st["lane"]),
            ";".join(",".join(str(v) for v in p) if p else "-" for p in st["prog"]),
            ",".join(g.edges[i][3] for i in w)))
    outs = run_driver(drv, jobs, wd, res, "replay_" + cfg)
    steps = 0; drift = 0
    for wi, lines in enumerate(outs):
        if lines is None:
            continue
        init, w = walks[wi]
        states = [init] + [g.edges[i][1] for i in w]
        k = 0; mismatch = None
        for line in lines:
            if line.startswith("LIVELOCK"):
                res.violations.append(("real flyweight did not finish within 100000 fair scheduler rounds: " + jobs[wi],
                                       _save(wd, "livelock_%s_%d" % (cfg, wi), [jobs[wi]])))
            elif line.startswith("ERR"):
                mismatch = mismatch or ("schedule not executable on the real flyweight: " + line)
            elif line.startswith("S ") and not mismatch:
                rl = real_line(line)
                if rl["k"] < 0 or k >= len(states):
                    continue
                s = g.state(states[k]); k += 1; steps += 1
                sl = spec_line(s, consts)
                diff = [x for x in sl if str(sl[x]) != str(rl[x])]
                diff += ["pc[%d]" % (i + 1) for i, pt in enumerate(rl["pts"]) if s["pc"][i] not in PT2PC.get(pt, ())]
                if diff:
                    mismatch = "step %d: fields %s differ: real %s | spec %s pc=%s" % (rl["k"], diff, line, sl, s["pc"])
        if k < len(states) and not mismatch:
            mismatch = "only %d of %d steps were executed" % (k, len(states))
        if mismatch:
            drift += 1
            if drift <= 3:
                print("MODEL-DRIFT property=C31 real ConcurrentFlyweight deviates from spec/FlyweightImpl.tla step structure on %r: %s"
                      % (jobs[wi], mismatch), flush=True)
        histories.append(("replay %s: %s" % (cfg, jobs[wi]), job_events(lines), jobs[wi]))
    res.count("walks_replayed", len(jobs)); res.count("steps_compared", steps); res.count("model_drift_walks", drift)
    with res._lock:
        res.cov.setdefault("replay_graphs", []).append({"cfg": cfg, "states": len(g.labels), "edges": len(g.edges),
                                                        "covering_walks": total_walks, "replayed": len(jobs)})
        if jobs:
            res.sample({"replayed walk (lanes cap reserve buckets maxSize hashMul lanes progs schedule)": jobs[len(jobs) // 2]})

# ------------------------------------------------------------------------------------------------------------------
# T: seeded random schedules on configurations beyond the model's bounds, and real-thread stress
# ------------------------------------------------------------------------------------------------------------------
def random_jobs(n):
    rng = random.Random(seed() * 131 + 31)
    jobs = []
    for _ in range(n):
        nl = rng.choice([1, 2, 2, 3, 4])
        nt = rng.choice([2, 2, 3, 3, 4])
        cap = rng.choice([1, 1, 2, 4, 8])
        nb, ms = rng.choice([(0, 0), (1, 1), (1, 0), (2, 0), (2, 2), (3, 1)])
        mul = rng.choice([1, 1, 2, 13])
        vals = rng.choice([2, 3, 5, 16])      # 16 values with the natural 13 buckets: the map grows to 251 buckets
        progs = []
        for _t in range(nt):
            ops = [rng.choice(["f"] + [str(rng.randint(1, vals))] * 5) for _k in range(rng.randint(1, 3 if vals < 16 else 8))]
            progs.append(",".join(ops))
        jobs.append("%d %d %d %d %d %d %s %s R%d:%d %d" % (nl, cap, rng.randint(0, 1), nb, ms, mul,
                    ",".join(str(rng.randrange(nl)) for _t in range(nt)), ";".join(progs), rng.randrange(1 << 30),
                    rng.choice([10, 40, 120, 400]), rng.choice([0, 0, 1, 2])))
    return jobs

def random_schedules(res, wd, drv, n, histories):
    jobs = random_jobs(n)
    outs = run_driver(drv, jobs, wd, res, "random")
    for j, lines in zip(jobs, outs):
        if lines is None:
            continue
        if any(x.startswith("LIVELOCK") for x in lines):
            res.violations.append(("real flyweight did not finish within 100000 fair scheduler rounds: " + j, _save(wd, "livelock_random", [j])))
        histories.append(("random schedule: " + j, job_events(lines), j))
    res.count("random_schedules", len(jobs))
    if jobs:
        res.sample({"random schedule job": jobs[0]})

def stress(res, wd, drv, njobs, ops, histories, rounds=1, timeout=600):
    for rd in range(rounds):
        args = [drv, "stress", str(seed() * 1000 + rd), str(njobs), str(ops)]
        try:
            p = subprocess.run(args, capture_output=True, text=True, timeout=timeout)
        except subprocess.TimeoutExpired as ex:
            out = ex.stdout.decode("utf-8", "replace") if isinstance(ex.stdout, bytes) else (ex.stdout or "")
            last = [x for x in out.split("\n") if x.startswith("J ")]
            res.violations.append(("real threads hung: flydrv %s did not finish within %d s (deadlock or livelock in the tables); last job started: %r"
                                   % (" ".join(args[1:]), timeout, last[-1] if last else None), _save(wd, "stress_hang_%d" % rd, [" ".join(args)] + last[-1:])))
            break
        cur = None; desc = None
        for line in p.stdout.split("\n"):
            if line.startswith("J "):
                desc = line[2:]; cur = []
            elif line == "E" and cur is not None:
                histories.append(("real-thread stress: " + desc, [parse_event(x) for x in cur], " ".join(args[1:]))); cur = None
                res.count("stress_jobs")
            elif cur is not None and line.startswith("V "):
                cur.append(line)
        if p.returncode != 0:
            path = _save(wd, "stress_crash_%d" % rd, ["stress %d %d %d" % (seed() * 1000 + rd, njobs, ops), "last job: %s" % desc, p.stderr[-2000:]])
            res.violations.append(("flydrv stress died (rc=%d) in job %r: %s" % (p.returncode, desc, p.stderr[-600:]), path))
            break

def rebase(events, base):
    return [dict(e, r=e["r"] + base) if e["e"] == "call" else e for e in events]

def validate(res, wd, histories, chunk_events=60000, parallel=4):
    """histories: (description, events starting with reset, replay job or None).  Histories of tables with and without a
    reserved first slot are validated separately (NilIndices is a constant of InternAbs), in chunks of about chunk_events
    events (one TLC run each, `parallel` runs at a time)."""
    chunks = []
    for reserved in (False, True):
        hs = [h for h in histories if h[1] and h[1][0]["e"] == "reset" and h[1][0]["b"] == reserved]
        cur = []; n = 0
        for h in hs:
            cur.append(h); n += len(h[1])
            if n >= chunk_events:
                chunks.append((reserved, cur)); cur = []; n = 0
        if cur:
            chunks.append((reserved, cur))
    sem = threading.Semaphore(parallel)
    def work(ci, reserved, hs):
        with sem:
            validate_chunk(res, wd, hs, reserved, "MCT_Intern_%d_c%d" % (int(reserved), ci))
    ths = [threading.Thread(target=work, args=(ci, reserved, hs)) for ci, (reserved, hs) in enumerate(chunks)]
    for t in ths:
        t.start()
    for t in ths:
        t.join()
    res.cov["trace_chunks"] = len(chunks)
    # TLC leaves a trace-exploration spec next to the module for every rejected history; the rejection is reported above
    import glob
    for f in glob.glob(os.path.join(SPEC, "InternAbsTrace_TTrace_*")):
        try:
            os.remove(f)
        except OSError:
            pass

def validate_chunk(res, wd, hs, reserved, tag):
    consts = ("CONSTANT Threads = {0, 1, 2, 3, 4, 5, 6, 7, 8}\nCONSTANT Values = {}\nCONSTANT Indices = {}\n"
              "CONSTANT NilIndices <- %s\nCONSTANT Mode = \"%%s\"" % ("NilRefs" if reserved else "NoRefs"))
    start = 0; rnd = 0; rejected = 0
    while start < len(hs):
        if rejected >= 3:
            with res._lock:
                res.cov.setdefault("notes", []).append("%s: validation stopped after %d rejected histories; %d histories were not validated"
                                                       % (tag, rejected, len(hs) - start))
            break
        events = []; owner = []
        for hi in range(start, len(hs)):
            owner += [hi] * len(hs[hi][1])
            events += rebase(hs[hi][1], len(events))
        name = "%s_%d" % (tag, rnd); rnd += 1
        acc, consumed, r = tracecheck.validate("InternAbsTrace", events, wd, name, constants=consts % "eager", timeout=2400)
        res.count("trace_events", len(events) if acc else consumed)
        if acc is None:
            with res._lock:
                res.infra_errors.append("trace validation failed to run: " + str(r["error"])[:3000])
            return
        with res._lock:
            res.add_tlc(r)
        if acc:
            res.count("traces_validated_against_impl", len(hs) - start)
            break
        hi = owner[min(consumed, len(events) - 1)]
        res.count("traces_validated_against_impl", hi - start)
        # the fast path rejected this history: decide with the complete linearization search
        desc, hev, job = hs[hi]
        acc2, cons2, r2 = tracecheck.validate("InternAbsTrace", hev, wd, name + "_general", constants=consts % "general", timeout=1200)
        if acc2 is None:
            with res._lock:
                res.infra_errors.append("general trace validation of a rejected history failed to run: " + str(r2["error"])[:3000])
            return
        with res._lock:
            res.add_tlc(r2)
        if acc2:
            res.count("eager_fallbacks"); res.count("traces_validated_against_impl")
            with res._lock:
                ex = res.cov.setdefault("eager_fallback_examples", [])
                if len(ex) < 3:
                    ex.append({"history": desc, "eager stopped at": _short(events[min(consumed, len(events) - 1)])})
        else:
            rejected += 1
            at = min(cons2, len(hev) - 1)
            path = _save(wd, "rejected_%s_%d" % (tag, hi), [job, "# " + desc] + ["# " + repr(e) for e in hev])
            with res._lock:
                res.violations.append(("history of the real interning table rejected by spec/InternAbs.tla at event %d %s (%s; preceding events %s)"
                                       % (at + 1, _short(hev[at]), desc, [_short(e) for e in hev[max(0, at - 8):at]]), path))
        start = hi + 1

def _short(e):
    if e.get("e") == "iend" and len(e["xs"]) > 12:
        return dict(e, xs=e["xs"][:12] + ["... %d entries" % len(e["xs"])])
    return e

def _save(wd, name, lines):
    path = os.path.join(wd, name + ".txt")
    with open(path, "w") as f:
        f.write("\n".join(lines) + "\n")
    return path

def run(tier, replay_path=None):
    res = Result("C31", tier)
    wd = workdir("C31")
    drv = build.harness_cxx(os.path.join(HARNESS, "flydrv.cpp"), os.path.join(BUILD, "harness", "flydrv"))
    if replay_path:
        # a saved job of the cooperative driver (one line), or the command line of a real-thread stress run
        text = open(replay_path).read()
        first = text.split("\n")[0].split(" ")
        if "stress" in first:
            p = subprocess.run([drv] + first[first.index("stress"):], capture_output=True, text=True)
            print("\n".join(x for x in p.stdout.split("\n") if x.startswith("J ")))
        else:
            p = subprocess.run([drv, "coop"], input=text.split("\n")[0] + "\n", capture_output=True, text=True)
            print(p.stdout)
        print("driver rc=%d %s" % (p.returncode, p.stderr[-2000:])); return 0
    quick = tier == "quick"
    # developer switch for mutation experiments on a scratch copy of the headers (the model checking of the specs does not
    # depend on the headers): C31_ONLY=replay,random,stress
    parts = set(os.environ.get("C31_ONLY", "mc,replay,random,stress").split(","))
    lock = threading.Lock()
    phases = res.cov.setdefault("phase_seconds", {})
    def phase(name, t0):
        phases[name] = round(time.time() - t0, 1)
    # S: the abstract spec says what C31 says; the implementation-shaped spec has the properties and refines it
    t0 = time.time()
    r = tlc.run_tlc(os.path.join(SPEC, "MC_InternAbs.tla"), os.path.join(SPEC, "MC_InternAbs.cfg"), os.path.join(wd, "abs"), timeout=900, workers=4) \
        if "mc" in parts else {"violated": None, "ok": False, "error": "skipped (C31_ONLY)"}
    if "mc" not in parts:
        pass
    elif r["violated"]:
        res.infra_errors.append("spec/InternAbs.tla does not have the properties C31 states: " + str(r["violated"]))
    elif not r["ok"]:
        res.infra_errors.append("MC_InternAbs: " + str(r["error"]))
    else:
        res.add_tlc(r)
        res.cov.setdefault("model_checks", []).append({"cfg": "MC_InternAbs.cfg", "distinct": r["distinct"], "generated": r["generated"],
                                                       "depth": r["depth"], "seconds": round(time.time() - t0, 1)})
    cfgs = ["MC_Flyweight2g.cfg", "MC_Flyweight2m.cfg", "MC_Flyweight2c.cfg", "MC_Flyweight3q.cfg"]
    if not quick:
        cfgs += ["MC_Flyweight3.cfg", "MC_Flyweight3g.cfg", "MC_Flyweight3v.cfg", "MC_Flyweight2mf.cfg"]
    if "mc" not in parts:
        cfgs = []
    per = max(2, NCPU // (4 if quick else 3))
    ths = [threading.Thread(target=model_check, args=(res, wd, c, lock), kwargs={"workers": per, "heap": "6g" if quick else "12g"}) for c in cfgs]
    for t in ths[:4]:
        t.start()
    # R + T (the driver work overlaps the model checking)
    histories = []
    t1 = time.time()
    rcfgs = (["MC_Flyweight2gr.cfg", "MC_Flyweight2mr.cfg"] + ([] if quick else ["MC_Flyweight2cr.cfg"])) if "replay" in parts else []
    hist_of = {c: [] for c in rcfgs}
    rths = [threading.Thread(target=replay, args=(res, wd, c, drv, 800 if quick else None, hist_of[c])) for c in rcfgs]
    for t in rths:
        t.start()
    for t in rths:
        t.join()
    for c in rcfgs:
        histories += hist_of[c]
    phase("replay", t1); t1 = time.time()
    if "random" in parts:
        random_schedules(res, wd, drv, 1000 if quick else 8000, histories)
    phase("random_schedules", t1); t1 = time.time()
    if "stress" in parts:
        stress(res, wd, drv, 30 if quick else 60, 100 if quick else 200, histories, rounds=1 if quick else 3, timeout=600 if quick else 2400)
    phase("stress", t1); t1 = time.time()
    for t in ths[:4]:
        t.join()
    phase("model_checking_quick_configs(parallel, from start)", t0)
    for t in ths[4:]:
        t.start()
    t1 = time.time()
    validate(res, wd, histories)
    phase("trace_validation", t1)
    for t in ths[4:]:
        t.join()
    taken = res.cov.pop("_taken", set())
    never = [a for a in ACTIONS if a not in taken]
    if never and not res.violations and "mc" in parts:
        res.infra_errors.append("vacuity: actions of FlyweightImpl never taken in any configuration: %s" % never)
    st = [h for h in histories if h[0].startswith("real-thread")]
    if st:
        res.sample({"stress job": st[0][0], "first events": [_short(e) for e in st[0][1][:12]]})
    res.sample({"spec": "FlyweightImpl.tla refines InternAbs.tla", "configs": cfgs})
    return finish(res, "model_checking", assumptions=[
        "the cooperative scheduler serialises threads at the SOUFFLE_VERIF scheduling points: C++ memory-model effects (relaxed orderings, "
        "the non-atomic Slots/Handles accesses) are only sampled by the real-thread stress",
        "iteration is validated on a quiescent table and for an iterator that is advanced between calls (across growth); an iterator racing "
        "with insertions of other threads is outside the property text and not judged",
        "model bounds: 2-3 threads, 2-3 lanes (distinct and shared), 2-3 values, initial capacity 1-2, 1-2 initial buckets (the real constructor "
        "makes >= 13 buckets; the harness shrinks BucketCount/MaxSizeBeforeGrow so that the map grows at once)"])
