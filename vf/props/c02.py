"""C02 - compiled programs (single file -c / -g, multi file -C) agree with the model (and hence the interpreter)."""
from .. import gen, evalprop

def configs(P, rng):
    return [{"name": "interpreter", "args": ["-j1"]},
            {"name": "compiled -c", "args": ["-j1"], "compile": True, "compile_mode": "-o"},
            {"name": "compiled multi-file -C", "args": ["-j1"], "compile": True, "compile_mode": "-C"}]

def run(tier, replay=None):
    return evalprop.run_eval("C02", tier, lambda s, n: gen.programs(s, n), configs,
                             ["the C++ compiler is trusted"], n=(5, 60), max_cases=(12, 64))
