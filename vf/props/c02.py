"""C02 - compiled programs (single file -c / -g, multi file -C) agree with the model (and hence the interpreter)."""
from .. import gen, evalprop

def configs(P, rng):
    return [{"name": "interpreter", "args": ["-j1"]},
            {"name": "compiled -c", "args": ["-j1"], "compile": True, "compile_mode": "-o"},
            {"name": "compiled multi-file -C", "args": ["-j1"], "compile": True, "compile_mode": "-C"}]

def post(res, Ps, cases, wd):
    """T for compiled code (hook H6): the generated executable's statement trace is validated against spec/Ram.tla
    executing the same RAM program (programs inside the RAM-machine fragment)."""
    import random, concurrent.futures as cf
    from .. import ramcheck
    from ..common import seed
    sel = [i for i, P in enumerate(Ps) if cases[i] and not P.get("types")][: (2 if res.tier == "quick" else 16)]
    with cf.ThreadPoolExecutor(4) as ex:
        sts = list(ex.map(lambda i: ramcheck.check_compiled(Ps[i], cases[i], wd, "trace_p%d" % i, res, "C02", n_traces=6,
                                                            rng=random.Random(seed() + i)), sel))
    res.cov["compiled_trace_status"] = {k: sum(1 for s in sts if s["status"] == k) for k in set(s["status"] for s in sts)}

def programs(s, n):
    # the second half avoids record/ADT types so that the compiled traces can be validated by spec/Ram.tla
    return gen.programs(s, n - n // 2) + gen.programs(s + 1, n // 2, features=[f for f in gen.ALL_FEATURES if f not in ("rec", "adt")])

def run(tier, replay=None):
    return evalprop.run_eval("C02", tier, programs, configs,
                             ["the C++ compiler is trusted", "compiled statement traces are validated for programs without record/ADT types at -j1"],
                             n=(5, 60), max_cases=(12, 64), post=post)
