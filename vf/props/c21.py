"""C21 - the embedding API of a compiled program (SouffleInterface.h + generated class + RelationWrapper).
S: TLC checks spec/Api.tla (state = relation |-> tuples of the program object; one action per API call; run() = the
   evaluation of spec/Datalog.tla started from the current contents) for a handful of small programs over a 2-tuple
   universe per input relation and call sequences of bounded length: run only adds, is idempotent, an object holding
   only inputs evaluates to Datalog's model, purging and re-running reproduces an exact result.
R: TLC's state graph is dumped; walks covering every transition are replayed by harness/apidrv.cpp (linked against
   the C++ that `souffle -g` generates) on souffle::ProgramFactory::newInstance; every return value (contains, size,
   iteration, files written by printAll/runAll) and, after every state-changing call, the size and iteration of every
   relation are compared with the spec's state.
E: file-based run = API run: for programs of the seeded generator TLC computes the model for every EDB of the bounded
   space (Datalog.tla; the pure operator used by Api.tla is checked against the state machine); sampled EDBs are
   inserted through the API, run, and outputs / sizes / membership / iteration compared with the model, then purged
   and re-run, then loaded from fact files by runAll on a new object."""
import json, os, random, re, shutil, subprocess, concurrent.futures as cf
from .. import build, tlc, graphwalk, tlaval, gen, render, apigen, evalcore
from ..common import workdir, seed, Result, SPEC, HARNESS, BUILD, REPO, NCPU, run as sh, write_data, log, canon
from ..evidence import finish

PID = "C21"
MUTATORS = {"Insert", "Run", "RunPrune", "LoadAll", "RunAll", "PurgeInputRelations", "PurgeOutputRelations",
            "PurgeInternalRelations"}
ACTIONS = MUTATORS | {"Contains", "Size", "Iterate", "PrintAll"}

# ---- building: souffle -g, then the compiler flags souffle itself uses (souffle-compile.py), plus the driver --------
def cxx_conf():
    txt = open(os.path.join(os.path.dirname(build.SOUFFLE), "souffle-compile.py")).read()
    m = re.search(r'JSON_DATA_TEXT = """(.*?)"""', txt, re.S)
    return json.loads(m.group(1))

def cxx_cmd(conf):
    inc = ["-I" + os.path.join(REPO, "src", "include")] + \
          [x for x in conf["includes"].split() if not x.rstrip("/").endswith("src/include")]
    return ["ccache", conf["compiler"]] + conf["definitions"].split() + conf["compile_options"].split() + inc + \
           [conf["std_flag"]] + conf["cxx_flags"].split() + conf["release_cxx_flags"].split() + ["-D__EMBEDDED_SOUFFLE__"]

def link_args(conf):
    return conf["link_options"].split() + ["-Wl,-rpath," + p for p in conf["rpaths"].split(conf["path_delimiter"]) if p]

def souffle_g(cpp, dl, cwd):
    """souffle -g; retried while the binary is being relinked by a concurrent check (ETXTBSY / EACCES on exec)."""
    import time
    for attempt in range(40):
        try:
            return sh([build.SOUFFLE, "-j1", "-g", cpp, dl], timeout=300, cwd=cwd)
        except OSError as ex:
            last = ex
            time.sleep(5)
    return 126, "", "cannot execute %s: %s" % (build.SOUFFLE, last)

def build_driver(conf, wd):
    obj = os.path.join(wd, "apidrv.o")
    rc, o, e = sh(cxx_cmd(conf) + ["-c", os.path.join(HARNESS, "apidrv.cpp"), "-o", obj], env=build.env(), timeout=900)
    if rc != 0:
        log(e[-4000:])
        raise SystemExit("INFRA: harness/apidrv.cpp failed to compile against /repo headers")
    return obj

def build_program(P, pdir, conf, drv_obj):
    """souffle -g <id>.cpp <id>.dl, compile with the driver.  Returns (exe, None) or (None, error text)."""
    os.makedirs(pdir, exist_ok=True)
    name = P["id"]
    dl = os.path.join(pdir, name + ".dl")
    with open(dl, "w") as f:
        f.write(render.program(P))
    cpp = os.path.join(pdir, name + ".cpp")
    rc, o, e = souffle_g(cpp, dl, pdir)
    if rc != 0 or not os.path.exists(cpp):
        return None, "souffle -g failed rc=%s: %s" % (rc, (e or o)[-1500:])
    exe = os.path.join(pdir, name + ".exe")
    rc, o, e = sh(cxx_cmd(conf) + [cpp, drv_obj, "-o", exe] + link_args(conf), env=build.env(), timeout=1500)
    if rc != 0 or not os.path.exists(exe):
        return None, "compiling the generated C++ of %s with the embedding driver failed rc=%s: %s" % (dl, rc, e[-1500:])
    return exe, None

def exposed_relations(P, pdir):
    """names registered by the generated class (addRelation calls of `souffle -g`), or None."""
    os.makedirs(pdir, exist_ok=True)
    dl = os.path.join(pdir, P["id"] + ".dl"); cpp = os.path.join(pdir, P["id"] + ".cpp")
    with open(dl, "w") as f:
        f.write(render.program(P))
    rc, o, e = souffle_g(cpp, dl, pdir)
    if rc != 0 or not os.path.exists(cpp):
        return None
    return set(re.findall(r'^addRelation\("([^"]*)"', open(cpp).read(), re.M))

# ---- values <-> driver text -------------------------------------------------------------------------------------
def esc(s):
    return s.replace("\\", "\\\\").replace("\t", "\\t").replace("\n", "\\n")

def unesc(s):
    return re.sub(r"\\(.)", lambda m: {"t": "\t", "n": "\n"}.get(m.group(1), m.group(1)), s)

def plain(types):
    return all(t in ("i", "s") for t in types)

def call_line(cmd, rel, types, tup):
    return "\t".join([cmd, rel] + [esc(v) if t == "s" else str(v) for t, v in zip(types, tup)])

def parse_row(fields, types):
    """fields of a `t` line of the driver -> tuple of python values (raw '#n' text for record / ADT columns)."""
    return tuple(unesc(v) if t == "s" else (int(v) if t == "i" else v) for t, v in zip(types, fields))

def tup(t):
    return tuple(tuple(x) if isinstance(x, list) else x for x in t)

class Out:
    """Sequential reader of the driver's output."""
    def __init__(self, text):
        self.lines = text.split("\n"); self.pos = 0
    def next(self):
        if self.pos >= len(self.lines):
            return ""
        l = self.lines[self.pos]; self.pos += 1
        return l
    def rows(self, n, types):
        out = []
        for _ in range(n):
            f = self.next().split("\t")
            out.append(parse_row(f[1:], types))
        return out
    def snapshot(self, P):
        """-> {rel: (size, [rows])}"""
        head = self.next().split(" ")
        assert head[0] == "snap", head
        res = {}
        for _ in range(int(head[1])):
            f = self.next().split("\t")
            assert f[0] == "rel", f
            res[f[1]] = (int(f[2]), self.rows(int(f[3]), reltypes(P, f[1])))
        return res
    def files(self):
        """-> {file name: [raw lines]}"""
        head = self.next().split(" ")
        assert head[0] == "files", head
        res = {}
        for _ in range(int(head[1])):
            f = self.next().split(" ")
            res[f[1]] = [self.next()[2:] for _ in range(int(f[2]))]
        return res

def reltypes(P, name):
    for r in P["rels"]:
        if r["name"] == name:
            return r["types"]
    return []

def file_rows(P, rel, lines):
    """lines of an output file -> list of canonical tuples (render.read_output's reading of a file)."""
    r = next(x for x in P["rels"] if x["name"] == rel)
    rows = []
    for line in lines:
        if r["arity"] == 0:
            if line.strip() == "()":
                rows.append(())
            continue
        if line == "" and r["arity"] != 1:
            continue
        parts = line.split("\t")
        if len(parts) != r["arity"]:
            raise render.ParseError("arity mismatch in output of %s: %r" % (rel, line))
        rows.append(tup([render.parse_field(parts[i], r["types"][i], P) for i in range(r["arity"])]))
    return rows

def cmp_rows(what, rows, want, size=None):
    """real iteration `rows` (list) against the spec's set `want`; returns a description or None."""
    want = set(tup(t) for t in want)
    got = set(rows)
    if len(got) != len(rows):
        return "%s: the iteration lists a tuple twice: %s" % (what, sorted(x for x in got if rows.count(x) > 1)[:4])
    if got != want:
        return "%s: iterated tuples differ from the spec: missing %s, unexpected %s" % (
            what, sorted(want - got, key=repr)[:5], sorted(got - want, key=repr)[:5])
    if size is not None and size != len(rows):
        return "%s: size() = %d but %d tuples are iterated (spec: %d)" % (what, size, len(rows), len(want))
    return None

def cmp_snapshot(P, snap, db, obs=None):
    for r in P["rels"]:
        name = r["name"]
        if name not in snap:
            return "relation %s is not exposed by getAllRelations()" % name
        size, rows = snap[name]
        if obs is not None and size != obs[name]["n"]:
            return "relation %s: size() = %d, spec %d (iterated %d)" % (name, size, obs[name]["n"], len(rows))
        d = cmp_rows("relation " + name, rows, db[name], size)
        if d:
            return d
    return None

def cmp_files(P, files, db):
    for r in P["rels"]:
        if not r["output"]:
            continue
        fn = r["name"] + ".csv"
        if fn not in files:
            return "output file %s was not written" % fn
        try:
            rows = file_rows(P, r["name"], files[fn])
        except render.ParseError as e:
            return str(e)
        d = cmp_rows("file " + fn, rows, db[r["name"]])
        if d:
            return d
    return None

# ---- S + graph ---------------------------------------------------------------------------------------------------
def model_graph(res, wd, Ps, depth):
    d = os.path.join(wd, "api")
    write_data(d, "DatalogData", {"Programs": [apigen.strip_for_api(P) for P in Ps]})
    cfg = os.path.join(d, "MC_Api.cfg")
    with open(cfg, "w") as f:
        f.write(open(os.path.join(SPEC, "MC_Api.cfg")).read().replace("MaxDepth = 5", "MaxDepth = %d" % depth))
    dot = os.path.join(d, "graph.dot")
    r = tlc.run_tlc(os.path.join(SPEC, "MC_Api.tla"), cfg, d, timeout=2400, lib=d, heap="12g",
                    extra=["-dump", "dot,actionlabels", dot])
    if r["violated"]:
        res.infra_errors.append("spec-level law %s of Api.tla violated (spec bug, not souffle): %s" % (r["violated"], r["out"][-2500:]))
        return None
    if not r["ok"]:
        res.infra_errors.append(r["error"] or "tlc failed"); return None
    res.add_tlc(r)
    g = graphwalk.Graph(dot)
    never = sorted(ACTIONS - set(e[2] for e in g.edges))
    if never or set(e[2] for e in g.edges) - ACTIONS:
        res.infra_errors.append("vacuity / labelling: actions never taken %s, unknown edge labels %s"
                                % (never, sorted(set(e[2] for e in g.edges) - ACTIONS)))
    return g

def edge_param(e):
    if e[3] is None:
        return []
    return tlaval.parse("<<" + e[3].replace('\\"', '"').replace("\\\\", "\\") + ">>")

def walk_calls(g, P, walk, fdir, odir):
    """-> list of (driver lines, kind, edge index)."""
    calls = []
    for i in walk:
        e = g.edges[i]; a = e[2]; p = edge_param(e)
        if a == "Insert":
            lines = [call_line("insert", p[0], reltypes(P, p[0]), P["univ"][p[0]][p[1] - 1])]
        elif a == "Contains":
            lines = [call_line("contains", p[0], reltypes(P, p[0]), P["probe"][p[0]][p[1] - 1])]
        elif a == "Size":
            lines = ["size\t" + p[0]]
        elif a == "Iterate":
            lines = ["iterate\t" + p[0]]
        elif a == "PrintAll":
            lines = ["printall\t" + odir]
        elif a == "RunAll":
            lines = ["runall\t%s\t%s" % (fdir, odir)]
        elif a == "LoadAll":
            lines = ["loadall\t" + fdir]
        else:
            lines = [{"Run": "run", "RunPrune": "runprune", "PurgeInputRelations": "purge_in",
                      "PurgeOutputRelations": "purge_out", "PurgeInternalRelations": "purge_int"}[a]]
        if a in MUTATORS:
            lines.append("snapshot")
        calls.append((lines, a, i))
    return calls

def check_rels(P, out):
    """`rels` answer of the driver against the declarations; returns description or None."""
    head = out.next().split(" ")
    assert head[0] == "rels", head
    have = {}
    for _ in range(int(head[1])):
        f = out.next().split("\t")
        have[f[1]] = (f[2], int(f[3]))
    for r in P["rels"]:
        want = ("i" if r["input"] else "-") + ("o" if r["output"] else "-")
        if r["name"] not in have:
            return "relation %s is not exposed by the program object" % r["name"]
        if have[r["name"]] != (want, r["arity"]):
            return "relation %s is registered as %s, declared %s" % (r["name"], have[r["name"]], (want, r["arity"]))
    extra = sorted(set(have) - {r["name"] for r in P["rels"]})
    if extra:
        return "the program object has relations the program does not declare (introduced by the compiler, not modelled): %s" % extra
    return None

def replay_program(res, g, P, pi, exe, wd, max_walks, rng):
    """Replays covering walks of program number pi (1-based) of the graph.  Returns (walks, calls compared)."""
    inits = [s for s in g.inits if g.state(s)["prog"] == pi]
    walks = [(s, w) for s, w in g.walks if s in inits]
    if max_walks and len(walks) > max_walks:
        walks = rng.sample(walks, max_walks)
    pdir = os.path.dirname(exe)
    fdir = os.path.join(pdir, "facts"); odir = os.path.join(pdir, "out")
    render.write_facts(P, P["files"], fdir)
    os.makedirs(odir, exist_ok=True)
    script = []; plan = []
    for s, w in walks:
        calls = walk_calls(g, P, w, fdir, odir)
        script.append("new"); script.append("rels")
        for lines, a, i in calls:
            script += lines
        plan.append((s, calls))
    p = subprocess.run([exe, P["id"]], input="\n".join(script) + "\n", capture_output=True, text=True, timeout=1800,
                       errors="surrogateescape")
    if p.returncode != 0:
        path = save_replay(wd, P, "driver_crash", script, "driver died rc=%d: %s" % (p.returncode, p.stderr[-600:]))
        res.violations.append(("[%s] the embedding driver died (rc=%d) while replaying call sequences: %s"
                               % (P["id"], p.returncode, p.stderr[-600:]), path))
        return 0, 0
    out = Out(p.stdout)
    ncalls = 0; drift = 0; ok_walks = 0; nviol = 0
    for wi, (s, calls) in enumerate(plan):
        assert out.next() == "ok"
        bad = check_rels(P, out)
        if bad:
            res.infra_errors.append("[%s] %s (the hand-written program was changed by an optimisation? pick another)" % (P["id"], bad))
            return ok_walks, ncalls
        hist = ["new"]
        mismatch = None
        for lines, a, i in calls:
            e = g.edges[i]; src = g.state(e[0]); dst = g.state(e[1]); p_ = edge_param(e)
            hist += lines
            d = None; binding = dst["exact"]
            if a in MUTATORS:
                first = out.next() if a != "RunAll" else None
                if a == "RunAll":
                    files = out.files()
                    d = cmp_files(P, files, dst["db"])
                elif first != "ok":
                    d = "call answered %r" % first
                snap = out.snapshot(P)
                d = d or cmp_snapshot(P, snap, dst["db"], dst["obs"])
            elif a == "Contains":
                ans = out.next(); want = src["obs"][p_[0]]["has"][p_[1] - 1]
                if ans != "b %d" % (1 if want else 0):
                    d = "contains(%s) on %s answered %r, spec %s (the relation holds %s)" % (
                        P["probe"][p_[0]][p_[1] - 1], p_[0], ans, want, src["db"][p_[0]])
            elif a == "Size":
                ans = out.next()
                if ans != "n %d" % src["obs"][p_[0]]["n"]:
                    d = "size() of %s answered %r, spec %d" % (p_[0], ans, src["obs"][p_[0]]["n"])
            elif a == "Iterate":
                head = out.next().split(" ")
                rows = out.rows(int(head[1]), reltypes(P, p_[0]))
                d = cmp_rows("iterating " + p_[0], rows, src["db"][p_[0]])
            elif a == "PrintAll":
                d = cmp_files(P, out.files(), src["db"])
            ncalls += 1
            if d and not mismatch:
                mismatch = (d, binding, list(hist), a)
        if mismatch:
            d, binding, hist, a = mismatch
            desc = "[%s] after the call sequence %s: %s" % (P["id"], " ; ".join(x.replace("\t", " ") for x in hist if x != "snapshot"), d)
            if binding:
                nviol += 1
                if nviol <= 5:           # the first few per program; the rest are counted
                    res.violations.append((desc, save_replay(wd, P, "walk%d" % wi, hist, d)))
                else:
                    res.count("further_violating_walks_not_listed")
            else:
                drift += 1
                if drift <= 3:
                    print("MODEL-DRIFT property=C21 (state outside the property's text: a run on stale derived relations) " + desc[:900], flush=True)
        else:
            ok_walks += 1
    res.count("model_drift_walks", drift)
    if plan:
        s, calls = max(plan, key=lambda x: len(x[1]))
        res.sample({"program": P["id"], "text": render.program(P), "replayed call sequence (one of %d)" % len(plan):
                    [x.replace("\t", " ") for lines, a, i in calls for x in lines if x != "snapshot"][:40],
                    "spec state at its end": {k: v for k, v in g.state(g.edges[calls[-1][2]][1]).items() if k != "obs"}}, limit=4)
    return ok_walks, ncalls

def save_replay(wd, P, name, calls, desc):
    d = os.path.join(wd, "replay"); os.makedirs(d, exist_ok=True)
    path = os.path.join(d, "%s_%s.json" % (P["id"], name))
    with open(path, "w") as f:
        json.dump({"property": PID, "program": P, "dl": render.program(P), "calls": calls, "desc": desc}, f, indent=1)
    return path

# ---- E: file-based run = API run on generator programs --------------------------------------------------------------
def tlc_models(Ps, wd, res):
    """evalcore.tlc_models with MC_ApiModel (adds the invariant that ModelOf agrees with the state machine)."""
    cases = [[] for _ in Ps]
    d = os.path.join(wd, "models")
    write_data(d, "DatalogData", {"Programs": [gen.strip_for_tlc(P) for P in Ps]})
    r = tlc.run_tlc(os.path.join(SPEC, "MC_ApiModel.tla"), os.path.join(SPEC, "MC_ApiModel.cfg"), d, timeout=2400, lib=d)
    if not r["ok"]:
        res.infra_errors.append(("spec-level property %s of Datalog.tla violated (spec bug, not souffle): %s"
                                 % (r["violated"], r["out"][-1500:])) if r["violated"] else (r["error"] or "tlc failed"))
        return cases
    res.add_tlc(r)
    for j in r["json"]:
        if j.get("tag") == "MODEL":
            cases[j["p"] - 1].append(j)
    return cases

def edb_script(P, case, others, fdir, odir, rng):
    """Call sequence for one EDB and what to expect after each call: list of (line, check) with check =
    None | ("snap", db) | ("b", bool, rel, tuple) | ("files", db)."""
    full = case["full"]
    steps = [("new", None)]
    for r in P["rels"]:
        if r["input"]:
            for t in case["edb"].get(r["name"], []):
                steps.append((call_line("insert", r["name"], r["types"], t), None))
    steps.append(("run", None)); steps.append(("snapshot", ("snap", full)))
    for r in P["rels"]:
        if not plain(r["types"]) or r["arity"] == 0:
            continue
        mem = [tup(t) for t in full[r["name"]]]
        non = sorted({tup(t) for o in others for t in o["full"][r["name"]]} - set(mem), key=repr)
        for t in rng.sample(mem, min(4, len(mem))):
            steps.append((call_line("contains", r["name"], r["types"], t), ("b", True, r["name"], t)))
        for t in rng.sample(non, min(3, len(non))):
            steps.append((call_line("contains", r["name"], r["types"], t), ("b", False, r["name"], t)))
    steps.append(("printall\t" + odir, ("files", full)))
    steps += [("purge_out", None), ("purge_int", None), ("run", None), ("snapshot", ("snap", full))]
    steps += [("new", None), ("runall\t%s\t%s" % (fdir, odir), ("files", full)), ("snapshot", ("snapout", full))]
    return steps

def snap_vs_model(P, snap, full, outputs_only=False):
    for r in P["rels"]:
        name = r["name"]
        if name not in snap or (outputs_only and not r["output"]):
            continue           # an internal relation may be optimised away; what is exposed must be right
        size, rows = snap[name]
        if plain(r["types"]):
            d = cmp_rows("relation " + name, rows, full[name], size)
        else:                  # record / ADT columns are raw references here; their values are compared through printAll
            d = None
            if len(set(rows)) != len(rows):
                d = "relation %s: the iteration lists a tuple twice" % name
            elif not (size == len(rows) == len(full[name])):
                d = "relation %s: size() = %d, %d tuples iterated, the model has %d" % (name, size, len(rows), len(full[name]))
        if d:
            return d
    return None

def run_edb_cases(res, P, cases, exe, wd, ncases, rng):
    usable = [c for c in cases if not c["oob"]]
    res.count("cases_outside_value_domain", len(cases) - len(usable))
    if not usable:
        return 0
    picked = usable if len(usable) <= ncases else [usable[i] for i in sorted(rng.sample(range(len(usable)), ncases))]
    pdir = os.path.dirname(exe)
    odir = os.path.join(pdir, "out"); os.makedirs(odir, exist_ok=True)
    # relations the program object exposes: an input relation no output depends on is removed by the compiler
    # (getRelation() = nullptr); its tuples cannot be inserted and do not matter for the outputs
    p0 = subprocess.run([exe, P["id"]], input="new\nrels\n", capture_output=True, text=True, timeout=300)
    exposed = set(re.findall(r"^r\t([^\t]*)\t", p0.stdout, re.M))
    missing = [r["name"] for r in P["rels"] if r["name"] not in exposed]
    if any(r["output"] for r in P["rels"] if r["name"] in missing):
        res.violations.append(("[%s] output relation(s) %s are not exposed by the program object" % (P["id"], missing),
                               save_replay(wd, P, "rels", ["new", "rels"], "output relation missing")))
        return 0
    res.count("declared_relations_removed_by_the_compiler", len(missing))
    PX = dict(P); PX["rels"] = [r for r in P["rels"] if r["name"] in exposed]
    script = []; plans = []
    for k, c in enumerate(picked):
        fdir = os.path.join(pdir, "facts%d" % k)
        render.write_facts(P, c["edb"], fdir)
        steps = edb_script(PX, c, rng.sample(usable, min(6, len(usable))), fdir, odir, rng)
        plans.append((c, steps)); script += [s for s, _ in steps]
    p = subprocess.run([exe, P["id"]], input="\n".join(script) + "\n", capture_output=True, text=True, timeout=1800,
                       errors="surrogateescape")
    if p.returncode != 0:
        if evalcore.known_crash(res, PID, p.stderr):
            return 0
        res.violations.append(("[%s] the embedding driver died (rc=%d): %s" % (P["id"], p.returncode, p.stderr[-600:]),
                               save_replay(wd, P, "edb_crash", script, p.stderr[-600:])))
        return 0
    out = Out(p.stdout)
    done = 0
    hidden = set(P.get("hidden", []))
    for k, (c, steps) in enumerate(plans):
        hist = []; bad = None
        for line, chk in steps:
            hist.append(line)
            d = None
            if chk is None:
                ans = out.next()
                if ans != "ok":
                    d = "call %r answered %r" % (line, ans)
            elif chk[0] in ("snap", "snapout"):
                snap = out.snapshot(P)
                # relations the optimiser may rewrite (declared neither input nor output) are only checked for
                # consistency by the driver's own size/iteration agreement
                PV = dict(P); PV["rels"] = [r for r in P["rels"] if r["name"] not in hidden]
                d = snap_vs_model(PV, snap, chk[1], outputs_only=(chk[0] == "snapout"))
                for name in hidden:
                    if name in snap and snap[name][0] != len(snap[name][1]) and not d:
                        d = "relation %s: size() = %d but %d tuples iterated" % (name, snap[name][0], len(snap[name][1]))
            elif chk[0] == "b":
                ans = out.next()
                if ans != "b %d" % (1 if chk[1] else 0):
                    d = "contains(%s) on %s answered %r; the model says %s" % (list(chk[3]), chk[2], ans, chk[1])
            elif chk[0] == "files":
                d = cmp_files(P, out.files(), chk[1])
            if d and not bad:
                bad = (d, list(hist))
        if bad and len([1 for v in res.violations if v[0].startswith("[%s] EDB" % P["id"])]) >= 5:
            res.count("further_violating_walks_not_listed")
        elif bad:
            d, hist = bad
            res.violations.append(("[%s] EDB %s: after %s: %s" % (P["id"], c["edb"], " ; ".join(x.replace("\t", " ") for x in hist[-6:]), d),
                                   save_replay(wd, P, "edb%d" % k, hist, d)))
        else:
            done += 1
    c = picked[len(picked) // 2]
    res.sample({"program": P["id"], "features": P.get("features"), "text": render.program(P)[:1000], "edb": c["edb"],
                "model (TLC)": c["model"], "calls": "insert* run snapshot contains* printall purge_out purge_int run snapshot new runall snapshot"}, limit=6)
    return done

# ---- entry ---------------------------------------------------------------------------------------------------------
def do_replay(path):
    j = json.load(open(path))
    P = j["program"]
    wd = workdir(PID + "_replay")
    build.ensure_souffle()
    conf = cxx_conf()
    exe, err = build_program(P, os.path.join(wd, P["id"]), conf, build_driver(conf, wd))
    if not exe:
        print(err); return 2
    p = subprocess.run([exe, P["id"]], input="\n".join(j["calls"]) + "\nsnapshot\n", capture_output=True, text=True)
    print(j["dl"]); print("\n".join(j["calls"])); print("---- driver output ----"); print(p.stdout); print(p.stderr[-2000:])
    print("expected: " + j["desc"])
    return 0

def run(tier, replay_path=None):
    if replay_path:
        return do_replay(replay_path)
    res = Result(PID, tier)
    wd = workdir(PID)
    build.ensure_souffle()
    quick = tier == "quick"
    rng = random.Random(seed() * 7919 + 21)
    conf = cxx_conf()
    # programs: hand-written API programs (+ generator programs as API programs in the thorough tier) and generator
    # programs for the EDB comparison
    api_ps = apigen.hand_programs(tier)
    gseed = seed() * 1000 + sum(map(ord, PID))
    gen_ps = gen.programs(gseed, 6 if quick else 40)
    if not quick:
        # generator programs as API programs: only those whose program object exposes exactly the declared relations
        # (a relation introduced by the compiler, e.g. +disconnected0 or __agg_single, keeps state Api.tla does not model)
        skipped = 0
        for P in gen.programs(gseed + 1, 60, features=[f for f in gen.ALL_FEATURES if f not in ("rec", "adt", "agg")], n_idb=(2, 3)):
            Q = apigen.from_generator(P, gseed)
            if Q is None or len(api_ps) >= 8:
                continue
            Q["id"] = "api_" + Q["id"]
            if exposed_relations(Q, os.path.join(wd, "probe_" + Q["id"])) == {r["name"] for r in Q["rels"]}:
                api_ps.append(Q)
            else:
                skipped += 1
        res.count("generator_api_programs_skipped_compiler_relations", skipped)
    drv_obj = build_driver(conf, wd)
    pool = cf.ThreadPoolExecutor(max(2, min(NCPU, 12)))
    futs = {P["id"]: pool.submit(build_program, P, os.path.join(wd, P["id"]), conf, drv_obj) for P in api_ps + gen_ps}
    # S + graph (TLC runs while the C++ compiles)
    import time
    t0 = time.time()
    g = model_graph(res, wd, api_ps, 4 if quick else 6)
    log("C21: Api.tla model checked + graph dumped in %.0f s" % (time.time() - t0)); t0 = time.time()
    cases = tlc_models(gen_ps, wd, res)
    log("C21: models of %d generator programs in %.0f s" % (len(gen_ps), time.time() - t0)); t0 = time.time()
    # R
    if g is not None:
        g.walks = g.covering_walks(max_len=60)
        res.cov["graph_states"] = len(g.labels); res.cov["graph_edges"] = len(g.edges)
        res.cov["covering_walks"] = len(g.walks)
        for pi, P in enumerate(api_ps, 1):
            exe, err = futs[P["id"]].result()
            if not exe:
                if evalcore.known_crash(res, PID, err):
                    continue
                res.violations.append(("[%s] %s" % (P["id"], err), save_replay(wd, P, "build", [], err)))
                continue
            w, c = replay_program(res, g, P, pi, exe, wd, None, rng)
            res.cov["traces_validated_against_impl"] += w
            res.count("api_calls_compared", c)
    log("C21: replay of %d walks done at +%.0f s (includes waiting for the C++ compiler)" % (res.cov.get("covering_walks", 0), time.time() - t0))
    # E
    nc = 8 if quick else 24
    edb_done = 0
    for i, P in enumerate(gen_ps):
        exe, err = futs[P["id"]].result()
        if not exe:
            if evalcore.known_crash(res, PID, err):
                continue
            res.violations.append(("[%s] %s" % (P["id"], err), save_replay(wd, P, "build", [], err)))
            continue
        if cases[i]:
            edb_done += run_edb_cases(res, P, cases[i], exe, wd, nc, random.Random(seed() * 1299709 + i))
    pool.shutdown()
    res.count("edb_cases_api_vs_model", edb_done)
    res.cov["traces_validated_against_impl"] += edb_done
    res.cov.update({"api_programs": len(api_ps), "generator_programs": len(gen_ps),
                    "edb_cases_modelled": sum(len(c) for c in cases)})
    return finish(res, "model_checking", assumptions=[
        "spec/Datalog.tla is the meaning of the programs; spec/Api.tla reads run() as its evaluation started from the current contents",
        "exhaustive only for the hand-written API programs over a 2-tuple universe per input relation and bounded call sequences; "
        "generator programs are sampled",
        "single-threaded use of one program object; the C++ compiler is trusted",
        "results of a run on stale derived relations (not fixed by the property text) are compared but only reported as MODEL-DRIFT"])
