"""C24 - intrinsic functors and binary constraints follow their value semantics, in the interpreter and in compiled code.

(S) spec/Functors.tla + Word32.tla + Dyadic.tla give the value of every FunctorOp / BinaryConstraintOp on its defined
    domain.  TLC (spec/MC_Functors.tla) enumerates boundary-value argument vectors per operator plus VERIF_SEED-seeded
    random vectors (generated data module), applies the spec and prints  op, args, result | outside-the-domain.
(R) Every vector inside the domain becomes a row of an input relation of a souffle program (one program per operand
    family; all vectors through fact files, a sample of them also as program-text facts); the program is run by the
    interpreter and as compiled code; each output row (id, arguments as transported, result) is compared with the spec.
    interpreter != spec, compiled != spec (hence interpreter != compiled) on a vector inside the domain is a VIOLATION,
    except the exact signatures listed in known_findings.json.
Python is glue: it chooses random inputs, renders values and decodes output text; it computes no expected result."""
import json, os, random, re, shutil, time, concurrent.futures as cf
from .. import build, tlc, known, functorvec as fv
from ..common import SPEC, REPO, workdir, seed, Result, write_data, log, NCPU
from ..common import run as sh
from ..evidence import finish

PID = "C24"
FAMILIES = ["signed", "unsigned", "float", "symbol", "frange"]     # one souffle program (compilation unit) each
K_TOSTRING = "compiled-to_string-ignores-type"
K_NEGZERO = "compiled-negative-zero-literal"
K_FRANGE = "compiled-float-range-arguments-not-bitcast"
# float operators that IEEE-754 / libm define on every argument: where the spec has no value (the exact result is not a
# binary32 normal number: rounding, overflow, underflow, non-integral exponent) the two back-ends must still agree
DIFF_OPS = {"FADD", "FSUB", "FMUL", "FDIV", "FEXP", "I2F", "U2F"}
SAMPLE_OPS = ["UDIV", "BSHIFT_R", "UMUL", "MOD", "UEXP", "UGT", "FSUB", "FDIV", "F2I", "S2F", "SUBSTR", "MATCH", "RANGE", "FMAX"]

def cj(x):
    return json.dumps(x, separators=(",", ":"))

def spec_vectors(wd, tier, res, per_op):
    d = os.path.join(wd, "tlc")
    rand = fv.random_vectors(seed() * 7919 + 24, per_op)
    write_data(d, "FunctorData", {"Tier": tier, "RandVecs": rand})
    r = tlc.run_tlc(os.path.join(SPEC, "MC_Functors.tla"), os.path.join(SPEC, "MC_Functors.cfg"), d, lib=d,
                    timeout=2400, env={"JAVA_TOOL_OPTIONS": "-Xss64m"})     # Word32's recursions are deep for TLC's evaluator
    if not r["ok"]:
        if r["violated"]:
            res.infra_errors.append("spec-level invariant %s of MC_Functors violated (a defect of the specification, not of "
                                    "souffle): %s" % (r["violated"], r["out"][-1500:]))
        else:
            res.infra_errors.append(r["error"] or "tlc failed")
        return None, r
    res.add_tlc(r)
    vecs = [j for j in r["json"] if isinstance(j, dict) and "op" in j]
    with open(os.path.join(d, "vectors.json"), "w") as f:          # what TLC said, kept for inspection
        json.dump(sorted(vecs, key=lambda v: (v["op"], len(v["a"]), cj(v["a"]))), f)
    return vecs, r

def plan(vecs, tier, res):
    """Instances to run: every vector inside the domain through the fact file ('file'), a sample also as a program-text
    fact ('text').  Returns dict family -> list of units {op, arity, inst: [instance]}."""
    rng = random.Random(seed() * 104729 + 24)
    ktext = 5 if tier == "quick" else 40
    groups = {}; diff = {}
    unknown = sorted({v["op"] for v in vecs} - set(fv.OPS))
    if unknown:
        res.infra_errors.append("MC_Functors.tla enumerates operators the renderer does not know: %s" % unknown)
    missing = sorted(set(fv.OPS) - {v["op"] for v in vecs})
    if missing:
        res.infra_errors.append("no vector was enumerated for operators %s" % missing)
    for v in sorted((v for v in vecs if v["op"] in fv.OPS), key=lambda v: (v["op"], len(v["a"]), cj(v["a"]))):
        res.count("vectors_enumerated")
        if not v["def"]:
            res.count("vectors_outside_spec_domain")
            if v["op"] in DIFF_OPS:      # IEEE defines these everywhere; the spec only lacks the (rounded) value
                res.count("float_vectors_without_specified_value_run_differentially")
                diff.setdefault((v["op"], len(v["a"])), []).append(v)
            continue
        groups.setdefault((v["op"], len(v["a"])), []).append(v)
    fams = {f: [] for f in FAMILIES}
    nid = 0
    for (op, arity), vs in sorted(groups.items()):
        ts = fv.argtypes(op, arity)
        insts = []
        for v in vs:
            nid += 1
            insts.append({"id": nid, "path": "file", "v": v})
        for v in diff.get((op, arity), []):
            nid += 1
            insts.append({"id": nid, "path": "file", "v": v, "diff": True})
        lit = [v for v in vs if all(fv.value_text(a, t, True) is not None for a, t in zip(v["a"], ts))]
        negz = [v for v in lit if any(a == ["zero", 1] for a in v["a"] if isinstance(a, list))]
        chosen = ([rng.choice(negz)] if negz else []) + rng.sample(lit, min(ktext, len(lit)))
        seen = set()
        for v in chosen:
            if cj(v["a"]) in seen:
                continue
            seen.add(cj(v["a"]))
            nid += 1
            insts.append({"id": nid, "path": "text", "v": v})
        fams[fv.family(op, arity)].append({"op": op, "arity": arity, "inst": insts})
    return fams

def write_family(wd, fam, units):
    d = os.path.join(wd, fam)
    os.makedirs(d, exist_ok=True)
    dl = os.path.join(d, fam + ".dl")
    with open(dl, "w") as f:
        f.write(fv.program([(u["op"], u["arity"], [(i["id"], i["v"]["a"]) for i in u["inst"] if i["path"] == "text"])
                            for u in units]))
    fv.write_facts(os.path.join(d, "facts"),
                   [(u["op"], u["arity"], [(i["id"], i["v"]["a"]) for i in u["inst"] if i["path"] == "file"]) for u in units])
    return d, dl

RUN_LIMIT = {"frange": 30}      # seconds; a float range that does not stop is a deviation, not an infrastructure problem

def run_backend(job):
    """-> (family, backend, out dir or None, error text)"""
    fam, backend, d, dl, facts = job
    out = os.path.join(d, "out_" + backend)
    shutil.rmtree(out, ignore_errors=True); os.makedirs(out)
    limit = RUN_LIMIT.get(fam, 900)
    if backend == "interpreter":
        rc, so, se = sh([build.SOUFFLE, "-F", facts, "-D", out, dl], timeout=limit + 60)
    else:
        exe = os.path.join(d, fam + ".exe")
        rc, so, se = sh([build.SOUFFLE, "-o", exe, dl], timeout=3000, env=build.env())
        if rc != 0 or not os.path.exists(exe):
            return fam, backend, None, "souffle -o failed rc=%s: %s" % (rc, se[-1500:])
        rc, so, se = sh([exe, "-F", facts, "-D", out], timeout=limit)
    if rc != 0:
        return fam, backend, None, "%s run %s: %s" % (backend, "did not finish within %d s" % limit if rc == -999 else
                                                      "failed rc=%s" % rc, "\n".join(
            l for l in se.splitlines() if not l.startswith("warning: wrong index position"))[-1500:])
    return fam, backend, out, None

def frange_args_not_bitcast(d):
    """The defect's mechanical signature: the generated C++ hands raw RamDomain tuple elements to runRange<RamFloat>."""
    cpp = os.path.join(d, "frange.exe.cpp")
    if not os.path.exists(cpp):
        return False
    with open(cpp, errors="replace") as f:
        return re.search(r"runRange<RamFloat>\((?!ramBitCast)", f.read()) is not None

def judge_instance(u, inst, rows):
    """Compare the rows a back-end produced for one instance with the spec.  -> (verdict, detail) with verdict in
    ok | transport | result ;  detail describes what was seen."""
    v = inst["v"]; k = v["k"]; ts = fv.argtypes(u["op"], u["arity"])
    rows = rows or []
    for args, _ in rows:
        if args != v["a"]:
            return "transport", {"arguments_seen": args}
    if k == "cmp":
        want = v["r"][0]
        if want and len(rows) != 1 or not want and rows:
            return "result", {"constraint_held": bool(rows)}
        return "ok", {"constraint_held": bool(rows)}
    got = [r for _, r in rows]
    if k == "gen":
        if sorted(cj(x) for x in got) != sorted(cj(x) for x in v["r"]) or len(set(cj(x) for x in got)) != len(got):
            return "result", {"values": got}
        return "ok", {"values": got}
    if len(got) != 1 or got[0] != v["r"][0]:
        return "result", {"values": got}
    return "ok", {"values": got}

def classify(u, inst, backend, verdict, detail, other_ok, ctx):
    """Signature of the known findings; None = not a known finding."""
    v = inst["v"]
    if backend == "compiled" and u["op"] == "FRANGE" and other_ok and ctx.get("frange_args_not_bitcast"):
        return K_FRANGE
    if backend == "compiled" and verdict == "result" and u["op"] in ("U2S", "F2S") and v["alt"] and other_ok \
            and detail.get("values") == [v["alt"][0]] and v["alt"][0] != v["r"][0]:
        return K_TOSTRING
    if backend == "compiled" and verdict == "transport" and inst["path"] == "text" and other_ok:
        seen = detail["arguments_seen"]
        diff = [(a, b) for a, b in zip(v["a"], seen) if a != b]
        if len(seen) == len(v["a"]) and diff and all(a == ["zero", 1] and b == ["zero", 0] for a, b in diff):
            return K_NEGZERO
    return None

def enumerators(path, enum):
    with open(path) as f:
        txt = f.read()
    body = re.search(r"enum class %s\s*\{(.*?)\};" % enum, txt, re.S).group(1)
    body = re.sub(r"//[^\n]*|/\*.*?\*/", "", body, flags=re.S)
    return [x.strip() for x in body.split(",") if x.strip()]

def check_enumerators(res):
    """Every FunctorOp / BinaryConstraintOp enumerator of the tree under test is specified or named as left out."""
    have = {{"UEQ": "EQ", "SEQ": "EQ", "UNE": "NE", "SNE": "NE"}.get(o, o) for o in fv.OPS}
    left_out = {"ORD"}
    ops = enumerators(os.path.join(REPO, "src", "FunctorOps.h"), "FunctorOp") + \
        enumerators(os.path.join(REPO, "src", "include", "souffle", "BinaryConstraintOps.h"), "BinaryConstraintOp")
    new = sorted(set(ops) - have - left_out)
    if new:
        res.infra_errors.append("enumerators of the tree under test that spec/Functors.tla does not cover: %s" % new)
    res.cov["enumerators_in_the_tree"] = len(ops)

def run(tier, replay=None):
    res = Result(PID, tier)
    build.ensure_souffle()
    wd = workdir(PID)
    if replay:
        return run_replay(res, wd, replay)
    check_enumerators(res)
    t0 = time.time()
    vecs, tr = spec_vectors(wd, tier, res, per_op=(10 if tier == "quick" else 1500))
    if vecs is None:
        return finish(res, "model_checking")
    log("C24: TLC evaluated %d vectors in %.0f s" % (len(vecs), time.time() - t0))
    fams = plan(vecs, tier, res)
    return execute(res, wd, fams, tier)

def execute(res, wd, fams, tier):
    jobs = []
    dirs = {}
    for fam in FAMILIES:
        if not fams.get(fam):
            continue
        d, dl = write_family(wd, fam, fams[fam])
        dirs[fam] = (d, dl)
        for backend in ("compiled", "interpreter"):
            jobs.append((fam, backend, d, dl, os.path.join(d, "facts")))
    outs = {}
    kf = known.load()
    ctx = {}
    frange_stuck = None
    with cf.ThreadPoolExecutor(max(2, min(10, NCPU // 2))) as pool:
        t0 = time.time()
        results = list(pool.map(run_backend, jobs))
        log("C24: %d programs compiled and run in both back-ends in %.0f s" % (len(dirs), time.time() - t0))
    if "frange" in dirs:
        ctx["frange_args_not_bitcast"] = frange_args_not_bitcast(dirs["frange"][0])
    for fam, backend, out, err in results:
        if err and fam == "frange" and backend == "compiled" and "did not finish" in err and \
                ctx.get("frange_args_not_bitcast") and known.is_listed(kf, PID, K_FRANGE):
            frange_stuck = err          # judged below, once the interpreter's rows are known to equal the spec
            outs[(fam, backend)] = None
            continue
        if err:
            rp = os.path.join(dirs[fam][0], "replay_%s.json" % backend)
            with open(rp, "w") as f:
                json.dump({"property": PID, "kind": "run", "family": fam, "backend": backend, "dl": dirs[fam][1],
                           "facts": os.path.join(dirs[fam][0], "facts"), "error": err}, f, indent=1)
            res.violations.append(("[%s] the %s program (only vectors inside the defined domain) did not run: %s"
                                   % (backend, fam, err), rp))
        outs[(fam, backend)] = out
    bad = {}            # (backend, op, arity, verdict) -> examples
    known_hits = {}
    judged = 0
    samples = {}
    for fam in FAMILIES:
        for u in fams.get(fam, []):
            rows = {}
            for backend in ("interpreter", "compiled"):
                out = outs.get((fam, backend))
                if out is None:
                    rows[backend] = None
                    continue
                try:
                    rows[backend] = fv.read_output(out, u["op"], u["arity"])
                except ValueError as e:
                    rows[backend] = None
                    bad.setdefault((backend, u["op"], u["arity"], "unparsable output"), []).append({"error": str(e)})
                    continue
                if rows[backend] is None:
                    bad.setdefault((backend, u["op"], u["arity"], "output file missing"), []).append({})
            ids = {i["id"] for i in u["inst"]}
            for backend in ("interpreter", "compiled"):
                if rows[backend] is not None:
                    extra = sorted(set(rows[backend]) - ids)
                    if extra:
                        bad.setdefault((backend, u["op"], u["arity"], "rows for unknown ids"), []).append({"ids": extra[:10]})
            for inst in u["inst"]:
                if inst.get("diff"):
                    if rows["interpreter"] is None or rows["compiled"] is None:
                        continue
                    ri = rows["interpreter"].get(inst["id"]) or []; rc = rows["compiled"].get(inst["id"]) or []
                    judged += 1; res.count("differential_only_comparisons")
                    if len(ri) != 1 or len(rc) != 1 or ri[0][0] != inst["v"]["a"] or rc[0][0] != inst["v"]["a"] or ri[0][1] != rc[0][1]:
                        bad.setdefault(("compiled", u["op"], u["arity"], "interpreter and compiled code disagree (no specified "
                                        "value: the exact result is not representable)"), []).append(
                            {"op": u["op"], "args": inst["v"]["a"], "id": inst["id"], "spec": [], "interpreter": ri, "compiled": rc})
                    elif "diff" not in samples:
                        samples["diff"] = (0, {"op": u["op"], "args": inst["v"]["a"], "spec": "no exact value (rounded): differential only",
                                               "interpreter": ri[0][1], "compiled": rc[0][1]})
                    continue
                verdicts = {}
                for backend in ("interpreter", "compiled"):
                    if rows[backend] is None:
                        continue
                    verdicts[backend] = judge_instance(u, inst, rows[backend].get(inst["id"]))
                    judged += 1
                for backend, (verdict, detail) in verdicts.items():
                    if verdict == "ok":
                        continue
                    other = "interpreter" if backend == "compiled" else "compiled"
                    other_ok = other in verdicts and verdicts[other][0] == "ok"
                    ex = {"op": u["op"], "args": inst["v"]["a"], "input_path": inst["path"], "id": inst["id"],
                          "spec": inst["v"]["r"], backend: detail,
                          other: verdicts[other][1] if other in verdicts else None}
                    fid = classify(u, inst, backend, verdict, detail, other_ok, ctx)
                    if fid and known.is_listed(kf, PID, fid):
                        known_hits.setdefault(fid, []).append(ex)
                        if verdict == "transport":
                            res.count("instances_not_judged_argument_lost_by_known_finding")
                    else:
                        bad.setdefault((backend, u["op"], u["arity"], verdict), []).append(ex)
                if len(verdicts) == 2 and all(x[0] == "ok" for x in verdicts.values()) and u["op"] in SAMPLE_OPS:
                    cand = {"op": u["op"], "args": inst["v"]["a"], "spec": inst["v"]["r"], "input_path": inst["path"],
                            "interpreter": verdicts["interpreter"][1], "compiled": verdicts["compiled"][1]}
                    if len(cj(cand["args"])) + len(cj(cand["spec"])) > samples.get(u["op"], (0, None))[0]:
                        samples[u["op"]] = (len(cj(cand["args"])) + len(cj(cand["spec"])), cand)     # the longest numerals: least trivial
    for op in SAMPLE_OPS + ["diff"]:
        if op in samples:
            res.sample(samples[op][1], limit=len(SAMPLE_OPS) + 1)
    if frange_stuck:
        interp_ok = outs.get(("frange", "interpreter")) is not None and not any(k[0] == "interpreter" and k[1] == "FRANGE" for k in bad)
        n = sum(len(u["inst"]) for u in fams.get("frange", []))
        if interp_ok:
            known_hits.setdefault(K_FRANGE, []).append({"op": "FRANGE", "compiled": frange_stuck.strip()[:200], "vectors_in_the_program": n,
                                                        "interpreter": "equals the specification on all of them",
                                                        "program": dirs["frange"][1]})
            res.count("instances_not_judged_compiled_float_range_did_not_stop", n)
        else:
            res.violations.append(("[compiled] the frange program did not finish: " + frange_stuck, dirs["frange"][1]))
    for (backend, op, arity, verdict), exs in sorted(bad.items()):
        d = os.path.join(wd, "violations"); os.makedirs(d, exist_ok=True)
        rp = os.path.join(d, "%s_%s_%d_%s.json" % (backend, op, arity, verdict.replace(" ", "_")))
        with open(rp, "w") as f:
            json.dump({"property": PID, "kind": "vectors", "backend": backend, "op": op, "arity": arity, "what": verdict,
                       "count": len(exs), "examples": exs[:50],
                       "vectors": [{"op": op, "a": e["args"], "k": fv.kind(op), "r": e["spec"], "def": True, "alt": [],
                                    "diff": verdict.startswith("interpreter and compiled")}
                                   for e in exs[:50] if "args" in e]}, f, indent=1)
        what = {"result": "result differs from the specification", "transport": "an argument value arrived changed"}.get(verdict, verdict)
        res.violations.append(("[%s] %s/%d: %s on %d vector(s); first: %s" % (backend, op, arity, what, len(exs), cj(exs[0])[:600]), rp))
    for fid, exs in sorted(known_hits.items()):
        res.known.append(known.describe(kf, PID, fid) + "  [met on %d vector(s); e.g. %s]" % (len(exs), cj(exs[0])[:300]))
        res.count("known_finding_hits", len(exs))
        res.sample({"known_finding": fid, "example": exs[0]}, limit=len(SAMPLE_OPS) + 5)
    res.cov["traces_validated_against_impl"] = judged
    ninst = sum(len(u["inst"]) for f in fams.values() for u in f)
    res.cov.update({"operators_specified": len(fv.OPS), "operator_arity_units": sum(len(f) for f in fams.values()),
                    "instances_run_per_backend": ninst,
                    "instances_as_program_text_facts": sum(1 for f in fams.values() for u in f for i in u["inst"] if i["path"] == "text"),
                    "backends": ["interpreter", "compiled (souffle -o)"], "compiled_programs": len(dirs),
                    "enumerators_outside_the_specification": fv.NOT_SPECIFIED,
                    "value_notation": "unsigned values are shown as their signed twins (same 32 bits); floats as [\"fin\", m, e] = "
                                      "m*2^e, [\"zero\", s], [\"inf\", s], [\"nan\"] with s the sign bit"})
    return finish(res, "model_checking", assumptions=[
        "spec/Functors.tla, Word32.tla, Dyadic.tla are the documented value semantics (pinned by reading Engine.cpp, "
        "Synthesiser.cpp, EvaluatorUtil.h)",
        "IEEE rounding is not modelled: float vectors whose exact result is not a binary32 normal number are dropped (counted)",
        "the C++ compiler and libm (std::pow, printf %f) are trusted to be exact on exactly representable results",
        "argument values reach the operators through souffle's fact reader and program-text constants; every output row "
        "repeats the arguments and they are compared too"])

def run_replay(res, wd, path):
    """Re-run the vectors of a saved violation (or of a finding's reproduction) as program-text facts in both back-ends
    and compare with the specification's results stored next to them (they came from TLC)."""
    with open(path) as f:
        rp = json.load(f)
    if rp.get("kind") == "run":
        d = os.path.join(wd, "replay"); os.makedirs(d, exist_ok=True)
        fam, backend, out, err = run_backend((rp["family"], rp["backend"], d, rp["dl"], rp["facts"]))
        if err:
            res.violations.append((err, path))
        return finish(res, "model_checking")
    vs = rp["vectors"]
    fams = {f: [] for f in FAMILIES}
    groups = {}
    for i, v in enumerate(vs):
        ts = fv.argtypes(v["op"], len(v["a"]))
        literal = all(fv.value_text(a, t, True) is not None for a, t in zip(v["a"], ts))
        groups.setdefault((v["op"], len(v["a"])), []).append(
            {"id": i + 1, "path": rp.get("input_path", "text") if literal else "file", "v": v, "diff": bool(v.get("diff"))})
    for (op, arity), insts in groups.items():
        fams[fv.family(op, arity)].append({"op": op, "arity": arity, "inst": insts})
    return execute(res, wd, fams, "quick")
