"""C04 - optional AST optimisations and inline/no_inline qualifiers preserve results."""
import copy
from .. import gen, evalprop

PASSES = ["MinimiseProgramTransformer", "RemoveRelationCopiesTransformer", "RemoveEmptyRelationsTransformer",
          "RemoveRedundantRelationsTransformer", "ReduceExistentialsTransformer", "ReplaceSingletonVariablesTransformer",
          "PartitionBodyLiteralsTransformer", "SimplifyConstantBinaryConstraintsTransformer",
          "RemoveRedundantSumsTransformer", "InlineRelationsTransformer"]

def with_qual(P, rel, q):
    Q = copy.deepcopy(P)
    for r in Q["rels"]:
        if r["name"] == rel:
            r["quals"] = list(r.get("quals", [])) + [q]
    return Q

def inlinable(P):
    """non-output, non-input relations that are not recursive and not used in negation/aggregates (checker rules)"""
    recursive = {r for s in P["strata"] if len(s) > 1 for r in s}
    for c in P["clauses"]:
        if any(l["k"] == "atom" and l["rel"] == c["head"]["rel"] for l in c["body"]):
            recursive.add(c["head"]["rel"])
    return [r["name"] for r in P["rels"] if not r["input"] and not r["output"] and r["name"] not in recursive]

def configs(P, rng):
    cs = [{"name": "default", "args": ["-j1"]}]
    for p in PASSES:
        cs.append({"name": "disable " + p, "args": ["-j1", "--disable-transformers=" + p], "disabled": [p]})
    for _ in range(3):
        sub = sorted(rng.sample(PASSES, rng.randint(2, 6)))
        cs.append({"name": "disable " + ",".join(sub), "args": ["-j1", "--disable-transformers=" + ",".join(sub)], "disabled": sub})
    for rel in P.get("hidden", [])[:3]:
        for q in ("inline", "no_inline"):
            cs.append({"name": "%s %s" % (q, rel), "args": ["-j1"], "transform": (lambda P_, rel=rel, q=q: with_qual(P_, rel, q)),
                       "reject_ok": True})
    return cs

def programs(s, n):
    Ps = gen.programs(s, n, hide_some=True, opt_patterns=True)
    return Ps

def known_sig(desc, P, case, cfg, o):
    if o is not None and "Redefinition of relation" in (o.stderr or "") and \
            "RemoveRedundantRelationsTransformer" in cfg.get("disabled", []) and \
            "ReduceExistentialsTransformer" not in cfg.get("disabled", []):
        return "disable-RemoveRedundantRelations-aborts"
    return None

def run(tier, replay=None):
    return evalprop.run_eval("C04", tier, programs, configs, ["pass subsets are sampled (10 singles + 3 random subsets per program)"],
                             n=(10, 120), max_cases=(8, 32), known_sig=known_sig)
