"""C25, part S/R: spec/BTreeConc.tla (implementation-shaped model of btree::insert's locking protocol, 3 keys per node).
S  TLC explores all interleavings of 2 threads x 1-2 keys (thorough: 2 x 3 and 3 threads) on trees pre-filled to force
   root creation, root growth, left-rebalance, leaf + inner split, inner rebalance, with and without hints; invariants:
   every step agrees with the abstract set (no key inserted twice, nothing reported present that was never inserted),
   well-formed search tree holding exactly the abstract set whenever no lock is held, parent/position consistency,
   at the end nothing lost and each distinct key reported new exactly once, no lock left, deadlock freedom
   (some thread can always move); termination under weak fairness on a small configuration.
R  TLC's state graph is dumped; walks covering every transition are replayed as schedules on the real btree_set under
   the cooperative scheduler; after every step the tree shape, the lock state and every thread's yield point are compared
   with the spec state (deviation = MODEL-DRIFT).  The API events of the replays are returned for validation against
   SortedSetAbs."""
import os, time
from .. import tlc, graphwalk
from ..common import SPEC, NCPU, log
from . import c25

QUICK = ["empty", "A", "Adup", "B", "Bh", "C", "D"]
THOROUGH = ["E", "A3", "B3", "C2", "D2", "B33", "A33"]
NOREPLAY = {"A33", "B33", "A3", "B3"}          # graphs too large to dump; model-checked only
PT2PC = {"op": {"op"}, "done": {"done"}, "orw.tsw.for": {"r_tsw", "l_tsw"},
         "orw.end": {"r_end_break", "r_end_ret", "l_end", "rel", "c_end", "c_end_restart"},
         "orw.sr.load": {"h_sr", "rl_sr", "c_sr", "n_sr"}, "orw.validate": {"h_val", "rl_val", "c_val", "found_val"},
         "orw.up.for": {"up"}, "orw.abort": {"up_abort", "p_abort", "l_abort", "rel"}, "orw.sw.for": {"p_sw", "rp_sw", "s_sw"}}
ACTIONS = ["Begin", "Finish", "RTsw", "REndBreak", "REndRet", "HSr", "HVal", "RlSr", "CSr", "RlVal", "NSr", "CVal", "FoundVal", "Up",
           "UpAbort", "PSw", "PAbort", "RpSw", "LTsw", "LEnd", "LAbort", "SSw", "Rel", "CEnd", "CEndRestart"]

def heap_shape(heap, root):
    def sh(i):
        nd = heap[i - 1]
        if not nd["kids"]:
            return "[" + " ".join(map(str, nd["keys"])) + "]"
        out = []
        for j, c in enumerate(nd["kids"]):
            out.append(sh(c))
            if j < len(nd["keys"]):
                out.append(str(nd["keys"][j]))
        return "[" + " ".join(out) + "]"
    return "[]" if root == 0 else sh(root)

def consts(cfg):
    """Fill / Prog / UseHints of a configuration, evaluated by TLC (PrintT in an ASSUME of a generated module)."""
    names = dict(l.split("<-") for l in open(os.path.join(SPEC, cfg)).read().replace("CONSTANT ", "").splitlines() if "<-" in l)
    return {k.strip(): v.strip() for k, v in names.items()}

def check_one(wd, name, dump):
    cfg = "MC_BTreeConc_%s.cfg" % name
    dot = os.path.join(wd, "conc_%s.dot" % name)
    # (no -coverage: TLC's expression profiling makes the recursive tree operators ~10x slower; the actions taken are
    # read off the dumped graph's edge labels instead)
    extra = ["-dump", "dot,actionlabels", dot] if dump else []
    r = tlc.run_tlc(os.path.join(SPEC, "MC_BTreeConc.tla"), os.path.join(SPEC, cfg), os.path.join(wd, "conc_" + name), timeout=2700,
                    workers=4 if dump else min(12, NCPU), extra=extra, heap="4g" if dump else "10g")
    return name, r, dot

def run(res, wd, drv, tier):
    """returns the replay jobs (their events still have to be validated against SortedSetAbs)"""
    from concurrent.futures import ThreadPoolExecutor
    t0 = time.time()
    names = QUICK + (THOROUGH if tier == "thorough" else [])
    for n in names:
        os.makedirs(os.path.join(wd, "conc_" + n), exist_ok=True)
    with ThreadPoolExecutor(4) as ex:
        outs = list(ex.map(lambda n: check_one(wd, n, n not in NOREPLAY), names))
        live = ex.submit(tlc.run_tlc, os.path.join(SPEC, "MC_BTreeConc.tla"), os.path.join(SPEC, "MC_BTreeConc_live.cfg"),
                         os.path.join(wd, "conc_live"), timeout=1500, workers=2).result()
    log("C25: BTreeConc model checking %.0fs" % (time.time() - t0)); t0 = time.time()
    if live["violated"]:
        path = os.path.join(wd, "tlc_conc_live.out"); open(path, "w").write(live["out"])
        print("MODEL-FINDING property=C25 spec/BTreeConc.tla: termination under weak fairness fails on the model (%s); trace in %s"
              % (live["violated"], path), flush=True)
        res.count("model_findings", 1)
    elif not live["ok"]:
        res.infra_errors.append("BTreeConc liveness: " + str(live["error"])[-600:])
    else:
        res.add_tlc(live)
    taken = set()
    jobs_in = []; meta = []
    for name, r, dot in outs:
        if r["violated"]:
            # a property fails on the model of the code: a genuine defect only if the real tree reproduces it, which the
            # replay / trace validation decides; reported as a finding of the model with TLC's trace
            path = os.path.join(wd, "tlc_conc_%s.out" % name); open(path, "w").write(r["out"])
            print("MODEL-FINDING property=C25 spec/BTreeConc.tla violates %s under MC_BTreeConc_%s.cfg; trace in %s" % (r["violated"], name, path),
                  flush=True)
            res.count("model_findings", 1)
            continue
        if not r["ok"]:
            res.infra_errors.append("BTreeConc %s: %s" % (name, str(r["error"])[-600:])); continue
        res.add_tlc(r)
        res.cov.setdefault("btreeconc_configs", []).append({"config": name, "states": r["distinct"], "transitions": r["generated"], "depth": r["depth"]})
        if name in NOREPLAY:
            continue
        g = graphwalk.Graph(dot)
        taken |= {e[2] for e in g.edges}
        c = consts("MC_BTreeConc_%s.cfg" % name)
        walks = g.covering_walks(max_len=400)
        for init_id, w in walks:
            jobs_in.append(None); meta.append((name, g, init_id, w, c))
    never = [a for a in ACTIONS if a not in taken]
    if never:
        res.infra_errors.append("vacuity: BTreeConc actions never taken in any configuration: %s" % never)
    # the driver needs fill and programs as text: they are the definitions of MC_BTreeConc.tla, evaluated by TLC once
    defs = eval_defs(wd, sorted({m[4]["Fill"] for m in meta} | {m[4]["Prog"] for m in meta} | {m[4]["UseHints"] for m in meta}))
    for i, (name, g, init_id, w, c) in enumerate(meta):
        fill = defs[c["Fill"]]; prog = defs[c["Prog"]]; hints = defs[c["UseHints"]]
        progs = ";".join(("h:" if hints[t] else "n:") + ",".join(map(str, p)) for t, p in enumerate(prog))
        sched = ",".join(g.edges[e][3] for e in w)
        jobs_in[i] = "coop s3 %s %s %s shape" % (",".join(map(str, fill)) or "-", progs, sched)
    if not jobs_in:
        return []
    jobs, crashes, _ = c25.run_driver(drv, jobs_in, timeout=2400, nproc=1)      # one process: results stay in input order
    for j in jobs:
        j.errs = []                # a schedule the real tree cannot follow to the end is a drift (reported below), not an infrastructure error
    c25.judge(res, wd, "conc", jobs, crashes, "C25")
    steps = 0; drift = 0
    for i, (name, g, init_id, w, c) in enumerate(meta):
        if i >= len(jobs) or not jobs[i].complete:
            continue
        j = jobs[i]
        states = [g.edges[e][1] for e in w]
        mismatch = None
        for k, sid in enumerate(states):
            if k >= len(j.steps):
                mismatch = "real execution ended after %d steps" % len(j.steps); break
            st = g.state(sid)
            fs = j.steps[k].split(" ", 4)          # k t pts L/U shape
            pts = fs[2].split(",")
            spec_shape = heap_shape(st["heap"], st["root"])
            locked = st["rootVer"] % 2 == 1 or any(n["ver"] % 2 == 1 and reachable(st, ni + 1) for ni, n in enumerate(st["heap"]))
            ok = fs[4] == spec_shape and all(st["th"][t]["pc"] in PT2PC.get(pts[t], ()) for t in range(len(pts))) and (fs[3] == "L") == locked
            steps += 1
            if not ok:
                mismatch = "step %d (thread %s): real %s vs spec pcs %s shape %s locked %s" % (
                    k + 1, fs[1], j.steps[k], [x["pc"] for x in st["th"]], spec_shape, locked)
                break
        if mismatch:
            drift += 1
            if drift <= 3:
                print("MODEL-DRIFT property=C25 real btree_set deviates from spec/BTreeConc.tla (%s) on %r: %s" % (name, jobs_in[i][:300], mismatch),
                      flush=True)
    res.count("conc_walks_replayed", len(meta)); res.count("conc_steps_compared", steps); res.count("model_drift_walks", drift)
    log("C25: BTreeConc replay %.0fs" % (time.time() - t0))
    if jobs:
        j = jobs[len(jobs) // 3]
        res.sample({"BTreeConc walk replayed": j.header[:200], "steps": j.steps[:4]})
    return jobs

def reachable(st, nid):
    seen = set(); stack = [st["root"]] if st["root"] else []
    while stack:
        x = stack.pop()
        if x == nid:
            return True
        if x in seen:
            continue
        seen.add(x); stack.extend(st["heap"][x - 1]["kids"])
    return False

def eval_defs(wd, names):
    """TLC prints the value of the named definitions of MC_BTreeConc.tla (fill, programs, hint flags): inputs of the driver."""
    import re
    from .. import tlaval
    from ..common import write_mc
    d = os.path.join(wd, "conc_defs"); os.makedirs(d, exist_ok=True)
    body = "ASSUME " + " /\\ ".join('PrintT(<<"DEF", "%s", %s>>)' % (n, n) for n in names)
    mod, cfg = write_mc(d, "MCD_BTreeConc", "MC_BTreeConc, TLC", body, open(os.path.join(SPEC, "MC_BTreeConc_empty.cfg")).read())
    r = tlc.run_tlc(mod, cfg, d, timeout=600, workers=1)
    out = {}
    text = r["out"]
    for m in re.finditer(r'<<\s*"DEF",\s*"(\w+)",\s*', text):
        depth = 1; i = m.end()                     # find the end of the printed tuple by bracket matching
        while depth and i < len(text):
            if text.startswith("<<", i):
                depth += 1; i += 2
            elif text.startswith(">>", i):
                depth -= 1; i += 2
            else:
                i += 1
        v = tlaval.parse(text[m.end():i - 2])
        out[m.group(1)] = [v[k] for k in sorted(v)] if isinstance(v, dict) else v
    missing = [n for n in names if n not in out]
    if missing:
        raise SystemExit("INFRA: could not evaluate %s: %s" % (missing, r["out"][-1500:]))
    return out
