"""C08 - relation representation is transparent; eqrel holds the closure (extreme 32-bit domain)."""
import copy
from .. import gen, evalprop

EXT = {"i": [-2147483648, -1, 2147483647], "s": ["a", "b"]}

def requal(P, assign):
    Q = copy.deepcopy(P)
    for r in Q["rels"]:
        q = assign.get(r["name"])
        if q and not r.get("eqrel"):
            r["quals"] = [x for x in r.get("quals", []) if x not in ("btree", "brie", "btree_delete")] + [q]
    return Q

def configs(P, rng):
    names = [r["name"] for r in P["rels"] if not r.get("eqrel") and r["arity"] > 0]
    cs = [{"name": "default repr", "args": ["-j1"]}]
    for q in ("btree", "brie", "btree_delete"):
        cs.append({"name": "all " + q, "args": ["-j1"], "transform": (lambda P_, q=q: requal(P_, {n: q for n in names}))})
    for k in range(3):
        a = {n: rng.choice(["btree", "brie", "btree_delete", None]) for n in names}
        cs.append({"name": "mixed %d %s" % (k, a), "args": ["-j1"], "transform": (lambda P_, a=a: requal(P_, a))})
    if rng.random() < 0.34:
        cs.append({"name": "compiled default", "args": ["-j1"], "compile": True})
        cs.append({"name": "compiled all brie", "args": ["-j1"], "compile": True, "transform": (lambda P_: requal(P_, {n: "brie" for n in names})), "repr": "brie"})
    return cs

def _rels_in(x):
    """all relation names mentioned anywhere in a body (atoms, negations, aggregate bodies)"""
    out = set()
    if isinstance(x, dict):
        if x.get("k") in ("atom", "neg") and "rel" in x:
            out.add(x["rel"])
        for v in x.values():
            out |= _rels_in(v)
    elif isinstance(x, list):
        for v in x:
            out |= _rels_in(v)
    return out

def known_sig(desc, P, case, cfg, o):
    vals = str(case and case.get("edb")) + str(case and case.get("model"))
    if cfg.get("repr") == "brie" and cfg.get("compile") and ("-2147483648" in vals or "-1" in vals):
        return "compiled-brie-negative-keys"
    # interpreter: a lookup on an eqrel relation with a column bound to MIN answers as if the column were unbound
    # (EquivalenceRelation::lower_bound takes MIN_RAM_SIGNED for "unbound"): only unexpected extra tuples, only in the
    # relations of the eqrel-lookup family whose bound value can be MIN
    if not cfg.get("compile") and "-2147483648" in vals and o is not None and o.outputs:
        exp = case["model"]
        from ..common import canon
        bad = [r for r in exp if o.outputs.get(r) is not None and sorted(canon(t) for t in exp[r]) != o.outputs[r]]
        if bad and P.get("min_lookup_rels") and all(r in P["min_lookup_rels"] for r in bad):
            return "interpreter-eqrel-min-sentinel"
        # the same defect reached by a generated program: some relation is eqrel, every deviating relation is an eqrel
        # relation or is derived (transitively) from one, and it deviates only by unexpected extra tuples
        eq = {r["name"] for r in P["rels"] if r.get("eqrel") or "eqrel" in (r.get("quals") or [])}
        if bad and eq:
            dep = set(eq); changed = True
            while changed:
                changed = False
                for c in P["clauses"]:
                    h = c["head"]["rel"]
                    if h not in dep and any(x in dep for x in _rels_in(c["body"])):
                        dep.add(h); changed = True
            extra_only = all(set(canon(t) for t in exp[r]) <= set(o.outputs[r]) for r in bad)
            if extra_only and all(r in dep for r in bad):
                return "interpreter-eqrel-min-sentinel"
    return None

def eqrel_lookup_program(rng, idx):
    """eqrel read by scan, filter, join and point lookup with either column bound to a constant / an outer variable / unbound,
    over the extreme domain (the interpreter encodes 'unbound' as MIN/MAX in its search bounds)"""
    V = lambda n: {"k": "var", "n": n}; N = lambda v: {"k": "num", "v": v}; ANY = {"k": "any"}
    def atom(rel, *a): return {"k": "atom", "rel": rel, "args": list(a)}
    def rel(name, ar, inp=False, eq=False):
        r = {"name": name, "arity": ar, "types": ["i"] * ar, "input": inp, "output": not inp, "eqrel": eq}
        if eq:
            r["quals"] = ["eqrel"]
        return r
    consts = [-2147483648, -1, 2147483647]
    rels = [rel("pairs", 2, True), rel("keys", 1, True), rel("eq", 2, eq=True)]
    cl = [{"head": {"rel": "eq", "args": [V("x"), V("y")]}, "body": [atom("pairs", V("x"), V("y"))]}]
    strata = [["pairs"], ["keys"], ["eq"]]
    minrels = []
    k = 0
    def add(name_args, body, uses_min):
        nonlocal k
        name = "q%d" % k; k += 1
        rels.append(rel(name, len(name_args)))
        cl.append({"head": {"rel": name, "args": name_args}, "body": body}); strata.append([name])
        if uses_min:
            minrels.append(name)
    for c in rng.sample(consts, 2):
        add([V("y")], [atom("eq", N(c), V("y"))], c == consts[0])
        add([V("x")], [atom("eq", V("x"), N(c))], c == consts[0])
        add([V("x"), V("y")], [atom("eq", V("x"), V("y")), {"k": "cmp", "op": "EQ", "l": V("x"), "r": N(c)}], c == consts[0])
    add([V("x"), V("y")], [atom("keys", V("x")), atom("eq", V("x"), V("y"))], True)
    add([V("x"), V("y")], [atom("keys", V("y")), atom("eq", V("x"), V("y"))], True)
    add([V("x")], [atom("keys", V("x")), atom("eq", V("x"), V("x"))], True)
    add([V("x")], [atom("keys", V("x")), {"k": "neg", "rel": "eq", "args": [V("x"), ANY]}], True)
    add([V("x"), V("y")], [atom("keys", V("x")), atom("keys", V("y")), {"k": "neg", "rel": "eq", "args": [V("x"), V("y")]}], True)
    add([V("n")], [{"k": "agg", "op": "count", "res": V("n"), "tgt": {"k": "nil"}, "body": [atom("eq", V("a"), V("b"))], "outer": []}], False)
    P = {"id": "eqlookup_%d" % idx, "types": [], "rels": rels, "clauses": cl, "strata": strata, "dom": copy.deepcopy(EXT),
         "features": ["eqrel-lookup"], "min_lookup_rels": minrels}
    g = gen.Gen(rng, max_edbs=64, edb_sample=16, dom=copy.deepcopy(EXT)); g.types = []
    g.edb_space(P)
    return P

def programs(s, n):
    a = gen.programs(s, n // 2, eqrel=True, dom=EXT, const_pool=[-2147483648, -1, 0, 2147483647], features=[
        "neg", "agg", "cmp", "recursion", "mutual", "disj", "facts", "nullary", "str"])
    b = gen.programs(s + 1, n - n // 2, eqrel=True)
    import random
    rng = random.Random(s * 13 + 8)
    return a + b + [eqrel_lookup_program(rng, i) for i in range(2)]

def run(tier, replay=None):
    return evalprop.run_eval("C08", tier, programs, configs,
                             ["half of the programs use the extreme domain {MIN,-1,MAX} without arithmetic (overflow is outside the property)"],
                             n=(10, 120), max_cases=(8, 32), known_sig=known_sig)
