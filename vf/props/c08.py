"""C08 - relation representation is transparent; eqrel holds the closure (extreme 32-bit domain)."""
import copy
from .. import gen, evalprop

EXT = {"i": [-2147483648, -1, 2147483647], "s": ["a", "b"]}

def requal(P, assign):
    Q = copy.deepcopy(P)
    for r in Q["rels"]:
        q = assign.get(r["name"])
        if q and not r.get("eqrel"):
            r["quals"] = [x for x in r.get("quals", []) if x not in ("btree", "brie", "btree_delete")] + [q]
    return Q

def configs(P, rng):
    names = [r["name"] for r in P["rels"] if not r.get("eqrel") and r["arity"] > 0]
    cs = [{"name": "default repr", "args": ["-j1"]}]
    for q in ("btree", "brie", "btree_delete"):
        cs.append({"name": "all " + q, "args": ["-j1"], "transform": (lambda P_, q=q: requal(P_, {n: q for n in names}))})
    for k in range(3):
        a = {n: rng.choice(["btree", "brie", "btree_delete", None]) for n in names}
        cs.append({"name": "mixed %d %s" % (k, a), "args": ["-j1"], "transform": (lambda P_, a=a: requal(P_, a))})
    if rng.random() < 0.34:
        cs.append({"name": "compiled default", "args": ["-j1"], "compile": True})
        cs.append({"name": "compiled all brie", "args": ["-j1"], "compile": True, "transform": (lambda P_: requal(P_, {n: "brie" for n in names})), "repr": "brie"})
    return cs

def known_sig(desc, P, case, cfg, o):
    vals = str(case and case.get("edb")) + str(case and case.get("model"))
    if cfg.get("repr") == "brie" and cfg.get("compile") and ("-2147483648" in vals or "-1" in vals):
        return "compiled-brie-negative-keys"
    if not cfg.get("compile") and any(r.get("eqrel") for r in P["rels"]) and "-2147483648" in vals:
        return "interpreter-eqrel-min-sentinel"
    return None

def programs(s, n):
    a = gen.programs(s, n // 2, eqrel=True, dom=EXT, const_pool=[-2147483648, -1, 0, 2147483647], features=[
        "neg", "agg", "cmp", "recursion", "mutual", "disj", "facts", "nullary", "str"])
    b = gen.programs(s + 1, n - n // 2, eqrel=True)
    return a + b

def run(tier, replay=None):
    return evalprop.run_eval("C08", tier, programs, configs,
                             ["half of the programs use the extreme domain {MIN,-1,MAX} without arithmetic (overflow is outside the property)"],
                             n=(10, 120), max_cases=(8, 32), known_sig=known_sig)
