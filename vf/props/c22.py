"""C22 - auto-increment values are unique within a run.
S: spec/AutoInc.tla - the counter as one atomic fetch-and-add satisfies Unique for 3 workers x 3 uses (all
   interleavings); the split load/store variant violates it (vacuity witness: the property is not trivially true).
R: programs deriving many tuples with autoinc() in parallelisable rules run in the interpreter and compiled at
   -j 1..16; TLC computes the model of the same program without the autoinc column (Datalog.tla); the real output
   projected on the other columns must equal it with the same cardinality (one evaluation per body valuation) and
   TLC judges the autoinc column with Judge!AutoIncOK (all values distinct)."""
import os, json, random, copy, shutil
import concurrent.futures as cf
from .. import build, tlc, judge, evalcore, render, souffle as sf
from ..common import workdir, seed, Result, SPEC, NCPU, run as runcmd
from ..evidence import finish

V = lambda n: {"k": "var", "n": n}
N = lambda v: {"k": "num", "v": v}

def make_program(rng, idx):
    """returns (P_without_autoinc (for the spec), P_with (rendered), autoinc column index per output relation)"""
    n = rng.choice([300, 1000, 3000])
    m = rng.choice([2, 3, 5])
    rels = [{"name": "big", "arity": 1, "types": ["i"], "input": False, "output": False, "eqrel": False},
            {"name": "small", "arity": 1, "types": ["i"], "input": False, "output": False, "eqrel": False}]
    clauses = [{"head": {"rel": "big", "args": [V("x")]}, "body": [{"k": "range", "res": V("x"), "a": [N(0), N(n)]}]},
               {"head": {"rel": "small", "args": [V("x")]}, "body": [{"k": "range", "res": V("x"), "a": [N(0), N(m)]}]}]
    outs = []
    shapes = rng.sample(["single", "join", "filter", "two-rules", "two-rels"], 3)
    k = 0
    for sh in shapes:
        name = "r%d" % k; k += 1
        if sh == "single":
            rels.append({"name": name, "arity": 1, "types": ["i"], "input": False, "output": True, "eqrel": False})
            clauses.append({"head": {"rel": name, "args": [V("x")]}, "body": [{"k": "atom", "rel": "big", "args": [V("x")]}]})
        elif sh == "join":
            rels.append({"name": name, "arity": 2, "types": ["i", "i"], "input": False, "output": True, "eqrel": False})
            clauses.append({"head": {"rel": name, "args": [V("x"), V("y")]},
                            "body": [{"k": "atom", "rel": "big", "args": [V("x")]}, {"k": "atom", "rel": "small", "args": [V("y")]}]})
        elif sh == "filter":
            rels.append({"name": name, "arity": 1, "types": ["i"], "input": False, "output": True, "eqrel": False})
            clauses.append({"head": {"rel": name, "args": [V("x")]},
                            "body": [{"k": "atom", "rel": "big", "args": [V("x")]},
                                     {"k": "cmp", "op": "NE", "l": {"k": "fn", "op": "MOD", "a": [V("x"), N(3)]}, "r": N(0)}]})
        elif sh == "two-rules":
            rels.append({"name": name, "arity": 2, "types": ["i", "i"], "input": False, "output": True, "eqrel": False})
            clauses.append({"head": {"rel": name, "args": [V("x"), N(0)]}, "body": [{"k": "atom", "rel": "big", "args": [V("x")]}]})
            clauses.append({"head": {"rel": name, "args": [V("x"), N(1)]}, "body": [{"k": "atom", "rel": "big", "args": [V("x")]},
                                                                                   {"k": "cmp", "op": "LT", "l": V("x"), "r": N(n // 2)}]})
        else:
            rels.append({"name": name, "arity": 1, "types": ["i"], "input": False, "output": True, "eqrel": False})
            clauses.append({"head": {"rel": name, "args": [V("x")]}, "body": [{"k": "atom", "rel": "small", "args": [V("x")]}]})
        outs.append(name)
    strata = [["big"], ["small"]] + [[o] for o in outs]
    P0 = {"id": "autoinc_%d" % idx, "types": [], "rels": rels, "clauses": clauses, "strata": strata,
          "dom": {"i": [0], "s": ["a"]}, "edbs": {"mode": "list", "list": [{}]}}
    P1 = copy.deepcopy(P0)
    for r in P1["rels"]:
        if r["output"]:
            r["arity"] += 1; r["types"] = r["types"] + ["i"]
    for c in P1["clauses"]:
        if c["head"]["rel"] in outs:
            c["head"]["args"] = c["head"]["args"] + [{"k": "autoinc"}]
    return P0, P1, outs

def run(tier, replay=None):
    res = Result("C22", tier)
    build.ensure_souffle()
    wd = workdir("C22")
    # ---- S ----
    for cfg, expect_ok in (("MC_AutoInc_atomic.cfg", True), ("MC_AutoInc_split.cfg", False)):
        r = tlc.run_tlc(os.path.join(SPEC, "AutoInc.tla"), os.path.join(SPEC, cfg), wd, timeout=600)
        if expect_ok:
            if r["violated"]:
                path = os.path.join(wd, "tlc_atomic.out"); open(path, "w").write(r["out"])
                res.violations.append(("spec/AutoInc.tla: atomic counter violates %s" % r["violated"], path))
            elif not r["ok"]:
                res.infra_errors.append(r["error"] or "tlc failed")
            else:
                res.add_tlc(r)
        else:
            if r["violated"] not in ("Unique", "Dense"):
                res.infra_errors.append("vacuity witness lost: the split counter variant no longer violates Unique (%s)" % (r["violated"] or r["error"]))
            res.cov["split_variant_counterexample_found"] = r["violated"] is not None
    # ---- R ----
    rng = random.Random(seed() * 7 + 22)
    nprog = 4 if tier == "quick" else 24
    progs = [make_program(rng, i) for i in range(nprog)]
    cases = evalcore.tlc_models([p[0] for p in progs], wd, res)
    jobs = []
    for i, (P0, P1, outs) in enumerate(progs):
        pdir = os.path.join(wd, "p%d" % i); os.makedirs(pdir, exist_ok=True)
        dl = os.path.join(pdir, "p.dl"); open(dl, "w").write(render.program(P1))
        exe = None
        if i < (1 if tier == "quick" else 6):
            exe = os.path.join(pdir, "p.exe")
            rc, so, se = runcmd([build.SOUFFLE, "-j4", "-o", exe, dl], timeout=900)
            if rc != 0:
                res.violations.append(("compiling autoinc program failed: " + se[-400:], dl)); exe = None
        for j in ([1, 2, 4, 8, 16] if tier == "quick" else [1, 2, 3, 4, 6, 8, 12, 16]):
            for rep in range(2 if tier == "quick" else 4):
                jobs.append((i, j, rep, None))
                if exe:
                    jobs.append((i, j, rep, exe))
    def one(job):
        i, j, rep, exe = job
        P0, P1, outs = progs[i]
        d = os.path.join(wd, "p%d" % i, "j%d_%d_%s" % (j, rep, "c" if exe else "i"))
        os.makedirs(os.path.join(d, "out"), exist_ok=True); os.makedirs(os.path.join(d, "facts"), exist_ok=True)
        env = {"SOUFFLE_VERIF_PERTURB": "%d:%d" % (seed() * 1000 + rep * 17 + j, 20)}
        if exe:
            rc, so, se = runcmd([exe, "-j%d" % j, "-F", os.path.join(d, "facts"), "-D", os.path.join(d, "out")], timeout=120, env=env)
        else:
            rc, so, se = runcmd([build.SOUFFLE, "-j%d" % j, "-F", os.path.join(d, "facts"), "-D", os.path.join(d, "out"),
                                 os.path.join(wd, "p%d" % i, "p.dl")], timeout=120, env=env)
        if rc != 0:
            return job, d, None, "run failed rc=%s %s" % (rc, se[-300:])
        rows = {o: render.read_output(P1, o, os.path.join(d, "out", o + ".csv")) for o in outs}
        return job, d, rows, None
    with cf.ThreadPoolExecutor(6) as ex:
        outs_ = list(ex.map(one, jobs))
    jc = []; meta = []
    for job, d, rows, err in outs_:
        i, j, rep, exe = job
        P0, P1, outs = progs[i]
        if err:
            res.violations.append((err, d)); continue
        model = cases[i][0]["model"] if cases[i] else None
        if model is None:
            continue
        vals = []
        ok = True
        for o in outs:
            proj = sorted(json.dumps(t[:-1]) for t in rows[o])
            want = sorted(json.dumps(t) for t in model[o])
            if proj != want:
                ok = False
                res.violations.append(("relation %s at -j%d (%s): the tuples without the autoinc column differ from the model "
                                       "(got %d rows, model %d)" % (o, j, "compiled" if exe else "interpreter", len(proj), len(want)), d))
            vals += [t[-1] for t in rows[o]]
        if ok:
            jc.append({"kind": "autoinc", "vals": vals}); meta.append((job, d))
    # TLC judges uniqueness; the quadratic predicate is fine for a few thousand values, larger sets are split by value range
    verdicts = judge.judge([{"kind": "autoinc", "vals": sorted(c["vals"])[:0] or c["vals"]} for c in jc], wd, "judge", res, module="JudgeAutoInc")
    for v, c, (job, d) in zip(verdicts, jc, meta):
        if v is False:
            path = os.path.join(d, "replay.json"); json.dump({"job": [job[0], job[1], job[2], bool(job[3])], "n": len(c["vals"])}, open(path, "w"))
            res.violations.append(("autoinc() produced a value twice at -j%d (%s), %d uses" % (job[1], "compiled" if job[3] else "interpreter", len(c["vals"])), path))
        elif v:
            res.cov["traces_validated_against_impl"] += 1
            shutil.rmtree(d, ignore_errors=True)
    res.cov.update({"programs": nprog, "runs_judged": len(jc), "autoinc_values_judged": sum(len(c["vals"]) for c in jc)})
    if jc:
        res.sample({"program": render.program(progs[0][1]), "run": "-j%d" % meta[0][0][1], "values_first_20": jc[0]["vals"][:20]})
    return finish(res, "model_checking", assumptions=["thread schedules of the real runs are perturbed (hook H1), not enumerated",
                                                      "the head lists every body variable, so one autoinc() evaluation per output tuple"])
