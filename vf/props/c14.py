"""C14 - arbitrary program text never crashes the compiler.
(S) spec/Mutate.tla: token-level single insertion / deletion / substitution over a 47 token alphabet (including pseudo
    tokens for the raw bytes NUL, 0xFF, lone quote, lone backslash, line break); TLC enumerates EVERY single mutation of
    each seed program's token sequence and takes random multi-mutation walks (-simulate).  spec/Driver.tla is the life
    cycle a run must follow; it has no transition for a signal, an assertion, an internal error or a time-out.
(T) the glue tokenises the seeds, joins the tokens of each mutant, runs the guarded souffle on it (20 s limit, stdin
    closed) plus raw-byte insertions inside tokens at sampled offsets, and TLC validates the recorded life-cycle trace +
    process status of every run against spec/DriverTrace.tla.  A rejected trace is the VIOLATION.
Level: exploration (small-scope enumeration around valid programs, not coverage-guided fuzzing)."""
import json, os, random, re, shutil, concurrent.futures as cf
from .. import build, render, gen, tlc, tlaval, drivertrace as dt
from ..common import workdir, seed, Result, NCPU, SPEC, write_data
from ..evidence import finish

PSEUDO = {"<NUL>": b"\x00", "<FF>": b"\xff", "<DQ>": b'"', "<BS>": b"\\", "<NL>": b"\n"}
RAW_BYTES = [b"\x00", b"\xff", b'"', b"\\", b"\n"]
DIRECTIVE = re.compile(r"\.(?:decl|input|output|type|comp|init|functor|pragma|plan|printsize|limitsize|override|lattice)\b")
TOKEN = re.compile(r'"(?:\\.|[^"\\])*"|' + DIRECTIVE.pattern +
                   r"|choice-domain|[A-Za-z_?][A-Za-z0-9_?]*|\d+(?:\.\d+)?|:-|!=|<=|>=|<:|::|\S")

FIXED_SEEDS = [
    # records, negation, constraint, aggregate
    '.type R = [a:number, b:symbol]\n.decl e(x:number, y:symbol)\n.decl p(x:number, r:R)\n.output p\ne(1,"s").\n'
    'p(x,[x,y]) :- e(x,y), !e(0,y), x < 3.\np(n,nil) :- n = count : { e(_,_) }.\n',
    # components, type parameters, qualified names
    '.comp C<K> { .decl r(x:K) r(1). }\n.init c = C<number>\n.decl q(x:number)\n.output q\nq(x) :- c.r(x).\n',
    # ADTs, subset types, functors, recursion, choice-domain, eqrel
    '.type T = A {x:number} | B {}\n.type N <: number\n.decl t(v:T, n:N) choice-domain n\n.decl u(a:number, b:number) eqrel\n'
    '.output t\nu(1,2).\nt($A(x), as(x+1, N)) :- u(x,_), x != 0.\nt($B(), 0) :- t($A(_), _).\n',
]

def tokenise(text):
    return TOKEN.findall(text)

def detokenise(toks):
    out = bytearray()
    for i, t in enumerate(toks):
        b = PSEUDO.get(t)
        if b is None:
            b = t.encode("utf-8")
            if i and DIRECTIVE.fullmatch(t):
                out += b"\n"
        out += b
        out += b"\n" if t == "." else b" "
    return bytes(out)

def seeds_for(tier):
    texts = list(FIXED_SEEDS[:2] if tier == "quick" else FIXED_SEEDS)
    n = 0 if tier == "quick" else 37
    if n:       # the n shortest (in tokens) of a pool of generated programs: the number of single mutants is ~94 per token
        Ps = gen.programs(seed() * 1000 + 14, 150, features=["neg", "agg", "arith", "str", "rec", "adt", "range", "recursion", "facts", "cmp"],
                          n_idb=(1, 1), max_edbs=1, edb_sample=2)
        pool = []
        for P in Ps:
            for r in P["rels"]:
                r["input"] = False          # no fact files: the text is the whole input
            pool.append(render.program(P))
        pool.sort(key=lambda t: (len(tokenise(t)), t))
        texts += pool[:n]
    return texts

def run(tier, replay=None):
    res = Result("C14", tier)
    build.ensure_souffle()
    wd = workdir("C14", clean=not replay)      # a replay file lives in the work directory
    rng = random.Random(seed() * 104729 + 14)
    quick = tier == "quick"
    if replay:
        return do_replay(res, wd, replay)
    dt.check_spec(wd, res)
    seed_texts = seeds_for(tier)
    seed_toks = [tokenise(t) for t in seed_texts]

    # ---- (S) TLC enumerates the mutants ------------------------------------------------------------------------
    mutants = {}          # bytes -> description
    def collect(js, base, how):
        for j in js:
            if j.get("tag") != "MUT":
                continue
            b = detokenise(j["toks"])
            mutants.setdefault(b, {"seed": base + j["s"] - 1, "k": j["k"], "last": j["last"], "how": how})
    group = 4
    for base in range(0, len(seed_toks), group):
        d = os.path.join(wd, "mut_%d" % base)
        write_data(d, "MutateData", {"Seeds": seed_toks[base:base + group]})
        r = tlc.run_tlc(os.path.join(SPEC, "MC_Mutate.tla"), os.path.join(SPEC, "MC_Mutate1.cfg"), d, lib=d, timeout=1800)
        if not r["ok"]:
            res.infra_errors.append("MC_Mutate (single mutations): %s" % (r["violated"] or r["error"]))
            continue
        res.add_tlc(r); res.count("single_mutants_enumerated", r["distinct"])
        collect(r["json"], base, "single")
    # random walks of up to 4 mutations: TLC simulation mode, the traces are dumped to files and read back
    d = os.path.join(wd, "mut_walks"); os.makedirs(os.path.join(d, "tr"), exist_ok=True)
    write_data(d, "MutateData", {"Seeds": seed_toks})
    walkers = 4
    r = tlc.run_tlc(os.path.join(SPEC, "MC_Mutate.tla"), os.path.join(SPEC, "MC_MutateN.cfg"), d, lib=d, timeout=2400, workers=walkers,
                    simulate="file=%s,num=%d" % (os.path.join(d, "tr", "w"), (40 if quick else 600) // walkers),
                    extra=("-depth", "6", "-seed", str(seed())))
    if not r["ok"]:
        res.infra_errors.append("MC_Mutate (walks): %s" % (r["error"] or r["violated"]))
    else:
        before = len(mutants); js = []
        for fn in sorted(os.listdir(os.path.join(d, "tr"))):
            txt = open(os.path.join(d, "tr", fn)).read()
            for st in txt.split("STATE_")[1:]:
                body = st.split("\n\n")[0]                       # the conjuncts of one state; long values are wrapped over lines
                f = dict(m.groups() for m in (re.match(r"(\w+) = (.*)$", c, re.S) for c in body.split("\n/\\ ")[1:]) if m)
                js.append({"tag": "MUT", "s": int(f["s"]), "k": int(f["k"]), "last": tlaval.parse(f["last"]), "toks": tlaval.parse(f["toks"])})
        collect(js, 0, "walk")
        res.cov["walks"] = len(os.listdir(os.path.join(d, "tr")))
        res.cov["walk_mutants"] = len(mutants) - before
        shutil.rmtree(os.path.join(d, "tr"), ignore_errors=True)

    # ---- raw bytes inside tokens (offsets sampled by the glue) ---------------------------------------------------
    jobs = []             # (label, bytes, args)
    for b, info in mutants.items():
        jobs.append(("m%d" % len(jobs), b, ()))
    nraw = 0
    for si, t in enumerate(seed_texts):
        tb = t.encode()
        for pos in sorted(rng.sample(range(len(tb) + 1), min(len(tb) + 1, 30 if quick else 120))):
            for rb in RAW_BYTES:
                for args in ((), ("--no-preprocessor",)):
                    jobs.append(("raw%d" % nraw, tb[:pos] + rb + tb[pos:], args)); nraw += 1
    res.cov["raw_byte_runs"] = nraw
    frac = os.environ.get("VERIF_C14_SAMPLE")    # developer knob for scratch experiments (mutation testing): fraction of the inputs to run
    if frac:
        jobs = [j for j in jobs if rng.random() < float(frac) or mutants.get(j[1], {"k": 1})["k"] == 0]

    # ---- (T) run everything, validate every trace ----------------------------------------------------------------
    rundir = os.path.join(wd, "runs")
    def one(job):
        lab, b, args = job
        d = os.path.join(rundir, lab)
        r = dt.run_souffle(lab, d, text=b, args=args)
        shutil.rmtree(d, ignore_errors=True)
        r.stdout = ""; r.stderr = r.stderr if len(r.stderr) <= 6000 else r.stderr[:2500] + "\n[...]\n" + r.stderr[-3000:]
        return r
    with cf.ThreadPoolExecutor(NCPU) as ex:
        runs = list(ex.map(one, jobs))
    text_of = {lab: b for lab, b, _ in jobs}
    args_of = {lab: a for lab, _, a in jobs}
    for r in runs:
        if r.infra:
            res.infra_errors.append("souffle could not be started for %s: %s" % (r.label, r.stderr[-200:]))
    judged = [r for r in runs if not r.infra and not (r.rc not in (0, 1) and dt.known_crash(res, "C14", r.stderr))]
    verdicts = dt.validate(judged, wd, "trace", res)
    for r in judged:
        if verdicts[r.label] is False:
            d = os.path.join(wd, "viol_" + r.label); os.makedirs(d, exist_ok=True)
            open(os.path.join(d, "p.dl"), "wb").write(text_of[r.label])
            json.dump({"property": "C14", "label": r.label, "args": list(args_of[r.label]), "rc": r.rc,
                       "mutation": mutants.get(text_of[r.label]), "stderr": r.stderr[-3000:], "trace": r.events,
                       "dl": os.path.join(d, "p.dl")}, open(os.path.join(d, "replay.json"), "w"), indent=1)
            res.violations.append(("souffle %s on a mutant did not end with success or diagnostics + status 1: %s\ninput (%s):\n%s"
                                   % (" ".join(args_of[r.label]), dt.describe(r), mutants.get(text_of[r.label]),
                                      text_of[r.label][-600:].decode("utf-8", "replace")), os.path.join(d, "replay.json")))
    # seeds must be valid programs (otherwise the neighbourhood explored is not "around valid programs")
    for b, info in mutants.items():
        if info["k"] == 0:
            r = next(x for x in runs if text_of[x.label] == b)
            if r.rc != 0:
                res.infra_errors.append("seed %d is not accepted by souffle: %s" % (info["seed"], r.stderr[-300:]))

    # ---- evidence ----------------------------------------------------------------------------------------------------
    classes = {}
    nontrivial = set()
    for r in runs:
        ev = r.events
        if r.parsed_errors is None:
            c = "no-parse-event"
        elif r.parsed_errors > 0:
            c = "syntax-error"
        elif any(e["e"] == "ExitIfErrors" for e in ev):
            c = "semantic-error"
        elif r.rc == 0:
            c = "ran"
        else:
            c = "other-after-parse"
        classes[c] = classes.get(c, 0) + 1
        if c in ("semantic-error", "ran", "other-after-parse") and mutants.get(text_of[r.label], {"k": 1})["k"] > 0:
            nontrivial.add(text_of[r.label])
    res.cov["outcome_classes"] = classes
    res.cov["evaluations"] = len(runs)
    res.cov["distinct_nontrivial"] = len(nontrivial)
    res.cov["rule"] = ("inputs: every distinct text obtained by one token deletion/insertion/substitution (alphabet of spec/Mutate.tla) of "
                       "each seed, enumerated by TLC; random walks of up to 4 such mutations (TLC -simulate); one raw byte of "
                       "{NUL,0xFF,\",\\,LF} inserted at sampled offsets, with and without the preprocessor.  Non-trivial = distinct "
                       "mutated text (seeds excluded) that got past the parser (hook event Parsed with errors=0), i.e. reached "
                       "the semantic checks, the translator or the interpreter")
    res.cov["seeds"] = len(seed_texts)
    res.cov["seed_tokens"] = [len(t) for t in seed_toks]
    res.cov["timeouts_repeated_under_load"] = sum(1 for r in runs if r.retried)
    res.cov["max_run_seconds"] = round(max(r.secs for r in runs), 2) if runs else 0
    shown = set()
    for r in runs:
        c = (r.events[-1]["code"], len(r.events))
        if c not in shown and len(shown) < 6:
            shown.add(c)
            res.sample({"input": text_of[r.label][-300:].decode("utf-8", "replace"), "mutation": mutants.get(text_of[r.label]),
                        "rc": r.rc, "trace": r.events, "first_diagnostic": next((l for l in r.stderr.splitlines() if "rror" in l), "")[:200]})
    return finish(res, "exploration", assumptions=[
        "the neighbourhood explored is small-scope (<= 4 token edits / 1 raw byte around valid programs); this is not coverage-guided "
        "fuzzing and says nothing about memory safety short of a crash",
        "a division by zero at run time that souffle reports through its signal handler and status 1 counts as a diagnostic",
        "identical life-cycle traces are handed to TLC once"])

def do_replay(res, wd, path):
    j = json.load(open(path))
    r = dt.run_souffle(j["label"], os.path.join(wd, "replay"), dl=j["dl"], args=j.get("args", ()))
    v = dt.validate([r], wd, "replay_trace", res)[r.label]
    print("replay %s: %s; DriverTrace accepted: %s" % (j["label"], dt.describe(r), v))
    if v is False and not dt.known_crash(res, "C14", r.stderr):
        res.violations.append(("replayed: %s" % dt.describe(r), path))
    res.cov.update({"evaluations": 1, "distinct_nontrivial": 0, "rule": "replay of one recorded input"})
    res.sample({"replayed": j["label"], "accepted": v})
    return finish(res, "exploration")
