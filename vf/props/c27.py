"""C27 - Brie tries behave as tuple sets under concurrent insertion.
S: TLC checks spec/BrieImpl.tla (SparseBitMap<BITS>::set = SparseArray::getLeaf + bit CAS, one action per atomic access, BITS = 1,
   indices 0..15) for all interleavings of 2 threads x 2 inserts and 3 threads x 1 insert (thorough: larger alphabets, 3 threads
   with 2+1+1 inserts): no lost element, root info consistent whenever the version is even, first = minimum leaf, parents set, one
   success per element; (thorough) termination under weak fairness.
R: TLC's state graph is dumped; walks covering every transition are replayed on the real SparseBitMap<1> under the cooperative
   scheduler and root/levels/offset/first/tree shape/yield point/results are compared after every step (deviation = MODEL-DRIFT).
T: API histories (insert call/return of every thread, then contains/find/size/iteration/getBoundaries<k>/lower/upper bound/
   partition) of real Trie<1..4> executions - replayed walks, seeded random schedules, systematic preemption-bounded schedules and
   real-thread stress, over small, sparse and (separately) negative 32-bit keys - are validated by TLC against the property-level
   spec/TupleSetAbs.tla.  A history TLC rejects is the VIOLATION."""
import os, subprocess, random, re, json, time
from .. import build, tlc, graphwalk, tracecheck, known
from ..common import workdir, seed, Result, SPEC, HARNESS, BUILD
from ..evidence import finish

PID = "C27"
KNOWN_ID = "negative-keys-sign-extension"
IMAX = 2147483647
IMIN = -2147483648
SMALL = [0, 1, 2, 3, 5]
SPARSE = [0, 1, 63, 64, 4095, 4096, 262143, 262144, 16777216, 1073741824, IMAX - 1, IMAX]
NEG = [-1, -2, IMIN, IMIN + 1, -64, -65, -4096]
OUTSIDE = ("lower", "upper")      # queries the property statement does not name

PC2PT = {"op": "op", "done": "done", "rv1": "brie.root.ver", "rv2": "brie.root.ver", "rr": "brie.root.read", "rc": "brie.root.cas",
         "ru": "brie.root.upd", "rp": "brie.root.pub", "par": "brie.raise.parent", "fv1": "brie.first.ver", "fv2": "brie.first.ver",
         "fr": "brie.first.read", "fc": "brie.first.cas", "fu": "brie.first.upd", "fp": "brie.first.pub", "cl": "brie.cell.load",
         "cc": "brie.cell.cas", "pk": "brie.first.peek", "bl": "brie.bits.load", "bc": "brie.bits.cas"}
ACTIONS = ["Begin", "RootVer1", "RootRead", "RootVer2", "RootCas", "RootUpd", "RootPub", "RaiseParent", "FirstVer1", "FirstRead",
           "FirstVer2", "FirstCas", "FirstUpd", "FirstPub", "CellLoad", "CellCas", "FirstPeek", "BitsLoad", "BitsCas"]

# ------------------------------------------------------------------------------------------------ S: model checking
def model_check(res, wd, cfg, heap="8g", timeout=1500, vacuity=True):
    r = tlc.run_tlc(os.path.join(SPEC, "MC_Brie.tla"), os.path.join(SPEC, cfg), wd, timeout=timeout,
                    extra=["-coverage", "1"] if vacuity else [], heap=heap)
    if r["violated"]:
        return r, "TLC: %s violated by spec/BrieImpl.tla under %s" % (r["violated"], cfg)
    if not r["ok"]:
        res.infra_errors.append("%s: %s" % (cfg, r["error"] or "tlc failed")); return r, None
    res.add_tlc(r)
    res.cov.setdefault("model_configs", {})[cfg] = {"states": r["distinct"], "transitions": r["generated"], "depth": r["depth"]}
    if vacuity:
        cov = tlc.coverage_counts(r["out"])
        never = [a for a in ACTIONS if a in cov and cov[a][0] == 0]
        if never:
            res.infra_errors.append("vacuity: actions never taken under %s: %s" % (cfg, never))
    return r, None

# ------------------------------------------------------------------------------------------------ driver I/O
def tup(s):
    return [int(x) for x in s.split(":")]

def tuplist(s):
    return [] if s in ("-", "") else [tup(x) for x in s.split(",") if x != "OVERFLOW"]

def parse_event(line):
    f = line.split(" ")
    k = f[0]
    if k == "call":
        return {"e": "call", "c": int(f[1]), "t": tup(f[2])}
    if k == "ret":
        return {"e": "ret", "c": int(f[1]), "ok": f[2] == "1"}
    if k == "contains":
        return {"e": k, "t": tup(f[1]), "r": f[2] == "1"}
    if k in ("find", "lower", "upper"):
        return {"e": k, "t": tup(f[1]), "r": [] if f[2] == "-" else tup(f[2])}
    if k == "size":
        return {"e": k, "n": int(f[1])}
    if k == "iter":
        return {"e": k, "s": tuplist(f[1])}
    if k == "bounds":
        return {"e": k, "k": int(f[1]), "t": tup(f[2]), "s": tuplist(f[3])}
    if k == "part":
        return {"e": k, "n": int(f[1]), "ch": [tuplist(x) for x in f[2].split("|")[:-1]]}
    raise ValueError("unknown event " + line)

def run_driver(drv, lines, timeout=1500):
    """-> (histories, crash).  history = {line, label, events, states, livelock, err}"""
    p = subprocess.run([drv], input="\n".join(lines) + "\n", capture_output=True, text=True, timeout=timeout)
    hist = []; cur = None
    for ln in p.stdout.split("\n"):
        if ln.startswith("J "):
            cur = {"line": int(ln.split(" ")[2]), "label": "", "events": [], "states": [], "livelock": False, "err": None}
            hist.append(cur)
        elif cur is None:
            continue
        elif ln.startswith("D "):
            cur["label"] = ln[2:]
        elif ln.startswith("V "):
            try:
                cur["events"].append(parse_event(ln[2:]))
            except (IndexError, ValueError):
                cur["truncated"] = ln       # the driver died while printing this line
        elif ln.startswith("S "):
            cur["states"].append(ln)
        elif ln.startswith("LIVELOCK"):
            cur["livelock"] = True
        elif ln.startswith("ERR"):
            cur["err"] = ln
        elif ln.startswith("O "):
            cur["obs"] = ln[2:]
        elif ln == "E":
            cur["complete"] = True
    crash = None
    if p.returncode != 0:
        last = hist[-1]["line"] if hist else -1
        crash = (p.returncode, p.stderr[-600:], last)
    return hist, crash

def _save(wd, name, lines):
    path = os.path.join(wd, name + ".txt")
    with open(path, "w") as f:
        f.write("\n".join(lines) + "\n")
    return path

# ------------------------------------------------------------------------------------------------ T: trace validation
def has_negative(h):
    return any(x < 0 for e in h["events"] if e["e"] == "call" for x in e["t"])

def known_signature(h, ev):
    """finding 'negative-keys-sign-extension': the trie's history inserted a tuple with a negative component.  Such keys are
    sign-extended into the 64-bit sparse-array index and SparseArray::getIndex works on the low 32 bits only, so nodes are filed
    under wrong cells: lookups miss present tuples, re-insertion reports success again, iteration/size lose or repeat tuples.
    A deviation in a history without any negative component never matches."""
    return has_negative(h)

def validate(res, wd, name, hists, kf):
    """hists: histories tagged with job (driver line), fam, allow_known (the family inserts negative keys: deviations matching the
    listed finding's signature are KNOWN-FINDING) and tolerant (sequential history: an inexplicable insert result is reported and
    the history continues).  They are concatenated (reset between them) and judged by TLC against TupleSetAbs in one run."""
    events = []; owner = []; start = []
    for hi, h in enumerate(hists):
        start.append(len(events) + 1)
        events.append({"e": "reset", "tol": bool(h["tolerant"])}); owner.append(hi)
        for e in h["events"]:
            events.append(e); owner.append(hi)
    if not hists:
        return
    start.append(len(events) + 1)
    events.append({"e": "reset", "tol": False}); owner.append(len(hists))     # closes the last history
    acc, consumed, r = tracecheck.validate("TupleSetAbsTrace", events, wd, name, timeout=2400, heap="12g",
                                           constants="CONSTANT Clients = {1, 2, 3, 4, 5, 6, 7, 8}")
    res.count("trace_events", len(events))
    if not acc:
        res.infra_errors.append("trace validation %s did not consume the whole trace (stopped at event %s): %s"
                                % (name, consumed, str(r["error"] or r["violated"])[-800:])); return
    res.add_tlc(r)
    listed = known.is_listed(kf, PID, KNOWN_ID)
    alive = set(int(m.group(1)) for m in re.finditer(r'<<"ALIVE", (\d+)>>', r["out"]))
    died = [int(m.group(1)) for m in re.finditer(r'<<"DIED", (\d+)>>', r["out"])]
    # deviations: (event number, what the set model says)
    devs = {}
    for m in re.finditer(r'<<"MISMATCH", (\d+), (.*)>>', r["out"]):
        devs.setdefault(int(m.group(1)), m.group(2))
    for hi in range(len(hists)):
        if start[hi + 1] not in alive:      # no placement of the linearization points explains this history's insert results
            d = [x for x in died if start[hi] < x < start[hi + 1]]
            devs[max(d) if d else start[hi] + 1] = "no linearization of the overlapping insert calls explains this result"
            for l in list(devs):            # answers reported by branches that died later are not meaningful
                if start[hi] < l < start[hi + 1] and l > (max(d) if d else 0):
                    del devs[l]
    bad_hist = set(); known_hits = {}
    for l, exp in sorted(devs.items()):
        hi = owner[l - 1]; h = hists[hi]; ev = events[l - 1]
        if ev["e"] in OUTSIDE:
            # lower_bound / upper_bound are not named by the property statement: deviations are reported, never a verdict
            nobs = res.cov.get("observations_outside_property", 0)
            res.count("observations_outside_property")
            if nobs < 3:
                print("OBSERVATION property=C27 (outside the property statement, no verdict) %s_bound(%s) answered %s, the ordered-set "
                      "model says %s; job %r" % (ev["e"], ev["t"], ev["r"], exp, h["job"]), flush=True)
                res.cov.setdefault("observation_samples", []).append({"query": ev, "expected": exp, "job": h["job"]})
            continue
        if h["allow_known"] and listed and known_signature(h, ev):
            known_hits.setdefault(hi, []).append((ev, exp))
            continue
        if hi in bad_hist:
            continue
        bad_hist.add(hi)
        calls = [e for e in h["events"] if e["e"] in ("call", "ret")]
        if len(res.violations) < 25:
            res.violations.append(("history of the real Trie rejected by spec/TupleSetAbs.tla at event %s: the set model says %s; job %r "
                                   "schedule %r; insert history %s" % (ev, exp, h["job"], h["label"], calls[:40]),
                                   _save(wd, "rejected_%s_%d" % (name, hi), [h["job"]])))
    res.count("histories_rejected", len(bad_hist))
    res.cov["traces_validated_against_impl"] += len(hists) - len(bad_hist)
    if known_hits:
        res.count("histories_with_known_finding", len(known_hits))
        hi = sorted(known_hits)[0]; ev, exp = known_hits[hi][0]
        if not any(k.startswith(KNOWN_ID) for k in res.known):
            res.known.append(known.describe(kf, PID, KNOWN_ID) + " -- e.g. job %r: %s, the set model says %s" % (hists[hi]["job"], ev, exp))
        kinds = res.cov.setdefault("known_finding_event_kinds", {})
        for v in known_hits.values():
            for ev, _ in v:
                kinds[ev["e"]] = kinds.get(ev["e"], 0) + 1

def report_exec_problems(res, wd, hists, crash, lines, what):
    for h in hists:
        if h["livelock"]:
            res.violations.append(("real %s livelocked (200000 scheduler rounds although every thread kept being scheduled): %r %r"
                                   % (what, lines[h["line"]], h["label"]), _save(wd, "livelock_%d" % h["line"], [lines[h["line"]]])))
    if crash and not any(h["livelock"] for h in hists):
        rc, err, last = crash
        nxt = lines[last] if 0 <= last < len(lines) else "?"
        res.violations.append(("brie driver died rc=%d on/after job %r: %s" % (rc, nxt, err),
                               _save(wd, "driver_crash", lines[max(0, last):last + 2])))

# ------------------------------------------------------------------------------------------------ job generation
def fmt_progs(progs):
    return ";".join(",".join(":".join(str(x) for x in t) for t in p) if p else "-" for p in progs)

def gen_prog(rng, dim, nthreads, per, pool, dup=0.5):
    """thread programs over a small tuple pool, so that threads collide on tuples, prefixes and words"""
    npool = max(2, int(nthreads * per * (1 - dup * rng.random())))
    tuples = [[rng.choice(pool) for _ in range(dim)] for _ in range(npool)]
    # share prefixes
    for t in tuples:
        if dim > 1 and rng.random() < 0.5:
            u = rng.choice(tuples)
            k = rng.randint(1, dim - 1)
            t[:k] = u[:k]
    return [[rng.choice(tuples) for _ in range(rng.randint(1, per))] for _ in range(nthreads)]

def gen_jobs(tier, rng):
    """-> dict family -> list of driver lines"""
    q = tier == "quick"
    fam = {"small": [], "sparse": [], "negative": [], "systematic": [], "stress": [], "stress_negative": []}
    n_rand = 120 if q else 1500
    for fname, pool in (("small", SMALL), ("sparse", SPARSE), ("negative", NEG + SPARSE[:6] + [IMAX])):
        for k in range(n_rand if fname != "negative" else n_rand // 2):
            dim = rng.choice([1, 2, 2, 3, 4])
            nt = rng.choice([1, 2, 2, 3, 3, 4]) if fname != "negative" else 1      # the negative-key defect is sequential
            progs = gen_prog(rng, dim, nt, rng.choice([1, 2, 3, 4]) if nt > 1 else rng.choice([2, 4, 7]), pool)
            steps = rng.choice([0, 20, 60, 150, 400])
            flags = rng.choice("hn") + ("b" if k % 4 == 0 else "")
            fam[fname].append("T %d %s %s R%d:%d:%d" % (dim, flags, fmt_progs(progs), rng.randrange(1 << 30), steps,
                                                         rng.choice([0, 50, 80, 95])))
    # sequential negative-key histories: every ordered pair of one negative and one other key
    for a in NEG[:4]:
        for b in (0, 10, 4096, IMAX, -5):
            for dim in (1, 2):
                for order in ((a, b), (b, a)):
                    fam["negative"].append("T %d n %s R1:0:0" % (dim, fmt_progs([[[k] * dim for k in order]])))
    # systematic: all schedules with <= 2 preemptions of tiny colliding programs (breadth first, capped)
    sysprogs = [(1, [[[0]], [[1]]]), (1, [[[0]], [[0]]]), (1, [[[0]], [[4096]]]), (2, [[[0, 1]], [[0, 2]]]), (2, [[[0, 1]], [[0, 1]]]),
                (2, [[[1, 0]], [[64, 0]]]), (1, [[[64], [0]], [[4096]]]), (2, [[[5, 5], [5, 6]], [[5, 6]]]),
                (3, [[[1, 2, 3]], [[1, 2, 4]]]), (1, [[[0]], [[1]], [[64]]]), (2, [[[0, 0]], [[0, 0]], [[0, 64]]])]
    if not q:
        sysprogs += [(4, [[[1, 2, 3, 4]], [[1, 2, 3, 5]]]), (1, [[[IMAX], [0]], [[63], [64]]]), (2, [[[0, 1], [4096, 1]], [[4096, 1], [0, 1]]]),
                     (3, [[[0, 0, 0]], [[0, 0, 0]], [[0, 0, 1]]])]
    for dim, progs in sysprogs:
        fam["systematic"].append("T %d n %s P2:%d" % (dim, fmt_progs(progs), 60 if q else 800))
        fam["systematic"].append("T %d h %s P1:%d" % (dim, fmt_progs(progs), 15 if q else 150))
    # real-thread stress: 2..8 threads, larger programs
    for k in range(30 if q else 300):
        dim = rng.choice([1, 2, 3, 4])
        nt = rng.choice([2, 4, 8, 8])
        pool = rng.choice([SMALL, SPARSE, list(range(0, 200, 7)), SPARSE + SMALL])
        progs = gen_prog(rng, dim, nt, rng.choice([4, 10, 25]), pool, dup=0.7)
        fam["stress"].append("T %d %s %s S%d:%d" % (dim, rng.choice(["h", "n", "nb"]), fmt_progs(progs), rng.randrange(1 << 30),
                                                    rng.choice([0, 50, 300])))
    for k in range(4 if q else 40):
        dim = rng.choice([1, 2, 3])
        progs = gen_prog(rng, dim, rng.choice([2, 4, 8]), 6, NEG + SPARSE[:4], dup=0.7)
        fam["stress_negative"].append("T %d n %s S%d:%d" % (dim, fmt_progs(progs), rng.randrange(1 << 30), rng.choice([0, 100])))
    return fam

# ------------------------------------------------------------------------------------------------ R: replay of BrieImpl walks
def word_val(w):
    return sum(1 << b for b in w)

def ser_model(heap, n, container, is_root):
    if n == 0:
        return "-"
    nd = heap[n]
    par = nd["par"]
    p = 0 if par == 0 else (1 if (not is_root and par == container) else 2)
    if nd["lvl"] == 0:
        cells = [str(word_val(nd["word"][x])) for x in sorted(nd["word"], key=int)]
        return "L%d(%s)" % (p, ",".join(cells))
    cells = [ser_model(heap, nd["kids"][x], n, False) for x in sorted(nd["kids"], key=int)]
    return "N%d(%s)" % (p, ",".join(cells))

def norm_fun(v):
    """tlaval gives functions with int keys as dict(int->..) or, for 1..n domains, lists; normalise to dict"""
    if isinstance(v, list):
        return {i + 1: x for i, x in enumerate(v)}
    return v

def model_view(s):
    heap = {int(k): {"par": v["par"], "lvl": v["lvl"], "base": v["base"], "kids": norm0(v["kids"]), "word": norm0(v["word"])}
            for k, v in norm_fun(s["heap"]).items()} if s["heap"] else {}
    rootp = s["root"]["p"]
    tree_levels = heap[rootp]["lvl"] if rootp else 0
    firstp = s["first"]["p"]
    fpos = "-"
    if firstp:
        fpos = "%d@%d" % (heap[firstp]["lvl"], heap[firstp]["base"] - (heap[rootp]["base"] if rootp else 0)) if firstp in heap else "?"
    return {"rootodd": s["root"]["odd"], "levels": s["levels"], "offset": s["offset"], "firstodd": s["first"]["odd"],
            "firstOffset": "inf" if s["firstOffset"] == 1000000 else str(s["firstOffset"]), "fpos": fpos,
            "pts": [PC2PT[x] for x in s["pc"]], "ip": list(s["ip"]),
            "res": ["".join("T" if b else "F" for b in r) or "-" for r in s["res"]],
            "tree_levels": tree_levels, "tree": ser_model(heap, rootp, 0, True)}

def norm0(v):
    """function over 0..n printed by TLC as (0 :> a @@ 1 :> b) -> dict; tlaval already yields dict with int keys"""
    if isinstance(v, list):
        return {i + 1: x for i, x in enumerate(v)}
    return {int(k): x for k, x in v.items()}

def real_view(line):
    f = line.split(" ")
    # S k t rootodd levels offset firstodd firstOffset fpos pts ips res treeLevels tree
    return {"rootodd": f[3] == "1", "levels": int(f[4]), "offset": int(f[5]), "firstodd": f[6] == "1", "firstOffset": f[7], "fpos": f[8],
            "pts": f[9].split(","), "ip": [int(x) for x in f[10].split(",")], "res": f[11].split(","),
            "tree_levels": int(f[12]), "tree": f[13]}

def views_equal(m, r):
    # levels/offset are compared also while the root is locked (the model rewrites them in the same step as the code)
    keys = ["rootodd", "firstodd", "firstOffset", "fpos", "pts", "ip", "res", "tree", "tree_levels", "levels", "offset"]
    return all(m[k] == r[k] for k in keys), [k for k in keys if m[k] != r[k]]

def replay(res, wd, cfg, drv, max_walks=None):
    dot = os.path.join(wd, "brie_graph.dot")
    r = tlc.run_tlc(os.path.join(SPEC, "MC_Brie.tla"), os.path.join(SPEC, cfg), wd, timeout=1500, workers=8,
                    extra=["-dump", "dot,actionlabels", dot], heap="12g")
    if not r["ok"]:
        res.infra_errors.append("dump failed: " + str(r["violated"] or r["error"])); return [], []
    g = graphwalk.Graph(dot)
    walks = g.covering_walks(max_len=400)
    total_walks = len(walks)
    if max_walks and len(walks) > max_walks:
        walks = random.Random(seed()).sample(walks, max_walks)
    lines = []
    for init, w in walks:
        st = g.state(init)
        progs = ";".join(",".join(str(x) for x in p) if p else "-" for p in st["prog"])
        lines.append("A %s %s" % (progs, ",".join(g.edges[i][3] for i in w)))
    hists, crash = run_driver(drv, lines)
    report_exec_problems(res, wd, hists, crash, lines, "SparseBitMap<1>")
    steps = 0; drift = 0
    for h in hists:
        init, w = walks[h["line"]]
        states = [init] + [g.edges[i][1] for i in w]
        mismatch = None
        if h["err"]:
            mismatch = "schedule not executable on the real object: " + h["err"]
        first_line = [s for s in h["states"] if s.startswith("S 0 ")]
        seq = first_line + [s for s in h["states"] if not s.startswith("S 0 ") and not s.startswith("S -1 ")]
        for k, line in enumerate(seq):
            if mismatch or k >= len(states):
                break
            m = model_view(g.state(states[k])); rv = real_view(line); steps += 1
            ok, diff = views_equal(m, rv)
            if not ok:
                mismatch = "step %d: fields %s differ: real %s vs spec %s" % (k, diff, {x: rv[x] for x in diff}, {x: m[x] for x in diff})
        if mismatch:
            drift += 1
            if drift <= 3:
                print("MODEL-DRIFT property=C27 real SparseBitMap<1> deviates from spec/BrieImpl.tla step structure on %r: %s"
                      % (lines[h["line"]], mismatch), flush=True)
    res.count("walks_replayed", len(hists)); res.count("steps_compared", steps); res.count("model_drift_walks", drift)
    res.cov["graph_states"] = len(g.labels); res.cov["graph_edges"] = len(g.edges); res.cov["covering_walks_total"] = total_walks
    if lines:
        res.sample({"replayed walk on SparseBitMap<1> (progs, thread per step)": lines[len(lines) // 2]})
    covered = set()
    for init, w in walks:
        covered.update(w)
    res.cov["graph_edges_replayed"] = len(covered)
    return hists, lines       # the replayed executions are histories of an arity-1 tuple set as well

# ------------------------------------------------------------------------------------------------ entry
def run(tier, replay_path=None):
    res = Result(PID, tier)
    wd = workdir(PID)
    kf = known.load()
    drv = build.harness_cxx(os.path.join(HARNESS, "briedrv.cpp"), os.path.join(BUILD, "harness", "briedrv"))
    if replay_path:
        p = subprocess.run([drv], input=open(replay_path).read(), capture_output=True, text=True)
        print(p.stdout); return 0
    q = tier == "quick"
    phases = res.cov.setdefault("phase_seconds", {})
    t0 = time.time()
    # S
    cfgs = ["MC_BrieQ22.cfg", "MC_BrieQ31.cfg"] + ([] if q else ["MC_BrieL.cfg", "MC_BrieM22.cfg", "MC_BrieT31.cfg", "MC_BrieT32.cfg", "MC_BrieT22.cfg"])
    if os.environ.get("VERIF_SKIP_MC"):      # developer aid for mutation experiments on a scratch copy (the model does not
        cfgs = []                            # depend on the repository); MANIFEST commands never set it
    for cfg in cfgs:
        r, viol = model_check(res, wd, cfg, heap="24g" if cfg in ("MC_BrieT22.cfg", "MC_BrieT32.cfg") else "8g", timeout=3000,
                              vacuity=cfg != "MC_BrieL.cfg")
        if viol:
            path = os.path.join(wd, "tlc_%s.out" % cfg); open(path, "w").write(r["out"])
            res.violations.append((viol, path))
    phases["S model checking"] = round(time.time() - t0, 1); t0 = time.time()
    # R (its executions are histories of an arity-1 tuple set as well: they go through T)
    allh = []
    rh, rlines = replay(res, wd, "MC_BrieRq.cfg" if q else "MC_BrieRt.cfg", drv, max_walks=300 if q else 5000)
    for h in rh:
        h.update(job=rlines[h["line"]], fam="replay", allow_known=False, tolerant=False); allh.append(h)
    phases["R replay"] = round(time.time() - t0, 1)
    # T
    rng = random.Random(seed() * 7919 + 27)
    fam = gen_jobs(tier, rng)
    for fname, lines in fam.items():
        if not lines:
            continue
        t0 = time.time()
        hists, crash = run_driver(drv, lines, timeout=2400)
        phases["T driver " + fname] = round(time.time() - t0, 1)
        res.count("histories_" + fname, len(hists))
        report_exec_problems(res, wd, hists, crash, lines, "Trie")
        for h in hists:
            # the coop negative family is single-threaded (the defect is sequential): inexplicable insert results are tolerated
            h.update(job=lines[h["line"]], fam=fname, allow_known=fname in ("negative", "stress_negative"), tolerant=fname == "negative")
            allh.append(h)
            if h.get("obs"):
                if res.cov.get("observations_outside_property_aborts", 0) < 2:
                    print("OBSERVATION property=C27 (outside the property statement, no verdict) %s; job %r; last answers %s"
                          % (h["obs"], h["job"], [e for e in h["events"] if e["e"] in OUTSIDE][-2:]), flush=True)
                res.count("observations_outside_property_aborts")
        if hists:
            h = hists[len(hists) // 2]
            res.sample({"family": fname, "job": h["job"], "schedule": h["label"],
                        "events": [json.dumps(e) for e in h["events"][:14]]}, limit=12)
    t0 = time.time()
    # one TLC run per chunk of about 250 000 events (the generated data module must stay loadable)
    chunk = []; n = 0; ci = 0
    for h in allh:
        chunk.append(h); n += len(h["events"]) + 1
        if n >= 250000:
            validate(res, wd, "MCT_Brie%d" % ci, chunk, kf); chunk = []; n = 0; ci += 1
    if chunk:
        validate(res, wd, "MCT_Brie%d" % ci, chunk, kf)
    phases["T tlc"] = round(time.time() - t0, 1)
    res.sample({"spec": "BrieImpl.tla / TupleSetAbs.tla", "configs": cfgs})
    return finish(res, "model_checking", assumptions=[
        "the cooperative scheduler serialises threads at the hook points (one per atomic access of SparseArray/SparseBitMap/Trie::insert): "
        "C++ memory-model effects and the three unsynchronised loads of getRootInfo being torn are not explored",
        "all interleavings are explored on the model (BITS = 1, 2-bit words, indices < 16, <= 3 threads); the real Trie<1..4> (BITS 6/4, "
        "64-bit words) is explored by replayed walks, seeded random, preemption-bounded and stress schedules",
        "lower_bound/upper_bound are judged in the order Brie.h implements (components compared as unsigned 32-bit words)",
        "queries are made only after all inserting threads have finished (Brie.h forbids concurrent reads and inserts)"])
