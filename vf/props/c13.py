"""C13 - static checks reject exactly the ill-formed programs.
(S) spec/Static.tla is the verdict function (Stratifiable / Grounded / WellTyped); TLC (spec/MC_Static.tla) enumerates
    the program families itself - (i) every precedence graph over 2 relations and (quick: a seeded sample of / thorough:
    every one, up to renaming the relations, of) the 4^9 graphs over 3 relations with edge labels {none,+,neg,agg}, (ii) every clause shape of 1..3
    literals of a 15-literal alphabet under 7 heads, (iii) generator programs with one defect injected by the glue - and
    prints each program with its verdict.  spec/Driver.tla (life cycle) is model-checked as well.
(T) every program is rendered and run by the guarded souffle; the recorded life-cycle trace plus the process status and
    the expected verdict form one trace that TLC validates against spec/DriverTrace.tla: accept => status 0 and no error
    diagnostic; reject => status 1 with an error diagnostic, nothing evaluated, no output file.
A rejected trace is the VIOLATION (unless it carries the signature of a recorded compiler crash)."""
import json, os, random, shutil
from .. import build, render, staticgen as sg, drivertrace as dt
from ..common import workdir, seed, Result, NCPU, log
from ..evidence import finish

known_crash = dt.known_crash

def known_listed(res, pid, fid):
    from .. import known
    kf = known.load()
    if not known.is_listed(kf, pid, fid):
        return False
    msg = known.describe(kf, pid, fid)
    if msg not in res.known:
        res.known.append(msg)
    res.count("known_finding_hits")
    return True

CATEGORY = {"stratifiable": ("Unable to stratify",),
            "grounded": ("Ungrounded", "Witness problem", "Argument in fact is not constant"),
            "typed": ("type", "Ambiguous", "overload", "record", "Mismatching arity", "Couldn't assign")}

def label_of(j):
    if j["fam"] == "shape":
        return "shape:%d:%s" % (j["a"], "-".join(str(x) for x in sorted(j["s"])))
    return "%s:%d:%s" % (j["fam"], j["a"], j["m"])

def run(tier, replay=None):
    res = Result("C13", tier)
    build.ensure_souffle()
    wd = workdir("C13", clean=not replay)      # a replay file lives in the work directory
    rng = random.Random(seed() * 7919 + 13)
    quick = tier == "quick"
    if replay:
        return do_replay(res, wd, replay)
    dt.check_spec(wd, res)

    # ---- (S) TLC enumerates the families and computes the verdicts --------------------------------------------
    variants = sg.gen_variants(seed() * 1000 + 13, 36 if quick else 300, rng)
    cases = []            # (label, family, program JSON (generator family only), verdict, why, kind, rendered text)
    def add(js, gen_offset=None):
        for j in js:
            if j["fam"] == "gen":
                lab, kind, P = variants[gen_offset + j["a"] - 1]
                cases.append(("gen:" + lab, "gen", P, j["verdict"], j["why"], kind, render.program(P)))
            else:
                cases.append((label_of(j), j["fam"], None, j["verdict"], j["why"], j["fam"], render.program(j["prog"])))
    if quick:
        # which graphs of the 4^9 are looked at is the glue's choice (seeded): half uniform (almost all have a cycle through a
        # strict edge), half sparse (each edge absent with probability 0.6) so that both verdicts are well represented
        ids = set(rng.sample(range(4 ** 9), 350))
        while len(ids) < 700:
            ids.add(sum((0 if rng.random() < 0.6 else rng.choice([1, 1, 2, 3])) * 4 ** k for k in range(9)))
        ids = sorted(ids)
        add(sg.run_static(wd, "enum", res, g2=True, g3_list=ids, g3_both=True, shapes=True))
    else:
        add(sg.run_static(wd, "enum", res, g2=True, shapes=True))
        # every 3-relation graph up to renaming of the relations (TLC keeps the least id of each class: ~44 000 of the 4^9) ...
        step = 4 ** 9 // 8
        for lo in range(0, 4 ** 9, step):
            add(sg.run_static(wd, "g3_%d" % lo, res, g3_range=(lo, lo + step - 1), g3_canon=True, timeout=2400))
        # ... plus a seeded sample of arbitrary ids, so that the order of the declarations varies as well
        ids = sorted(rng.sample(range(4 ** 9), 12000))
        for k in range(0, len(ids), 4000):
            add(sg.run_static(wd, "g3s_%d" % k, res, g3_list=ids[k:k + 4000], timeout=2400))
    for off in range(0, len(variants), 400):
        add(sg.run_static(wd, "gen_%d" % off, res, gen_programs=[v[2] for v in variants[off:off + 400]]), gen_offset=off)
    only = os.environ.get("VERIF_C13_ONLY")      # developer knob for scratch experiments (mutation testing): families to run
    if only:
        cases = [c for c in cases if c[1] in only.split(",")]
    res.cov["programs_enumerated"] = len(cases)
    res.cov["exhaustive"] = False
    res.cov["exhaustive_families"] = [] if only else (["g2 (all 4^4 graphs, both renderings)", "shape (all 4025 clause shapes)"] +
                                                      ([] if quick else ["g3 (all 4^9 graphs up to renaming of the relations)"]))
    fam_counts = {}
    for c in cases:
        k = "%s_%s" % (c[1], c[3]); fam_counts[k] = fam_counts.get(k, 0) + 1
    res.cov["verdicts_by_family"] = fam_counts

    # ---- (T) run every distinct program text, validate trace + status + expected verdict with TLC ----------------
    by_text = {}
    for c in cases:
        by_text.setdefault(c[6], c)
    texts = list(by_text)
    rundir = os.path.join(wd, "runs")
    def one(i):
        text = texts[i]; c = by_text[text]
        d = os.path.join(rundir, "r%d" % i)
        facts = None
        if c[1] == "gen":
            facts = os.path.join(d, "facts"); render.write_facts(c[2], {}, facts)
        r = dt.run_souffle(c[0], d, text=text, facts=facts, expect=c[3], args=("--no-preprocessor",))
        shutil.rmtree(d, ignore_errors=True)
        r.stdout = ""; r.stderr = r.stderr if len(r.stderr) <= 6000 else r.stderr[:2500] + "\n[...]\n" + r.stderr[-3000:]
        return r
    import concurrent.futures as cf
    with cf.ThreadPoolExecutor(NCPU) as ex:
        runs = list(ex.map(one, range(len(texts))))
    judged = []
    case_by_label = {c[0]: c for c in by_text.values()}
    for r in runs:
        if r.infra:
            res.infra_errors.append("souffle could not be started for %s: %s" % (r.label, r.stderr[-200:])); continue
        if r.rc not in (0, 1) and known_crash(res, "C13", r.stderr):
            continue
        c = case_by_label[r.label]
        if c[3] == "reject" and c[4].get("aggcycle") and r.rc == 0 and known_listed(res, "C13", "mutual-aggregate-cyclic-dependency-fatal"):
            continue            # signature (b) of the recorded finding: mutually dependent aggregates accepted
        errs = [l for l in r.stderr.splitlines() if l.startswith("Error")]
        if c[3] == "accept" and c[4].get("aggmutual") and r.rc == 1 and errs and all("Mutually dependent aggregate" in l for l in errs) \
                and known_listed(res, "C13", "mutual-aggregate-cyclic-dependency-fatal"):
            continue            # signature (c): the conservative diagnostic for aggregates that only filter each other
        if c[3] == "accept" and r.rc == 1 and errs and all(l.startswith("Error: Ungrounded variable") for l in errs) \
                and known_listed(res, "C13", "grounded-clause-rejected-aggregate-injected-variable"):
            continue            # signature (d): a grounded clause whose aggregate uses an injected functor-defined variable twice
        judged.append(r)
    verdicts = dt.validate(judged, wd, "trace", res)
    text_of = {by_text[t][0]: t for t in texts}
    case_of = {c[0]: c for c in by_text.values()}
    drift = 0
    for r in judged:
        c = case_of[r.label]
        v = verdicts[r.label]
        if v is False:
            d = os.path.join(wd, "viol_" + r.label.replace(":", "_").replace("/", "_"))
            os.makedirs(d, exist_ok=True)
            open(os.path.join(d, "p.dl"), "w").write(text_of[r.label])
            json.dump({"property": "C13", "label": r.label, "expect": c[3], "why": c[4], "text": text_of[r.label],
                       "gen": c[1] == "gen", "program": c[2], "rc": r.rc, "stderr": r.stderr[-3000:], "trace": r.events},
                      open(os.path.join(d, "replay.json"), "w"), indent=1)
            res.violations.append(("Static.tla verdict %s (%s) but souffle: %s\nprogram %s:\n%s"
                                   % (c[3], c[4], dt.describe(r), r.label, text_of[r.label][-700:]), os.path.join(d, "replay.json")))
        elif v is True and c[3] == "reject":
            # not part of the property: does the diagnostic name the defect class the spec found?
            for k, needles in CATEGORY.items():
                if not c[4][k] and not any(n in r.stderr for n in needles):
                    drift += 1
                    if drift <= 5:
                        print("MODEL-DRIFT: %s: Static.tla says not %s, souffle's diagnostics are: %s"
                              % (r.label, k, [l for l in r.stderr.splitlines() if l.startswith("Error")][:4]), flush=True)
    res.cov["reject_category_drift"] = drift
    res.cov["souffle_runs"] = len(runs)
    res.cov["accepted_runs"] = sum(1 for r in judged if case_of[r.label][3] == "accept" and verdicts[r.label])
    res.cov["rejected_runs"] = sum(1 for r in judged if case_of[r.label][3] == "reject" and verdicts[r.label])
    res.cov["timeouts_repeated_under_load"] = sum(1 for r in runs if r.retried)
    for lab in ("g2:", "g3:", "shape:", "gen:"):
        for want in ("accept", "reject"):
            r = next((r for r in judged if r.label.startswith(lab) and case_of[r.label][3] == want), None)
            if r is not None:
                res.sample({"label": r.label, "verdict": want, "why": case_of[r.label][4], "rc": r.rc,
                            "program": text_of[r.label][-500:], "diagnostics": [l for l in r.stderr.splitlines() if l.startswith("Error")][:3]},
                           limit=8)
    return finish(res, "model_checking", assumptions=[
        "spec/Static.tla is the definition of stratifiable / grounded / well-typed (types only in the unambiguous cases: "
        "number vs symbol vs named record/ADT, record arity)",
        "the shapes `x = count:{..x..}` (result variable inside its own aggregate) and user-defined functors, subset/union types, "
        "components and inline relations are outside the enumerated families",
        "identical life-cycle traces are handed to TLC once"])

def do_replay(res, wd, path):
    j = json.load(open(path))
    d = os.path.join(wd, "replay")
    facts = None
    if j.get("gen"):
        facts = os.path.join(d, "facts"); render.write_facts(j["program"], {}, facts)
    r = dt.run_souffle(j["label"], d, text=j["text"], facts=facts, expect=j["expect"], args=("--no-preprocessor",))
    v = dt.validate([r], wd, "replay_trace", res)[r.label]
    print("replay %s: expect %s; %s; DriverTrace accepted: %s" % (j["label"], j["expect"], dt.describe(r), v))
    if v is False and not known_crash(res, "C13", r.stderr):
        res.violations.append(("replayed: verdict %s but %s" % (j["expect"], dt.describe(r)), path))
    res.sample({"replayed": j["label"], "accepted": v})
    return finish(res, "model_checking")
